"""C04 - a step never executes if a prerequisite failed, it is disabled or stopped first.

Property-level monitor over the `c04` stream of the harness (cmd_c04.go): whole-engine runs whose cases carry, next to the
plugin-side log, `elog` - every call and notification that crossed the step.Provider interface, numbered by the SAME
sequence counter as the plugin-side log.  The oracle reads the workflow the way its author wrote it:

  enabled   the value of `enabled` under the bool schema's reading (false / "no" / 0 / off ... all mean false): plugin code
            runs only if that reading is true (or there is no `enabled` key); a step whose reading is false and that was
            neither stopped nor closed reports disabled.output.  (Since /repo d308cbb the providers read the value through
            the bool schema themselves, so a literal that reads true runs the step; a step that reports disabled although
            its value reads true is recorded as the candidate observation `enabled-reads-true-but-step-disabled` - it does
            not contradict C04, which only restricts execution.)
  stop      a stop condition fired before the step started => the step never starts.  "Before" is decided on sequence
            numbers (the provider had RETURNED from processing the firing stop input before the step ANNOUNCED its starting
            stage); pairs closer than MARGIN_SEQ_US are counted as undecided, never as violations (on the unchanged engine the
            only way to get such a pair is the microsecond window of design finding F16).  Independently of what the engine
            delivered: the plugin-side log shows the stop condition's sources finished >= MARGIN_TRUTH_MS before the step
            announced its starting stage
  prereq    every value the input / wait_for / enabled of an executed step refers to was really produced: outputs.X by an
            execution of the producer that ended in X, disabled.output only by a producer whose plugin code never ran,
            deploy_failed.error only by a failed deployment, crashed.error only by a crash, closed.result only by a producer
            that reported closed; and a step reports outputs.X only if its plugin code ran and ended in X

The module also carries the registry entry of C04 (obligations, pins, streams).
"""
import monitors as M

BOOL_STRINGS = {"1": True, "yes": True, "y": True, "on": True, "true": True, "enable": True, "enabled": True,
                "0": False, "no": False, "n": False, "off": False, "false": False, "disable": False, "disabled": False}

MARGIN_SEQ_US = 200_000      # sequence-ordered pairs closer than this are "undecided"
MARGIN_TRUTH_MS = 350        # plugin-side evidence (no engine-side ordering): wider margin

UNPRODUCED = object()


def as_bool(v):
    """the pluginsdk bool schema's reading of a serialized value; None = the schema rejects it"""
    if isinstance(v, bool):
        return v
    if isinstance(v, int):
        return True if v == 1 else False if v == 0 else None
    if isinstance(v, str):
        return BOOL_STRINGS.get(v.lower())
    return None


def stop_fires(v):
    """a stop condition fires when it has a value and that value does not read false (the documented idiom is an
    expression that becomes resolvable, e.g. `$.steps.x.outputs`: any object fires)"""
    if v is None or v is UNPRODUCED:
        return False
    return as_bool(v) is not False


def gate_value(inval, data):
    try:
        return M.resolve(inval, data)
    except M.EvalError:
        return UNPRODUCED


def hist(chk, key, n=1):
    chk.hist[key] = chk.hist.get(key, 0) + n


def candidate(chk, fp, what, case, step):
    hist(chk, "c04:candidate:" + fp)
    lst = chk.extra.setdefault("candidate_findings", [])
    if not any(c["fingerprint"] == fp for c in lst):
        lst.append({"fingerprint": fp, "what": what, "step": step, "workflow_yaml": case.get("yaml"), "input": case.get("input"),
                    "behaviours": case.get("behaviours"), "result": case.get("result"), "case_id": case.get("id")})


class View:
    """indices over the two logs of one case"""

    def __init__(self, case):
        self.case = case
        self.steps = {s["id"]: s for s in case["wf"]["steps"]}
        self.log = case.get("log") or []
        self.elog = case.get("elog") or []
        self.by_step = {}
        for e in self.elog:
            self.by_step.setdefault(e["step"], []).append(e)
        self.ret = {e["call"]: e for e in self.elog if e["ev"].endswith("-ret") and e.get("call")}

    def plog(self, sid, ev, out=None):
        """plugin-side log entries of a step (a loop step: of the plugin its sub-workflow runs)"""
        src = (self.steps.get(sid) or {}).get("src") or sid
        return [e for e in self.log if e["ev"] == ev and e["src"] == src and (out is None or e.get("out") == out)]

    def first(self, sid, pred):
        for e in self.by_step.get(sid, []):
            if pred(e):
                return e
        return None

    def notify(self, sid, k, stage=None, prev=None):
        return self.first(sid, lambda e: e["ev"] == "notify" and e.get("k") == k and (stage is None or e.get("stage") == stage)
                          and (prev is None or e.get("prev") == prev))

    def provides(self, sid, stage):
        return [e for e in self.by_step.get(sid, []) if e["ev"] == "provide" and e.get("stage") == stage]

    def completion(self, sid):
        return self.notify(sid, "complete")

    def closes(self, sid):
        return [e for e in self.by_step.get(sid, []) if e["ev"] in ("close", "forceclose")]

    def firing_stops(self, sid):
        """(entry, return) pairs of delivered stop inputs whose value fires"""
        out = []
        for e in self.provides(sid, "cancelled"):
            d = M.dec(e.get("data")) or {}
            if stop_fires(d.get("stop_if")):
                r = self.ret.get(e["seq"])
                if r is not None and not r.get("err"):
                    out.append((e, r))
        return out


def mon_c04_gates(case, verdict, chk):
    try:
        _mon_c04_gates(case, verdict, chk)
    except M.Unsupported:
        hist(chk, "monitor-skipped:unsupported-expression")


def viol(chk, fp, what, case, sid, observed):
    chk.violation(fp, what, {"kind": "impl-counterexample", "case": M.slim(case), "step": sid, "observed": observed,
                             "workflow_yaml": case.get("yaml"), "input": case.get("input"), "behaviours": case.get("behaviours")})


def _mon_c04_gates(case, verdict, chk):
    if "elog" not in case:
        return
    v = View(case)
    klass = case.get("klass", "?")
    hist(chk, "c04:class:" + klass)
    if "panic" in case or not case.get("result", {}).get("returned"):
        hist(chk, "c04:run-did-not-return-or-panicked")
    for sid, s in v.steps.items():
        fields = s.get("fields", {})
        starts = v.plog(sid, "exec-start")
        executed = bool(starts)
        x = starts[0] if executed else None
        if len(starts) > 1 and s.get("kind") != "foreach":
            viol(chk, "C04:executed-twice", "the plugin code of step %s ran %d times" % (sid, len(starts)), case, sid, {})
        comp = v.completion(sid)

        # ---- enabled ---------------------------------------------------------------------------------------------------
        en = fields.get("enabled")
        reading = True
        written = None
        if en is not None:
            at = x["seq"] if executed else None
            written = gate_value(en, M.produced_at(case, at))
            reading = None if written is UNPRODUCED else as_bool(written)
            kind = "lit" if en.get("k") == "lit" else "expr"
            hist(chk, "c04:enabled:%s-%s:%s" % (kind, {True: "true", False: "false", None: "unreadable-or-unproduced"}[reading],
                                                "executed" if executed else (comp or {}).get("prev", "no-completion")))
            if executed and reading is not True:
                viol(chk, "C04:ran-although-not-enabled",
                     "step %s executed its plugin code although its `enabled` value %r %s" %
                     (sid, None if written is UNPRODUCED else written,
                      "was never produced" if written is UNPRODUCED else "reads %s under the bool schema" % reading),
                     case, sid, {"enabled_written": None if written is UNPRODUCED else written, "schema_reading": reading,
                                 "exec_start_seq": x["seq"]})
            if reading is False and comp is not None:
                delivered = [e for e in v.provides(sid, "enabling") if e["seq"] < comp["seq"] and not (v.ret.get(e["seq"]) or {}).get("err")]
                disturbed = [e for e in v.closes(sid) if e["seq"] < comp["seq"]] or \
                            [p for p, _ in v.firing_stops(sid) if p["seq"] < comp["seq"]] or v.plog(sid, "deploy-fail")
                if delivered and not disturbed and not (comp.get("prev") == "disabled" and comp.get("out") == "output"):
                    # a stop input whose value reads FALSE was delivered before the completion: on the unchanged engine such a
                    # value stops the step (provideCancelledInput: `!= false` on the raw string); own fingerprint
                    quiet = [p for p in v.provides(sid, "cancelled") if p["seq"] < comp["seq"] and
                             as_bool((M.dec(p.get("data")) or {}).get("stop_if")) is False]
                    if quiet:
                        # `stop_if` is declared with the `any` schema and documented as "a non-false value cancels the step"; the
                        # engine's YAML layer hands every literal scalar over as text, and the TEXT "false" / "off" is a non-false
                        # value: the step was stopped first (closed.result), which C04 allows.  Not a violation of C04; recorded as
                        # an observation about the declarative meaning of literal stop conditions.
                        candidate(chk, "stop-if-literal-text-stops-the-step",
                                  "step %s: literal `stop_if: %r` is text, hence a non-false value: the step is stopped (closed.result) "
                                  "before its `enabled: %r` can disable it" % (sid, (M.dec(quiet[0].get("data")) or {}).get("stop_if"), written),
                                  case, sid)
                    else:
                        viol(chk, "C04:disabled-step-did-not-report-disabled",
                             "step %s is disabled (`enabled` = %r) and was neither stopped nor closed, but it reported %s.%s instead of disabled.output"
                             % (sid, written, comp.get("prev"), comp.get("out")), case, sid, {"completion": comp})
            if reading is True and comp is not None and comp.get("prev") == "disabled":
                # not a C04 clause (C04 restricts execution); recorded as a candidate finding of the declarative meaning (C03)
                candidate(chk, "enabled-reads-true-but-step-disabled:" + kind,
                          "`enabled: %r` reads true under the bool schema, yet the step reports disabled.output and its plugin code never runs"
                          % (written,), case, sid)

        # ---- stop ------------------------------------------------------------------------------------------------------------
        si = fields.get("stop_if")
        if si is not None:
            c = v.notify(sid, "change", stage="starting")
            stops = v.firing_stops(sid)
            order = classify_order(v, sid, stops, x, comp)
            hist(chk, "c04:order[%s]:%s:%s" % (klass, order, "executed" if executed else "not-executed"))
            if stops and c is not None:
                p, r = min(stops, key=lambda pr: pr[1]["seq"])
                if r["seq"] < c["seq"]:
                    gap = c["at_us"] - r["at_us"]
                    if gap >= MARGIN_SEQ_US:
                        hist(chk, "c04:stop-before-start:decided")
                        obs = {"stop_processed_seq": r["seq"], "stop_processed_at_us": r["at_us"], "starting_announced_seq": c["seq"],
                               "starting_announced_at_us": c["at_us"], "gap_us": gap, "stop_value": M.dec(p.get("data")),
                               "exec_start_seq": x["seq"] if executed else None, "order": order}
                        if executed:
                            viol(chk, "C04:executed-after-stop",
                                 "step %s executed its plugin code although its stop condition had been processed %d ms before it entered "
                                 "its starting stage (%s)" % (sid, gap // 1000, order), case, sid, obs)
                        else:
                            viol(chk, "C04:started-after-stop",
                                 "step %s entered its starting stage %d ms after its stop condition had been processed (%s); its plugin "
                                 "code did not run this time" % (sid, gap // 1000, order), case, sid, obs)
                    else:
                        bucket = "<1ms" if gap < 1000 else "<10ms" if gap < 10000 else "<50ms" if gap < 50000 else "<%dms" % (MARGIN_SEQ_US // 1000)
                        hist(chk, "c04:stop-before-start:undecided-too-close:gap%s:%s" % (bucket, "executed" if executed else "not-executed"))
                        chk.extra["c04_max_undecided_gap_us"] = max(chk.extra.get("c04_max_undecided_gap_us", 0), gap)
            # plugin-side evidence only: the condition's sources finished long before the step announced its start
            if c is not None:
                fired = truth_fired_at(case, si)
                if fired is not None and c["at_us"] // 1000 - fired["at_ms"] >= MARGIN_TRUTH_MS and fired["seq"] < c["seq"]:
                    obs = {"stop_condition_true_since_ms": fired["at_ms"], "stop_condition_true_since_seq": fired["seq"],
                           "starting_announced_at_us": c["at_us"], "starting_announced_seq": c["seq"],
                           "exec_start_seq": x["seq"] if executed else None, "stop_delivered": bool(stops)}
                    fp = "C04:executed-after-stop" if executed else "C04:started-after-stop"
                    viol(chk, fp + ("" if stops else ":stop-never-delivered"),
                         "step %s %s although its stop condition was true %d ms earlier (plugin-side log)" %
                         (sid, "executed its plugin code" if executed else "entered its starting stage",
                          c["at_us"] // 1000 - fired["at_ms"]), case, sid, obs)
            if not executed and not stops and comp is not None and comp.get("prev") == "closed":
                wr = gate_value(si, M.produced_at(case))
                if wr is not UNPRODUCED and as_bool(wr) is False and [p for p in v.provides(sid, "cancelled")
                                                                      if (M.dec(p.get("data")) or {}).get("stop_if") is not None]:
                    if not [e for e in v.closes(sid) if e["seq"] < comp["seq"]]:
                        candidate(chk, "stop-if-reads-false-but-step-stopped",
                                  "`stop_if: %r` reads false under the bool schema, yet the step is stopped (closed.result) before it starts" % (wr,),
                                  case, sid)

        # ---- prerequisites of an executed step ---------------------------------------------------------------------------
        if executed:
            for fld in ("input", "wait_for", "enabled"):
                if fld not in fields:
                    continue
                for kind, p, why in missing_prereqs(v, fields[fld], x["seq"], chk):
                    hist(chk, "c04:prereq-violation:" + kind)
                    viol(chk, "C04:started-on-unproduced-prerequisite:" + kind,
                         "step %s executed although %s, which its %s refers to, %s" % (sid, p, fld, why),
                         case, sid, {"field": fld, "reference": p, "exec_start_seq": x["seq"]})

        # ---- what a step reports must have happened --------------------------------------------------------------------
        if comp is not None and comp.get("prev") == "outputs":
            ends = [e for e in v.plog(sid, "exec-end", comp.get("out")) if e["seq"] < comp["seq"]]
            if not ends:
                viol(chk, "C04:reported-output-without-execution",
                     "step %s reported outputs.%s but its plugin code never ended in that output" % (sid, comp.get("out")),
                     case, sid, {"completion": comp})
        if comp is not None and comp.get("prev") == "disabled" and executed:
            viol(chk, "C04:disabled-and-executed", "step %s reported disabled.output and executed its plugin code" % sid, case, sid,
                 {"completion": comp, "exec_start_seq": x["seq"]})


def missing_prereqs(v, inval, before, chk):
    """[(kind, reference text, reason)] for the REQUIRED references of an input value that were not really produced before
    sequence number `before`.  Maps and lists need all their members; optional members need nothing; a one-of group needs
    ONE option all of whose references were produced."""
    k = inval.get("k")
    out = []
    if k == "expr":
        paths = []
        M.collect_paths(inval["e"], paths, False, False)
        for p, _, _ in paths:
            if len(p) < 3 or p[0] != "steps" or p[1] not in v.steps:
                continue
            why = unproduced(v, p, before)
            if why:
                out.append((p[2], ".".join(p), why))
            else:
                hist(chk, "c04:prereq-ok:" + p[2])
    elif k == "list":
        for x in inval["l"]:
            out += missing_prereqs(v, x, before, chk)
    elif k == "map":
        for x in inval["m"].values():
            out += missing_prereqs(v, x, before, chk)
    elif k == "oneof":
        per_option = {oid: missing_prereqs(v, x, before, chk) for oid, x in inval["opts"].items()}
        if per_option and all(per_option.values()):
            first = sorted(per_option)[0]
            out.append(("oneof", "the one-of group {%s}" % ", ".join(sorted(per_option)),
                        "has no option that was produced (e.g. option %s: %s %s)" % (first, per_option[first][0][1], per_option[first][0][2])))
        else:
            hist(chk, "c04:prereq-ok:oneof")
    elif k == "optional":
        hist(chk, "c04:prereq-optional-member")
    return out


def unproduced(v, p, before):
    """None when the stage output p = [steps, P, stage, out?, ...] was really produced before sequence number `before`;
    otherwise the reason (text)"""
    P, stage = p[1], p[2]
    out = p[3] if len(p) > 3 else None
    if stage == "outputs":
        ends = [e for e in v.plog(P, "exec-end") if e["seq"] < before and e.get("out") != "crash"]
        if not ends:
            return "was not produced: the plugin code of %s had not finished with an output" % P
        if out is not None and not [e for e in ends if e.get("out") == out]:
            return "was not produced: %s ended in output %r" % (P, ends[0].get("out"))
        return None
    comp = v.completion(P)
    if stage in ("starting", "running"):
        if v.plog(P, "deploy-fail"):
            return "cannot exist: the deployment of %s failed" % P
        if comp is not None and comp.get("prev") in ("disabled", "deploy_failed") and comp["seq"] < before:
            return "cannot exist: %s reported %s" % (P, comp.get("prev"))
        return None
    if stage == "enabling":
        if v.plog(P, "deploy-fail"):
            return "cannot exist: the deployment of %s failed" % P
        return None
    if stage == "disabled":
        if v.plog(P, "exec-start"):
            return "cannot exist: the plugin code of %s ran" % P
        return None
    if stage == "deploy_failed":
        if not [e for e in v.plog(P, "deploy-fail") if e["seq"] < before]:
            return "cannot exist: no deployment of %s had failed" % P
        return None
    if stage == "crashed":
        if not [e for e in v.plog(P, "exec-end", "crash") if e["seq"] < before]:
            return "cannot exist: %s had not crashed" % P
        return None
    if stage == "closed":
        if comp is None or comp.get("prev") != "closed" or comp["seq"] > before:
            return "cannot exist: %s had not reported closed" % P
        return None
    return None


def truth_fired_at(case, si):
    """earliest plugin-side log entry after which the stop condition has a firing value, judged only by what the
    plugins logged ({"seq", "at_ms"}); seq 0 / at 0 when it fires on the workflow input or a literal alone"""
    w = gate_value(si, M.produced_at(case, 0))
    if stop_fires(w):
        return {"seq": 0, "at_ms": 0}
    for e in case.get("log") or []:
        if e["ev"] != "exec-end":
            continue
        if stop_fires(gate_value(si, M.produced_at(case, e["seq"] + 1))):
            return {"seq": e["seq"], "at_ms": e["at_ms"]}
    return None


def classify_order(v, sid, stops, x, comp):
    """where in the life of the step the (first) firing stop input was processed"""
    if not stops:
        return "no-stop-delivered"
    a = min(r["seq"] for _, r in stops)
    d = v.notify(sid, "change", stage="enabling")
    e = (v.provides(sid, "enabling") or [None])[0]
    c = v.notify(sid, "change", stage="starting")
    w = (v.provides(sid, "starting") or [None])[0]
    rn = v.notify(sid, "change", stage="running")
    if comp is not None and comp["seq"] < a:
        return "stop-after-the-step-ended"
    if d is None or a < d["seq"]:
        return "stop-before-deployment-finished"
    if e is None or a < e["seq"]:
        return "stop-while-waiting-for-enabled"
    if c is None:
        return "stop-after-enabled-known(step-never-started)"
    if a < c["seq"]:
        return "stop-between-enabled-and-starting"
    if w is None or a < w["seq"]:
        return "stop-while-waiting-for-input"
    if rn is None or a < rn["seq"]:
        return "stop-while-starting"
    return "stop-while-running"


def c04_sample(case):
    return {"id": case.get("id"), "class": case.get("klass"), "workflow_yaml": case.get("yaml", "")[:1500], "behaviours": case.get("behaviours"),
            "input": case.get("input"), "result": case.get("result"), "log_len": len(case.get("log", [])), "elog_len": len(case.get("elog", []))}


def c04_n(tier):
    return 400 if tier == "thorough" else 75


def S_c04():
    return {"name": "c04-gates",
            "harness": lambda t, s: ["c04", "-n", str(c04_n(t)), "-seed", str(s + 41), "-tier", t],
            "driver": None, "monitor": mon_c04_gates, "nontrivial": lambda c: True, "sample": c04_sample}


# ---- provider-level differential: raw `enabled` / `stop_if` values against Arca.Model.Gate --------------------------------------

def mon_gate(case, verdict, chk):
    """property-level reading of one provider script (independent of the model): the plugin code may run only if the
    accepted enabling input carried nil or a value the bool schema reads as true"""
    if case.get("kind") == "boolread":
        hist(chk, "gate:boolread:%s" % ("rejected" if not case.get("ok") else str(case.get("value")).lower()))
        return
    acts = case.get("case", {}).get("actions", [])
    calls = case.get("calls", [])
    executed = "exec-start" in (case.get("plugin_log") or [])
    accepted = [c for c in calls if c.get("op") == "provide" and c.get("stage") == "enabling" and c.get("returned") and not c.get("err")]
    hist(chk, "gate:%s" % ("executed" if executed else "not-executed"))
    if executed and accepted:
        v = accepted[0].get("arg")
        if v is not None and as_bool(v) is not True:
            chk.violation("C04:ran-although-not-enabled:provider",
                          "the plugin provider executed the plugin although the enabling input carried %r (reads %s under the bool schema)"
                          % (v, as_bool(v)), {"kind": "impl-counterexample", "case": M.slim(case), "script": acts})
    for c in accepted[:1]:
        hist(chk, "gate:enabled-arg:%s" % type(c.get("arg")).__name__)


def S_gate():
    return {"name": "gate", "harness": lambda t, s: ["gate", "-n", "160" if t == "thorough" else "36", "-seed", str(s + 43)],
            "driver": lambda f: ["gate"], "monitor": mon_gate,
            "nontrivial": lambda c: any(a.get("op") in ("enabling", "cancelled") and not isinstance(a.get("arg"), bool) and a.get("arg") is not None
                                        for a in c.get("case", {}).get("actions", [])),
            "sample": lambda c: {"id": c.get("id"), "script": c.get("case", {}).get("actions"), "plugin_log": c.get("plugin_log"),
                                 "trace": [(n.get("k"), n.get("prev"), n.get("out"), n.get("stage")) for n in c.get("trace", [])][:12]}}


# ---- registry ---------------------------------------------------------------------------------------------------------------------

GATE_THEOREMS = [
    "Arca.Props.C04.decisions_recognised", "Arca.Props.C04.foreach_decides_like_plugin",
    "Arca.Props.C04.enabled_iff_nil_or_reads_true", "Arca.Props.C04.foreach_enabled_iff_nil_or_reads_true",
    "Arca.Props.C04.refused_iff_unreadable", "Arca.Props.C04.false_reading_never_enables", "Arca.Props.C04.true_reading_enables",
    "Arca.Props.C04.unreadable_is_refused",
    "Arca.Props.C04.stop_iff_present_and_not_false", "Arca.Props.C04.true_reading_stop_fires", "Arca.Props.C04.stop_input_accepted_once",
    "Arca.Props.C04.old_decision_reads_true_yet_disabled", "Arca.Props.C04.reads_false_yet_stopped_counterexample",
    "Arca.Props.C04.executes_only_if_enabled", "Arca.Props.C04.false_reading_never_executes", "Arca.Props.C04.disabled_reports_disabled",
    "Arca.Props.C04.stop_before_start_partial", "Arca.Props.C04.stop_before_start_partial_any",
    "Arca.Props.C04.stop_before_start_counterexample",
]

# the Go functions Arca.Model.Gate mirrors statement by statement (besides the two extracted decisions)
GATE_PINS = [
    "step_plugin_provider_runningStep_provideEnablingInput", "step_plugin_provider_runningStep_provideCancelledInput",
    "step_plugin_provider_runningStep_provideStartingInput", "step_plugin_provider_runningStep_cancelStep",
    "step_plugin_provider_runningStep_startPlugin", "step_plugin_provider_runningStep_postDeployment",
    "step_plugin_provider_runningStep_enableStage", "step_plugin_provider_runningStep_startStage",
    "step_foreach_provider_runningStep_provideEnablingInput",
]


def extend(spec):
    """C04's registry entry: the run-loop part defined in props.py plus the gate part of this module"""
    out = dict(spec)
    out["theorems"] = list(spec.get("theorems", [])) + GATE_THEOREMS
    out["pins"] = list(spec.get("pins", [])) + [p for p in GATE_PINS if p not in spec.get("pins", [])]
    streams = []
    for st in spec.get("streams", []):
        if st.get("name") == "loop":
            # the run-loop differential also sees literal `enabled` values (what the loop hands to the provider is compared)
            st = dict(st, harness=(lambda t, s, h=st["harness"]: h(t, s) + ["-litgates"]))
        streams.append(st)
    out["streams"] = streams + [S_c04(), S_gate()]
    out["rule"] = spec.get("rule", "") + (
        "; c04-gates: whole-engine runs with recording proxies around the real providers, classes spell (literal enabled/stop_if in "
        "every spelling of the bool schema) / order (stop_if + enabled + wait_for + deployment delay, sources at 0/500/1000 ms) / "
        "prereq (failing, disabled, stopped prerequisites; wait_for on every stage output); gate: the real plugin provider driven with "
        "raw non-bool enabled/stop_if values (and repeated stop inputs) against Arca.Model.Gate (non-trivial = a non-bool value was fed), "
        "preceded by the boolread lines: every generated spelling through the real schema.NewBoolSchema().Unserialize against "
        "Arca.Model.boolRead")
    return out
