"""C10 / C16 slice: registry entries (same format as the PROPS entries of props.py) and implementation monitors.

To register: in props.py  `from props_c10 import SPEC_C10, SPEC_C16`  and  `PROPS["C10"] = SPEC_C10; PROPS["C16"] = SPEC_C16`.
"""

PREPARE_PINS = [
    "workflow_executor_executor_Prepare", "workflow_executor_executor_connectStepDependencies",
    "workflow_executor_executor_prepareDependencies", "workflow_executor_executor_prepareExprDependencies",
    "workflow_executor_executor_createGroupNode", "workflow_executor_executor_prepareOptionalExprDependencies",
    "workflow_executor_executor_prepareOneOfExprDependencies", "workflow_executor_executor_buildOutputProperties",
    "workflow_executor_executor_addOutputProperties", "workflow_executor_executor_verifyStageInputs",
]
# The YAML tag functions the model also mirrors (`!ordisabled` -> oneof(enabled, disabled), optional tags); their pins exist
# (Arca.Pins.workflow_yaml__build*) and may be added to "pins" once they are green on the shared tree.
YAML_TAG_PINS = [
    "workflow_yaml__buildExpression", "workflow_yaml__buildOneOfExpressions", "workflow_yaml__buildOptionalExpression",
    "workflow_yaml__buildResultOrDisabledExpression", "workflow_yaml__yamlBuildExpressions",
]

# corruption classes after which acceptance violates C10 (kept in step with `mustReject` of cmd_prepare.go; the harness
# also writes the flag into every case as "must_reject")
MUST_REJECT = {"backedge", "selfloop", "rename-step", "bad-stage", "nooutput-stage", "bad-output", "bad-input-field",
               "bad-field", "lit-type", "missing-plugin", "missing-input", "short-ref", "root-ref", "self-stage-ref",
               "unknown-root", "expr-type", "backedge-hidden"}


def slim_prepare(case):
    return {k: v for k, v in case.items() if k not in ("dag", "output_schemas", "namespaces", "panic_text", "c16_observed",
                                                       "seq_shared", "seq_fresh")}


def count_shapes(case, chk):
    """input distribution of the evidence: which shapes / sequence positions the run contained"""
    for sh in case.get("shapes") or []:
        chk.hist["shape:" + sh] = chk.hist.get("shape:" + sh, 0) + 1
    if case.get("seq"):
        k = "seq:position-%s" % case["seq"].get("index")
        chk.hist[k] = chk.hist.get(k, 0) + 1
        if case.get("seq_fresh_stable") is False:
            chk.hist["seq:fresh-executors-disagree"] = chk.hist.get("seq:fresh-executors-disagree", 0) + 1
    for lt in case.get("loop_types") or []:
        chk.hist["loop-typed:" + str(lt.get("file"))] = chk.hist.get("loop-typed:" + str(lt.get("file")), 0) + 1


def dag_diff_class(detail):
    """Name of a model/implementation difference reported by `arcadrv prepare` (its `detail` object)."""
    what = (detail or {}).get("what", "?")
    if what == "edges":
        missing, extra = detail.get("model_only") or [], detail.get("impl_only") or []
        ends = lambda e: e.rsplit(" [", 1)[0]
        if {ends(e) for e in missing} & {ends(e) for e in extra}:
            return "edge-kind"
        if missing and not extra:
            return "missing-edge"
        if extra and not missing:
            return "extra-edge"
        return "edges"
    if what == "verdict":
        return "verdict:%s-vs-%s" % (str(detail.get("impl", "?")).split(":")[0], str(detail.get("model", "?")).split(":")[0])
    return str(what).replace(" ", "-")


def mon_c10_prepare(case, verdict, chk):
    """C10 on one prepared workflow.
    (1) corrupted workflows must be rejected (never accepted, never a crash).  `C10:panic` is a regression detector: the
        model has no panic outcome (Arca.Props.C10.prepare_never_panics); the one panic found by this slice (`!expr "$"`, index
        out of range in prepareExprDependencies) was fixed in /repo 1ef90ac.
    (2) the graph of an accepted workflow is the graph its text implies: a `diff` verdict of `arcadrv prepare` (Lean model of
        Prepare run on the generator's abstract form of the same text) comes with a concrete input - the workflow text, the
        real DAG and the edges / nodes the two sides disagree on.
    (3) every loop step is typed by ITS OWN sub-workflow: the element type of `outputs.success.data` in the output schema has
        the fields of the success output of the sub-workflow file the step names.
    (4) Prepare is a function of the workflow text and its context: the result on an executor that prepared other workflows
        before equals the result on a fresh executor."""
    v = case.get("verdict")
    cor = case.get("corruption", "none")
    count_shapes(case, chk)
    if v == "panic":
        chk.violation("C10:panic", "Prepare panicked instead of rejecting the workflow (%s): %s" % (cor, case.get("err", "")[:200]),
                      {"kind": "impl-counterexample", "case": slim_prepare(case), "panic_text": case.get("panic_text", "")[:3000]})
    elif v == "accepted" and (case.get("must_reject") or cor in MUST_REJECT):
        chk.violation("C10:accepted-corrupted:" + cor,
                      "a workflow with a single-point corruption of class '%s' (%s) was accepted%s" % (
                          cor, case.get("corruption_detail"),
                          " by an executor that had prepared %d other workflow(s) before" % case["seq"]["index"] if case.get("seq") else ""),
                      {"kind": "impl-counterexample", "case": slim_prepare(case),
                       "expected": "rejected before anything runs (C10: cyclic, dangling or ill-typed workflows are rejected)",
                       "observed": "accepted", "model_verdict": verdict})
    elif v == "rejected" and cor == "none":
        # not a violation: the generator may produce a type-incompatible workflow; counted and reported in the evidence
        chk.hist["c10:uncorrupted-rejected:" + case.get("err_class", "?")] = \
            chk.hist.get("c10:uncorrupted-rejected:" + case.get("err_class", "?"), 0) + 1
        if len(chk.notes) < 6:
            chk.notes.append("uncorrupted workflow rejected (%s): %s" % (case.get("err_class"), case.get("err", "")[:160]))
    elif v == "rejected" and cor in ("backedge", "selfloop", "backedge-hidden") and case.get("err_class") not in ("cycle", "type", "schema"):
        chk.violation("C10:cycle-misreported:" + str(case.get("err_class")),
                      "a cyclic workflow was rejected for another reason than the cycle or a type error",
                      {"kind": "impl-counterexample", "case": slim_prepare(case)})
    # (2) the DAG differential
    if (verdict or {}).get("verdict") == "diff" and v != "panic":
        d = verdict.get("detail") or {}
        cls = dag_diff_class(d)
        if d.get("what") in ("nodes", "edges", "item", "item count"):
            fp = "C10:dag-differs-from-text:" + cls
            what = ("the dependency graph of an accepted workflow is not the one its text implies (%s): in the graph the text implies "
                    "but not in the real DAG: %s; in the real DAG only: %s" % (cls, d.get("model_only", d.get("model")), d.get("impl_only", d.get("impl"))))
        else:
            fp = "C10:verdict-differs-from-text:" + cls
            what = "Prepare and the model of Prepare disagree on the verdict for this text: implementation %s, model %s" % (d.get("impl"), d.get("model"))
        chk.violation(fp, what[:900],
                      {"kind": "impl-counterexample", "case": slim_prepare(case), "real_dag": case.get("dag"),
                       "expected": {"from": "Arca.Model.prepare on the abstract form of the same text (case.wf)",
                                    "only_in_graph_the_text_implies": d.get("model_only", d.get("model")),
                                    "shapes": case.get("shapes")},
                       "observed": {"only_in_real_dag": d.get("impl_only", d.get("impl")), "verdict": v, "err": case.get("err")},
                       "model_verdict": verdict})
    # (3) loop steps typed by their own sub-workflow
    for lt in case.get("loop_types") or []:
        if lt.get("got_fields") != lt.get("expect_fields"):
            chk.violation("C10:loop-typed-by-foreign-subworkflow",
                          "output %s.%s carries the data of loop step %s (sub-workflow %s, success output fields %s) but its element type "
                          "in the output schema has the fields %s" % (lt.get("output"), lt.get("key"), lt.get("step"), lt.get("file"),
                                                                      lt.get("expect_fields"), lt.get("got_fields")),
                          {"kind": "impl-counterexample", "case": slim_prepare(case), "loop": lt,
                           "expected": {"element_fields": lt.get("expect_fields"), "from": "the success output of " + str(lt.get("file"))},
                           "observed": {"element_fields": lt.get("got_fields"),
                                        "output_schema": ((case.get("output_schemas") or {}).get(lt.get("output")) or {})}})
            break
    # (4) executor history
    if case.get("seq_diff"):
        sq = case.get("seq") or {}
        chk.violation("C10:prepare-depends-on-executor-history:" + case["seq_diff"],
                      "workflow %d of a sequence of %d prepared on ONE executor differs (%s) from the same text prepared on a fresh "
                      "executor: shared %s %s, fresh %s %s" % (sq.get("index", -1) + 1, sq.get("n", 0), case["seq_diff"],
                                                              (case.get("seq_shared") or {}).get("verdict"), (case.get("seq_shared") or {}).get("err_class"),
                                                              (case.get("seq_fresh") or {}).get("verdict"), (case.get("seq_fresh") or {}).get("err_class")),
                      {"kind": "impl-counterexample", "case": slim_prepare(case), "sequence_texts_in_order": case.get("seq_texts"),
                       "differing_index": sq.get("index"), "on_shared_executor": case.get("seq_shared"),
                       "on_fresh_executor": case.get("seq_fresh"),
                       "expected": "equal verdict, DAG, output schemas and namespaces (Prepare is a function of the workflow text and its context)"})
    elif case.get("seq_class_differs"):
        chk.hist["c10:seq-error-class-varies"] = chk.hist.get("c10:seq-error-class-varies", 0) + 1


def mon_c16_prepare(case, verdict, chk):
    """C16: repeated / permuted / renamed preparations must agree (verdict, DAG, output schemas, namespaces)."""
    count_shapes(case, chk)
    if case.get("verdict") == "panic":
        return  # reported by C10
    if case.get("c16_equal") is False:
        what = ",".join(sorted({d.split(":", 1)[1] + "@" + d.split(":", 1)[0].rstrip("0123456789")
                                for d in case.get("c16_diff", "").split(",") if ":" in d}))
        obs = case.get("c16_observed") or {}
        rep = {"kind": "impl-counterexample", "case": slim_prepare(case),
               "expected": "the same verdict and, up to generated identifiers, the same dependency graph, output schemas and namespaces",
               "observed": obs}
        if case.get("seq"):
            # the first preparation ran on an executor that had prepared the earlier workflows of the sequence
            rep["sequence_texts_in_order"] = case.get("seq_texts")
            rep["differing_index"] = case["seq"].get("index")
        chk.violation("C16:differs:" + what, "preparations of the same workflow text disagree (%s): first %s, %s %s" % (
            case.get("c16_diff", ""), (obs.get("first") or {}).get("verdict"), obs.get("variant"), (obs.get("other") or {}).get("verdict")), rep)
    classes = [c for c in case.get("err_classes_seen", []) if c]
    if len(classes) > 1:
        chk.hist["c16:error-class-varies"] = chk.hist.get("c16:error-class-varies", 0) + 1


def prepare_n(tier):
    return 3000 if tier == "thorough" else 300


def prepare_tags(case):
    tags = ["corruption:%s:%s:%s" % (case.get("corruption"), case.get("verdict"), case.get("err_class") or "-")]
    for t in (case.get("tags") or {}):
        tags.append("tag:" + t)
    if case.get("has_foreach"):
        tags.append("foreach")
    if "n_nodes" in case:
        n = case["n_nodes"]
        tags.append("nodes:%s" % ("<40" if n < 40 else "<80" if n < 80 else ">=80"))
    for v in case.get("c16_variants", []):
        tags.append("c16:" + v.split(":")[0].rstrip("0123456789"))
    for sh in case.get("shapes") or []:
        tags.append("shape:" + sh)
    if case.get("seq"):
        tags.append("seq:len%s:pos%s" % (case["seq"].get("n"), case["seq"].get("index")))
    return tags


def prepare_sample(case):
    return {"id": case.get("id"), "workflow_yaml": case.get("yaml", "")[:1500], "corruption": case.get("corruption"),
            "corruption_detail": case.get("corruption_detail"), "verdict": case.get("verdict"),
            "err_class": case.get("err_class"), "n_nodes": case.get("n_nodes"), "n_edges": case.get("n_edges"),
            "c16_variants": case.get("c16_variants"), "c16_equal": case.get("c16_equal")}


def S_prepare(monitor, seed_off=0):
    return {"name": "prepare",
            "harness": lambda t, s: ["prepare", "-n", str(prepare_n(t)), "-seed", str(s + seed_off), "-tier", t],
            "driver": lambda f: ["prepare"], "monitor": monitor,
            "nontrivial": lambda c: c.get("corruption") != "none" or bool(c.get("tags")) or c.get("n_steps", 0) > 1,
            "sample": prepare_sample, "tags": prepare_tags}


PREPARE_RULE = ("generated workflows (plugin steps over the scripted plugin, 0-3 foreach steps over different and equal sub-workflow "
                "files with different item and output shapes; !oneof / !ordisabled / !wait-optional / !soft-optional, enabled, "
                "stop_if, wait_for, nested lists and maps; expressions with several references (binary operators, function "
                "arguments) next to another reference of the same node to the same producer; wait-optional + soft-optional + "
                "plain reference to one source in one object; optional expressions with several sources; a typed workflow input "
                "fed into the typed plugin fields) and single-point corruptions (back-edge, back-edge hidden in a later reference "
                "of a multi-reference expression, self-loop, renamed step, unknown stage / stage without outputs / unknown output "
                "/ unknown output field / unknown input field, literal of the wrong type, expression of the wrong type, missing "
                "plugin / step / input, `$`, `$.steps.S`, self stage reference, group-node collision); the first ~50 cases of "
                "every run are one targeted case per shape; sequences of 2-4 different workflows over the same names (same step "
                "ids, same input field with different types) prepared on ONE executor, each compared with fresh executors; "
                "distinct = distinct workflow text; non-trivial = corrupted, or uses a tag, or has more than one step")

SPEC_C10 = {
    "module": "Arca.Props.C10",
    "theorems": [
        "Arca.Props.C10.prepare_edges_sound_complete",
        "Arca.Props.C10.prepare_edges_sound",
        "Arca.Props.C10.prepare_edges_complete",
        "Arca.Props.C10.prepare_nodes_exact",
        "Arca.Props.C10.prepare_acyclic",
        "Arca.Props.C10.prepare_refs_exist",
        "Arca.Props.C10.prepare_inv",
        "Arca.Props.C10.prepare_rejects_dangling",
        "Arca.Props.C10.prepare_rejects_cycle",
        "Arca.Props.C10.prepare_rejects_root_ref",
        "Arca.Props.C10.prepare_never_panics",
        "Arca.Props.C10.prepare_every_ref_connected",
        "Arca.Props.C10.prepare_duplicate_ref_does_not_stop",
        "Arca.Props.C10.prepare_optional_edges",
        "Arca.Props.C10.prepare_tagged_fields_distinct_groups",
        "Arca.Props.C10.prepare_wait_and_soft_on_same_source",
    ],
    "pins": PREPARE_PINS,
    "streams": [S_prepare(mon_c10_prepare)],
    "rule": PREPARE_RULE,
}

def mon_c16_fixed(case, verdict, chk):
    """hand-written shapes outside the generator's language (namespaced references in the input scope of a sub-workflow, ...):
    N preparations on fresh executors agree in verdict, dependency graph, output schemas and namespaces; none panics."""
    if case.get("kind") != "prepare-fixed":
        return
    chk.hist["fixed:" + str(case.get("verdict"))] = chk.hist.get("fixed:" + str(case.get("verdict")), 0) + 1
    replay = {"kind": "impl-counterexample", "case": {k: case.get(k) for k in ("id", "scenario", "yaml", "files", "runs", "differs", "err")},
              "replay_harness": ["prepare-fixed", "-n", str(len(case.get("runs") or []))]}
    if case.get("verdict") == "panic" or any(r.get("verdict") == "panic" for r in case.get("runs") or []):
        chk.violation("C16:fixed:panic", "preparing the scenario %r panicked: %s" % (case.get("scenario"), str(case.get("panic_text") or case.get("err"))[:300]), replay)
        return
    verdicts = sorted({(r.get("verdict"), r.get("err_class")) for r in case.get("runs") or []})
    if len(verdicts) > 1 or case.get("differs"):
        chk.violation("C16:fixed:differs", "%d preparations of the same text (%s) do not agree: verdicts %s%s"
                      % (len(case.get("runs") or []), case.get("scenario"), verdicts, ("; " + case["differs"]) if case.get("differs") else ""), replay)


SPEC_C16 = {
    "module": "Arca.Props.C16",
    "theorems": [
        "Arca.Props.C16.prepare_step_perm",
        "Arca.Props.C16.prepare_step_perm_ops",
        "Arca.Props.C16.prepare_step_perm_fail",
        "Arca.Props.C16.prepare_step_perm_verdict",
        "Arca.Props.C16.prepare_step_perm_cycle",
        "Arca.Props.C16.prepare_rename_ops",
        "Arca.Props.C16.prepare_rename",
        "Arca.Props.C16.prepare_rename_fail_partial",
        "Arca.Props.C16.object_key_order_ops",
        "Arca.Props.C16.oneof_option_order_ops",
        "Arca.Props.C16.prepare_ops_perm_same_graph",
        "Arca.Props.C16.output_key_order_ops",
        "Arca.Props.C16.prepare_output_key_order",
    ],
    "pins": PREPARE_PINS,
    "streams": [S_prepare(mon_c16_prepare, seed_off=500),
                {"name": "prepare-fixed", "harness": lambda t, s: ["prepare-fixed", "-n", "40" if t == "thorough" else "12"],
                 "driver": None, "monitor": mon_c16_fixed, "nontrivial": lambda c: True,
                 "sample": lambda c: {k: c.get(k) for k in ("id", "scenario", "verdict", "differs")}}],
    "rule": PREPARE_RULE + "; every text is prepared 4 times, accepted uncorrupted workflows also as 2 permuted renderings "
            "(steps, map keys, outputs) and 1 consistently renamed copy",
}
