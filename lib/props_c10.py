"""C10 / C16 slice: registry entries (same format as the PROPS entries of props.py) and implementation monitors.

To register: in props.py  `from props_c10 import SPEC_C10, SPEC_C16`  and  `PROPS["C10"] = SPEC_C10; PROPS["C16"] = SPEC_C16`.
"""

PREPARE_PINS = [
    "workflow_executor_executor_Prepare", "workflow_executor_executor_connectStepDependencies",
    "workflow_executor_executor_prepareDependencies", "workflow_executor_executor_prepareExprDependencies",
    "workflow_executor_executor_createGroupNode", "workflow_executor_executor_prepareOptionalExprDependencies",
    "workflow_executor_executor_prepareOneOfExprDependencies", "workflow_executor_executor_buildOutputProperties",
    "workflow_executor_executor_addOutputProperties", "workflow_executor_executor_verifyStageInputs",
]
# The YAML tag functions the model also mirrors (`!ordisabled` -> oneof(enabled, disabled), optional tags); their pins exist
# (Arca.Pins.workflow_yaml__build*) and may be added to "pins" once they are green on the shared tree.
YAML_TAG_PINS = [
    "workflow_yaml__buildExpression", "workflow_yaml__buildOneOfExpressions", "workflow_yaml__buildOptionalExpression",
    "workflow_yaml__buildResultOrDisabledExpression", "workflow_yaml__yamlBuildExpressions",
]

# corruption classes after which acceptance violates C10 (kept in step with `mustReject` of cmd_prepare.go; the harness
# also writes the flag into every case as "must_reject")
MUST_REJECT = {"backedge", "selfloop", "rename-step", "bad-stage", "nooutput-stage", "bad-output", "bad-input-field",
               "bad-field", "lit-type", "missing-plugin", "missing-input", "short-ref", "root-ref", "self-stage-ref",
               "unknown-root"}


def slim_prepare(case):
    return {k: v for k, v in case.items() if k not in ("dag", "output_schemas", "namespaces", "panic_text")}


def mon_c10_prepare(case, verdict, chk):
    """C10 on one prepared workflow: corrupted workflows must be rejected (never accepted, never a crash).
    `C10:panic` is a regression detector: the model has no panic outcome (Arca.Props.C10.prepare_never_panics); the one
    panic found by this slice (`!expr "$"`, index out of range in prepareExprDependencies) was fixed in /repo 1ef90ac."""
    v = case.get("verdict")
    cor = case.get("corruption", "none")
    if v == "panic":
        chk.violation("C10:panic", "Prepare panicked instead of rejecting the workflow (%s): %s" % (cor, case.get("err", "")[:200]),
                      {"kind": "impl-counterexample", "case": slim_prepare(case), "panic_text": case.get("panic_text", "")[:3000]})
    elif v == "accepted" and (case.get("must_reject") or cor in MUST_REJECT):
        chk.violation("C10:accepted-corrupted:" + cor,
                      "a workflow with a single-point corruption of class '%s' was accepted" % cor,
                      {"kind": "impl-counterexample", "case": slim_prepare(case)})
    elif v == "rejected" and cor == "none":
        # not a violation: the generator may produce a type-incompatible workflow; counted and reported in the evidence
        chk.hist["c10:uncorrupted-rejected:" + case.get("err_class", "?")] = \
            chk.hist.get("c10:uncorrupted-rejected:" + case.get("err_class", "?"), 0) + 1
        if len(chk.notes) < 6:
            chk.notes.append("uncorrupted workflow rejected (%s): %s" % (case.get("err_class"), case.get("err", "")[:160]))
    elif v == "rejected" and cor in ("backedge", "selfloop") and case.get("err_class") not in ("cycle", "type", "schema"):
        chk.violation("C10:cycle-misreported:" + str(case.get("err_class")),
                      "a cyclic workflow was rejected for another reason than the cycle or a type error",
                      {"kind": "impl-counterexample", "case": slim_prepare(case)})


def mon_c16_prepare(case, verdict, chk):
    """C16: repeated / permuted / renamed preparations must agree (verdict, DAG, output schemas, namespaces)."""
    if case.get("verdict") == "panic":
        return  # reported by C10
    if case.get("c16_equal") is False:
        what = ",".join(sorted({d.split(":", 1)[1] + "@" + d.split(":", 1)[0].rstrip("0123456789")
                                for d in case.get("c16_diff", "").split(",") if ":" in d}))
        chk.violation("C16:differs:" + what, "preparations of the same workflow disagree: " + case.get("c16_diff", ""),
                      {"kind": "impl-counterexample", "case": slim_prepare(case)})
    classes = [c for c in case.get("err_classes_seen", []) if c]
    if len(classes) > 1:
        chk.hist["c16:error-class-varies"] = chk.hist.get("c16:error-class-varies", 0) + 1


def prepare_n(tier):
    return 3000 if tier == "thorough" else 300


def prepare_tags(case):
    tags = ["corruption:%s:%s:%s" % (case.get("corruption"), case.get("verdict"), case.get("err_class") or "-")]
    for t in (case.get("tags") or {}):
        tags.append("tag:" + t)
    if case.get("has_foreach"):
        tags.append("foreach")
    if "n_nodes" in case:
        n = case["n_nodes"]
        tags.append("nodes:%s" % ("<40" if n < 40 else "<80" if n < 80 else ">=80"))
    for v in case.get("c16_variants", []):
        tags.append("c16:" + v.split(":")[0].rstrip("0123456789"))
    return tags


def prepare_sample(case):
    return {"id": case.get("id"), "workflow_yaml": case.get("yaml", "")[:1500], "corruption": case.get("corruption"),
            "corruption_detail": case.get("corruption_detail"), "verdict": case.get("verdict"),
            "err_class": case.get("err_class"), "n_nodes": case.get("n_nodes"), "n_edges": case.get("n_edges"),
            "c16_variants": case.get("c16_variants"), "c16_equal": case.get("c16_equal")}


def S_prepare(monitor, seed_off=0):
    return {"name": "prepare",
            "harness": lambda t, s: ["prepare", "-n", str(prepare_n(t)), "-seed", str(s + seed_off), "-tier", t],
            "driver": lambda f: ["prepare"], "monitor": monitor,
            "nontrivial": lambda c: c.get("corruption") != "none" or bool(c.get("tags")) or c.get("n_steps", 0) > 1,
            "sample": prepare_sample, "tags": prepare_tags}


PREPARE_RULE = ("generated workflows (plugin steps over the scripted plugin, optional foreach step with a sub-workflow file; "
                "!oneof / !ordisabled / !wait-optional / !soft-optional, enabled, stop_if, wait_for, nested lists and maps) and "
                "single-point corruptions (back-edge, self-loop, renamed step, unknown stage / stage without outputs / unknown "
                "output / unknown output field / unknown input field, literal of the wrong type, missing plugin / step / input, "
                "`$`, `$.steps.S`, self stage reference, group-node collision); distinct = distinct workflow text; non-trivial = "
                "corrupted, or uses a tag, or has more than one step")

SPEC_C10 = {
    "module": "Arca.Props.C10",
    "theorems": [
        "Arca.Props.C10.prepare_edges_sound_complete",
        "Arca.Props.C10.prepare_edges_sound",
        "Arca.Props.C10.prepare_edges_complete",
        "Arca.Props.C10.prepare_nodes_exact",
        "Arca.Props.C10.prepare_acyclic",
        "Arca.Props.C10.prepare_refs_exist",
        "Arca.Props.C10.prepare_inv",
        "Arca.Props.C10.prepare_rejects_dangling",
        "Arca.Props.C10.prepare_rejects_cycle",
        "Arca.Props.C10.prepare_rejects_root_ref",
        "Arca.Props.C10.prepare_never_panics",
    ],
    "pins": PREPARE_PINS,
    "streams": [S_prepare(mon_c10_prepare)],
    "rule": PREPARE_RULE,
}

SPEC_C16 = {
    "module": "Arca.Props.C16",
    "theorems": [
        "Arca.Props.C16.prepare_step_perm",
        "Arca.Props.C16.prepare_step_perm_ops",
        "Arca.Props.C16.prepare_step_perm_fail",
        "Arca.Props.C16.prepare_step_perm_verdict",
        "Arca.Props.C16.prepare_step_perm_cycle",
        "Arca.Props.C16.prepare_rename_ops",
        "Arca.Props.C16.prepare_rename",
        "Arca.Props.C16.prepare_rename_fail_partial",
    ],
    "pins": PREPARE_PINS,
    "streams": [S_prepare(mon_c16_prepare, seed_off=500)],
    "rule": PREPARE_RULE + "; every text is prepared 4 times, accepted uncorrupted workflows also as 2 permuted renderings "
            "(steps, map keys, outputs) and 1 consistently renamed copy",
}
