#!/usr/bin/env python3
"""Regenerates the two generated blocks of DESIGN.md (between <!-- BEGIN x --> / <!-- END x --> markers):
   as-built   per property: Lean module, number of theorems and pins, correspondence streams (from lib/props.py)
   seeded     the seeded changes, what each needs, and which checks catch it how (from seeded/*/meta.json)"""
import glob, json, os, re, sys
sys.path.insert(0, os.path.dirname(os.path.abspath(__file__)))
import props
VERIF = os.path.dirname(os.path.dirname(os.path.abspath(__file__)))
P = {json.loads(l)["id"]: json.loads(l) for l in open(os.path.join(VERIF, "properties.jsonl"))}
TEXT = json.load(open(os.path.join(VERIF, "lib", "manifest_text.json")))


def as_built():
    out = ["| prop | Lean module(s) | theorems | pins | correspondence streams (real code vs model / oracle) | main limitation (manifest note, first sentence) |",
           "|---|---|---|---|---|---|"]
    for pid in sorted(P):
        s = props.PROPS.get(pid)
        if not s:
            continue
        ths = s.get("theorems", [])
        mods = sorted({".".join(t.split(".")[:3]) for t in ths} | {s.get("module", "")})
        partial = [t.split(".")[-1] for t in ths if t.endswith("_partial") or "_partial_" in t]
        cex = [t for t in ths if "counterexample" in t or "_window_" in t]
        streams = ", ".join(st["name"] + ("" if st.get("driver") else "*") for st in s.get("streams", []))
        note = (TEXT.get(pid, {}).get("note", "") or "").split(". ")[0]
        out.append("| %s | %s | %d (%d `_partial`, %d counterexample / window theorems) | %d | %s | %s |" % (
            pid, ", ".join("`%s`" % m for m in mods if m), len(ths), len(partial), len(cex), len(s.get("pins", [])), streams, note))
    out.append("")
    out.append("Streams marked * have no model driver: the oracle is a monitor evaluated on what the real code did (plugin-side and engine-side "
               "logs with one sequence counter); the others are differentials against the Lean model through `arcadrv`.")
    return "\n".join(out)


def seeded():
    out = ["| id | property | what it needs to manifest | own check | every check that fires |", "|---|---|---|---|---|"]
    n = {"with failing input": 0, "broken obligation only (no-failing-input-found)": 0, "MISSED": 0}
    for f in sorted(glob.glob(os.path.join(VERIF, "seeded", "*", "meta.json"))):
        m = json.load(open(f))
        own = m.get("caught_by_own_property_check", "?")
        n[own] = n.get(own, 0) + 1
        det = []
        for k, v in sorted(m.get("checks_run_against_the_change", {}).items()):
            if v["exit"]:
                det.append("%s (%s)" % (k, "failing input" if v["violations_with_failing_input"] else "obligation only"))
        out.append("| %s | %s | %s | %s | %s |" % (m["id"], m["property"], m["needs_to_manifest"].replace("|", "/")[:420], own.replace(" (no-failing-input-found)", ""),
                                                 ", ".join(det) or "-"))
    out.append("")
    out.append("Totals: %d seeded changes; caught by the check of their own property with a concrete failing input: %d; by a broken proof "
               "obligation / pin only (`no-failing-input-found`): %d; missed by their own property's check: %d."
               % (sum(n.values()), n.get("with failing input", 0), n.get("broken obligation only (no-failing-input-found)", 0), n.get("MISSED", 0)))
    return "\n".join(out)


def main():
    p = os.path.join(VERIF, "DESIGN.md")
    s = open(p).read()
    for name, fn in (("as-built", as_built), ("seeded", seeded)):
        b, e = "<!-- BEGIN %s -->" % name, "<!-- END %s -->" % name
        if b in s and e in s:
            s = s[:s.index(b) + len(b)] + "\n" + fn() + "\n" + s[s.index(e):]
        else:
            print("marker missing:", name)
    open(p, "w").write(s)


if __name__ == "__main__":
    main()
