"""C19 — invalid input starts nothing; steps see the schema-normalised input.
C14 — a prepared workflow can be run again and concurrently with identical results.

Registry entries in the format of `props.PROPS[...]` (merge with `PROPS["C19"] = props_c19.SPEC_C19`,
`PROPS["C14"] = props_c19.SPEC_C14`) plus the implementation monitors of the `input` and `rerun` streams.
Self-contained: imports nothing from props.py.

The C19 monitor does NOT use the Lean model: it carries its own small reading of the pluginsdk schema rules
(`py_normalise`) and checks the observations of the real run against it and against each other.
"""
import json
import os
import struct
import subprocess

T19 = "Arca.Props.C19."
T14 = "Arca.Props.C14."
VERIF = os.path.dirname(os.path.dirname(os.path.abspath(__file__)))


# ---- tagged values -------------------------------------------------------------------------------------------------------

def is_int(v):
    return isinstance(v, dict) and set(v) == {"i"}


def is_float(v):
    return isinstance(v, dict) and set(v) == {"f"}


def is_map(v):
    return isinstance(v, dict) and set(v) == {"m"}


def mk_int(n):
    return {"i": str(n)}


def float_bits(x):
    return {"f": "%016x" % struct.unpack(">Q", struct.pack(">d", x))[0]}


class Invalid(Exception):
    pass


class Unmodelled(Exception):
    pass


BOOL_WORDS = {"1": True, "yes": True, "y": True, "on": True, "true": True, "enable": True, "enabled": True,
              "0": False, "no": False, "n": False, "off": False, "false": False, "disable": False, "disabled": False}
CLASSES = {"lower": "abcdefghijklmnopqrstuvwxyz", "digit": "0123456789",
           "alnum": "abcdefghijklmnopqrstuvwxyzABCDEFGHIJKLMNOPQRSTUVWXYZ0123456789",
           "word": "abcdefghijklmnopqrstuvwxyzABCDEFGHIJKLMNOPQRSTUVWXYZ0123456789_-"}


def _opt_int(v):
    return int(v["i"]) if is_int(v) else None


def _parse_go_int(s):
    body = s[1:] if s[:1] in "+-" else s
    if not body or any(c not in "0123456789" for c in body):
        raise Invalid("not a decimal integer: %r" % s)
    n = int(body)
    n = -n if s[:1] == "-" else n
    if not (-2 ** 63 <= n < 2 ** 63):
        raise Invalid("out of int64 range")
    return n


def _go_lower(s):
    # unicode.ToLower as far as ASCII results go: A-Z, U+0130 -> i, U+212A -> k
    return "".join("i" if c == "\u0130" else "k" if c == "\u212a" else (c.lower() if ord(c) < 128 else c) for c in s)


def py_normalise(ty, v):
    """The schema-normalised form of tagged value `v` under type `ty` (the JSON the harness emits), or Invalid."""
    t = ty["t"]
    if t == "str":
        if is_int(v):
            s = v["i"]
        elif isinstance(v, str):
            s = v
        else:
            raise Invalid("not a string")
        n = len(s.encode("utf-8"))
        mn, mx = _opt_int(ty.get("min")), _opt_int(ty.get("max"))
        if (mn is not None and n < mn) or (mx is not None and n > mx):
            raise Invalid("length")
        pat = ty.get("pat")
        if pat:
            if pat["k"] == "pre":
                if not s.startswith(pat["p"]):
                    raise Invalid("pattern")
            else:
                if any(c not in CLASSES[pat["cls"]] for c in s) or (pat["ne"] and not s):
                    raise Invalid("pattern")
        return s
    if t == "int":
        if is_int(v):
            n = int(v["i"])
        elif isinstance(v, bool):
            n = 1 if v else 0
        elif isinstance(v, str):
            n = _parse_go_int(v)
        else:
            raise Invalid("not an int")
        mn, mx = _opt_int(ty.get("min")), _opt_int(ty.get("max"))
        if (mn is not None and n < mn) or (mx is not None and n > mx):
            raise Invalid("range")
        return mk_int(n)
    if t == "bool":
        if isinstance(v, bool):
            return v
        if isinstance(v, str):
            w = _go_lower(v)
            if w in BOOL_WORDS:
                return BOOL_WORDS[w]
            raise Invalid("not a bool word")
        if is_int(v) and v["i"] in ("0", "1"):
            return v["i"] == "1"
        raise Invalid("not a bool")
    if t == "float":
        if is_float(v):
            return v
        if isinstance(v, bool):
            return float_bits(1.0 if v else 0.0)
        if is_int(v):
            return float_bits(float(int(v["i"])))
        if isinstance(v, str):
            body = v[1:] if v[:1] in "+-" else v
            if body and all(c in "0123456789." for c in body) and body.count(".") <= 1 and body.strip(".") and body != ".":
                return float_bits(float(v))
            if not v or any(c not in "0123456789+-._eExXpPinfatyINFATYabcdABCD" for c in v):
                raise Invalid("not a float")
            raise Unmodelled("float text")
        raise Invalid("not a float")
    if t == "list":
        if not isinstance(v, list):
            raise Invalid("not a list")
        mn, mx = _opt_int(ty.get("min")), _opt_int(ty.get("max"))
        if (mn is not None and len(v) < mn) or (mx is not None and len(v) > mx):
            raise Invalid("items")
        return [py_normalise(ty["item"], x) for x in v]
    if t == "map":
        if not is_map(v):
            raise Invalid("not a map")
        return {"m": {k: py_normalise(ty["val"], x) for k, x in v["m"].items()}}
    if t == "obj":
        props = ty["props"]
        if not is_map(v):
            if len(props) == 1:
                return {"m": {props[0]["name"]: py_normalise(props[0]["ty"], v)}}
            raise Invalid("not an object")
        given = v["m"]
        names = {p["name"] for p in props}
        for k in given:
            if k not in names:
                raise Invalid("unknown field " + k)
        out = {}
        for p in props:
            if p["name"] in given:
                out[p["name"]] = py_normalise(p["ty"], given[p["name"]])
            elif p.get("has_default"):
                out[p["name"]] = py_normalise(p["ty"], p["default"])
            elif p["req"]:
                raise Invalid("missing " + p["name"])
        return {"m": out}
    raise Invalid("unknown type")


def canon(v):
    """order-insensitive rendering of a tagged value"""
    if is_map(v):
        return ("m", tuple(sorted((k, canon(x)) for k, x in v["m"].items())))
    if isinstance(v, dict) and "g" in v:
        return ("g", v["g"], tuple(sorted((k, canon(x)) for k, x in v.get("m", {}).items())))
    if is_int(v):
        return ("i", v["i"])
    if is_float(v):
        return ("f", v["f"])
    if isinstance(v, list):
        return ("l", tuple(canon(x) for x in v))
    return ("s", repr(v))


def navigate(v, path):
    for k in path:
        if not is_map(v) or k not in v["m"]:
            return None, False
        v = v["m"][k]
    return v, True


def expected_seen(norm, st):
    """the OpInput the scripted plugin must log for step `st`, given the normalised input"""
    fields = {}
    if st.get("whole"):
        obj, ok = navigate(norm, st["whole"])
        if not ok or not is_map(obj):
            return None
        fields = dict(obj["m"])
    else:
        for f, path in (st.get("refs") or {}).items():
            val, ok = navigate(norm, path)
            if not ok:
                return None
            fields[f] = val
    lst = fields.get("l")
    return {"g": "OpInput", "m": {"s": fields.get("s"), "i": fields.get("i"), "b": fields.get("b"),
                                   "l": lst if isinstance(lst, list) else []}}


def _slim_input(case):
    c = {k: v for k, v in case.items() if k not in ("log", "key")}
    return c


def _mon_c19_input_main(case, verdict, chk):
    """C19 on one real run: an invalid document is refused with error class invalidInput and NOTHING was deployed, at
    the time Execute returned and afterwards; a valid document is accepted, the returned `$.input` is the normalised
    document, every plugin received the normalised values, steps referring to the same field received the same value."""
    if case.get("kind") != "input":
        return
    res = case.get("result") or {}
    valid = bool(case.get("expect_valid"))
    cls = "valid" if valid else "invalid:" + (case.get("violation_kind") or "?")
    chk.hist[cls] = chk.hist.get(cls, 0) + 1
    for s in case.get("shape") or []:
        chk.hist["ty:" + s] = chk.hist.get("ty:" + s, 0) + 1
    for s in case.get("spelling") or []:
        chk.hist["doc:" + s] = chk.hist.get("doc:" + s, 0) + 1
    if case.get("replay_harness"):
        rh = list(case["replay_harness"])
    else:
        idx = case.get("id", "x-0-0").split("-")[-1]
        rh = ["input", "-n", str(int(idx) + 1), "-skip", idx, "-seed", str(chk.seed)]
    replay = {"kind": "impl-counterexample", "case": _slim_input(case), "replay_harness": rh}
    where = ""
    if case.get("in_sequence"):
        seq = case["in_sequence"]
        chk.hist["sequence-run:" + cls.split(":")[0]] = chk.hist.get("sequence-run:" + cls.split(":")[0], 0) + 1
        where = " [run %s of a sequence on one prepared workflow, after: %s]" % (seq.get("run"), ", ".join(seq.get("earlier_runs") or []) or "nothing")
    if case.get("panic") or not res.get("returned"):
        chk.violation("C19:panic-or-hang", "Execute panicked or did not return for a generated input document (%s): %s%s"
                      % (cls, str(case.get("panic") or case.get("dump"))[:200], where), replay)
        return
    started = (case.get("deploys_at_return") or 0) > 0 or (case.get("deploys_settled") or 0) > 0 or bool(case.get("seen"))
    # second and third oracle for "the declared schema rejects the document": the real pluginsdk schema on a FRESH copy of the
    # schema (input scope of a fresh Prepare that no Execute has touched), and the Lean model's `valid` (verdict of arcadrv)
    sdk = case.get("sdk") or {}
    if "valid" in sdk:
        chk.hist["sdk-oracle:" + ("valid" if sdk["valid"] else "rejects")] = chk.hist.get("sdk-oracle:" + ("valid" if sdk["valid"] else "rejects"), 0) + 1
    # (a disagreement of the Lean model with the real run is reported by the correspondence; it is named in the text below)
    model_refuses = isinstance((verdict or {}).get("detail"), dict) and (verdict["detail"].get("why") == "model: refused, real: accepted")
    if valid != sdk.get("valid", valid):
        note = "C19 monitor: the generator calls a document %s, the real schema on a fresh copy says %s (%s): %s" % (
            "valid" if valid else "invalid", "valid" if sdk.get("valid") else "invalid: " + str(sdk.get("err"))[:120], cls, case.get("id"))
        if len([n for n in chk.notes if n.startswith("C19 monitor: the generator calls")]) < 5:
            chk.notes.append(note)
    if not valid and sdk.get("valid") is True:
        # the generator built the document as invalid, the real schema on a fresh copy accepts it: the oracles disagree (noted
        # above), so nothing is claimed about this document
        chk.hist["oracles-disagree"] = chk.hist.get("oracles-disagree", 0) + 1
        return
    if valid and sdk.get("valid") is False:
        who = "the real schema (fresh copy: %s)%s" % (str(sdk.get("err"))[:160], " and the Lean model of the schema" if model_refuses else "")
        if res.get("output_id") or res.get("err_class") != "invalidInput":
            chk.violation("C19:invalid-input-accepted",
                          "a document that %s rejects was not refused as invalid input: output %r, error class %r%s"
                          % (who, res.get("output_id"), res.get("err_class"), where), replay)
        if started:
            chk.violation("C19:invalid-input-started-steps",
                          "a document that %s rejects led to %s deployment(s) (%s when Execute returned)%s"
                          % (who, case.get("deploys_settled"), case.get("deploys_at_return"), where), replay)
        return
    if not valid:
        if res.get("output_id") or res.get("err_class") != "invalidInput":
            chk.violation("C19:invalid-input-accepted",
                          "a document that violates the input schema (%s at %s) was not refused as invalid input: output %r, error class %r"
                          % (case.get("violation_kind"), case.get("violation_path"), res.get("output_id"), res.get("err_class")) + where, replay)
        if started:
            chk.violation("C19:invalid-input-started-steps",
                          "a document that violates the input schema (%s at %s) led to %s deployment(s) (%s when Execute returned)"
                          % (case.get("violation_kind"), case.get("violation_path"), case.get("deploys_settled"),
                             case.get("deploys_at_return")) + where, replay)
        return
    if res.get("err_class") == "invalidInput":
        chk.violation("C19:valid-input-rejected", "a document that satisfies the input schema was refused: %s%s" % (str(res.get("err"))[:300], where), replay)
        return
    if res.get("output_id") != "success":
        chk.violation("C19:valid-input-rejected", "a valid document did not lead to the success output: output %r, error class %r (%s)%s"
                      % (res.get("output_id"), res.get("err_class"), str(res.get("err"))[:200], where), replay)
        return
    if "norm" in sdk:
        got0, ok0 = navigate(res.get("data"), ["input"]) if is_map(res.get("data")) else (None, False)
        if not ok0 or canon(got0) != canon(sdk["norm"]):
            chk.violation("C19:not-normalised", "the `$.input` seen by the workflow output is not what the real schema (fresh copy) makes of the "
                          "document: got %s, Serialize(Unserialize(doc)) = %s%s" % (str(got0)[:200], str(sdk["norm"])[:200], where), replay)
    try:
        norm = py_normalise(case["ty"], case["doc"])
    except Unmodelled:
        return
    except Invalid as e:
        note = "C19 monitor: the generator calls a document valid that the monitor's reading of the schema rules refuses (%s): %s" % (e, case.get("id"))
        if len(chk.notes) < 10:
            chk.notes.append(note)
        return
    data = res.get("data")
    got, ok = navigate(data, ["input"]) if is_map(data) else (None, False)
    if not ok or canon(got) != canon(norm):
        chk.violation("C19:not-normalised", "the `$.input` seen by the workflow output is not the schema-normalised document: got %s, expected %s"
                      % (str(got)[:200], str(norm)[:200]), replay)
    for key, path in sorted((case.get("list_refs") or {}).items()):
        want, okw = navigate(norm, list(path))
        gotl, okl = navigate(data, ["lists", key]) if is_map(data) else (None, False)
        if okw and (not okl or canon(gotl) != canon(want)):
            chk.hist["list-ref:mismatch"] = chk.hist.get("list-ref:mismatch", 0) + 1
            chk.violation("C19:not-normalised", "the output field that refers to the list $.input.%s directly holds %s, the normalised input has %s%s"
                          % (".".join(path), "nothing (the field is missing)" if not okl else str(gotl)[:200], str(want)[:200],
                             " - an empty list is a value" if okw and canon(want) == canon([]) else ""), replay)
        elif okw:
            k2 = "list-ref:empty" if canon(want) == canon([]) else "list-ref:non-empty"
            chk.hist[k2] = chk.hist.get(k2, 0) + 1
    seen = {s.get("src"): s.get("data") for s in case.get("seen") or []}
    by_ref = {}
    for st in case.get("steps") or []:
        exp = expected_seen(norm, st)
        real = seen.get(st.get("id"))
        if real is None:
            chk.violation("C19:not-normalised", "step %s never executed although the document is valid" % st.get("id"), replay)
            continue
        if exp is None or canon(exp) != canon(real):
            chk.violation("C19:not-normalised", "plugin of step %s received %s, the normalised input gives %s"
                          % (st.get("id"), str(real)[:200], str(exp)[:200]), replay)
        # steps referring to the same field must have seen the same value (compared on what they saw, not on the model)
        for f, path in (st.get("refs") or {}).items():
            k = tuple(path)
            v = canon(((real or {}).get("m") or {}).get(f))
            if k in by_ref and by_ref[k][0] != v:
                chk.violation("C19:steps-disagree", "steps %s and %s refer to $.input.%s and received different values"
                              % (by_ref[k][1], st.get("id"), ".".join(path)), replay)
            by_ref.setdefault(k, (v, st.get("id")))


def mon_c19_input(case, verdict, chk):
    _mon_c19_input_main(case, verdict, chk)
    mon_c19_run_leg(case, chk)


def _leg_view(o):
    r = o.get("result") or {}
    return {"stage": o.get("stage"), "returned": bool(r.get("returned")), "output_id": r.get("output_id") or "",
            "error": bool(r.get("err")), "err_class": r.get("err_class") or "", "data": canon(r.get("data")),
            "deploys": o.get("deploys"), "seen": canon(o.get("seen"))}


def mon_c19_run_leg(case, chk):
    """The same document as an input FILE: `Workflow.Run` with the document written as YAML with plain scalars against
    `Execute` with the document's scalars as their text (the reading of the engine's input decoder).  Outcome, number of
    deployments and the values every plugin received must agree: a document is not refused / accepted / altered
    depending on how the engine's front end spells it."""
    leg = case.get("run_leg")
    if case.get("kind") != "input" or not leg:
        return
    ex, run = leg.get("exec") or {}, leg.get("run") or {}
    chk.hist["run-leg:" + ("lookalike" if leg.get("lookalike") else "as-generated")] = chk.hist.get("run-leg:" + ("lookalike" if leg.get("lookalike") else "as-generated"), 0) + 1
    idx = case.get("id", "x-0-0").split("-")[-1]
    replay = {"kind": "impl-counterexample", "case": {"id": case.get("id"), "yaml": case.get("yaml"), "run_leg": leg},
              "replay_harness": list(case.get("replay_harness") or ["input", "-n", str(int(idx) + 1), "-skip", idx, "-seed", str(chk.seed)])}
    for name, o in (("Prepare+Execute", ex), ("Parse+Run", run)):
        if o.get("panic") or o.get("timeout"):
            chk.violation("C19:panic-or-hang", "%s panicked or did not return for the input file %r: %s" % (name, leg.get("input_yaml", "")[:200], str(o.get("panic"))[:200]), replay)
            return
    if ex.get("stage") != "run" or run.get("stage") != "run":
        if ex.get("stage") != run.get("stage"):
            chk.notes.append("C19 run leg: stages differ (%s / %s) for %s" % (ex.get("stage"), run.get("stage"), case.get("id")))
        return
    a, b = _leg_view(ex), _leg_view(run)
    chk.hist["run-leg:" + ("accepted" if not a["error"] else "refused")] = chk.hist.get("run-leg:" + ("accepted" if not a["error"] else "refused"), 0) + 1
    diff = [k for k in a if a[k] != b[k]]
    if diff:
        la = leg.get("lookalike")
        chk.violation("C19:input-file-read-differently",
                      "the input file %r%s: Workflow.Run and Execute on the same document (scalars as their text) differ in %s: "
                      "Run gives %s, Execute gives %s" % (
                          leg.get("input_yaml", "")[:300], (" (value %r at %s)" % (la.get("value"), la.get("path"))) if la else "",
                          ", ".join(diff), json.dumps({k: b[k] for k in diff}, sort_keys=True)[:400], json.dumps({k: a[k] for k in diff}, sort_keys=True)[:400]),
                      replay)


# ---- sequences on one prepared workflow (stream `inputseq`) ---------------------------------------------------------------------

def _doc_rejected(d):
    """the declared schema rejects the document: the generator built it invalid and the real schema (fresh copy) does not
    contradict; or the real schema on a fresh copy rejects it"""
    sdk = d.get("sdk") or {}
    if sdk.get("valid") is False:
        return True
    return (not d.get("expect_valid")) and sdk.get("valid") is not True


def _doc_accepted(d):
    sdk = d.get("sdk") or {}
    return bool(d.get("expect_valid")) and sdk.get("valid") is not False


def _seq_replay(case, upto=None):
    """the sequence as a replay: workflow text, every document with its oracles, the runs up to the offending one"""
    runs = case.get("runs") or []
    if upto is not None:
        runs = [r for r in runs if r.get("n", 0) <= upto]
    docs = [{k: d.get(k) for k in ("index", "role", "doc", "expect_valid", "violation_kind", "violation_path", "sdk", "fresh")}
            for d in case.get("docs") or []]
    idx = case.get("id", "inputseq-0-0").split("-")
    rh = ["inputseq", "-n", str(int(idx[-1]) + 1), "-skip", idx[-1], "-seed", idx[1] if len(idx) > 2 else "1", "-child", "self"]
    return {"kind": "impl-counterexample",
            "case": {"id": case.get("id"), "workflow_yaml": case.get("yaml"), "steps": case.get("steps"), "documents": docs,
                     "runs": runs, "hung_run": case.get("hung_run"), "goroutine_dump": str(case.get("dump") or "")[:3000],
                     "watchdog_ms": case.get("watchdog_ms")},
            "replay_harness": rh}


def _describe_run(case, run):
    docs = case.get("docs") or []
    d = docs[run["doc"]] if run.get("doc", -1) < len(docs) else {}
    what = d.get("role", "?")
    if d.get("role") == "invalid":
        what += " (%s at %s)" % (d.get("violation_kind"), d.get("violation_path"))
    return "run %s (phase %s%s, document %s: %s%s)" % (run.get("n"), run.get("phase"), ", overlapping" if run.get("overlap") else "",
                                                      run.get("doc"), what, ", cancelled after %s ms" % run["cancel_after_ms"] if run.get("cancel_after_ms", -1) >= 0 else "")


def _earlier(case, run):
    docs = case.get("docs") or []
    out = []
    for r in case.get("runs") or []:
        if r.get("n", 0) >= run.get("n", 0):
            continue
        d = docs[r["doc"]] if r.get("doc", -1) < len(docs) else {}
        out.append("%s%s" % ("refused" if _doc_rejected(d) else "valid", "+cancelled" if r.get("cancel_after_ms", -1) >= 0 else ""))
    return out


def mon_c19_seq(case, verdict, chk):
    """C19 on a sequence of runs of ONE prepared workflow.  Every run is judged on its own document: a document the declared
    schema rejects (generator, real schema on a fresh copy) is refused as invalid input and deploys nothing, whatever ran
    before or runs at the same time; a valid one runs and sees the normalised input; a run that never returns has neither
    refused nor run its input."""
    if case.get("kind") == "input":
        return mon_c19_input(case, verdict, chk)
    if case.get("kind") != "inputseq":
        return
    if case.get("crash"):
        if _plugin_side(case["crash"]):
            chk.hist["child:plugin-side-crash"] = chk.hist.get("child:plugin-side-crash", 0) + 1
        else:
            chk.violation("C19:process-crash", "a sequence of valid / invalid / cancelled runs crashed the process: " + case["crash"][:300],
                          {"kind": "impl-counterexample", "case": {k: case.get(k) for k in ("id", "child", "child_exit")},
                           "stderr": case["crash"][:3000], "replay_harness": _seq_replay(case)["replay_harness"]})
        return
    docs = case.get("docs") or []
    runs = case.get("runs") or []
    nsteps = len(case.get("steps") or [])
    chk.hist["sequence:docs-invalid"] = chk.hist.get("sequence:docs-invalid", 0) + len([d for d in docs if d.get("role") == "invalid"])
    for d in docs:
        if d.get("role") == "invalid":
            k = "sequence-doc:" + str(d.get("violation_kind"))
            chk.hist[k] = chk.hist.get(k, 0) + 1
    if case.get("hung"):
        hr = case.get("hung_run") or {}
        if hr.get("phase") == "isolated-first-run":
            chk.violation("C19:panic-or-hang", "the first Execute of a freshly prepared workflow did not return within %s ms (document %s)"
                          % (case.get("watchdog_ms"), hr.get("doc")), _seq_replay(case))
            return
        before = _earlier(case, hr)
        chk.violation("C19:run-never-returns",
                      "%s of a sequence on one prepared workflow did not return within %s ms: its input was neither refused nor run; "
                      "earlier runs of the prepared workflow: %s" % (_describe_run(case, hr), case.get("watchdog_ms"), ", ".join(before) or "none"),
                      _seq_replay(case, hr.get("n")))
    for run in runs:
        if run.get("hung"):
            continue
        d = docs[run["doc"]]
        res = run.get("result") or {}
        cancelled = run.get("cancel_after_ms", -1) >= 0
        tag = "sequence:%s:%s%s" % ("overlap" if run.get("overlap") else "sequential",
                                    "refused-doc" if _doc_rejected(d) else "valid-doc", ":cancelled" if cancelled else "")
        chk.hist[tag] = chk.hist.get(tag, 0) + 1
        if res.get("panic"):
            chk.violation("C19:panic-or-hang", "%s panicked: %s" % (_describe_run(case, run), str(res["panic"])[:200]), _seq_replay(case, run.get("n")))
            continue
        if _doc_rejected(d):
            refused = not res.get("output_id") and (res.get("err_class") == "invalidInput" or (cancelled and res.get("err_class")))
            if not refused:
                chk.violation("C19:invalid-input-accepted",
                              "%s: the document violates the input schema but was not refused as invalid input: output %r, error class %r; earlier runs: %s"
                              % (_describe_run(case, run), res.get("output_id"), res.get("err_class"), ", ".join(_earlier(case, run)) or "none"),
                              _seq_replay(case, run.get("n")))
            if not run.get("overlap") and ((run.get("deploys_settled") or 0) > 0 or (run.get("deploys_at_return") or 0) > 0):
                chk.violation("C19:invalid-input-started-steps",
                              "%s: the document violates the input schema and %s plugin(s) were deployed" % (_describe_run(case, run), run.get("deploys_settled")),
                              _seq_replay(case, run.get("n")))
        elif _doc_accepted(d):
            if res.get("err_class") == "invalidInput":
                chk.violation("C19:valid-input-rejected", "%s: a document that satisfies the input schema was refused: %s; earlier runs: %s"
                              % (_describe_run(case, run), str(res.get("err"))[:200], ", ".join(_earlier(case, run)) or "none"), _seq_replay(case, run.get("n")))
                continue
            if not cancelled and res.get("output_id") != "success":
                chk.violation("C19:valid-input-rejected", "%s: a valid document did not lead to the success output: output %r, error class %r (%s)"
                              % (_describe_run(case, run), res.get("output_id"), res.get("err_class"), str(res.get("err"))[:200]), _seq_replay(case, run.get("n")))
                continue
            if res.get("output_id") == "success":
                norm = (d.get("sdk") or {}).get("norm")
                got, ok = navigate(res.get("data"), ["input"]) if is_map(res.get("data")) else (None, False)
                if norm is not None and (not ok or canon(got) != canon(norm)):
                    chk.violation("C19:not-normalised", "%s: the `$.input` of the returned output is %s, the schema-normalised document is %s"
                                  % (_describe_run(case, run), str(got)[:200], str(norm)[:200]), _seq_replay(case, run.get("n")))
    # overlapping phases: a refused run deploys nothing, so the deployments of a phase are bounded by those of its valid runs
    phases = {}
    for run in runs:
        if run.get("overlap") and not run.get("hung"):
            phases.setdefault(run["phase"], []).append(run)
    for ph, rs in phases.items():
        may = sum(nsteps for r in rs if not _doc_rejected(docs[r["doc"]]))
        total = max((r.get("deploys_settled") or 0) for r in rs)
        if total > may and not case.get("hung"):
            chk.violation("C19:invalid-input-started-steps",
                          "overlapping phase %s: %d deployments, but only %d of the %d runs had a valid document (%d steps each): a refused run deployed plugins"
                          % (ph, total, len([r for r in rs if not _doc_rejected(docs[r["doc"]])]), len(rs), nsteps), _seq_replay(case, max(r.get("n", 0) for r in rs)))


def mon_c14_seq(case, verdict, chk):
    """C14 on the same sequences: every run of the prepared workflow that was not cancelled returns what the ISOLATED FIRST RUN
    (fresh registry, fresh Prepare, one Execute) with that document returned - also after refused and cancelled runs and next
    to overlapping ones; a cancelled run returns (an error or a declared output); a run that never returns differs from the
    isolated run, which did."""
    if case.get("kind") != "inputseq":
        return
    if case.get("crash"):
        if _plugin_side(case["crash"]):
            chk.hist["child:plugin-side-crash"] = chk.hist.get("child:plugin-side-crash", 0) + 1
        else:
            chk.violation("C14:process-crash", "re-running a prepared workflow with valid / invalid / cancelled inputs crashed the process: "
                          + case["crash"][:300], {"kind": "impl-counterexample", "case": {k: case.get(k) for k in ("id", "child", "child_exit")},
                                                  "stderr": case["crash"][:3000], "replay_harness": _seq_replay(case)["replay_harness"]})
        return
    docs = case.get("docs") or []
    if case.get("hung"):
        hr = case.get("hung_run") or {}
        if hr.get("phase") != "isolated-first-run":
            d = docs[hr.get("doc", 0)] if docs else {}
            fresh = d.get("fresh") or {}
            chk.violation("C14:run-never-returns-after-earlier-runs",
                          "%s of a prepared workflow did not return within %s ms; the isolated first run with the same input returned (%r, error class %r) in %s ms; "
                          "earlier runs of the prepared workflow: %s"
                          % (_describe_run(case, hr), case.get("watchdog_ms"), fresh.get("output_id"), fresh.get("err_class"), fresh.get("wall_ms"),
                             ", ".join(_earlier(case, hr)) or "none"), _seq_replay(case, hr.get("n")))
    for run in case.get("runs") or []:
        if run.get("hung"):
            continue
        d = docs[run["doc"]]
        res, fresh = run.get("result") or {}, d.get("fresh") or {}
        cancelled = run.get("cancel_after_ms", -1) >= 0
        tag = "sequence-run:%s%s:%s" % ("overlap" if run.get("overlap") else "sequential", ":cancelled" if cancelled else "",
                                         "error" if res.get("err_class") else "output")
        chk.hist[tag] = chk.hist.get(tag, 0) + 1
        if res.get("panic"):
            chk.violation("C14:run-differs-from-isolated-run:sequence", "%s panicked: %s" % (_describe_run(case, run), str(res["panic"])[:200]),
                          _seq_replay(case, run.get("n")))
            continue
        if cancelled:
            continue  # returned: an error or an output (whose data is checked by C19's monitor)
        same = (res.get("output_id") == fresh.get("output_id") and (res.get("err_class") or "") == (fresh.get("err_class") or "")
                and canon(res.get("data")) == canon(fresh.get("data")))
        if not same and not fresh.get("panic"):
            chk.violation("C14:run-differs-from-isolated-run:sequence",
                          "%s returned (%r, %s, error class %r); the isolated first run with the same input returned (%r, %s, error class %r); earlier runs: %s"
                          % (_describe_run(case, run), res.get("output_id"), str(res.get("data"))[:120], res.get("err_class"),
                             fresh.get("output_id"), str(fresh.get("data"))[:120], fresh.get("err_class"), ", ".join(_earlier(case, run)) or "none"),
                          _seq_replay(case, run.get("n")))


def nontrivial_seq(case):
    """non-trivial = a sequence that contains refused and accepted runs (or a sub-line of it that is non-trivial by the
    single-run rule)"""
    if case.get("kind") == "input":
        return nontrivial_input(case)
    docs = case.get("docs") or []
    kinds = {_doc_rejected(docs[r["doc"]]) for r in case.get("runs") or [] if r.get("doc", 0) < len(docs)}
    return len(kinds) > 1


def sample_seq(case):
    if case.get("kind") == "input":
        return sample_input(case)
    docs = case.get("docs") or []
    return {"id": case.get("id"), "workflow_yaml": case.get("yaml", "")[:1500],
            "documents": [(d.get("role"), d.get("violation_kind"), d.get("doc")) for d in docs][:8],
            "runs": [(r.get("phase"), r.get("doc"), r.get("cancel_after_ms"), (r.get("result") or {}).get("output_id"),
                      (r.get("result") or {}).get("err_class"), r.get("deploys_settled")) for r in (case.get("runs") or [])[:40]]}


def seq_n(tier):
    return 150 if tier == "thorough" else 24


def S_seq(monitor, driver, seed_off):
    return {"name": "input-seq",
            "harness": lambda t, s: ["inputseq", "-n", str(seq_n(t)), "-seed", str(s + seed_off), "-tier", t, "-child", "self"],
            "driver": (lambda f: ["input"]) if driver else None,
            "monitor": monitor, "nontrivial": nontrivial_seq, "sample": sample_seq}


def nontrivial_input(case):
    """non-trivial = an invalid document, or a valid one that needs normalisation (a default is filled in, a scalar is
    given as text or in another type, an object is given in the inlined spelling)"""
    if not case.get("expect_valid"):
        return True
    return any(s.startswith("omit:") and "default" in s or "<-" in s or s.startswith("obj:inline") for s in case.get("spelling") or [])


def sample_input(case):
    return {"id": case.get("id"), "workflow_yaml": case.get("yaml", "")[:1500], "doc": case.get("doc"),
            "expect_valid": case.get("expect_valid"), "violation_kind": case.get("violation_kind"),
            "result": case.get("result"), "deploys_at_return": case.get("deploys_at_return"), "seen": case.get("seen")}


def input_n(tier):
    return 3000 if tier == "thorough" else 300


SPEC_C19 = {
    "module": "Arca.Props.C19",
    "theorems": [
        T19 + "normalise_valid", T19 + "normalised_conforms", T19 + "normalise_idempotent", T19 + "normalise_idempotent_bind",
        T19 + "input_normalised_once", T19 + "input_reference_same_for_all",
        T19 + "invalid_input_no_start", T19 + "valid_input_starts_every_step",
        T19 + "validation_before_start", T19 + "validation_guarded", T19 + "start_loop_present",
        T19 + "validation_before_start_spelled",
        # the front end: a scalar of the input file is its text; Run hands Raw() of the engine's YAML tree to Execute
        T19 + "input_file_scalar_is_its_text", T19 + "run_passes_the_text_reading_to_execute",
        # a refused input leaves the prepared workflow usable: the input lock is released on every path of Execute (lock-balance
        # checker on the regenerated skeleton, sound w.r.t. the path semantics of the skeleton language)
        T19 + "input_lock_released_on_every_path", T19 + "input_lock_taken_once_in_execute", T19 + "every_lock_released",
        "Arca.Proofs.LockBalance.balanced_sound",
    ],
    "pins": ["workflow_workflow_executableWorkflow_Execute", "engine_engineWorkflow_Run"],
    "streams": [
        {"name": "input",
         "harness": lambda t, s: ["input", "-n", str(input_n(t)), "-seed", str(s), "-tier", t],
         "driver": lambda f: ["input"],
         "monitor": mon_c19_input,
         "nontrivial": nontrivial_input,
         "sample": sample_input},
        # sequences of valid / invalid / cancelled runs on ONE prepared workflow, sequential and overlapping, every case in a child
        # process; the sequential runs are also judged one by one by the model differential (lines of kind "input")
        S_seq(mon_c19_seq, True, 7),
    ],
    "rule": ("generated input schemas (strings with length bounds / patterns, bounded integers, booleans, floats, lists with item "
             "bounds, string-keyed maps, nested objects up to depth 3 with required / optional / defaulted properties, objects "
             "reached through references, a reference to a step-input object) x documents that are valid (typed, text-spelled, "
             "cross-typed, with omitted optional fields, inlined single-property objects, via the engine's YAML decoder) or "
             "invalid in exactly one way (missing required field, wrong type, out of range, overflow, pattern mismatch, too "
             "short / long, unknown field, too few / many items, null, default violating its type); distinct = workflow text + "
             "document; non-trivial = invalid, or valid and in need of normalisation; schema shapes also: a root object without "
             "properties, a root whose properties are all optional; documents also: lists and scalars where an object is declared; "
             "oracles for 'the schema rejects the document': the generator, the real pluginsdk schema on a fresh copy (input scope of a "
             "fresh Prepare), the Lean model; stream input-seq: ONE prepared workflow run 15-35 times with a document of every violation "
             "kind the schema admits, valid documents of different shapes and cancelled runs, sequentially and overlapping, every run "
             "under a 12 s watchdog in a child process (a run that never returns is a violation with the sequence as replay)"),
}


# ---- C14 --------------------------------------------------------------------------------------------------------------------

PLUGIN_SIDE = ("pluginsdk/atp.(*atpServerSession)",)


def _plugin_side(text):
    """crash / race entirely inside the in-process ATP *server* of the scripted plugin (pluginsdk, plugin side; in a
    real deployment this code runs in the plugin's container, not in the engine)"""
    return "atpServerSession" in text and "go.flow.arcalot.io/engine/" not in text.replace("go.flow.arcalot.io/engine/cmd/vharness", "")


def _slim_rerun(case, run=None):
    c = {k: v for k, v in case.items() if k not in ("key", "runs", "race_reports")}
    if run is not None:
        c["run"] = run
        c["n_runs"] = len(case.get("runs") or [])
    return c


def mon_c14_rerun(case, verdict, chk):
    """C14 on one prepared workflow: every run (sequential, overlapping, on a twin prepared from the same text) returned
    what an isolated first run with the same input returns (membership in the set of isolated results where the engine's
    own scheduling makes that set larger than one); cancelled runs returned an error or a declared output; the race
    detector build reported no data race involving engine code."""
    if case.get("kind") != "rerun":
        return
    cid = case.get("id", "rerun-0-0")
    idx = cid.split("-")[-1]
    rh = ["rerun", "-n", str(int(idx) + 1), "-skip", idx, "-seed", str(chk.seed)]
    if case.get("crash"):
        if _plugin_side(case["crash"]):
            note = ("rerun: the in-process plugin (pluginsdk ATP server, plugin side, outside /repo) crashed the child process: "
                    + case["crash"][:160].replace("\n", " | "))
            if not any(n.startswith("rerun: the in-process plugin") for n in chk.notes):
                chk.notes.append(note)
            chk.hist["child:plugin-side-crash"] = chk.hist.get("child:plugin-side-crash", 0) + 1
        else:
            chk.violation("C14:process-crash", "re-running a prepared workflow crashed the process: " + case["crash"][:300],
                          {"kind": "impl-counterexample", "case": _slim_rerun(case), "replay_harness": rh})
    for rep in case.get("race_reports") or []:
        tops = " / ".join(rep.get("tops") or [])
        if rep.get("engine") and not _plugin_side(rep.get("text", "")):
            chk.hist["race:engine:" + tops] = chk.hist.get("race:engine:" + tops, 0) + 1
            chk.violation("C14:data-race", "data race between runs of one prepared workflow (%s)" % tops,
                          {"kind": "impl-counterexample", "case": _slim_rerun(case), "race_report": rep.get("text", "")[:6000],
                           "replay_harness": rh + ["-child", ".build/vharness-race"]})
        else:
            chk.hist["race:plugin-side:" + tops] = chk.hist.get("race:plugin-side:" + tops, 0) + 1
    if case.get("unconfirmed"):
        # runs that returned what no sampled isolated run returned, but a second execution of the case (fresh process, same seed)
        # did not reproduce any such run: a rare ordering the oracle's sample missed, not a leak between runs - inconclusive
        chk.hist["oracle:unconfirmed-mismatch(inconclusive)"] = chk.hist.get("oracle:unconfirmed-mismatch(inconclusive)", 0) + len(case["unconfirmed"])
        note = "rerun: %d run(s) of %s differed from the sampled isolated runs and did not reproduce in a second execution (inconclusive)" % (
            len(case["unconfirmed"]), case.get("id"))
        if len([n for n in chk.notes if n.startswith("rerun: ") and "inconclusive" in n]) < 4:
            chk.notes.append(note)
    if case.get("oracle_unstable"):
        chk.hist["oracle:several-isolated-results"] = chk.hist.get("oracle:several-isolated-results", 0) + 1
    for run in case.get("runs") or []:
        mode = run.get("mode", "?")
        res = run.get("result") or {}
        kind = ("panic" if res.get("panic") else "timeout" if res.get("timeout") else "error" if res.get("err_class") else "output")
        tag = "run:%s%s:%s" % (mode, ":cancelled" if run.get("cancel_after_ms", -1) >= 0 else "", kind)
        chk.hist[tag] = chk.hist.get(tag, 0) + 1
        if run.get("after"):
            t2 = "after:" + run["after"]
            chk.hist[t2] = chk.hist.get(t2, 0) + 1
        if not run.get("equal"):
            oracle = [o for o in case.get("oracle") or [] if o.get("input") == run.get("input")]
            chk.violation("C14:run-differs-from-isolated-run:" + mode,
                          "a %s run of a prepared workflow%s returned (%r, %s, %r); %d isolated first runs with the same input returned %s"
                          % (mode, " (after a %s run)" % run["after"] if run.get("after") else "", res.get("output_id"),
                             str(res.get("data"))[:120], res.get("err_class") or ("panic" if res.get("panic") else "timeout" if res.get("timeout") else ""),
                             run.get("oracle_runs", 0),
                             str([(r.get("output_id"), r.get("err_class")) for o in oracle for r in o.get("results", [])])[:200]),
                          {"kind": "impl-counterexample", "case": _slim_rerun(case, run), "oracle": oracle, "replay_harness": rh})


def nontrivial_rerun(case):
    """non-trivial = the runs did not all return the same thing (different inputs matter, or some run failed / was cancelled)"""
    keys = set()
    for r in case.get("runs") or []:
        res = r.get("result") or {}
        keys.add((res.get("output_id"), str(res.get("data")), res.get("err_class")))
    return len(keys) > 1


def sample_rerun(case):
    return {"id": case.get("id"), "workflow_yaml": case.get("yaml", "")[:1200], "inputs": case.get("inputs"),
            "behaviours": case.get("behaviours"), "n_runs": len(case.get("runs") or []), "n_concurrent": case.get("n_concurrent"),
            "runs": [(r.get("mode"), r.get("input"), r.get("cancel_after_ms"), (r.get("result") or {}).get("output_id"),
                      (r.get("result") or {}).get("err_class"), r.get("equal")) for r in (case.get("runs") or [])[:30]]}


def rerun_n(tier):
    return 400 if tier == "thorough" else 40


def race_binary():
    """the -race build of the harness (built on demand; `go build` caches, so this is cheap when nothing changed)"""
    out = os.path.join(VERIF, ".build", "vharness-race")
    env = dict(os.environ, GOFLAGS="-mod=mod", GOPROXY="off", GOSUMDB="off", GOTOOLCHAIN="local")
    try:
        subprocess.run([os.path.join(VERIF, "bin", "build-harness"), out, "-race"], env=env, check=True,
                       stdout=subprocess.PIPE, stderr=subprocess.PIPE, timeout=1200)
    except Exception:
        pass
    return out


SPEC_C14 = {
    "module": "Arca.Props.C14",
    "theorems": [
        T14 + "run_frame", T14 + "run_frame_other", T14 + "run_state_fresh", T14 + "written_fields_are_listed",
        T14 + "shared_fields_not_written", T14 + "dag_is_cloned", T14 + "shared_calls_enumerated", T14 + "frame_covers_run_loop",
        T14 + "shared_expression_objects_not_written_by_their_methods",
        T14 + "clone_independent", T14 + "clone_clone", T14 + "run_starts_from_prepared",
        T14 + "execute_is_function_of_inputs", T14 + "later_run_unaffected",
        # what a run acquires from the prepared workflow it gives back on every path (every function that calls Lock(), from the source)
        T14 + "lock_balance_sound", T14 + "every_lock_released_on_every_path", T14 + "input_lock_balanced_in_execute",
        T14 + "lock_facts_meaningful", T14 + "lock_facts_are_the_skeletons", T14 + "run_lock_exception_is_one_exit",
    ],
    "pins": ["workflow_workflow_executableWorkflow_Execute", "workflow_workflow_executableWorkflow_handleOutput",
             "workflow_executor_executor_prepareOptionalExprDependencies", "workflow_executor_executor_prepareOneOfExprDependencies"],
    "streams": [
        {"name": "rerun",
         # every case in a child process of the harness itself: a crash of the in-process plugin (pluginsdk ATP server)
         # or of the engine becomes a field of the case and is classified by the monitor
         "harness": lambda t, s: ["rerun", "-n", str(rerun_n(t)), "-seed", str(s), "-tier", t, "-child", "self"],
         "driver": None, "monitor": mon_c14_rerun, "nontrivial": nontrivial_rerun, "sample": sample_rerun},
        # the same stream, every case in a child process of the race-detector build (reports and crashes become case fields)
        {"name": "rerun-race",
         "harness": lambda t, s: ["rerun", "-n", str(80 if t == "thorough" else 12), "-seed", str(s + 31), "-tier", t,
                                  "-child", race_binary()],
         "driver": None, "monitor": mon_c14_rerun, "nontrivial": nontrivial_rerun, "sample": sample_rerun},
        # generated input schemas: one prepared workflow run with valid, invalid (every kind) and cancelled inputs, sequentially and
        # overlapping; the oracle of every run is the isolated first run with the same document
        S_seq(mon_c14_seq, False, 7),
    ],
    "rule": ("one generated workflow (all generator options, scripted behaviours with zero or small delays) prepared once and run "
             "4-11 times in sequence with equal and different inputs (some cancelled after 0-5 ms, some ending in errors), then from "
             "2-8 goroutines at once, then interleaved and overlapped with a twin prepared from the same text on the same registry; "
             "every run is compared with isolated first runs (fresh registry, fresh Prepare) of the same input, overlapping runs with "
             "isolated runs that overlap in the same way; the race stream repeats this under the Go race detector; distinct = workflow "
             "text + inputs + behaviours; non-trivial = the runs of the case do not all return the same thing; two thirds of the cases "
             "also run 1-2 documents the input schema refuses (a refused input between accepted ones); a run that does not return "
             "within 25 s ends the case; stream input-seq (generated input schemas, see C19): every run that was not cancelled must "
             "return what the isolated first run with the same document returned, also after refused and cancelled runs"),
}
