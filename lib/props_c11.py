"""C11 — parsing any files yields a workflow or an error, never a crash or endless loop.

`SPEC` has the format of the entries of `PROPS` in lib/props.py (register it as PROPS["C11"] = props_c11.SPEC).
The monitors below are evaluated on what the implementation did, independently of the Lean model."""

PARSE_PINS = [
    "yaml_parser_parser_transform", "yaml_parser_node_Raw", "yaml_parser_node_MapKeys", "yaml_parser_node_MapKey",
    "workflow_yaml__yamlBuildExpressions", "workflow_yaml__compileExpression", "workflow_yaml__buildExpression",
    "workflow_yaml__buildOneOfExpressions",
    "workflow_yaml__buildResultOrDisabledExpression", "workflow_yaml__buildOptionalExpression",
    "workflow_yaml_yamlConverter_FromYAML",
    "engine__StepWorkflowPaths", "engine__SubworkflowCache", "engine__subworkflowCache", "engine__checkSubworkflowCycles",
    "engine_workflowEngine_Parse",
    "engine_engineWorkflow_Run", "loadfile_loadfile__MergeFileCaches", "loadfile_loadfile__NewFileCacheUsingContext",
    "step_foreach_provider_forEachProvider_LoadSchema",
]

THEOREMS = [
    "Arca.Props.C11.transform_never_panics_partial",
    "Arca.Props.C11.transform_panics_on_empty_document",
    "Arca.Props.C11.parse_never_panics",
    "Arca.Props.C11.raw_never_panics",
    "Arca.Props.C11.mapKey_total_on_transformed",
    "Arca.Props.C11.buildExpressions_never_panics",
    "Arca.Props.C11.expression_parser_panic_is_reported_as_error",
    "Arca.Props.C11.buildExpression_recovers",
    "Arca.Props.C11.parse_path_never_panics",
    "Arca.Props.C11.chain_measure_decreases",
    "Arca.Props.C11.check_measure_decreases",
    "Arca.Props.C11.subworkflowCache_total",
    "Arca.Props.C11.checkCycles_total",
    "Arca.Props.C11.parse_rejects_cycles_in_used_files",
    "Arca.Props.C11.parseFiles_total",
    "Arca.Props.C11.subworkflows_found_or_reported",
    "Arca.Props.C11.subworkflows_error_only_if_problem",
    "Arca.Props.C11.unchecked_assertions_pinned",
]


def slim(case):
    drop = ("ynode", "exprs", "steppath", "raw_value", "tree")
    c = {k: v for k, v in case.items() if k not in drop}
    obs = c.get("observed")
    if isinstance(obs, dict) and isinstance(obs.get("panic"), str):
        c["observed"] = dict(obs, panic=obs["panic"][:1200])
    return c


def _crash(chk, mode, cls, site, what, case):
    if cls == "panic":
        chk.violation("C11:panic:" + (site or "unknown"), what + " panicked (" + (site or "unknown site") + ")",
                      {"kind": "impl-counterexample", "case": slim(case)})
    elif cls == "timeout":
        chk.violation("C11:timeout:" + mode, what + " did not return within the watchdog",
                      {"kind": "impl-counterexample", "case": slim(case)})


def _site(full):
    """'fromyaml:workflow.buildExpression' -> 'workflow.buildExpression'"""
    if not full:
        return ""
    return full.split(":", 1)[1] if ":" in full else full


def mon_c11_text(mode):
    """tree and bytes streams: Parse / Raw / FromYAML must return a value or an error."""
    def mon(case, verdict, chk):
        obs = case.get("observed") or {}
        site = _site(obs.get("panic_site"))
        for what, key in (("yaml.New().Parse", "parse"), ("Node.Raw", "raw"), ("workflow.FromYAML", "fromyaml")):
            _crash(chk, mode, obs.get(key), site, what, case)
        if case.get("yamlv3") in ("panic", "timeout"):
            _crash(chk, mode, case.get("yamlv3"), "gopkg.in/yaml.v3", "yaml.Unmarshal", case)
    return mon


def _paths(steps):
    out = []
    for st in steps or []:
        if not st.get("is_map"):
            continue
        k, w = st.get("kind") or {}, st.get("workflow") or {}
        if k.get("present") and k.get("is_str") and k.get("s") == "foreach" and w.get("present") and w.get("is_str"):
            if w["s"] not in out:
                out.append(w["s"])
    return out


def fs_problems(case):
    """What is wrong with the transitive references of the root, computed from the files' abstraction alone:
    list of (problem, key) with problem in missing | invalid | cycle; plus the set of reachable keys."""
    files = case.get("observed_abs") or {}
    norm = case.get("norm") or {}
    root = case.get("root")
    problems, reachable = [], []
    rootf = files.get(root)
    if not rootf or not rootf.get("valid"):
        return problems, reachable

    def visit(steps, chain):
        for p in _paths(steps):
            name = norm.get(p, p)
            if p not in reachable:
                reachable.append(p)
            f = files.get(name)
            if f is None:
                problems.append(("missing", p))
            elif f.get("panics"):
                problems.append(("panics", p))  # FromYAML panicked on it: reported by the crash monitor
            elif not f.get("valid"):
                problems.append(("invalid", p))
            elif name in chain:
                problems.append(("cycle", p))
            else:
                visit(f.get("steps"), chain + [name])

    visit(rootf.get("steps"), [])
    return problems, reachable


def mon_c11_fs(case, verdict, chk):
    """fs stream: engine.Parse / SubworkflowCache return; a problem among the transitive references is reported; on
    success every transitively referenced file is in the merged cache."""
    p, s = case.get("parse") or {}, case.get("subcache") or {}
    _crash(chk, "fs", p.get("class"), _site(p.get("panic_site")), "engine.Parse", case)
    _crash(chk, "fs", s.get("class"), _site(s.get("panic_site")), "engine.SubworkflowCache", case)
    m = case.get("parse_mem") or {}
    _crash(chk, "fs", m.get("class"), _site(m.get("panic_site")), "engine.Parse (caller-supplied copies that differ from the context directory)", case)
    pp = case.get("parse_part") or {}
    _crash(chk, "fs", pp.get("class"), _site(pp.get("panic_site")), "engine.Parse (caller-supplied honest copies of a part of the tree)", case)
    if pp.get("class") in ("ok", "err") and p.get("class") in ("ok", "err") and pp["class"] != p["class"]:
        chk.violation("C11:supplied-copies-change-the-verdict",
                      "engine.Parse with the whole tree in the context directory: %s%s; with honest copies of %r supplied by the caller "
                      "(same texts, same keys as the loop steps use) and the rest in the context directory: %s%s" % (
                          p["class"], (" (" + str(p.get("err")) + ")") if p.get("err") else "", pp.get("supplied"),
                          pp["class"], (" (" + str(pp.get("err")) + ")") if pp.get("err") else ""),
                      {"kind": "impl-counterexample", "case": slim(case)})
    problems, reachable = fs_problems(case)
    for obs, name in ((p, "engine.Parse"), (s, "engine.SubworkflowCache")):
        if obs.get("class") == "ok":
            for kind, key in problems:
                if kind == "panics":
                    continue
                fp = {"missing": "C11:missing-subworkflow-not-reported", "invalid": "C11:invalid-subworkflow-not-reported",
                      "cycle": "C11:subworkflow-cycle-not-reported"}[kind]
                chk.violation(fp, "%s accepted a workflow although the transitively referenced file %r is %s" % (name, key, kind),
                              {"kind": "impl-counterexample", "case": slim(case)})
    if s.get("class") == "ok":
        have = set(s.get("files") or [])
        for key in reachable:
            if key not in have:
                chk.violation("C11:subworkflow-not-in-cache", "transitively referenced file %r is not in the merged file cache" % key,
                              {"kind": "impl-counterexample", "case": slim(case)})


def n_of(tier, quick, thorough):
    return str(thorough if tier == "thorough" else quick)


def parse_sample(case):
    s = {"id": case.get("id"), "origin": case.get("origin") or case.get("shape")}
    if "yaml" in case:
        s["yaml"] = case["yaml"][:600]
    if "fs" in case:
        s["files"] = sorted(case["fs"].keys())
        s["parse"] = {k: v for k, v in (case.get("parse") or {}).items() if k in ("class", "err_kind")}
        s["subcache"] = {k: v for k, v in (case.get("subcache") or {}).items() if k in ("class", "err_kind", "files")}
    if "observed" in case:
        s["observed"] = {k: v for k, v in case["observed"].items() if k in ("parse", "raw", "fromyaml", "fromyaml_err")}
    return s


def nontrivial_text(case):
    o = case.get("observed") or {}
    return case.get("origin") != "valid" and (o.get("parse") != "ok" or o.get("fromyaml") != "ok" or case.get("origin") == "corrupt")


S_TREE = {"name": "parse-tree",
          "harness": lambda t, s: ["parse", "-mode", "tree", "-n", n_of(t, 400, 6000), "-seed", str(s), "-tier", t],
          "driver": lambda f: ["parse"], "monitor": mon_c11_text("tree"), "nontrivial": nontrivial_text, "sample": parse_sample}
S_FS = {"name": "parse-fs",
        "harness": lambda t, s: ["parse", "-mode", "fs", "-n", n_of(t, 220, 2200), "-seed", str(s), "-tier", t],
        "driver": lambda f: ["parse"], "monitor": mon_c11_fs,
        "nontrivial": lambda c: c.get("shape") != "leaf", "sample": parse_sample}
# fuzz TEST: yaml.v3 (bytes -> nodes) is outside the model; the oracle is ok|err versus panic|timeout (the driver adds the
# model comparison whenever yaml.v3 accepted the bytes)
S_BYTES = {"name": "parse-bytes(fuzz-test)",
           "harness": lambda t, s: ["parse", "-mode", "bytes", "-n", n_of(t, 400, 8000), "-seed", str(s), "-tier", t],
           "driver": lambda f: ["parse"], "monitor": mon_c11_text("bytes"), "nontrivial": lambda c: True, "sample": parse_sample}

RULE = ("generated YAML node trees (tags !expr/!oneof/!ordisabled/!wait-optional/!soft-optional/!!str/!!int/unknown on scalars, "
        "sequences and mappings; complex, duplicate, tagged and aliased keys; anchors/aliases; empty and multi-document streams) "
        "rendered to text, and structural corruptions of valid workflow texts (each key path x each YAML shape, key removed, tag "
        "misplaced, complex key, duplicate key, alias), through Parse+Raw and FromYAML against Arca.Model.Yaml run on the node tree "
        "yaml.v3 produced (distinct = distinct text; non-trivial = not the uncorrupted workflow and not accepted by both Parse and "
        "FromYAML, or a corruption); file systems of workflows whose foreach steps reference each other (chain, diamond, self, "
        "2- and 3-cycles, cycle through the root, other spellings and absolute paths of one file, missing, invalid, malformed "
        "foreach steps, random graphs) through engine.Parse (with the cache of the CLI and with an in-memory cache holding every file, some with the text of another one) and engine.SubworkflowCache against Arca.Model.SubWf (distinct = "
        "distinct file system; non-trivial = more than a leaf workflow); byte-level mutations of valid texts as a fuzz test "
        "(oracle: value or error, never panic or timeout); fixed corner cases of tagged values that the SDK's schema constructors "
        "refuse (one-of discriminator colliding with an option's field, in an output, in a list, in a step input): Prepare returns an "
        "error, never panics")


def mon_c11_corners(case, verdict, chk):
    """tagged values in corners the SDK's schema constructors refuse (a one-of discriminator that collides with a field of an
    option, ...): preparing the workflow file returns a workflow or an error, it never panics (fixed cases of `vharness optlist`)"""
    if case.get("kind") != "optlist" or case.get("tag") != "corner":
        return
    tag = "corner:%s:%s" % (case.get("position"), "panic" if case.get("panic") else "refused" if case.get("prepare_err") else "accepted")
    chk.hist[tag] = chk.hist.get(tag, 0) + 1
    if case.get("panic") or case.get("timeout"):
        chk.violation("C11:prepare-panic:" + str(case.get("position")),
                      "preparing a workflow file with %s panicked or hung instead of returning an error: %s"
                      % (case.get("position"), str(case.get("panic"))[:200]),
                      {"kind": "impl-counterexample", "case": case, "replay_harness": ["optlist"]})


S_CORNERS = {"name": "tag-corners", "harness": lambda t, s: ["optlist"], "driver": None, "monitor": mon_c11_corners,
             "nontrivial": lambda c: c.get("tag") == "corner",
             "sample": lambda c: {k: c.get(k) for k in ("id", "tag", "position", "prepare_err", "returned", "panic")}}


SPEC = {
    "module": "Arca.Props.C11",
    "theorems": THEOREMS,
    "pins": PARSE_PINS,
    "streams": [S_TREE, S_FS, S_BYTES, S_CORNERS],
    "rule": RULE,
}
