"""C12 — a plugin step reports a consistent life story under every interleaving: registry entry and monitor.

`SPEC` has the format of the `lib/props.py` PROPS entries (import it there as `PROPS["C12"] = props_c12.SPEC`).
The monitor turns the `violations` the driver (`arcadrv provider`) found on what the REAL providers did into stable
fingerprints; a `diff` verdict (model and implementation disagree) is reported by the generic stream code.
"""

T = "Arca.Props.C12."

# the Go functions whose control skeleton the hand-written model (Arca/Model/PluginStep.lean) mirrors
PLUGIN_PINS = [
    "step_plugin_provider_runnableStep_Start", "step_plugin_provider_runningStep_ProvideStageInput",
    "step_plugin_provider_runningStep_provideDeployInput", "step_plugin_provider_runningStep_provideEnablingInput",
    "step_plugin_provider_runningStep_provideStartingInput", "step_plugin_provider_runningStep_provideCancelledInput",
    "step_plugin_provider_runningStep_cancelStep", "step_plugin_provider_runningStep_ForceClose",
    "step_plugin_provider_runningStep_forceCloseInternal", "step_plugin_provider_runningStep_forceClose",
    "step_plugin_provider_runningStep_Close", "step_plugin_provider_runningStep_closeComponents",
    "step_plugin_provider_runningStep_run", "step_plugin_provider_runningStep_startPlugin",
    "step_plugin_provider_runningStep_postDeployment", "step_plugin_provider_runningStep_deployStage",
    "step_plugin_provider_runningStep_enableStage", "step_plugin_provider_runningStep_startStage",
    "step_plugin_provider_runningStep_runStage", "step_plugin_provider_runningStep_deployFailed",
    "step_plugin_provider_runningStep_transitionToDisabled", "step_plugin_provider_runningStep_closedEarly",
    "step_plugin_provider_runningStep_startFailed", "step_plugin_provider_runningStep_runFailed",
    "step_plugin_provider_runningStep_transitionFromFailedStage", "step_plugin_provider_runningStep_transitionStageWithOutput",
    "step_plugin_provider_runningStep_completeStep",
]
FOREACH_PINS = [
    "step_foreach_provider_runnableStep_Start", "step_foreach_provider_runningStep_ProvideStageInput",
    "step_foreach_provider_runningStep_provideEnablingInput", "step_foreach_provider_runningStep_Close",
    "step_foreach_provider_runningStep_ForceClose", "step_foreach_provider_runningStep_run",
    "step_foreach_provider_runningStep_enableStage", "step_foreach_provider_runningStep_closedEarly",
    "step_foreach_provider_runningStep_transitionToDisabled", "step_foreach_provider_runningStep_runOnInput",
    "step_foreach_provider_runningStep_processInput",
]

THEOREMS = [T + n for n in [
    # plugin provider, traces
    "plugin_traces_legal_partial", "plugin_traces_legal_scripted", "plugin_traces_legal_counterexample",
    "plugin_only_undeclared_transition", "plugin_exactly_one_completion", "plugin_nothing_but_failures_after_completion",
    "plugin_mark_stage_failures_defined",
    # plugin provider, synchronisation skeleton
    "provide_never_blocks", "provide_cancelled_never_blocks", "cancel_signals_bounded",
    "provide_cancelled_may_block_counterexample",
    "provide_cancelled_never_panics", "provide_cancelled_without_handler_cancels_context",
    "second_input_refused", "close_idempotent", "close_always_possible", "no_notification_after_close_returns",
    "wait_group_counts_goroutines", "close_returns", "close_cancels_context",
    # foreach provider
    "foreach_traces_legal", "foreach_all_transitions_declared", "foreach_traces_legal_counterexample_old_lifecycle",
    "foreach_lifecycle_differs_by_execute_closed",
    "foreach_exactly_one_completion", "foreach_run_ends_with_one_completion", "foreach_provide_never_blocks",
    "foreach_close_waits_for_pending_provider", "foreach_no_notification_after_close_returns",
    "foreach_close_right_after_start_waits", "foreach_close_idempotent",
    "foreach_second_input_refused_partial", "foreach_input_after_close_ignored_counterexample",
]]

# driver violation -> (fingerprint suffix, description).  Keys are matched by prefix, longest first.
PLUGIN_KINDS = {
    "illegal-trace:undeclared-transition:deploy->enabling":
        ("illegal-trace:undeclared-transition:deploy->enabling",
         "the plugin provider announces the stage transition deploy -> enabling (enableStage), which the lifecycle does not "
         "declare: deployingLifecycleStage.NextStages = {starting, deploy_failed, closed}"),
    "illegal-trace:": ("illegal-trace", "the notifications of a plugin step are not a legal path through its lifecycle"),
    "notification-after-close": ("notification-after-close", "a plugin step notification started after Close/ForceClose had returned"),
    "provide-blocked:cancelled":
        ("provide-blocked:cancelled-flood",
         "(regression of the stop-once repair) ProvideStageInput(\"cancelled\", stop_if=true) blocks in cancelStep on `r.signalToStep <-` (capacity 10, r.lock held) "
         "when stop requests are repeated and the plugin no longer reads its input; run(), State(), Close then block on r.lock"),
    "provide-blocked": ("provide-blocked", "ProvideStageInput of the plugin provider did not return"),
    "second-input-accepted": ("second-input-accepted", "the plugin provider accepted the same stage input twice"),
    "close-did-not-return": ("close-did-not-return", "Close/ForceClose of a plugin step did not return"),
    "panic:provide:cancelled":
        ("panic:cancel-without-handler",
         "(regression of 691f1ef) ProvideStageInput(\"cancelled\", stop_if=true) while a step WITHOUT cancel signal handler is in stage running: cancelStep "
         "logs 'could not cancel step' and then dereferences the nil handler (cancelSignal.DataSchema()) -> nil pointer panic"),
    "panic:": ("panic", "a call into the plugin provider panicked"),
    "state-not-finished": ("state-not-finished", "the plugin step does not show as finished after its completion"),
    "deployment-leak": ("deployment-leak", "a deployment of the plugin step was never closed"),
    "goroutine-leak": ("goroutine-leak", "goroutines of the plugin step are left after ForceClose returned"),
}
FOREACH_KINDS = {
    "illegal-trace:undeclared-transition:execute->closed":
        ("illegal-trace:undeclared-transition:execute->closed",
         "(regression: closed must stay declared as a next stage of execute) a foreach step closed while waiting for its items goes execute -> closed (runOnInput -> closedEarly), but the lifecycle "
         "declares closed as a next stage of enabling only"),
    "illegal-trace:no-completion":
        ("foreach-no-completion",
         "(regression of 2e2fefe) foreach step closed while waiting for its execute input: runOnInput returns on ctx.Done()/closed channel without "
         "OnStepComplete; State() stays running/waiting_for_input"),
    "state-not-finished": ("foreach-no-completion", "foreach step never shows as finished (same defect as foreach-no-completion)"),
    "illegal-trace:": ("foreach-illegal-trace", "the notifications of a foreach step are not a legal path through its lifecycle"),
    "notification-after-close":
        ("foreach-close-returns-before-run",
         "(regression of c9cdc4d) foreach run() executes r.wg.Add(1) inside the goroutine: a Close that wins the race against the goroutine start finds "
         "the counter at zero and returns; run() starts afterwards and delivers all its notifications after Close returned"),
    "panic:provide:execute":
        ("foreach-send-on-closed-channel",
         "(regression of c9cdc4d) foreach ProvideStageInput(\"execute\") panics with 'send on closed channel': Close closes r.executeInput between the "
         "r.closed check and the send (the window is the item validation loop)"),
    "panic:": ("foreach-panic", "a call into the foreach provider panicked"),
    "second-input-accepted": ("foreach-input-accepted-after-close",
                              "foreach ProvideStageInput returns nil for every input once the step is closed, also for a second one"),
    "provide-blocked": ("foreach-provide-blocked", "ProvideStageInput of the foreach provider did not return"),
    "close-did-not-return": ("foreach-close-did-not-return", "Close/ForceClose of a foreach step did not return"),
    "deployment-leak": ("foreach-deployment-leak", "a deployment started by a foreach item was never closed"),
    "goroutine-leak": ("foreach-goroutine-leak", "goroutines of the foreach step are left after ForceClose returned"),
}


def classify(provider, violation):
    kinds = FOREACH_KINDS if provider == "foreach" else PLUGIN_KINDS
    if violation.startswith("illegal-trace:undeclared-transition:") and violation not in kinds:
        return "C12:" + violation, "the %s provider makes a stage transition its lifecycle does not declare: %s" % (
            provider, violation.rsplit(":", 1)[1])
    for key in sorted(kinds, key=len, reverse=True):
        if violation.startswith(key):
            fp, what = kinds[key]
            if violation.startswith("second-input-accepted") and provider == "foreach" and not violation.endswith(":after-close"):
                return "C12:foreach-second-input-accepted", "the foreach provider accepted the same stage input twice before being closed"
            return "C12:" + fp, what
    return "C12:" + ("foreach-" if provider == "foreach" else "") + violation, "C12 violated: " + violation


def slim(case):
    c = {k: v for k, v in case.items() if k not in ("goroutines", "plugin_log")}
    return c


def mon_c12_provider(case, verdict, chk):
    """every violation the driver found on the real provider's behaviour, once per fingerprint"""
    if not verdict:
        return
    provider = case.get("provider", "plugin")
    viols = verdict.get("violations") or []
    if any(v.startswith("provide-blocked:cancelled") for v in viols):
        # the blocked stop request holds r.lock: that Close/ForceClose cannot return is the same finding
        viols = [v for v in viols if v != "close-did-not-return"]
    for v in viols:
        fp, what = classify(provider, v)
        script = (case.get("case") or {})
        chk.violation(fp, what, {"kind": "impl-counterexample", "violation": v, "script": script,
                                 "replay_hint": "vharness provider -n 0 -only %s" % script.get("targeted")
                                 if script.get("targeted") else "vharness provider -seed <seed> (case %s)" % case.get("id"),
                                 "case": slim(case), "driver": verdict.get("detail")})


def provider_n(tier):
    return 1500 if tier == "thorough" else 300


def S_provider():
    return {"name": "provider",
            "harness": lambda t, s: ["provider", "-n", str(provider_n(t)), "-seed", str(s), "-tier", t] +
            (["-repeat", "5", "-flood"] if t == "thorough" else []),
            "driver": lambda f: ["provider"],
            "monitor": mon_c12_provider,
            "nontrivial": lambda c: len((c.get("case") or {}).get("actions", [])) >= 2 or bool((c.get("case") or {}).get("reentrant")),
            "sample": provider_sample}


def provider_sample(case):
    return {"id": case.get("id"), "script": case.get("case"),
            "trace": [[n.get("k"), n.get("prev"), n.get("out"), n.get("stage")] for n in case.get("trace", [])],
            "calls": [[c.get("op"), c.get("stage"), c.get("err"), c.get("returned")] for c in case.get("calls", [])],
            "final_state": case.get("final_state")}


RULE = ("scripts of environment actions (deploy/enabling/starting/cancelled/execute input, each possibly twice, Close, ForceClose, "
        "sequential or overlapped, delays 0-20 ms, re-entrant handler variants) x plugin behaviours (success/alt/error/crash/hang, "
        "delays, deploy failure/delay, ignore cancel, start failures) against the REAL plugin and foreach providers with a recording "
        "StageChangeHandler; distinct = distinct script + behaviour; non-trivial = at least two actions or a re-entrant handler; "
        "plus targeted scripts for every path of run()")

SPEC = {
    "module": "Arca.Props.C12",
    "theorems": THEOREMS,
    "pins": PLUGIN_PINS + FOREACH_PINS,
    "streams": [S_provider()],
    "rule": RULE,
}
