"""Implementation monitors: the properties evaluated directly on what the real engine did (plugin-side log, result,
timings), independently of the Lean model.  A monitor failure is a concrete failing input for the property."""

ANYSTR = object()
ANYBOOL = object()


class Absent:
    def __repr__(self):
        return "<absent>"


ABSENT = Absent()


class Soft:
    """a soft-optional member: may be absent even when its source was produced"""

    def __init__(self, v):
        self.v = v

    def __repr__(self):
        return "Soft(%r)" % (self.v,)


def dec(j):
    """tagged JSON value -> python value (ints as int, maps/structs as dict, floats as ('f', hex))"""
    if j is None or isinstance(j, (bool, str)):
        return j
    if isinstance(j, list):
        return [dec(x) for x in j]
    if isinstance(j, dict):
        if set(j.keys()) == {"i"}:
            return int(j["i"])
        if set(j.keys()) == {"f"}:
            return ("f", j["f"])
        if "m" in j:
            return {k: dec(v) for k, v in j["m"].items()}
    return j


def veq(a, b):
    """value equality where ANYSTR matches any string and ints may arrive as numeric strings"""
    if a is ANYSTR:
        return isinstance(b, str)
    if b is ANYSTR:
        return isinstance(a, str)
    if a is ANYBOOL:
        return isinstance(b, bool)
    if b is ANYBOOL:
        return isinstance(a, bool)
    if isinstance(a, dict) and isinstance(b, dict):
        return set(a.keys()) == set(b.keys()) and all(veq(a[k], b[k]) for k in a)
    if isinstance(a, list) and isinstance(b, list):
        return len(a) == len(b) and all(veq(x, y) for x, y in zip(a, b))
    if isinstance(a, bool) or isinstance(b, bool):
        return a is b
    if isinstance(a, int) and isinstance(b, str):
        return str(a) == b
    if isinstance(b, int) and isinstance(a, str):
        return str(b) == a
    return a == b


class EvalError(Exception):
    pass


class Unsupported(Exception):
    """the expression is outside the fragment the monitors evaluate: the case cannot be judged by them"""


def ev(e, data):
    x = e.get("x")
    if x == "root":
        return data
    if x == "dot":
        v = ev(e["e"], data)
        if not isinstance(v, dict) or e["k"] not in v:
            raise EvalError("missing key %s" % e["k"])
        return v[e["k"]]
    if x == "idx":
        v = ev(e["e"], data)
        if not isinstance(v, list) or e["i"] >= len(v):
            raise EvalError("index")
        return v[e["i"]]
    if x == "lit":
        return dec(e.get("v"))
    if x == "call" and e.get("fn") == "splitString" and len(e.get("args", [])) == 2:
        a, b = ev(e["args"][0], data), ev(e["args"][1], data)
        if not isinstance(a, str) or not isinstance(b, str):
            raise EvalError("splitString of non-strings")
        return list(a) if b == "" else a.split(b)   # Go strings.Split: an empty separator splits into characters
    raise Unsupported(str(x))


def path_of(e):
    """$.steps.S.STAGE[.OUT...] -> list of keys, or None"""
    p = []
    while e.get("x") in ("dot", "idx"):
        if e["x"] == "dot":
            p.append(e["k"])
        e = e["e"]
    if e.get("x") != "root":
        return None
    return list(reversed(p))


def refs(inval, out=None, optional=False):
    """all (path, optional?, wait?) references of an abstract input value"""
    if out is None:
        out = []
    k = inval.get("k")
    if k == "expr":
        collect_paths(inval["e"], out, False, False)
    elif k == "optional":
        collect_paths(inval["e"], out, True, inval.get("wait", False))
    elif k == "ordisabled":
        collect_paths(inval["e"], out, True, True)
    elif k == "list":
        for x in inval["l"]:
            refs(x, out)
    elif k == "map":
        for x in inval["m"].values():
            refs(x, out)
    elif k == "oneof":
        for x in inval["opts"].values():
            sub = []
            refs(x, sub)
            out.extend((p, True, True) for p, _, _ in sub)
    return out


def collect_paths(e, out, optional, wait):
    x = e.get("x")
    if x in ("dot", "idx", "root"):
        p = path_of(e)
        if p is not None:
            out.append((p, optional, wait))
        return
    if x == "call":
        for a in e.get("args", []):
            collect_paths(a, out, optional, wait)


def resolve(inval, data):
    """declarative evaluation of an abstract input value over produced data; optional fields absent when not produced"""
    k = inval.get("k")
    if k == "lit":
        return inval.get("v")
    if k == "expr":
        return ev(inval["e"], data)
    if k == "optional":
        try:
            v = ev(inval["e"], data)
        except EvalError:
            return ABSENT
        return v if inval.get("wait", False) else Soft(v)
    if k == "ordisabled":
        try:
            v = ev(inval["e"], data)
            if isinstance(v, dict):
                return dict(v, result="enabled")
            raise EvalError("ordisabled on non-object")
        except EvalError:
            p = path_of(inval["e"])
            d = data.get("steps", {}).get(p[1], {}).get("disabled", {}).get("output")
            if d is None:
                raise EvalError("neither enabled nor disabled")
            return dict(d, result="disabled")
    if k == "list":
        return [resolve(x, data) for x in inval["l"]]
    if k == "map":
        out = {}
        for kk, x in inval["m"].items():
            v = resolve(x, data)
            if v is not ABSENT and v is not None:
                out[kk] = v
        return out
    if k == "oneof":
        alts = []
        for oid, x in inval["opts"].items():
            try:
                v = resolve(x, data)
                if isinstance(v, dict):
                    alts.append(dict(v, **{inval["disc"]: oid}))
            except EvalError:
                pass
        if not alts:
            raise EvalError("no oneof alternative producible")
        return ("oneof", alts)
    raise EvalError("unknown input value")


def matches(expected, got, soft_paths=None):
    """expected may contain ("oneof", [alts]) nodes; optional fields are handled by the caller through variants"""
    if isinstance(expected, tuple) and expected and expected[0] == "oneof":
        return any(matches(a, got) for a in expected[1])
    if isinstance(expected, Soft):
        return got is None or matches(expected.v, got)
    if isinstance(expected, dict) and isinstance(got, dict):
        for k, v in expected.items():
            if k not in got:
                if not isinstance(v, Soft):
                    return False
            elif not matches(v.v if isinstance(v, Soft) else v, got[k]):
                return False
        return all(k in expected for k in got)
    if isinstance(expected, list) and isinstance(got, list):
        return len(expected) == len(got) and all(matches(a, b) for a, b in zip(expected, got))
    return veq(expected, got)


def normalise_input(case):
    inp = dec(case.get("input")) or {}
    for f in case["wf"].get("input_fields", []):
        if f["name"] not in inp and f.get("default"):
            d = f["default"]
            try:
                inp[f["name"]] = int(d) if f["type"] == "int" else (d == "true") if f["type"] == "bool" else d
            except ValueError:
                inp[f["name"]] = d  # a default that is not a number: such a workflow is refused by Prepare (the run never starts)
    return inp


def engine_reports(case):
    """{(step, stage): (output id, seq)} from the engine-side log (recording proxies around the real providers): the stage
    outputs the ENGINE was told about, with the sequence number of the notification; None when the case has no such log"""
    if "elog" not in case:
        return None
    out = {}
    for e in case.get("elog") or []:
        if e.get("ev") == "notify" and e.get("k") in ("change", "complete") and e.get("out") and e.get("prev"):
            out.setdefault((e["step"], e["prev"]), (e["out"], e["seq"], e.get("stage") or ""))
    return out


def produced_at(case, seq=None):
    """data model implied by the logs up to (excluding) sequence number seq.  Values come from the plugin-side log; WHETHER and
    WHEN an output counts as produced comes from the engine-side log when the case has one: a plugin that was finishing while the
    terminating run force-closed its step has produced nothing as far as the workflow is concerned, and a step the engine closed
    or declared crashed (closure timeout) has a closed / crashed output the plugin knows nothing about."""
    data = {"input": normalise_input(case), "steps": {}}
    steps = {s["id"]: s for s in case["wf"]["steps"]}
    for sid in steps:
        data["steps"][sid] = {}
    eng = engine_reports(case)

    def told(sid, stage, out):
        if eng is None:
            return True
        r = eng.get((sid, stage))
        return r is not None and r[0] == out and (seq is None or r[1] < seq)
    for e in case.get("log", []):
        if seq is not None and e["seq"] >= seq:
            break
        sid = e.get("src")
        if sid not in steps:
            continue
        st = data["steps"][sid]
        if e["ev"] == "deploy-fail":
            if told(sid, "deploy_failed", "error"):
                st["deploy_failed"] = {"error": {"error": ANYSTR}}
        elif e["ev"] == "exec-start":
            if eng is None:
                st["enabling"] = {"resolved": {"enabled": True}}
                st["starting"] = {"started": {}}
        elif e["ev"] == "exec-end":
            if e.get("out") == "crash":
                if told(sid, "crashed", "error"):
                    st["crashed"] = {"error": {"output": ANYSTR}}
            elif told(sid, "outputs", e["out"]):
                st["outputs"] = {e["out"]: dec(e.get("data"))}
    if eng is not None:
        # the outputs the engine generates itself are taken from what the providers REPORTED (a step that is both disabled and
        # stopped by the same event reports closed, not disabled; a step force-closed while starting reports started and
        # crashed although its plugin never executed): no inference from expressions or from the plugin's log
        for (sid, stage), (out, at, new_stage) in eng.items():
            if sid not in steps or (seq is not None and at >= seq):
                continue
            st = data["steps"][sid]
            if stage == "crashed" and "crashed" not in st:
                st["crashed"] = {"error": {"output": ANYSTR}}      # e.g. closure timeout: the engine's verdict, not the plugin's
            elif stage == "closed":
                st["closed"] = {"result": {"cancelled": ANYBOOL, "close_requested": ANYBOOL}}
            elif stage == "enabling" and out == "resolved":
                st["enabling"] = {"resolved": {"enabled": new_stage != "disabled"}}
            elif stage == "starting" and out == "started":
                st["starting"] = {"started": {}}
            elif stage == "disabled" and out == "output":
                st["disabled"] = {"output": {"message": ANYSTR}}
        return data
    # disabled steps leave no plugin-side trace: infer from the enabled expression
    for sid, s in steps.items():
        en = s.get("fields", {}).get("enabled")
        if en is not None and "starting" not in data["steps"][sid] and "deploy_failed" not in data["steps"][sid]:
            try:
                v = resolve(en, data)
                if v is False or v == "false":
                    data["steps"][sid]["enabling"] = {"resolved": {"enabled": False}}
                    data["steps"][sid]["disabled"] = {"output": {"message": ANYSTR}}
            except EvalError:
                pass
    return data


def step_exec_starts(case):
    return [e for e in case.get("log", []) if e["ev"] == "exec-start"]


def op_input_expected(step, data):
    """the OpInput the plugin must see: the resolved `input` field with absent optional members as None"""
    v = resolve(step["fields"]["input"], data) if "input" in step.get("fields", {}) else {}
    return v


def got_op_input(e):
    d = dec(e.get("data")) or {}
    out = {}
    for k, v in d.items():
        if v is None or (k == "l" and v == []):
            continue
        out[k] = v
    return out


def has_soft(inval):
    k = inval.get("k")
    if k == "optional":
        return not inval.get("wait", False)
    if k == "list":
        return any(has_soft(x) for x in inval["l"])
    if k == "map":
        return any(has_soft(x) for x in inval["m"].values())
    if k == "oneof":
        return any(has_soft(x) for x in inval["opts"].values())
    return False


def drop_soft(inval):
    """the same input with every soft-optional field absent (a soft-optional never has to be present)"""
    k = inval.get("k")
    if k == "map":
        return {"k": "map", "m": {kk: drop_soft(x) for kk, x in inval["m"].items()
                                  if not (x.get("k") == "optional" and not x.get("wait", False))}}
    if k == "list":
        return {"k": "list", "l": [drop_soft(x) for x in inval["l"]]}
    if k == "oneof":
        return dict(inval, opts={kk: drop_soft(x) for kk, x in inval["opts"].items()})
    return inval


def variants(inval):
    """input values to try: soft-optional fields present (if produced) or absent"""
    if has_soft(inval):
        return [inval, drop_soft(inval)]
    return [inval]


# ---------------------------------------------------------------------------------------------------------------- monitors

def slim(case):
    return {k: v for k, v in case.items() if k not in ("prepared", "wf")}


def mon_c02_engine(case, verdict, chk):
    try:
        _mon_c02_engine(case, verdict, chk)
    except Unsupported:
        chk.hist["monitor-skipped:unsupported-expression"] = chk.hist.get("monitor-skipped:unsupported-expression", 0) + 1


def _mon_c02_engine(case, verdict, chk):
    """every plugin execution saw exactly the values its expressions denote over what was produced before it started"""
    steps = {s["id"]: s for s in case["wf"]["steps"]}
    for e in step_exec_starts(case):
        s = steps.get(e["src"])
        if s is None:
            continue
        data = produced_at(case, e["seq"])
        for fld in ("input", "wait_for", "enabled"):
            if fld not in s.get("fields", {}):
                continue
            for p, optional, _ in refs(s["fields"][fld]):
                if optional:
                    continue
                # engine-generated stage outputs (starting.started, enabling.resolved, ...) are produced on the engine
                # side slightly before the plugin-side log shows them: require them in the whole log only
                when = data if (len(p) > 2 and p[0] == "steps" and p[2] == "outputs") or p[0] == "input" else produced_at(case)
                try:
                    ev_path(p, when)
                except EvalError:
                    chk.violation("C02:started-before-dependency", "step %s started before %s was produced" % (s["id"], ".".join(p)),
                                  {"kind": "impl-counterexample", "case": slim(case), "step": s["id"], "missing": p})
                    return
        got = got_op_input(e)
        ok = False
        exp = None
        for var in variants(s["fields"].get("input", {"k": "map", "m": {}})):
            try:
                exp = resolve(var, data)
            except EvalError:
                continue
            if matches(exp, got):
                ok = True
                break
        if not ok:
            chk.violation("C02:wrong-input-value", "step %s received %r, its expressions denote %r" % (s["id"], got, exp),
                          {"kind": "impl-counterexample", "case": slim(case), "step": s["id"], "got": repr(got), "expected": repr(exp)})
            return


def mon_c02_deploy(case, verdict, chk):
    """deploy-time expressions: a step with its own `deploy` section is deployed with the configuration its expressions denote
    over THIS run's input and producers (the scripted deployer records the `note` it was created with)."""
    steps = {s["id"]: s for s in case["wf"]["steps"]}
    for e in case.get("log", []):
        if e["ev"] not in ("deploy", "deploy-fail") or not str(e.get("out", "")).startswith("note:"):
            continue
        s = steps.get(e["src"])
        if s is None or "deploy" not in s.get("fields", {}):
            continue
        chk.hist["deploy-expression-checked"] = chk.hist.get("deploy-expression-checked", 0) + 1
        try:
            exp = resolve(s["fields"]["deploy"], produced_at(case, e["seq"]))
        except (EvalError, Unsupported):
            continue
        want = exp.get("note") if isinstance(exp, dict) else None
        got = e["out"][len("note:"):]
        if want is not None and str(want) != got:
            chk.violation("C02:wrong-deploy-value", "step %s was deployed with the configuration note %r, its deploy expressions denote %r%s"
                          % (s["id"], got, want, " (second run of a prepared workflow; the first run's input: %s)" % str((case.get("warm") or {}).get("input"))[:200] if case.get("warm") else ""),
                          {"kind": "impl-counterexample", "case": slim(case), "step": s["id"], "got": got, "expected": str(want)})
            return


def ev_path(p, data):
    v = data
    for k in p:
        if not isinstance(v, dict) or k not in v:
            raise EvalError("missing " + k)
        v = v[k]
    return v


def mon_c04_engine(case, verdict, chk):
    try:
        _mon_c04_engine(case, verdict, chk)
    except Unsupported:
        chk.hist["monitor-skipped:unsupported-expression"] = chk.hist.get("monitor-skipped:unsupported-expression", 0) + 1


def _mon_c04_engine(case, verdict, chk):
    """plugin code runs only for enabled steps all of whose prerequisites were produced"""
    steps = {s["id"]: s for s in case["wf"]["steps"]}
    for e in step_exec_starts(case):
        s = steps.get(e["src"])
        if s is None:
            continue
        data = produced_at(case, e["seq"])
        en = s.get("fields", {}).get("enabled")
        if en is not None:
            try:
                v = resolve(en, data)
            except EvalError:
                v = "unproduced"
            if v is not True and v != "true":
                chk.violation("C04:ran-although-not-enabled", "step %s executed although its enabled condition was %r" % (s["id"], v),
                              {"kind": "impl-counterexample", "case": slim(case), "step": s["id"]})
                return
        # a prerequisite that never happened: the step waits for / reads `starting.started` of a step whose start FAILED (its
        # connection is broken from the first write: it deploys and crashes while being started; its plugin never executes)
        for fld in ("input", "wait_for", "enabled"):
            if fld not in s.get("fields", {}):
                continue
            for p, optional, _ in refs(s["fields"][fld]):
                if optional or len(p) < 4 or p[0] != "steps" or p[2] != "starting" or p[3] != "started":
                    continue
                src = steps.get(p[1]) or {}
                if (case.get("behaviours") or {}).get(src.get("src") or p[1], {}).get("start_fail"):
                    chk.violation("C04:ran-on-started-of-a-step-that-failed-to-start",
                                  "step %s executed although it needs %s and step %s crashed while it was being started (it never started)"
                                  % (s["id"], ".".join(p), p[1]), {"kind": "impl-counterexample", "case": slim(case), "step": s["id"]})
                    return
        si = s.get("fields", {}).get("stop_if")
        if si is not None:
            # the stop condition fired clearly (>= 80 ms) before the plugin was started
            for p, _, _ in refs(si):
                for e2 in case.get("log", []):
                    if e2["ev"] == "exec-end" and e2["src"] == p[1] and e2["seq"] < e["seq"] and e["at_ms"] - e2["at_ms"] >= 80:
                        chk.violation("C04:started-after-stop-condition",
                                      "step %s started %d ms after its stop condition fired" % (s["id"], e["at_ms"] - e2["at_ms"]),
                                      {"kind": "impl-counterexample", "case": slim(case), "step": s["id"]})
                        return


def producible_outputs(case, data):
    out = {}
    for oid, inval in case["wf"]["outputs"].items():
        try:
            out[oid] = [resolve(v, data) for v in variants(inval)]
        except EvalError:
            try:
                out[oid] = [resolve(drop_soft(inval), data)]
            except EvalError:
                pass
    return out


def mon_c03_engine(case, verdict, chk):
    try:
        _mon_c03_engine(case, verdict, chk)
    except Unsupported:
        chk.hist["monitor-skipped:unsupported-expression"] = chk.hist.get("monitor-skipped:unsupported-expression", 0) + 1


def _mon_c03_engine(case, verdict, chk):
    """the returned output is producible from what the steps produced and carries the data its expressions denote"""
    res = case.get("result", {})
    if not res.get("returned") and "panic" not in case and case.get("cancel_after_ms", -1) < 0 \
            and not any(b.get("outcome") == "hang" for b in (case.get("behaviours") or {}).values()):
        # every step ends by itself, so the run has an outcome: an output or an error; it returned neither within 25 s
        chk.violation("C03:no-result", "no step is never-ending, yet Execute returned neither an output nor an error within 25 s",
                      {"kind": "impl-counterexample", "case": slim(case), "dump": case.get("dump")})
        return
    if not res.get("returned") or case.get("cancel_after_ms", -1) >= 0:
        return
    data = produced_at(case)
    prod = producible_outputs(case, data)
    oid = res.get("output_id")
    if oid:
        if oid not in prod:
            chk.violation("C03:returned-unproducible-output", "returned output %s is not producible from the step outcomes" % oid,
                          {"kind": "impl-counterexample", "case": slim(case)})
            return
        got = dec(res.get("data"))
        if not any(matches(exp, got) for exp in prod[oid]):
            chk.violation("C03:wrong-output-data", "output %s carries %r, its expressions denote %r" % (oid, got, prod[oid][0]),
                          {"kind": "impl-counterexample", "case": slim(case)})
        return
    # an error was returned: no declared output may be producible
    hang = any(b.get("outcome") == "hang" for b in case.get("behaviours", {}).values())
    cls = res.get("err_class", "")
    if "evalFailed" in cls or cls == "invalidInput":
        return  # a run-time evaluation failure / invalid input ends the whole run with an error (C07, C19)
    if prod and not hang:
        chk.violation("C03:error-although-output-producible:" + cls,
                      "the run returned error class %s although output(s) %s are producible from the step outcomes" % (cls, sorted(prod)),
                      {"kind": "impl-counterexample", "case": slim(case), "producible": sorted(prod)})


def mon_c01_engine(case, verdict, chk):
    res = case.get("result", {})
    if not res.get("returned") and "panic" not in case:
        chk.violation("C01:execute-did-not-return", "Execute did not return within 25 s",
                      {"kind": "impl-counterexample", "case": slim(case), "dump": case.get("dump")})
    elif res.get("output_id") and res.get("err"):
        chk.violation("C01:output-and-error", "Execute returned an output together with an error",
                      {"kind": "impl-counterexample", "case": slim(case)})
    elif res.get("returned") and not res.get("output_id") and not res.get("err") and "panic" not in case:
        chk.violation("C01:neither-output-nor-error", "Execute returned neither an output nor an error",
                      {"kind": "impl-counterexample", "case": slim(case)})


def no_eval_failure(pid, what):
    """In streams whose generated expressions cannot fail once the outputs they refer to exist (no -evalfail), a run that ends
    with 'cannot resolve expressions' evaluated an expression over data that lacks what it refers to: the stage (or output, or
    optional member) was evaluated before / without its source having been produced."""
    def mon(case, verdict, chk):
        res = case.get("result", {})
        if "evalFailed" in (res.get("err_class") or ""):
            chk.violation(pid + ":evaluated-without-its-source", "%s: the run ended with an evaluation failure although every generated "
                          "expression evaluates once its sources are produced: %s" % (what, (res.get("err") or "")[:300]),
                          {"kind": "impl-counterexample", "case": slim(case)})
    return mon


def both(*mons):
    def mon(case, verdict, chk):
        for m in mons:
            m(case, verdict, chk)
    return mon


def result_shape(pid):
    """a run that returns, returns exactly one of: a declared output, an error (also after the caller cancelled it)"""
    def mon(case, verdict, chk):
        res = case.get("result", {})
        if "panic" in case or not res.get("returned"):
            return
        if res.get("output_id") and res.get("err"):
            chk.violation(pid + ":output-and-error", "Execute returned an output together with an error",
                          {"kind": "impl-counterexample", "case": slim(case)})
        elif not res.get("output_id") and not res.get("err"):
            chk.violation(pid + ":neither-output-nor-error", "Execute returned neither an output nor an error"
                          + (" (the caller had cancelled the run after %s ms)" % case.get("cancel_after_ms") if case.get("cancel_after_ms", -1) >= 0 else ""),
                          {"kind": "impl-counterexample", "case": slim(case)})
    return mon


def mon_c05_engine(case, verdict, chk):
    if case.get("balance", 0) != 0 or case.get("probe_balance", 0) != 0:
        chk.violation("C05:deployment-left-open", "deploy/close balance after the run is %s (probe: %s)" % (case.get("balance"), case.get("probe_balance")),
                      {"kind": "impl-counterexample", "case": slim(case)})
    elif case.get("goroutine_delta", 0) > 0 and case.get("result", {}).get("returned"):
        chk.violation("C05:goroutine-left-running", "%d goroutine(s) still alive 1.5 s after the run returned" % case["goroutine_delta"],
                      {"kind": "impl-counterexample", "case": slim(case), "dump": case.get("leak_dump")})


def mon_c07_engine(case, verdict, chk):
    if "panic" in case:
        chk.violation("C07:panic", "the run panicked: %s" % str(case["panic"])[:200],
                      {"kind": "impl-counterexample", "case": slim(case)})


def mon_c08_engine(case, verdict, chk):
    res = case.get("result", {})
    if "bug" in res.get("err_class", "") or "bug:" in res.get("err", ""):
        chk.violation("C08:bug-error", "internal consistency error: %s" % res.get("err", "")[:200],
                      {"kind": "impl-counterexample", "case": slim(case)})


def mon_c07_evalfail(case, verdict, chk):
    """run-time evaluation failures must end the run with a returned error: no panic, no hang"""
    mon_c07_engine(case, verdict, chk)
    res = case.get("result", {})
    if "panic" not in case and not res.get("returned"):
        chk.violation("C07:no-return-after-evaluation-failure", "the run neither returned nor failed within 25 s",
                      {"kind": "impl-counterexample", "case": slim(case), "dump": case.get("dump")})


def mon_c09_sched(case, verdict, chk, points=None):
    """a pure delay at a synchronisation point must not change the result of a workflow with a single result"""
    funcs = {p["id"]: (p["file"].split("/")[-2], p["func"]) for p in (points or [])}
    for sw in case.get("sweeps", []):
        if sw.get("same"):
            continue
        res = sw.get("result", {})
        pk, fn = funcs.get(sw["point"], ("?", "?"))
        got = res.get("output_id") or res.get("err_class") or "no-return"
        base = case.get("base_key", "").split(":")[0]
        if base == "output" and got == "noMoreSteps":
            fp = "C09:spurious-noMoreSteps:%s.%s" % (pk, fn)
            what = ("a %d ms delay at %s (%s.%s) makes the run fail with 'no steps running...' although it returns %s without the delay"
                    % (case.get("hold_ms", 0), sw["point"], pk, fn, case.get("base_key", "")[:60]))
        else:
            fp = "C09:result-changed:%s.%s:%s->%s" % (pk, fn, base, got)
            what = "a %d ms delay at %s changes the result from %s to %s" % (case.get("hold_ms", 0), sw["point"], case.get("base_key", "")[:60], got)
        chk.violation(fp, what, {"kind": "impl-counterexample", "case": {k: v for k, v in case.items() if k not in ("sweeps", "wf", "log")},
                                 "schedule_plan": [{"id": sw["point"], "nth": sw["nth"], "delay_ms": case.get("hold_ms")}],
                                 "delayed_result": res, "delayed_log": sw.get("log")})


GRACE_MS = 5000
TOLERANCE_MS = 1500


def mon_c06_cancel(case, verdict, chk):
    """after the caller's context is cancelled: return within grace + sum of closure timeouts, every executing plugin is
    signalled (or closed), nothing is left running, and an output returned after the cancel is a genuine one"""
    if case.get("cancel_after_ms", -1) < 0:
        return
    res = case.get("result", {})
    log = case.get("log", [])
    cancel = [e for e in log if e["ev"] == "ctx-cancel"]
    if not res.get("returned"):
        chk.violation("C06:no-return-after-cancel", "Execute did not return after its context was cancelled",
                      {"kind": "impl-counterexample", "case": slim(case), "dump": case.get("dump")})
        return
    result_shape("C06")(case, verdict, chk)
    if not cancel:
        return  # the run finished before the cancellation fired
    cseq = cancel[0]["seq"]
    closure = case.get("closure_ms", {})
    bound = GRACE_MS + sum(closure.values()) + TOLERANCE_MS
    if case.get("after_cancel_ms", 0) > bound:
        chk.violation("C06:cancel-bound-exceeded", "Execute returned %d ms after the cancellation; bound %d ms" % (case["after_cancel_ms"], bound),
                      {"kind": "impl-counterexample", "case": slim(case)})
    beh = case.get("behaviours", {})
    steps = {s["id"]: s for s in case["wf"]["steps"]}
    for sid in steps:
        started = [e for e in log if e["ev"] == "exec-start" and e["src"] == sid and e["seq"] < cseq]
        ended_before = [e for e in log if e["ev"] == "exec-end" and e["src"] == sid and e["seq"] < cseq]
        if started and not ended_before:
            signalled = any(e["ev"] == "cancel-signal" and e["src"] == sid for e in log)
            closed = any(e["ev"] == "close" and e["src"] == sid and e["seq"] > cseq for e in log)
            has_handler = steps[sid].get("step") == "op"
            if has_handler and not signalled and not any(e["ev"] == "exec-end" and e["src"] == sid for e in log):
                chk.violation("C06:running-plugin-not-signalled", "plugin of step %s was executing at cancellation and got no cancel signal" % sid,
                              {"kind": "impl-counterexample", "case": slim(case), "step": sid})
            if not closed:
                chk.violation("C06:running-plugin-not-closed", "plugin of step %s was executing at cancellation and was never closed" % sid,
                              {"kind": "impl-counterexample", "case": slim(case), "step": sid})
    mon_c05_engine(case, verdict, chk)
    if res.get("output_id"):
        # an output returned after the cancellation must be a genuine one.  The plugin-side log determines the step outcomes
        # only for steps whose life was over when the cancellation fired: a step that was deployed, waiting or executing at
        # that moment may end as closed, as crashed (closure timeout) or with the output it was about to produce, and the
        # engine's view may differ from the plugin's (false alarms of the thorough tier: engine-30-27, engine-30-185).
        # The oracle is applied when nothing of any step happens after the cancellation and no step was executing at it.
        alive = [e for e in log if e["seq"] > cseq and e["ev"] in ("deploy", "deploy-fail", "exec-start", "exec-end", "cancel-signal")]
        executing = [sid for sid in steps
                     if [e for e in log if e["ev"] == "exec-start" and e["src"] == sid and e["seq"] < cseq]
                     and not [e for e in log if e["ev"] == "exec-end" and e["src"] == sid and e["seq"] < cseq]]
        if alive or executing:
            chk.hist["c06:output-after-cancel:outcomes-undetermined"] = chk.hist.get("c06:output-after-cancel:outcomes-undetermined", 0) + 1
            return
        chk.hist["c06:output-after-cancel:checked"] = chk.hist.get("c06:output-after-cancel:checked", 0) + 1
        c2 = dict(case, cancel_after_ms=-1)
        try:
            _mon_c03_engine(c2, verdict, chk)
        except Unsupported:
            pass


def mon_c05_probe(case, verdict, chk):
    """the temporary deployments made to read plugin schemas are closed on every path of a parse"""
    if case.get("panic") or case.get("timeout"):
        chk.violation("C05:probe-%s" % ("panic" if case.get("panic") else "timeout"), "preparing a workflow %s in probe failure mode %s" %
                      ("panicked" if case.get("panic") else "did not return", case.get("mode")),
                      {"kind": "impl-counterexample", "case": slim(case)})
    elif case.get("late_events", 0) > 0 or case.get("balance_at_return", 0) != 0:
        chk.violation("C05:probe-deployment-after-return:" + str(case.get("mode")),
                      "Prepare had returned (%s): %d temporary deployment(s) were open at that moment and %d deployment / close event(s) of "
                      "temporary deployments happened afterwards" % (case.get("mode"), case.get("balance_at_return", 0), case.get("late_events", 0)),
                      {"kind": "impl-counterexample", "case": slim(case)})
    elif case.get("probe_balance", 0) != 0:
        chk.violation("C05:probe-deployment-left-open:" + str(case.get("mode")),
                      "after Prepare returned (%s) %d probe deployment(s) are still open" % (case.get("mode"), case["probe_balance"]),
                      {"kind": "impl-counterexample", "case": slim(case)})
    elif case.get("goroutine_delta", 0) > 0:
        chk.violation("C05:probe-goroutine-left:" + str(case.get("mode")), "%d goroutine(s) left after Prepare returned (%s)" %
                      (case["goroutine_delta"], case.get("mode")), {"kind": "impl-counterexample", "case": slim(case)})


def mon_prompt(pid):
    def mon(case, verdict, chk):
        """when no declared output can be produced any more the run must end promptly, whatever unrelated steps do"""
        res = case.get("result", {})
        shape = case.get("shape", "?")
        if not res.get("returned"):
            chk.violation("%s:not-prompt:%s" % (pid, shape),
                          "no declared output is producible any more (%s) but the run keeps waiting for an unrelated, never-ending step" % shape,
                          {"kind": "impl-counterexample", "case": slim(case)})
        elif case.get("expect", "error") == "output":
            if not res.get("output_id"):
                chk.violation("%s:prompt-shape-returned-error:%s" % (pid, shape),
                              "the output is producible once the optional source is settled (%s) but the run ended with an error: %s" % (shape, res.get("err_class")),
                              {"kind": "impl-counterexample", "case": slim(case)})
        elif res.get("output_id"):
            chk.violation("%s:prompt-shape-returned-output:%s" % (pid, shape), "an output was returned although none is producible (%s)" % shape,
                          {"kind": "impl-counterexample", "case": slim(case)})
    return mon


def mon_c15_engine(case, verdict, chk):
    """the tagged members of every plugin input and of the returned output mean what their tags say"""
    before = len(chk.violations)
    for mon in (mon_c02_engine, mon_c03_engine):
        mon(case, verdict, chk)
    for v in chk.violations[before:]:
        v["fingerprint"] = v["fingerprint"].replace("C02:", "C15:").replace("C03:", "C15:")
