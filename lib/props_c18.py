"""C18 — built-in expression functions are total, typed as declared and obey their laws.

Registry entry in the format of `props.PROPS[...]` (merge with `PROPS["C18"] = props_c18.SPEC`) plus the
implementation monitor of the `builtins` stream.  Self-contained: imports nothing from props.py.
"""

T = "Arca.Props.C18."


def _kind(case):
    res = case.get("result") or {}
    if "panic" in res:
        return "panic"
    if "err" in res:
        return "err"
    return "ok"


def _slim(case):
    c = {k: v for k, v in case.items() if k not in ("key",)}
    r = c.get("result") or {}
    if isinstance(r.get("ok"), str) and len(r["ok"]) > 400:
        c["result"] = {"ok": r["ok"][:400] + "...(%d chars)" % len(r["ok"])}
    return c


def mon_c18_builtins(case, verdict, chk):
    """C18 on one real call: no panic, result of the declared (or derived) type, same result when repeated, and the
    Go-side laws (number -> text -> number).  Arguments outside the declared parameter schema (in_schema = false, e.g.
    a verb that does not match the declared pattern) are not subject to the property: they are noted, not reported."""
    if case.get("kind") != "builtin":
        return
    fn = case.get("fn", "?")
    kind = _kind(case)
    tag = "fn:%s:%s%s" % (fn, kind, "" if case.get("in_schema", True) else ":out-of-schema")
    chk.hist[tag] = chk.hist.get(tag, 0) + 1
    for cl in case.get("arg_class") or []:
        t = "arg:" + cl.split("<")[0]
        chk.hist[t] = chk.hist.get(t, 0) + 1
    if not case.get("in_schema", True):
        if kind == "panic":
            note = "outside the property: %s panics for arguments outside its declared schema (args %s): %s" % (
                fn, str(case.get("args"))[:120], str(case["result"]["panic"])[:120])
            if note not in chk.notes and len([n for n in chk.notes if n.startswith("outside the property")]) < 5:
                chk.notes.append(note)
        return
    replay = {"kind": "impl-counterexample", "case": _slim(case),
              "replay_harness": ["builtins", "-fn", fn, "-seed", str(chk.seed)]}
    if kind == "panic":
        chk.violation("C18:panic:" + fn, "built-in %s panicked (or exhausted memory) for arguments of its declared parameter types: %s"
                      % (fn, str(case["result"]["panic"])[:200]), replay)
        return
    if not case.get("typed", False):
        chk.violation("C18:untyped:" + fn, "the result of built-in %s is not a value of its declared output type: %s"
                      % (fn, str(case.get("typed_err"))[:300]), replay)
    if not case.get("deterministic", False):
        chk.violation("C18:nondeterministic:" + fn, "two calls of built-in %s with the same arguments gave different results" % fn,
                      replay)
    if case.get("law_ok") is False:
        chk.violation("C18:law:" + fn, "built-in %s violates the law '%s' (%s)" % (fn, case.get("law"), case.get("law_detail")),
                      replay)


def mon_c18_conc(case, verdict, chk):
    """C18, determinism under concurrent use of the ONE function table: every call made while other goroutines call built-ins
    returns what the same call returned alone (a deterministic function of its arguments has no other input)."""
    if case.get("kind") != "builtin-conc":
        return
    fn = case.get("fn", "?")
    idx = case.get("id", "conc-0-0").split("-")[-1]
    rh = ["builtins-conc", "-n", str(int(idx) + 1), "-skip", idx, "-seed", str(chk.seed)]
    if case.get("crash"):
        chk.violation("C18:crash-under-concurrent-use:" + fn, "concurrent calls of built-in functions crashed the process: %s" % case["crash"][:300],
                      {"kind": "impl-counterexample", "case": _slim(case), "replay_harness": rh})
        return
    tag = "conc:%s:%s" % (fn, "mismatch" if case.get("mismatches") else "ok")
    chk.hist[tag] = chk.hist.get(tag, 0) + 1
    chk.hist["conc:calls"] = chk.hist.get("conc:calls", 0) + int(case.get("calls") or 0)
    if case.get("mismatches"):
        fm = case.get("first_mismatch") or {}
        chk.violation("C18:nondeterministic-under-concurrent-use:" + str(fm.get("fn") or fn),
                      "built-in %s is not a function of its arguments when the function table is used by %d goroutines at once: %d of %d "
                      "concurrent calls returned something else than the same call made alone, e.g. args %s: alone %s, concurrently %s"
                      % (fm.get("fn") or fn, len(case.get("goroutines") or []), case.get("mismatches"), case.get("calls"),
                         str(fm.get("args"))[:200], str(fm.get("alone"))[:160], str(fm.get("concurrent"))[:160]),
                      {"kind": "impl-counterexample", "case": _slim(case), "replay_harness": rh})


def conc_n(tier):
    return 200 if tier == "thorough" else 60


S_CONC = {"name": "builtins-conc",
          "harness": lambda t, s: ["builtins-conc", "-n", str(conc_n(t)), "-seed", str(s + 3), "-tier", t],
          "driver": None, "monitor": mon_c18_conc,
          "nontrivial": lambda c: c.get("kind") == "builtin-conc" and not c.get("skip"),
          "sample": lambda c: {k: c.get(k) for k in ("id", "fn", "iterations", "calls", "mismatches", "wall_ms")}}


_PLAIN = ("small", "ascii", "random", "random-64", "random-bits", "random-exp", "true", "false", "numeric-random", "fmt")


def nontrivial_builtin(case):
    """a case counts as non-trivial when it ends in an error or at least one argument is from a boundary class"""
    if _kind(case) != "ok":
        return True
    for cl in case.get("arg_class") or []:
        last = cl.split(":")[-1]
        if last not in _PLAIN:
            return True
    return False


def sample_builtin(case):
    return {"id": case.get("id"), "fn": case.get("fn"), "args": case.get("args"), "arg_class": case.get("arg_class"),
            "result": case.get("result"), "typed": case.get("typed"), "deterministic": case.get("deterministic")}


def builtins_n(tier):
    return 2000 if tier == "thorough" else 250


SPEC = {
    "module": "Arca.Props.C18",
    "theorems": [
        T + "floatToInt_trunc", T + "floatToInt_monotone", T + "floatToInt_saturates",
        T + "stringToInt_intToString", T + "stringToBool_boolToString",
        T + "split_join", T + "split_count",
        T + "bindConstants_length", T + "bindConstants_get",
        T + "toLower_idempotent", T + "toUpper_idempotent", T + "toLower_idempotent_of", T + "toUpper_idempotent_of",
        T + "intToFloat_exact", T + "floatToInt_intToFloat", T + "floor_spec", T + "ceil_spec", T + "round_spec", T + "abs_spec",
        T + "floatToString_shape_typed",
        T + "builtins_table_pinned", T + "builtins_type_handlers_pinned", T + "bindConstants_keys_pinned",
        T + "builtins_ids_modelled",
    ],
    "pins": [],
    "streams": [
        {"name": "builtins",
         "harness": lambda t, s: ["builtins", "-n", str(builtins_n(t)), "-seed", str(s), "-tier", t],
         "driver": lambda f: ["builtins"],
         "monitor": mon_c18_builtins,
         "nontrivial": nontrivial_builtin,
         "sample": sample_builtin},
        # determinism under concurrent use: 8 goroutines per function, fixed per-goroutine arguments, results compared with the
        # same call made alone
        S_CONC,
    ],
    "rule": ("calls of every function of builtinfunctions.GetFunctions() with argument lists drawn from the declared parameter "
             "schemas (distinct = distinct function id + argument list; non-trivial = the call ends in an error or at least one "
             "argument comes from a boundary class: NaN, infinities, signed zero, subnormals, +-2^63 / +-2^53 neighbourhood, extreme "
             "integers, empty / non-ASCII / invalid UTF-8 / pattern-edge strings, nested or empty lists); readFile and getEnvVar "
             "are called with harmless arguments for the panic / type / determinism checks only; every boundary value of a numeric "
             "parameter (incl. the exact powers 2^24, 2^31, 2^32, 2^53, 2^63, 2^64 and their neighbouring floats, both signs) is used at "
             "least once per function and run; concurrency leg: per function 8 goroutines with fixed per-goroutine arguments, 3 000 / 20 000 "
             "calls each, every result compared with the same call made alone (plus cases mixing functions)"),
}
