"""C08 — accepted workflows are type-sound: every value matches its declared schema.

Registry entry in the format of `props.PROPS[...]` (merge with `PROPS["C08"] = props_c08.SPEC`) plus the implementation
monitors.  Self-contained: imports nothing from props.py / monitors.py.  The `loop` and `engine` streams are the ones
lib/props.py already lists for C08 (their definitions are repeated here so that the entry can replace the old one);
the `typed` stream is new: whole-engine runs in which both real providers are wrapped and EVERY reported stage output,
EVERY provided stage input and the returned workflow output are validated with the real declared schemas
(`vharness typed`, harness/vharness/cmd_typed.go).  It needs no Lean driver (`driver: None`).
"""

T = "Arca.Props.C08."
TI = "Arca.Props.C08Infer."
INFER_PINS = ["infer_infer__OutputSchema", "infer_infer__Scope", "infer_infer__Type", "infer_infer__mapType",
              "infer_infer__objectType", "infer_infer__sliceType", "infer_infer__sliceItemType"]

# the engine-generated outputs (non-dynamic rows of Arca.Expected.declaredRows): each must be validated at least once
# per run of the `typed` stream, otherwise the run says nothing about it (reported as a note, not as a violation)
REQUIRED_TRIPLES = [
    "plugin.deploy_failed.error", "plugin.enabling.resolved", "plugin.starting.started", "plugin.disabled.output",
    "plugin.crashed.error", "plugin.closed.result",
    "foreach.outputs.success", "foreach.failed.error", "foreach.enabling.resolved", "foreach.disabled.output",
    "foreach.closed.result",
]


def _slim(case):
    return {k: v for k, v in case.items() if k not in ("prepared", "wf", "log")}


# ---- monitors ------------------------------------------------------------------------------------------------------------

def mon_c08_engine(case, verdict, chk):
    """the run loop's own consistency checks never fire: no 'bug:' error is returned"""
    res = case.get("result", {}) or {}
    if "bug" in res.get("err_class", "") or "bug:" in res.get("err", ""):
        chk.violation("C08:bug-error", "internal consistency error: %s" % res.get("err", "")[:200],
                      {"kind": "impl-counterexample", "case": _slim(case)})


def mon_c08_typed(case, verdict, chk):
    """C08 on one whole-engine run with validating provider wrappers: every stage output a provider reported conforms
    to the schema its lifecycle declares for (stage, output id), every stage input handed to a step conforms to the
    stage's input schema, the returned output conforms to the workflow's output schema, no 'bug:' error."""
    agg = chk.extra.setdefault("typed_validated", {})
    if case.get("kind") == "typed-summary":
        missing = [t for t in REQUIRED_TRIPLES if not agg.get(t)]
        chk.extra["typed_missing_outputs"] = missing
        if missing:
            chk.notes.append("typed stream: engine-generated outputs never produced in this run (nothing validated): %s" % missing)
        return
    if case.get("kind") != "typed":
        return
    chk.hist["typed-mode:" + case.get("mode", "?")] = chk.hist.get("typed-mode:" + case.get("mode", "?"), 0) + 1
    for k, n in (case.get("triples") or {}).items():
        agg[k] = agg.get(k, 0) + n
        chk.hist["validated-output:" + k] = chk.hist.get("validated-output:" + k, 0) + n
    for k, n in (case.get("inputs") or {}).items():
        chk.hist["validated-input:" + k] = chk.hist.get("validated-input:" + k, 0) + n
    replay = {"kind": "impl-counterexample", "case": _slim(case),
              "replay_harness": ["typed", "-seed", str(case.get("id", "typed-0-0").split("-")[1]), "-n",
                                 str(int(case.get("id", "typed-0-0").split("-")[2]) + 1), "-skip", case.get("id", "typed-0-0").split("-")[2]]}
    for f in case.get("failures") or []:
        where = "%s.%s.%s" % (f.get("provider"), f.get("stage"), f.get("output", ""))
        kind = f.get("kind")
        if kind == "output-violates-schema":
            chk.violation("C08:output-violates-schema:" + where,
                          "step %s reported output %s of stage %s (%s provider, via %s) that its declared schema rejects: %s"
                          % (f.get("step"), f.get("output"), f.get("stage"), f.get("provider"), f.get("via"), str(f.get("err"))[:300]),
                          dict(replay, failure=f))
        elif kind == "stage-input-violates-schema":
            chk.violation("C08:stage-input-violates-schema:" + str(f.get("stage")),
                          "the input handed to stage %s of step %s (%s provider) does not conform to the stage's input schema: %s"
                          % (f.get("stage"), f.get("step"), f.get("provider"), str(f.get("err"))[:300]),
                          dict(replay, failure=f))
        else:  # undeclared-stage | undeclared-output | undeclared-input-stage
            chk.violation("C08:undeclared-output:" + where,
                          "step %s (%s provider) reported %s for stage %s / output %s, which its lifecycle does not declare: %s"
                          % (f.get("step"), f.get("provider"), f.get("via"), f.get("stage"), f.get("output", "-"), str(f.get("err"))[:200]),
                          dict(replay, failure=f))
    res = case.get("result", {}) or {}
    if "bug:" in res.get("err", "") or "bug" in res.get("err_class", ""):
        chk.violation("C08:bug-error", "internal consistency error: %s" % res.get("err", "")[:300], replay)
    if case.get("output_checked") and case.get("output_valid") is not True:
        chk.violation("C08:returned-output-violates-schema:" + str(res.get("output_id")),
                      "the returned workflow output %s does not conform to the workflow's output schema: %s"
                      % (res.get("output_id"), str(case.get("output_err"))[:300]), replay)
    if "panic" in case:
        chk.violation("C08:panic", "the run panicked: %s" % str(case.get("panic"))[:200], replay)


def mon_c08_goapi(case, verdict, chk):
    """workflows built through the Go API with literals of Go types in an output: the output schema is inferred from the
    literal; an accepted workflow returns the literal (no internal consistency error, no altered value, no panic)."""
    if case.get("kind") != "goapi":
        return
    tag = "goapi:%s:%s" % (case.get("go_type"), "accepted" if case.get("accepted") else "refused")
    chk.hist[tag] = chk.hist.get(tag, 0) + 1
    replay = {"kind": "impl-counterexample", "case": case, "replay_harness": ["goapi"]}
    what = "output field %s holding the Go literal %s(%s)" % (case.get("position"), case.get("go_type"), case.get("value"))
    if case.get("panic") or case.get("timeout"):
        chk.violation("C08:panic", "preparing / running a workflow with an %s panicked or hung: %s" % (what, str(case.get("panic"))[:200]), replay)
    elif case.get("accepted") and case.get("err"):
        fp = "C08:bug-error:goapi" if "bug:" in case["err"] else "C08:go-literal-not-returned"
        chk.violation(fp, "Prepare accepted a workflow with an %s; the run failed: %s" % (what, case["err"][:300]), replay)
    elif case.get("accepted") and not case.get("same"):
        chk.violation("C08:go-literal-altered", "an %s was returned as %s" % (what, case.get("returned")), replay)


def mon_c08_infer(case, verdict, chk):
    """schema inference for outputs (internal/infer): the schema the REAL infer.Type infers from a value has to accept that value
    (the real Unserialize, which is what handleOutput applies to the returned output).  The model (Arca.Model.Infer) predicts
    both; `arcadrv infer` reports any disagreement as `diff`.  Where model and code AGREE that the inferred schema rejects its
    own value, the property fails of both: a concrete violation (the literal is the replay)."""
    if case.get("kind") != "infer":
        return
    det = (verdict or {}).get("detail") or {}
    if not isinstance(det, dict):
        det = {}
    tag = "infer:%s" % ("refused" if "infer_err" in case else ("accepted" if case.get("accepted") else "schema-rejects-own-value"))
    chk.hist[tag] = chk.hist.get(tag, 0) + 1
    sh = str(case.get("shape"))
    coarse = sh.split("(")[0].split("/")[0] + ("-of-" + sh.split("(")[1].split("/")[0].split(")")[0] if "(" in sh and not sh.startswith("list()") else "")
    chk.hist["infer-shape:" + coarse] = chk.hist.get("infer-shape:" + coarse, 0) + 1
    if "infer_err" in case or case.get("accepted") is not False:
        return
    replay = {"kind": "impl-counterexample", "case": case, "model": det,
              "replay_harness": ["infer", "-seed", str(case.get("id", "infer-0-0").split("-")[1]), "-n",
                                 str(int(case.get("id", "infer-0-0").split("-")[2]) + 1), "-skip", case.get("id", "infer-0-0").split("-")[2]],
              "meaning": "a workflow whose output (without outputSchema) evaluates to this value is accepted and the run ends with "
                         "'bug: output schema cannot unserialize output data'"}
    if det.get("compared_accept") and det.get("model_accepts") is False and det.get("homog") is False:
        # predicted by the model: the item type of a list is the type of its first item (sliceItemType compares TypeID only)
        chk.violation("C08:inferred-list-item-type-from-first-item",
                      "the schema inferred from %s is %s and rejects the value itself: %s"
                      % (str(case.get("shape")), str(case.get("ty"))[:120], str(case.get("accept_err"))[:200]), replay)
    elif det.get("compared_accept") is False:
        chk.violation("C08:inferred-schema-rejects-own-value:cross-kind",
                      "the schema inferred from %s is %s and rejects the value itself (items of different leaf kinds under one list): %s"
                      % (str(case.get("shape")), str(case.get("ty"))[:120], str(case.get("accept_err"))[:200]), replay)
    # any other rejection is a `diff` of the driver and reported as such


# what a !wait-optional item means in each position of the optlist matrix (scripted step `op` returns s = <input>+<step id>)
OPTLIST_EXPECT = {
    ("list-item", True): "[x+w y+v]", ("list-item", False): "[y+v]",
    ("list-item-last", True): "[y+v x+w]", ("list-item-last", False): "[y+v]",
    ("list-only-item", True): "[x+w]", ("list-only-item", False): "[]",
    ("list-in-list", True): "[[x+w y+v]]", ("list-in-list", False): "[[y+v]]",
    ("map-in-list", True): "[map[j:y+v k:x+w]]", ("map-in-list", False): "[map[j:y+v]]",
    ("list-in-map-field", True): "map[f:[x+w y+v]]", ("list-in-map-field", False): "map[f:[y+v]]",
}


def mon_c08_optlist(case, verdict, chk):
    """optional values as ITEMS of a list (tag x position x source produced or not): the run returns an output that conforms to
    the inferred schema - no internal consistency error, no nil element inside a list"""
    if case.get("kind") != "optlist":
        return
    tag = "optlist:%s:%s:%s" % (case.get("tag"), case.get("position"), "produced" if case.get("source_produced") else "absent")
    chk.hist[tag] = chk.hist.get(tag, 0) + 1
    replay = {"kind": "impl-counterexample", "case": case, "replay_harness": ["optlist"]}
    what = "%s as %s of an output, source %s" % (case.get("tag"), case.get("position"), "produced" if case.get("source_produced") else "not produced")
    if case.get("panic") or case.get("timeout"):
        chk.violation("C08:panic", "a workflow with %s panicked or hung: %s" % (what, str(case.get("panic"))[:200]), replay)
    elif case.get("accepted") and "bug:" in (case.get("err") or "") and case.get("tag") == "literal":
        # a literal list whose items differ in shape: the whole-engine replay of finding F17 (see mon_c08_infer)
        chk.violation("C08:inferred-list-item-type-from-first-item",
                      "Prepare accepted a workflow whose output holds the literal %s; the run failed with an internal consistency error: %s"
                      % (case.get("position"), case["err"][:300]), replay)
    elif case.get("accepted") and "bug:" in (case.get("err") or ""):
        chk.violation("C08:bug-error:optional-list-item", "Prepare accepted a workflow with %s; the run failed with an internal consistency error: %s"
                      % (what, case["err"][:300]), replay)
    elif (case.get("accepted") and case.get("tag") == "!wait-optional" and not case.get("err")
          and (case.get("position"), bool(case.get("source_produced"))) in OPTLIST_EXPECT
          and case.get("returned") != "map[r:%s]" % OPTLIST_EXPECT[(case.get("position"), bool(case.get("source_produced")))]):
        # a !wait-optional item is evaluated after its source has finished one way or the other: present (in its position) exactly
        # when the source was produced, left out otherwise; the other items keep their order (C15's meaning, applied to list items)
        chk.violation("C08:optional-list-item-wrong-value",
                      "a workflow with %s returned %s, expected map[r:%s]"
                      % (what, case.get("returned"), OPTLIST_EXPECT[(case.get("position"), bool(case.get("source_produced")))]), replay)
    elif case.get("accepted") and case.get("nil_element"):
        chk.violation("C08:nil-element-in-list", "a workflow with %s returned a list with a nil element: %s" % (what, case.get("returned")), replay)


# ---- streams ---------------------------------------------------------------------------------------------------------------

def _errcap(facts):
    return str(facts.get("consts", {}).get("workflow.chan.recentErrors", "20"))


def _loop_n(tier):
    return 600 if tier == "thorough" else 120


def _engine_sample(case):
    return {"id": case.get("id"), "workflow_yaml": case.get("yaml", "")[:1200], "behaviours": case.get("behaviours"),
            "input": case.get("input"), "result": case.get("result"), "log_len": len(case.get("log", []))}


def _typed_sample(case):
    return {"id": case.get("id"), "mode": case.get("mode"), "workflow_yaml": case.get("yaml", "")[:1200],
            "files": {k: v[:600] for k, v in (case.get("files") or {}).items()}, "behaviours": case.get("behaviours"),
            "input": case.get("input"), "result": case.get("result"), "validations": case.get("validations"),
            "validated_outputs": case.get("triples"), "validated_inputs": case.get("inputs"), "output_valid": case.get("output_valid")}


def typed_n(tier):
    return 1500 if tier == "thorough" else 150


S_LOOP = {"name": "loop", "harness": lambda t, s: ["loop", "-n", str(_loop_n(t)), "-seed", str(s), "-tier", t],
          "driver": lambda f: ["loop", _errcap(f)], "monitor": None,
          "nontrivial": lambda c: any(o != "success" for o in c.get("outcomes", {}).values())}

S_ENGINE = {"name": "engine",
            "harness": lambda t, s: ["engine", "-n", str(2500 if t == "thorough" else 250), "-seed", str(s + 23), "-tier", t],
            "driver": None, "monitor": mon_c08_engine,
            "nontrivial": lambda c: any(b.get("outcome") != "success" or b.get("deploy_fail") or b.get("start_fail") for b in c.get("behaviours", {}).values())
            or len(c.get("wf", {}).get("steps", [])) > 2,
            "sample": _engine_sample}

S_TYPED = {"name": "typed",
           "harness": lambda t, s: ["typed", "-n", str(typed_n(t)), "-seed", str(s + 31), "-tier", t],
           "driver": None, "monitor": mon_c08_typed,
           # non-trivial: at least one engine-generated (non plugin-data) output was validated besides enabling/starting
           "nontrivial": lambda c: c.get("kind") == "typed" and any(
               k in REQUIRED_TRIPLES and k not in ("plugin.enabling.resolved", "plugin.starting.started")
               for k in (c.get("triples") or {})),
           "sample": _typed_sample}

RUNLOOP_PINS = [
    "workflow_workflow_executableWorkflow_Execute", "workflow_workflow_executableWorkflow_handleOutput",
    "workflow_workflow_loopState_onStageComplete", "workflow_workflow_loopState_markOutputsUnresolvable",
    "workflow_workflow_loopState_markStageNodeUnresolvable", "workflow_workflow_loopState_notifySteps",
    "workflow_workflow_loopState_checkForDeadlocks", "workflow_workflow_loopState_terminateAllSteps",
    "workflow_workflow_loopState_getLastError", "workflow_workflow_loopState_reportError",
]

def mon_c08_evalpos(case, verdict, chk):
    """no 'bug:' consistency error, whatever run-time value reaches whatever position (the C07 fault x source x position
    matrix: valid workflow inputs and step outputs only, so every case is inside C08's quantifier)"""
    res = case.get("result") or {}
    if "bug:" in (res.get("err") or "") or "bug" in (res.get("err_class") or ""):
        chk.violation("C08:bug-error:" + str(case.get("position", "?")), "internal consistency error for a valid input: %s" % (res.get("err") or "")[:300],
                      {"kind": "impl-counterexample", "case": {k: v for k, v in case.items() if k not in ("key",)}})


import props_c07 as _c07
S_EVALPOS = dict(_c07.STREAM, monitor=mon_c08_evalpos)

SPEC = {
    "module": "Arca.Props.C08",
    "theorems": [
        T + "generated_outputs_conform", T + "generated_values_accepted",
        T + "every_declared_engine_output_is_produced_somewhere", T + "every_produced_output_is_declared",
        T + "dynamic_outputs_are_plugin_declared",
        T + "declared_outputs_pinned", T + "produced_outputs_pinned", T + "output_helpers_pinned",
        T + "serializedOutput_pinned", T + "serializedOutput_model",
        T + "messages_key_does_not_conform", T + "missing_required_key_does_not_conform", T + "wrong_kind_does_not_conform",
        T + "struct_output_needs_serialization",
        TI + "inferred_schema_accepts_homogeneous_value_partial", TI + "inferred_object_accepts_fields_partial",
        TI + "list_item_type_is_first_items", TI + "accepted_item_has_same_type_id",
        TI + "inference_refuses_exactly_the_untypable", TI + "typable_homogeneous_value_is_accepted",
        TI + "homogeneous_values_are_compared", TI + "accepted_values_are_compared",
        TI + "inferred_schema_can_reject_its_own_value", TI + "inferred_schema_can_reject_nested_list", TI + "kind_ranges_ordered",
    ],
    "pins": RUNLOOP_PINS + ["workflow_workflow__serializedOutput"] + INFER_PINS,
    "streams": [S_LOOP, S_ENGINE, S_TYPED, S_EVALPOS,
                # workflows built through the Go API: literals of every Go integer / float kind (edges of their ranges), bool,
                # string, as a field, inside a list and inside a map of an output; the schema inferred from a literal accepts it
                {"name": "goapi", "harness": lambda t, s: ["goapi"], "driver": None, "monitor": mon_c08_goapi,
                 "nontrivial": lambda c: bool(c.get("accepted")),
                 "sample": lambda c: {k: c.get(k) for k in ("id", "literal", "go_type", "position", "accepted", "returned", "err")}},
                # schema inference for outputs: the real infer.Type + the real Unserialize of the inferred schema on generated typed
                # literal trees, against Arca.Model.Infer (inferred type in canonical text, acceptance verdict, Scope's root check)
                {"name": "infer", "harness": lambda t, s: ["infer", "-n", str(20000 if t == "thorough" else 3000), "-seed", str(s + 41)],
                 "driver": lambda f: ["infer"], "monitor": mon_c08_infer,
                 "nontrivial": lambda c: c.get("kind") == "infer" and str(c.get("shape", "")).startswith(("list(list", "list(obj", "obj/2", "obj/3", "obj/4")),
                 "sample": lambda c: {k: c.get(k) for k in ("id", "shape", "ty", "accepted", "accept_err", "infer_err")}},
                # optional values as items of a list: fixed matrix tag x position x source produced / absent, real engine
                {"name": "optlist", "harness": lambda t, s: ["optlist"], "driver": None, "monitor": mon_c08_optlist,
                 "nontrivial": lambda c: c.get("kind") == "optlist" and not c.get("source_produced"),
                 "sample": lambda c: {k: c.get(k) for k in ("id", "tag", "position", "source_produced", "returned", "err")}}],
    "rule": ("run-loop histories generated by scripted providers over generated workflows (distinct = distinct workflow text + "
             "event history; non-trivial = at least one step does not end in success); whole-engine runs of generated workflows with "
             "the scripted deployer/plugin (distinct = distinct workflow text + input; non-trivial = some step does not succeed or more "
             "than two steps) - 'bug:' consistency errors and schema failures of the returned output are violations; typed stream: "
             "whole-engine runs with both real providers wrapped by validating proxies: random workflows plus focused ones that drive a "
             "step into crashed / deploy_failed / disabled / enabling / starting / closed (stop condition before the start, caller's "
             "cancellation) and parent workflows with a foreach step over a sub-workflow whose items partly fail, get disabled or are "
             "closed, each referencing the engine-generated output from a workflow output; every reported stage output, every provided "
             "stage input and the returned output are validated with the real declared schemas (distinct = workflow text + "
             "sub-workflow + behaviours + input; non-trivial = an engine-generated output other than enabling.resolved / "
             "starting.started was validated); infer stream: generated trees of typed Go literals (strings, six integer kinds, floats, "
             "bools, nil, slices generated as variations of their first item, string-keyed maps; depth <= 4), the real infer.Type / "
             "Scope and the real Unserialize of the inferred schema against the Lean model (distinct = distinct literal tree; "
             "non-trivial = a list of lists / objects or an object with at least two fields)"),
}
