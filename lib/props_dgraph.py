"""The correspondence stream of the dependency-graph model: Arca.Model.Dgraph (lean/Arca/Model/Dgraph.lean, + DgraphExt.lean for
the part of the library the engine never calls) against the REAL go.arcalot.io/dgraph the engine is built with.

`vharness dgraph` (harness/vharness/cmd_dgraph.go) runs random operation sequences against the library and records every return
class and an observation of the whole graph after every operation; `arcadrv dgraph` (lean/Arca/Driver/Dgraph.lean) runs the same
sequence on the model and compares operation by operation.  A disagreement is reported by the generic correspondence handling of
props.run_check (`<Cxx>:correspondence:dgraph`, the replay holds the operation sequence, the first differing operation and what
both sides say); it means that the theorems about the graph model (Proofs/DgraphInv, DgraphFuel, LoopDag, LoopSafe, Prepare*) no
longer speak about the library the engine is linked with.

To register (props.py, after the registry is built):
    PROPS["C02"]["streams"].append(props_dgraph.S_DGRAPH)
    PROPS["C10"]["streams"].append(props_dgraph.S_DGRAPH)
    PROPS["C02"]["theorems"] += props_dgraph.DGRAPH_THEOREMS      (lean/Arca/Props/C02.lean imports Arca.Proofs.DgraphExt)
"""

# The driver compares the library with the handle layer of Model/DgraphExt.lean (core model + Remove / Disconnect*); these
# theorems (Proofs/DgraphExt.lean, stated for the check in Props/C02.lean) say that on every graph built with the core operations
# only that layer IS the core model: `Graph.Tidy` is kept by every core operation, and on tidy graphs `HGraph.addNode / connect /
# resolve` = `Graph.addNode / connect / resolve`.
DGRAPH_THEOREMS = [
    "Arca.Props.C02.dgraph_check_covers_core_model",
    "Arca.Model.HGraph.agrees_on_built",
    "Arca.Model.Graph.Built.tidy",
    "Arca.Model.Graph.connectOver_eq_connect",
    "Arca.Model.Graph.normRes_eq_self",
]


def dgraph_n(tier):
    return 1000 if tier == "thorough" else 300


def _bump(chk, key, k=1):
    chk.hist[key] = chk.hist.get(key, 0) + k


def mon_dgraph(case, verdict, chk):
    """Counts what the run contained (operation kinds, return classes, shapes, abandoned graphs) for the evidence histogram and
    turns a panic of the library into a note.  A panic of go.arcalot.io/dgraph is not a violation of any property by itself (the
    run loop's reaction to it is C07's business and is modelled: RunLoop `die .. (.panic .dgraphInternal)`); if the sequence that
    led to it uses only operations the engine calls, the note says so."""
    ops = case.get("ops") or []
    _bump(chk, "dgraph:sequences")
    _bump(chk, "dgraph:operations", len(ops))
    _bump(chk, "dgraph:shape:" + str(case.get("shape")) + ("+remove/disconnect" if case.get("ext_used") else ""))
    _bump(chk, "dgraph:graphs-per-sequence:%s" % case.get("n_graphs"))
    if case.get("n_prop", 0) > 0:
        _bump(chk, "dgraph:resolutions-with-dependents", case["n_prop"])
    for i, op in enumerate(ops):
        ret = str(op.get("ret"))
        _bump(chk, "dgraph:op:%s:%s" % (op.get("o"), ret))
        if op.get("o") == "con" and ret == "ok":
            _bump(chk, "dgraph:dependency-type:%s" % op.get("d"))
        if op.get("o") == "res":
            _bump(chk, "dgraph:resolve-status:%s" % op.get("st"))
        if op.get("poison"):
            _bump(chk, "dgraph:graph-abandoned:" + op["poison"])
        if ret.startswith("panic:"):
            _bump(chk, "dgraph:library-panic:" + ret[6:])
            if len([n for n in chk.notes if n.startswith("dgraph: the library panicked")]) < 3:
                chk.notes.append(
                    "dgraph: the library panicked (%s) at operation %d of sequence %s (%s); %s. Operations so far: %s" % (
                        ret[6:], i, case.get("id"), {k: v for k, v in op.items() if k not in ("obs", "obs2")},
                        "the sequence uses only operations the engine calls - the engine could reach this"
                        if op.get("engine_reachable") else "the sequence used Remove / Disconnect*, which the engine never calls",
                        "; ".join(str(case.get("key", "")).split(";")[:i + 1])[:1200]))


def dgraph_sample(case):
    ops = case.get("ops") or []
    return {"id": case.get("id"), "shape": case.get("shape"), "n_operations": len(ops), "n_graphs": case.get("n_graphs"),
            "operations": str(case.get("key", ""))[:900],
            "last_observation": (ops[-1].get("obs") if ops else None)}


S_DGRAPH = {
    "name": "dgraph",
    "harness": lambda t, s: ["dgraph", "-n", str(dgraph_n(t)), "-seed", str(s + 41), "-tier", t],
    "driver": lambda f: ["dgraph"],
    "monitor": mon_dgraph,
    # non-trivial = at least one ResolveNode of a waiting node that has dependents (a resolution with propagation)
    "nontrivial": lambda c: c.get("n_prop", 0) > 0,
    "sample": dgraph_sample,
}

DGRAPH_RULE = (" | dgraph stream: random operation sequences (quick: 300 sequences of 12-60 operations on up to 12 nodes; thorough: "
               "1000 sequences of 12-110 operations on up to 18 nodes) against the real go.arcalot.io/dgraph: AddNode, Connect / "
               "ConnectDependency of every dependency type (also obviated; duplicates, self loops, cycle-closing, unknown nodes, "
               "nodes that already have a status), PushStartingNodes, ResolveNode with every status in every order, PopReadyNodes, "
               "HasReadyNodes, HasCycles, GetNodeByID, Clone (continuing on clone and original, up to 4 graphs), in a quarter of "
               "the sequences Remove / DisconnectInbound / DisconnectOutbound; shapes: engine-like graphs (stage chains, output "
               "nodes, oneof groups with OR dependencies, optional groups, completion dependencies) driven the way the run loop "
               "drives them, the same with arbitrary operations mixed in, random acyclic / cyclic graphs, operations in any order; "
               "after every operation the return class and the whole graph (status, outstanding / resolved dependencies, inbound / "
               "outbound connections per node, ready set, nodes without inbound connections, HasCycles, HasReadyNodes) are compared "
               "with Arca.Model.Graph; distinct = distinct operation sequence; non-trivial = at least one resolution of a waiting "
               "node that has dependents")
