// vinstrument produces schedule-point instrumented copies of Go source files: before every synchronisation
// statement (mutex Lock/Unlock, channel send/receive/select, WaitGroup Add/Done/Wait, go statement, context cancel,
// handler callback) it inserts `vsched.Point("<file>:<line>:<kind>")`. The copies are substituted by `go build
// -overlay`; /repo is never modified. With an empty plan a point is an atomic load and a map-free fast path.
//
// Goroutine starts are synchronisation points too (kind "gostart"): a point is inserted as the FIRST statement of every
// goroutine body, before anything the new goroutine does: for `go func() {...}()` at the top of the function literal
// (id = line of the go statement), for `go x.m(...)` / `go f(...)` whose callee is declared in the same file at the top
// of that function (id = line of the declaration).  Holding it models a goroutine that was created but is scheduled late.
package main

import (
	"bytes"
	"encoding/json"
	"flag"
	"fmt"
	"go/ast"
	"go/format"
	"go/parser"
	"go/token"
	"os"
	"path/filepath"
	"strings"
)

type point struct {
	ID   string `json:"id"`
	File string `json:"file"`
	Line int    `json:"line"`
	Kind string `json:"kind"`
	Func string `json:"func"`
}

func main() {
	repo := flag.String("repo", "/repo", "repository root")
	out := flag.String("out", "", "output directory for instrumented copies")
	overlay := flag.String("overlay", "", "overlay fragment (JSON map original -> copy) to write")
	pointsOut := flag.String("points", "", "JSON list of the inserted points")
	vschedSrc := flag.String("vsched", "", "path of vsched.go to inject as internal/vsched/vsched.go")
	flag.Parse()
	files := flag.Args()
	if *out == "" || len(files) == 0 {
		fmt.Fprintln(os.Stderr, "usage: vinstrument -out DIR [-overlay F] [-points F] rel/path.go ...")
		os.Exit(2)
	}
	_ = os.MkdirAll(*out, 0o755)
	rep := map[string]string{}
	var all []point
	for _, rel := range files {
		src := filepath.Join(*repo, rel)
		fset := token.NewFileSet()
		f, err := parser.ParseFile(fset, src, nil, parser.ParseComments)
		if err != nil {
			fmt.Fprintln(os.Stderr, err)
			os.Exit(1)
		}
		pts := instrument(fset, f, rel)
		all = append(all, pts...)
		addImport(f)
		var buf bytes.Buffer
		if err := format.Node(&buf, fset, f); err != nil {
			fmt.Fprintln(os.Stderr, "format:", err)
			os.Exit(1)
		}
		dst := filepath.Join(*out, strings.ReplaceAll(rel, "/", "__"))
		if err := os.WriteFile(dst, buf.Bytes(), 0o644); err != nil {
			fmt.Fprintln(os.Stderr, err)
			os.Exit(1)
		}
		rep[src] = dst
	}
	if *vschedSrc != "" {
		rep[filepath.Join(*repo, "internal", "vsched", "vsched.go")] = *vschedSrc
	}
	if *overlay != "" {
		b, _ := json.MarshalIndent(rep, "", " ")
		_ = os.WriteFile(*overlay, b, 0o644)
	}
	if *pointsOut != "" {
		b, _ := json.MarshalIndent(all, "", " ")
		_ = os.WriteFile(*pointsOut, b, 0o644)
	}
}

func addImport(f *ast.File) {
	imp := &ast.ImportSpec{Path: &ast.BasicLit{Kind: token.STRING, Value: `"go.flow.arcalot.io/engine/internal/vsched"`}}
	for _, d := range f.Decls {
		if g, ok := d.(*ast.GenDecl); ok && g.Tok == token.IMPORT {
			g.Specs = append(g.Specs, imp)
			return
		}
	}
	f.Decls = append([]ast.Decl{&ast.GenDecl{Tok: token.IMPORT, Specs: []ast.Spec{imp}}}, f.Decls...)
}

func src(fset *token.FileSet, n ast.Node) string {
	var b bytes.Buffer
	_ = format.Node(&b, fset, n)
	return b.String()
}

// kindOf classifies a statement; "" = not a synchronisation statement.
func kindOf(fset *token.FileSet, s ast.Stmt) string {
	switch t := s.(type) {
	case *ast.SendStmt:
		return "send"
	case *ast.SelectStmt:
		return "select"
	case *ast.GoStmt:
		return "go"
	case *ast.ExprStmt:
		return callKind(fset, t.X)
	case *ast.AssignStmt:
		for _, r := range t.Rhs {
			if u, ok := r.(*ast.UnaryExpr); ok && u.Op == token.ARROW {
				return "recv"
			}
			if k := callKind(fset, r); k != "" {
				return k
			}
		}
	case *ast.DeferStmt:
		return ""
	}
	return ""
}

func callKind(fset *token.FileSet, e ast.Expr) string {
	if u, ok := e.(*ast.UnaryExpr); ok && u.Op == token.ARROW {
		return "recv"
	}
	c, ok := e.(*ast.CallExpr)
	if !ok {
		return ""
	}
	fn := src(fset, c.Fun)
	switch {
	case strings.HasSuffix(fn, ".Lock"):
		return "lock"
	case strings.HasSuffix(fn, ".Unlock"):
		return "unlock"
	case strings.HasSuffix(fn, "wg.Wait") || strings.HasSuffix(fn, ".wg.Wait"):
		return "wgwait"
	case strings.HasSuffix(fn, "wg.Add") || strings.HasSuffix(fn, "wg.Done"):
		return "wg"
	case strings.HasSuffix(fn, ".cancel") || fn == "cancel":
		return "cancel"
	case strings.Contains(fn, "stageChangeHandler.On"):
		return "callback"
	case strings.HasSuffix(fn, ".closed.Swap") || strings.HasSuffix(fn, ".closed.Store") || strings.HasSuffix(fn, ".closed.Load"):
		return "atomic"
	case fn == "close":
		return "close"
	case strings.HasSuffix(fn, ".ProvideStageInput") || strings.HasSuffix(fn, ".ForceClose") || strings.HasSuffix(fn, ".Execute") || strings.HasSuffix(fn, ".Deploy"):
		return "call"
	}
	return ""
}

func instrument(fset *token.FileSet, f *ast.File, rel string) []point {
	var pts []point
	// two instrumented files share the name provider.go: the id carries the package directory as well, so that a hold
	// names exactly one place
	base := filepath.Base(filepath.Dir(rel)) + "/" + filepath.Base(rel)
	var curFunc string
	var rewrite func(list []ast.Stmt) []ast.Stmt
	mkAt := func(line int, kind string) ast.Stmt {
		id := fmt.Sprintf("%s:%d:%s", base, line, kind)
		pts = append(pts, point{ID: id, File: rel, Line: line, Kind: kind, Func: curFunc})
		return &ast.ExprStmt{X: &ast.CallExpr{
			Fun:  &ast.SelectorExpr{X: ast.NewIdent("vsched"), Sel: ast.NewIdent("Point")},
			Args: []ast.Expr{&ast.BasicLit{Kind: token.STRING, Value: fmt.Sprintf("%q", id)}},
		}}
	}
	mk := func(s ast.Stmt, kind string) ast.Stmt { return mkAt(fset.Position(s.Pos()).Line, kind) }
	// names of functions / methods of this file that are started as goroutines (`go f(..)`, `go x.m(..)`)
	goCallees := map[string]bool{}
	ast.Inspect(f, func(n ast.Node) bool {
		if g, ok := n.(*ast.GoStmt); ok {
			switch fn := g.Call.Fun.(type) {
			case *ast.Ident:
				goCallees[fn.Name] = true
			case *ast.SelectorExpr:
				goCallees[fn.Sel.Name] = true
			}
		}
		return true
	})
	var walkStmt func(s ast.Stmt)
	rewrite = func(list []ast.Stmt) []ast.Stmt {
		out := make([]ast.Stmt, 0, len(list)*2)
		for _, s := range list {
			if k := kindOf(fset, s); k != "" {
				out = append(out, mk(s, k))
			}
			walkStmt(s)
			out = append(out, s)
		}
		return out
	}
	walkExprFuncLits := func(n ast.Node) {
		ast.Inspect(n, func(x ast.Node) bool {
			if fl, ok := x.(*ast.FuncLit); ok {
				fl.Body.List = rewrite(fl.Body.List)
				return false
			}
			return true
		})
	}
	walkStmt = func(s ast.Stmt) {
		switch t := s.(type) {
		case *ast.BlockStmt:
			t.List = rewrite(t.List)
		case *ast.IfStmt:
			t.Body.List = rewrite(t.Body.List)
			if t.Else != nil {
				walkStmt(t.Else)
			}
		case *ast.ForStmt:
			t.Body.List = rewrite(t.Body.List)
		case *ast.RangeStmt:
			t.Body.List = rewrite(t.Body.List)
		case *ast.SwitchStmt:
			for _, c := range t.Body.List {
				cc := c.(*ast.CaseClause)
				cc.Body = rewrite(cc.Body)
			}
		case *ast.TypeSwitchStmt:
			for _, c := range t.Body.List {
				cc := c.(*ast.CaseClause)
				cc.Body = rewrite(cc.Body)
			}
		case *ast.SelectStmt:
			for _, c := range t.Body.List {
				cc := c.(*ast.CommClause)
				cc.Body = rewrite(cc.Body)
			}
		case *ast.LabeledStmt:
			walkStmt(t.Stmt)
		case *ast.GoStmt:
			walkExprFuncLits(t.Call)
			if fl, ok := t.Call.Fun.(*ast.FuncLit); ok {
				// first statement of the goroutine body, before anything the new goroutine does
				fl.Body.List = append([]ast.Stmt{mkAt(fset.Position(t.Pos()).Line, "gostart")}, fl.Body.List...)
			}
		case *ast.DeferStmt:
			walkExprFuncLits(t.Call)
		case *ast.ExprStmt:
			walkExprFuncLits(t.X)
		case *ast.AssignStmt:
			for _, r := range t.Rhs {
				walkExprFuncLits(r)
			}
		case *ast.ReturnStmt:
			for _, r := range t.Results {
				walkExprFuncLits(r)
			}
		}
	}
	for _, d := range f.Decls {
		fd, ok := d.(*ast.FuncDecl)
		if !ok || fd.Body == nil {
			continue
		}
		curFunc = fd.Name.Name
		fd.Body.List = rewrite(fd.Body.List)
		if goCallees[fd.Name.Name] {
			// the function is started with a go statement in this file: its first statement is a goroutine start
			fd.Body.List = append([]ast.Stmt{mkAt(fset.Position(fd.Pos()).Line, "gostart")}, fd.Body.List...)
		}
	}
	return pts
}
