module verif/instrument

go 1.23
