/-
arcadrv — the model side of the correspondence checks. Reads one JSON case per line on stdin, prints one JSON verdict
per line. `arcadrv <command> [args]`.
-/
import Arca.Driver.Loop
import Arca.Driver.Builtins
import Arca.Driver.Parse
import Arca.Driver.Provider
import Arca.Driver.Prepare
import Arca.Driver.Foreach
import Arca.Driver.EngineApi
import Arca.Driver.Input
import Arca.Driver.Gate
import Arca.Driver.Dgraph
import Arca.Driver.Infer

open Lean (Json)
open Arca.Driver

partial def eachLine (h : IO.FS.Stream) (f : String → IO Unit) : IO Unit := do
  let line ← h.getLine
  if line.isEmpty then return ()
  if line.trimAscii.toString.isEmpty then eachLine h f else
  f line
  eachLine h f

def cmdLoop (args : List String) : IO Unit := do
  let errCap := (args.head? >>= String.toNat?).getD 20
  let stdin ← IO.getStdin
  let stdout ← IO.getStdout
  eachLine stdin fun line => do
    match Json.parse line with
    | .error e => stdout.putStrLn (Json.mkObj [("verdict", "bad-json"), ("detail", e)]).compress
    | .ok c =>
      let out := runLoopCase c errCap noFns
      stdout.putStrLn (Json.mkObj [("id", getStr c "id"), ("verdict", out.verdict), ("detail", out.detail),
        ("illegal_events", out.illegal), ("completeness", out.completeness)]).compress
    stdout.flush

def cmdForeach (_args : List String) : IO Unit := do
  let stdin ← IO.getStdin
  let stdout ← IO.getStdout
  eachLine stdin fun line => do
    match Json.parse line with
    | .error e => stdout.putStrLn (Json.mkObj [("verdict", "bad-json"), ("detail", e)]).compress
    | .ok c =>
      let (verdict, detail) := runForeachCase c
      stdout.putStrLn (Json.mkObj [("id", getStr c "id"), ("verdict", verdict), ("detail", detail)]).compress
    stdout.flush

def main (args : List String) : IO UInt32 := do
  match args with
  | "loop" :: rest => cmdLoop rest; return 0
  | "builtins" :: rest => cmdBuiltins rest; return 0
  | "parse" :: rest => cmdParse rest; return 0
  | "provider" :: rest => cmdProvider rest; return 0
  | "prepare" :: rest => cmdPrepare rest; return 0
  | "foreach" :: rest => cmdForeach rest; return 0
  | "engineapi" :: rest => cmdEngineApi rest; return 0
  | "input" :: rest => cmdInput rest; return 0
  | "gate" :: rest => cmdGate rest; return 0
  | "dgraph" :: rest => cmdDgraph rest; return 0
  | "infer" :: rest => cmdInfer rest; return 0
  | _ => IO.eprintln "usage: arcadrv loop [errCap]"; return 2
