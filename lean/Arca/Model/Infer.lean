/-
`Model.Infer` — schema inference for workflow outputs that carry no declared schema
(`/repo/internal/infer/infer.go`: `Type`, `sliceType`, `sliceItemType`, `objectType`; used by `OutputSchema` / `Scope` for every
output of a workflow without `outputSchema`, `workflow/executor.go`), together with the acceptance relation of the inferred
schema on the value it was inferred from (`handleOutput`, `workflow/workflow.go`: `outputSchema.Unserialize(outputData)`, whose
failure is the internal consistency error "bug: output schema cannot unserialize output data").

Core Lean only: this file is linked into the `arcadrv` executable.

The fragment: literal data (what remains of an output once its expressions are evaluated; an expression leaf has the type the
expression library gives it, which is outside this model).
* `Lit`  — nil, string, integer of a Go kind (carried with the range `infer.Type` attaches to that kind), float, bool,
           slice, map with string keys (`objectType`).  Maps with integer keys (`mapType` proper: reachable through the Go
           API only, YAML keys are strings) are NOT modelled.
* `ITy`  — what `infer.Type` builds: `StringSchema` / `IntSchema(min,max)` / `FloatSchema` / `BoolSchema` without further
           constraints, `ListSchema(item)` without bounds, `ObjectSchema` (unenforced id) whose properties are all required.
* objects are kept in canonical form — fields sorted by key, strictly (Go maps have no duplicate keys; the driver sorts) —
  so "the same key set" is "the same key list", and `acceptsObj` walks the two lists in step.  On canonical objects this is
  what `ObjectSchema.Unserialize` does on an inferred schema: unknown key -> error, missing required property -> error,
  every value converted with the property's type.
* `accepts` is exact for the leaf pairs (`str`,string) (`int`,integer) (`float`,float) (`bool`,bool); the SDK's
  cross-kind conversions (a string schema takes an integer, an int schema takes decimal text, ...) are NOT modelled:
  `leafConsistent` says whether a verdict of `accepts` relied on none of them, and the driver skips the cases that did.

The function modelled statement by statement is `sliceItemType`: the item type of a list is the type inferred for its
FIRST item; later items only have to have the same `TypeID()` (`foundType.TypeID() != types[i].TypeID()`), which for two
objects or two lists says nothing about their properties / item types.
-/
namespace Arca.Model.Infer

mutual
  inductive Lit where
    | null
    | str (s : String)
    | int (lo hi : Int) (i : Int)
    | float
    | bool (b : Bool)
    | list (xs : Lits)
    | obj (fs : Fields)
  inductive Lits where
    | nil
    | cons (x : Lit) (rest : Lits)
  inductive Fields where
    | nil
    | cons (k : String) (v : Lit) (rest : Fields)
end

mutual
  inductive ITy where
    | str
    | int (lo hi : Int)
    | float
    | bool
    | list (item : ITy)
    | obj (props : IProps)
  inductive IProps where
    | nil
    | cons (name : String) (ty : ITy) (rest : IProps)
end

instance : Inhabited Lit := ⟨.null⟩
instance : Inhabited ITy := ⟨.str⟩

/-- `schema.Type.TypeID()` of an inferred type -/
inductive Tid where
  | str | int | float | bool | list | obj
  deriving DecidableEq, Repr

def ITy.tid : ITy → Tid
  | .str => .str
  | .int _ _ => .int
  | .float => .float
  | .bool => .bool
  | .list _ => .list
  | .obj _ => .obj

/-- the ranges `infer.Type` attaches to the Go integer kinds (`reflect.Int8` ... `reflect.Uint`) -/
def kindRange : String → Option (Int × Int)
  | "int8" => some (-128, 127)
  | "int16" => some (-32768, 32767)
  | "int32" => some (-2147483648, 2147483647)
  | "int64" => some (-9223372036854775808, 9223372036854775807)
  | "int" => some (-9223372036854775808, 9223372036854775807)
  | "uint8" => some (0, 255)
  | "uint16" => some (0, 65535)
  | "uint32" => some (0, 4294967295)
  | "uint64" => some (0, 9223372036854775807)
  | "uint" => some (0, 9223372036854775807)
  | _ => none

mutual
  /-- `infer.Type` on literal data; `none` = an error is returned -/
  def infer : Lit → Option ITy
    | .null => none                                   -- "unsupported type for workflow outputs: <nil>"
    | .str _ => some .str
    | .int lo hi _ => some (.int lo hi)
    | .float => some .float
    | .bool _ => some .bool
    | .list xs =>                                       -- sliceType
      match inferItems xs none with
      | none => none
      | some none => some (.list .str)                  -- empty slice: `schema.NewStringSchema(nil, nil, nil)`
      | some (some t) => some (.list t)
    | .obj fs =>                                        -- mapType with string keys -> objectType
      match inferFields fs with
      | none => none
      | some ps => some (.obj ps)
  /-- the loop of `sliceItemType`, `found` being `foundType` (nil = `none`) -/
  def inferItems : Lits → Option ITy → Option (Option ITy)
    | .nil, found => some found
    | .cons x rest, found =>
      match infer x with
      | none => none
      | some t =>
        match found with
        | none => inferItems rest (some t)
        | some f => if f.tid = t.tid then inferItems rest (some f) else none    -- "mismatching types in list"
  def inferFields : Fields → Option IProps
    | .nil => some .nil
    | .cons k v rest =>
      match infer v with
      | none => none
      | some t =>
        match inferFields rest with
        | none => none
        | some ps => some (.cons k t ps)
end

mutual
  /-- does `Unserialize` of the inferred schema succeed on the value (see the header for the fragment) -/
  def accepts : ITy → Lit → Bool
    | .str, .str _ => true
    | .int lo hi, .int _ _ i => decide (lo ≤ i) && decide (i ≤ hi)
    | .float, .float => true
    | .bool, .bool _ => true
    | .list t, .list xs => acceptsAll t xs
    | .obj ps, .obj fs => acceptsObj ps fs
    | _, _ => false
  def acceptsAll (t : ITy) : Lits → Bool
    | .nil => true
    | .cons x rest => accepts t x && acceptsAll t rest
  def acceptsObj : IProps → Fields → Bool
    | .nil, .nil => true
    | .cons n t ps, .cons k v fs => decide (n = k) && accepts t v && acceptsObj ps fs
    | _, _ => false          -- a property without value (missing required) or a value without property (unknown key)
end

mutual
  /-- no verdict of `accepts t v` rests on a cross-kind pair of leaves (which the SDK may convert; not modelled) -/
  def leafConsistent : ITy → Lit → Bool
    | .list t, .list xs => leafConsistentAll t xs
    | .obj ps, .obj fs => leafConsistentObj ps fs
    | t, v =>
      match infer v with
      | some u => decide (t.tid = u.tid)
      | none => true
  def leafConsistentAll (t : ITy) : Lits → Bool
    | .nil => true
    | .cons x rest => leafConsistent t x && leafConsistentAll t rest
  def leafConsistentObj : IProps → Fields → Bool
    | .cons n t ps, .cons k v fs => if n = k then leafConsistent t v && leafConsistentObj ps fs else true
    | _, _ => true
end

mutual
  /-- integers lie in the range of their Go kind -/
  def wf : Lit → Bool
    | .int lo hi i => decide (lo ≤ i) && decide (i ≤ hi)
    | .list xs => wfItems xs
    | .obj fs => wfFields fs
    | _ => true
  def wfItems : Lits → Bool
    | .nil => true
    | .cons x rest => wf x && wfItems rest
  def wfFields : Fields → Bool
    | .nil => true
    | .cons _ v rest => wf v && wfFields rest
end

mutual
  /-- homogeneous: in every list the type inferred for the first item accepts the other items.  This is the condition
  `sliceItemType` does NOT check (it compares `TypeID()` only). -/
  def homog : Lit → Bool
    | .list xs =>
      homogItems xs &&
      (match xs with
       | .nil => true
       | .cons x rest =>
         match infer x with
         | some t => acceptsAll t rest
         | none => true)
    | .obj fs => homogFields fs
    | _ => true
  def homogItems : Lits → Bool
    | .nil => true
    | .cons x rest => homog x && homogItems rest
  def homogFields : Fields → Bool
    | .nil => true
    | .cons _ v rest => homog v && homogFields rest
end

/-! ### when does inference refuse a value? -/

mutual
  /-- the value holds no nil and, in every list, all items have the `TypeID()` of the first.  This is exactly the set of literals
      `infer.Type` accepts (`infer_isSome_iff_typable`). -/
  def typable : Lit → Bool
    | .null => false
    | .list xs => typableItems xs none
    | .obj fs => typableFields fs
    | _ => true
  def typableItems : Lits → Option Tid → Bool
    | .nil, _ => true
    | .cons x rest, found =>
      typable x &&
      (match found with
       | none => typableItems rest (litTid x)
       | some f => (litTid x == some f) && typableItems rest (some f))
  def typableFields : Fields → Bool
    | .nil => true
    | .cons _ v rest => typable v && typableFields rest
  /-- the `TypeID()` of the type that would be inferred, read off the value's head constructor -/
  def litTid : Lit → Option Tid
    | .null => none
    | .str _ => some .str
    | .int _ _ _ => some .int
    | .float => some .float
    | .bool _ => some .bool
    | .list _ => some .list
    | .obj _ => some .obj
end

/-! ### canonical text (shared with the harness: `vharness infer` renders the Go schema the same way) -/

mutual
  def ITy.render : ITy → String
    | .str => "str"
    | .int lo hi => "int[" ++ toString lo ++ "," ++ toString hi ++ "]"
    | .float => "float"
    | .bool => "bool"
    | .list t => "list(" ++ t.render ++ ")"
    | .obj ps => "obj{" ++ ps.render ++ "}"
  def IProps.render : IProps → String
    | .nil => ""
    | .cons n t .nil => n ++ ":" ++ t.render
    | .cons n t rest => n ++ ":" ++ t.render ++ "," ++ rest.render
end

end Arca.Model.Infer
