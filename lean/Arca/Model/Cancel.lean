/-
C06 — logical-time model of what happens after the caller's context is cancelled (workflow.go `Execute`, ctx.Done
branch; plugin provider `runStage` / `ForceClose`).

After the cancellation `Execute` waits for an output, an error or the grace period, while `terminateAllSteps` force-closes
the steps ONE AFTER THE OTHER; `Execute` returns when both are over (`defer wg.Wait()`).  Closing a step that is
executing its plugin sends the cancel signal (if the step has the handler) and waits for the result at most the step's
closure timeout, then force-closes the container; a step without the handler is force-closed at once.  Internal steps
take no time in this model (real scheduling latency is measured, with a tolerance, on the implementation).
-/
namespace Arca.Model.Cancel

structure StepT where
  executing : Bool          -- the plugin is executing when the step is closed
  hasHandler : Bool         -- the step declares the cancel signal
  closureMs : Nat           -- closure_wait_timeout
  respondsIn : Option Nat   -- time the plugin needs to finish after the signal (none = never)
  deriving Repr

/-- time `ForceClose` of one step takes -/
def closeTime (s : StepT) : Nat :=
  if !s.executing then 0
  else if !s.hasHandler then 0
  else match s.respondsIn with
    | some t => min t s.closureMs
    | none => s.closureMs

/-- `terminateAllSteps`: sequential -/
def terminateTime (steps : List StepT) : Nat := (steps.map closeTime).foldl (· + ·) 0

/-- the wait for an output or an error after the cancellation, cut off by the grace period -/
def waitTime (graceMs : Nat) (resultAfter : Option Nat) : Nat :=
  match resultAfter with
  | some t => min t graceMs
  | none => graceMs

/-- time from the cancellation to the return of `Execute`: the wait for output / error / grace and the termination of
    the steps run concurrently, `Execute` returns when both are over -/
def returnTime (graceMs : Nat) (resultAfter : Option Nat) (steps : List StepT) : Nat :=
  max (waitTime graceMs resultAfter) (terminateTime steps)

/-- every step that is executing is signalled (if it has the handler) or closed at once -/
def reached (s : StepT) : Bool := !s.executing || s.hasHandler || closeTime s == 0

end Arca.Model.Cancel
