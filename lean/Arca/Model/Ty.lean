/-
`Model.Ty` — the workflow-input schema fragment and what `Execute` does with the input before anything is started
(`/repo/workflow/workflow.go`, `Execute`: `e.input.Unserialize`, `e.input.Serialize`, `data["input"] = …`; the schema
code itself is `go.flow.arcalot.io/pluginsdk/schema`, a dependency: modelled here as established by the differential
`vharness input | arcadrv input`, not verified).

Core Lean only: this file is linked into the `arcadrv` executable.

The fragment
* `str min max pat`   — `StringSchema`: accepts strings and integers (`%d`); length is counted in BYTES; the pattern
                        language is the small one the generator uses (`Pat`), not general regular expressions;
* `int min max`       — `IntSchema` without units: accepts integers, decimal text (`strconv.ParseInt(s, 10, 64)`) and
                        booleans (1 / 0);
* `bool`              — `BoolSchema`: booleans, the integers 0 / 1, fourteen words compared after `strings.ToLower`;
* `float`             — `FloatSchema` without bounds and units: floats, integers (`float64(i)`), booleans, decimal text.
                        Text is modelled on plain decimals `[+-]digits[.digits]` whose value is a dyadic rational (so no
                        rounding is involved); any other text that could be a Go float literal is `unmodelled`;
* `list item min max` — `ListSchema`;
* `map val`           — `MapSchema` with unconstrained string keys;
* `obj props`         — `ObjectSchema` without struct mapping (what the engine builds from workflow text), also reached
                        through `RefSchema` / `ScopeSchema`, which only delegate.  Unknown keys are rejected, defaults
                        (JSON, decoded type-directed by the harness) are filled in and then converted like given values,
                        `required` is checked afterwards, and an object with exactly one property accepts a non-map
                        value as the value of that property ("inlined" spelling).
Typed floats given to `int`/`str`, units, enums, one-of, `any`, `required_if*`/`conflicts` are outside the fragment.
-/
import Arca.Model.Val
import Arca.Model.Builtins

namespace Arca.Model

inductive CharCls where
  | lower | digit | alnum | word
  deriving DecidableEq, Repr, Inhabited

/-- the pattern language of the generator: `^[cls]+$` / `^[cls]*$` and `^literal` -/
inductive Pat where
  | all (cls : CharCls) (nonEmpty : Bool)
  | pre (p : String)
  deriving Repr, Inhabited

def CharCls.mem (c : Char) : CharCls → Bool
  | .lower => c.isLower
  | .digit => c.isDigit
  | .alnum => c.isAlphanum
  | .word => c.isAlphanum || c == '_' || c == '-'

def Pat.matches (s : String) : Pat → Bool
  | .all cls ne => s.toList.all (fun c => cls.mem c) && (!ne || !s.toList.isEmpty)
  | .pre p => p.toList.isPrefixOf s.toList

mutual
  inductive Ty where
    | str (min max : Option Nat) (pat : Option Pat)
    | int (min max : Option Int)
    | bool
    | float
    | list (item : Ty) (min max : Option Nat)
    | map (val : Ty)
    | obj (props : Props)
  /-- properties in declaration order: name, `required`, default (already JSON-decoded), type -/
  inductive Props where
    | nil
    | cons (name : String) (req : Bool) (dflt : Option Val) (ty : Ty) (rest : Props)
end

instance : Inhabited Ty := ⟨.bool⟩
instance : Inhabited Props := ⟨.nil⟩

inductive TyErr where
  | wrongType
  | constraint
  | unknownField
  | missingRequired
  | unmodelled        -- float text outside the modelled class: the model has no verdict
  deriving DecidableEq, Repr, Inhabited

def Props.hasName (n : String) : Props → Bool
  | .nil => false
  | .cons m _ _ _ rest => n == m || rest.hasName n

def Props.names : Props → List String
  | .nil => []
  | .cons m _ _ _ rest => m :: rest.names

/-- (name, required, default, type) rows, for stating facts about single properties -/
def Props.toList : Props → List (String × Bool × Option Val × Ty)
  | .nil => []
  | .cons n r d t rest => (n, r, d, t) :: rest.toList

/-! ### scalars -/

def lenOk (mn mx : Option Nat) (n : Nat) : Bool :=
  (match mn with | some m => decide (m ≤ n) | none => true) &&
  (match mx with | some m => decide (n ≤ m) | none => true)

def intOk (mn mx : Option Int) (i : Int) : Bool :=
  (match mn with | some m => decide (m ≤ i) | none => true) &&
  (match mx with | some m => decide (i ≤ m) | none => true)

/-- `StringSchema.ValidateType`: `len(data)` is the length in bytes -/
def strOk (mn mx : Option Nat) (pat : Option Pat) (s : String) : Bool :=
  lenOk mn mx s.utf8ByteSize && (match pat with | some p => p.matches s | none => true)

def chkStr (mn mx : Option Nat) (pat : Option Pat) (s : String) : Except TyErr Val :=
  if strOk mn mx pat s then .ok (.str s) else .error .constraint

/-- `StringSchema.Unserialize` = `stringInputMapper` then `ValidateType` -/
def normStr (mn mx : Option Nat) (pat : Option Pat) : Val → Except TyErr Val
  | .str s => chkStr mn mx pat s
  | .int i => chkStr mn mx pat (Builtins.intToString i)
  | _ => .error .wrongType

def chkInt (mn mx : Option Int) (i : Int) : Except TyErr Val :=
  if intOk mn mx i then .ok (.int i) else .error .constraint

/-- `IntSchema.Unserialize` = `intInputMapper` (no units) then `Validate` -/
def normInt (mn mx : Option Int) : Val → Except TyErr Val
  | .int i => chkInt mn mx i
  | .str s => match Builtins.stringToInt s with
    | some i => chkInt mn mx i
    | none => .error .wrongType
  | .bool b => chkInt mn mx (if b then 1 else 0)
  | _ => .error .wrongType

/-- `unicode.ToLower` as far as it can produce an ASCII letter: A–Z, U+0130 (→ i) and U+212A (→ k) -/
def lowerGoChar (c : Char) : Char :=
  if c.toNat = 0x130 then 'i' else if c.toNat = 0x212A then 'k' else if c.toNat < 128 then c.toLower else c

def boolWords : List (String × Bool) :=
  [("1", true), ("yes", true), ("y", true), ("on", true), ("true", true), ("enable", true), ("enabled", true),
   ("0", false), ("no", false), ("n", false), ("off", false), ("false", false), ("disable", false), ("disabled", false)]

/-- `boolStringValues[strings.ToLower(v)]` -/
def schemaBool (s : String) : Option Bool :=
  lookup (String.ofList (s.toList.map lowerGoChar)) boolWords

/-- `BoolSchema.Unserialize` -/
def normBool : Val → Except TyErr Val
  | .bool b => .ok (.bool b)
  | .str s => match schemaBool s with
    | some b => .ok (.bool b)
    | none => .error .wrongType
  | .int i => if i = 1 then .ok (.bool true) else if i = 0 then .ok (.bool false) else .error .wrongType
  | _ => .error .wrongType

inductive FloatText where
  | bits (b : Nat)
  | bad
  | unmodelled
  deriving Repr, Inhabited

/-- characters that can occur in a text `strconv.ParseFloat` accepts -/
def floatAlphabet (c : Char) : Bool :=
  c.isDigit || "+-._eExXpPinfatyINFATYabcdABCD".toList.contains c

/-- `m / 2^k` for `0 < m < 2^53` as a normal double (exact) -/
def encodeDyadic (m k : Nat) : Nat :=
  let l := Nat.log2 m
  (1023 + l - k) * 2 ^ 52 + (m * 2 ^ (52 - l) - 2 ^ 52)

def splitDot : List Char → List Char × Option (List Char)
  | [] => ([], none)
  | '.' :: rest => ([], some rest)
  | c :: rest => let r := splitDot rest; (c :: r.1, r.2)

/-- plain decimals whose value is dyadic: exact, so `ParseFloat`'s rounding does not matter -/
def parseFloatChars (cs : List Char) : FloatText :=
  if cs.isEmpty || !cs.all floatAlphabet then .bad else
  let (neg, body) := match cs with
    | '-' :: r => (true, r)
    | '+' :: r => (false, r)
    | r => (false, r)
  let (ip, fp) := splitDot body
  let frac := fp.getD []
  if ip.isEmpty || !ip.all Char.isDigit || !frac.all Char.isDigit || (fp.isSome && frac.isEmpty) then .unmodelled else
  let k := frac.length
  let n := Nat.ofDigitChars 10 (ip ++ frac) 0
  if k > 64 || n % 5 ^ k != 0 then .unmodelled else
  let m := n / 5 ^ k
  if m = 0 then .bits (Builtins.withSign neg 0)
  else if m < 2 ^ 53 then .bits (Builtins.withSign neg (encodeDyadic m k))
  else .unmodelled

/-- `FloatSchema.Unserialize` (no bounds, no units) -/
def normFloat : Val → Except TyErr Val
  | .float b => .ok (.float b)
  | .int i => .ok (.float (Builtins.intToFloat i))
  | .bool b => .ok (.float (if b then 0x3FF0000000000000 else 0))
  | .str s => match parseFloatChars s.toList with
    | .bits b => .ok (.float b)
    | .bad => .error .wrongType
    | .unmodelled => .error .unmodelled
  | _ => .error .wrongType

/-! ### the structural part -/

/-- `mapM` in `Except`, written out so that it unfolds by `simp` and reduces in the kernel -/
def mapE {α β ε : Type} (f : α → Except ε β) : List α → Except ε (List β)
  | [] => .ok []
  | x :: xs => match f x with
    | .error e => .error e
    | .ok y => match mapE f xs with
      | .error e => .error e
      | .ok ys => .ok (y :: ys)

/-- the value a property takes: the given one, else the default -/
def given (n : String) (dflt : Option Val) (kvs : List (String × Val)) : Option Val :=
  match lookup n kvs with
  | some x => some x
  | none => dflt

mutual
  /-- `Unserialize` followed by the value-level reading of the typed result: the schema-normalised input -/
  def normalise : Ty → Val → Except TyErr Val
    | .str mn mx p, v => normStr mn mx p v
    | .int mn mx, v => normInt mn mx v
    | .bool, v => normBool v
    | .float, v => normFloat v
    | .list item mn mx, v =>
      match v with
      | .list xs =>
        if lenOk mn mx xs.length then
          match mapE (normalise item) xs with
          | .ok ys => .ok (.list ys)
          | .error e => .error e
        else .error .constraint
      | _ => .error .wrongType
    | .map val, v =>
      match v with
      | .map kvs =>
        match mapE (fun kv => match normalise val kv.2 with
            | .ok w => .ok (kv.1, w)
            | .error e => .error e) kvs with
        | .ok out => .ok (.map out)
        | .error e => .error e
      | _ => .error .wrongType
    | .obj ps, v =>
      match v with
      | .map kvs =>
        if kvs.all (fun kv => ps.hasName kv.1) then
          match normProps ps kvs with
          | .ok out => .ok (.map out)
          | .error e => .error e
        else .error .unknownField
      | other =>
        -- `unserializeInlinedDataToMap`: a single-property object given as the bare value of that property
        match ps with
        | .cons n _ _ ty .nil =>
          match normalise ty other with
          | .ok w => .ok (.map [(n, w)])
          | .error e => .error e
        | _ => .error .wrongType
  /-- `convertData` + `validateFieldInterdependencies` (required only), in declaration order -/
  def normProps : Props → List (String × Val) → Except TyErr (List (String × Val))
    | .nil, _ => .ok []
    | .cons n req dflt ty rest, kvs =>
      match given n dflt kvs with
      | some x =>
        match normalise ty x with
        | .error e => .error e
        | .ok w =>
          match normProps rest kvs with
          | .error e => .error e
          | .ok out => .ok ((n, w) :: out)
      | none => if req then .error .missingRequired else normProps rest kvs
end

def tyOk {ε α : Type} : Except ε α → Bool
  | .ok _ => true
  | .error _ => false

mutual
  /-- the accept predicate of the schema, stated directly (no value is built) -/
  def valid : Ty → Val → Bool
    | .str mn mx p, v => tyOk (normStr mn mx p v)
    | .int mn mx, v => tyOk (normInt mn mx v)
    | .bool, v => tyOk (normBool v)
    | .float, v => tyOk (normFloat v)
    | .list item mn mx, v =>
      match v with
      | .list xs => lenOk mn mx xs.length && xs.all (valid item)
      | _ => false
    | .map val, v =>
      match v with
      | .map kvs => kvs.all (fun kv => valid val kv.2)
      | _ => false
    | .obj ps, v =>
      match v with
      | .map kvs => kvs.all (fun kv => ps.hasName kv.1) && validProps ps kvs
      | other =>
        match ps with
        | .cons _ _ _ ty .nil => valid ty other
        | _ => false
  def validProps : Props → List (String × Val) → Bool
    | .nil, _ => true
    | .cons n req dflt ty rest, kvs =>
      (match given n dflt kvs with
       | some x => valid ty x
       | none => !req) && validProps rest kvs
end

mutual
  /-- the strictly typed form: what a normalised value looks like.  Every scalar has the type of its schema, lists and
      maps conform item-wise, an object lists its properties in declaration order, each at most once, and a property is
      absent only if it is optional AND has no default. -/
  def conforms : Ty → Val → Bool
    | .str mn mx p, v => match v with
      | .str s => strOk mn mx p s
      | _ => false
    | .int mn mx, v => match v with
      | .int i => intOk mn mx i
      | _ => false
    | .bool, v => match v with
      | .bool _ => true
      | _ => false
    | .float, v => match v with
      | .float _ => true
      | _ => false
    | .list item mn mx, v => match v with
      | .list xs => lenOk mn mx xs.length && xs.all (conforms item)
      | _ => false
    | .map val, v => match v with
      | .map kvs => kvs.all (fun kv => conforms val kv.2)
      | _ => false
    | .obj ps, v => match v with
      | .map kvs => conformsProps ps kvs
      | _ => false
  def conformsProps : Props → List (String × Val) → Bool
    | .nil, kvs => kvs.isEmpty
    | .cons n req dflt ty rest, kvs =>
      match kvs with
      | (k, x) :: tl =>
        if k = n then conforms ty x && conformsProps rest tl
        else (!req && dflt.isNone) && conformsProps rest kvs
      | [] => (!req && dflt.isNone) && conformsProps rest []
end

mutual
  /-- well-formed schema: property names of an object are pairwise distinct (they are the keys of a Go map) -/
  def Ty.wf : Ty → Bool
    | .list item _ _ => item.wf
    | .map val => val.wf
    | .obj ps => ps.wf
    | _ => true
  def Props.wf : Props → Bool
    | .nil => true
    | .cons n _ _ ty rest => !rest.hasName n && ty.wf && rest.wf
end

/-! ### `Execute`'s prologue -/

/-- `Serialize` on the fragment: re-validates the typed value and returns its serialized form, which for this fragment is
    the same `Val` (typed slices / maps become `[]any` / `map[any]any` / `map[string]any`: no change at the value level) -/
def serialise (t : Ty) (w : Val) : Except TyErr Val :=
  if conforms t w then .ok w else .error .constraint

/-- what `Execute` stores in `data["input"]`: `Unserialize`, then `Serialize` of the result -/
def executeInput (t : Ty) (v : Val) : Except TyErr Val :=
  match normalise t v with
  | .error e => .error e
  | .ok w => serialise t w

inductive PrologueAction where
  | validate
  | startStep (i : Nat)
  | returnError
  deriving DecidableEq, Repr, Inhabited

def PrologueAction.isStart : PrologueAction → Bool
  | .startStep _ => true
  | _ => false

/-- the part of `Execute` up to and including the loop that starts the steps, in the statement order fixed by the pin
    `Arca.Pins.workflow_workflow_executableWorkflow_Execute`: `e.input.Unserialize` / `e.input.Serialize` with an early
    `return` on failure, and only then `for … range e.runnableSteps { … runnableStep.Start(…) … }` (`nSteps` = the number
    of runnable steps; Go's map order of the loop is immaterial for the statements made about this list). -/
def executePrologue (t : Ty) (v : Val) (nSteps : Nat) : List PrologueAction :=
  .validate ::
    (match executeInput t v with
     | .error _ => [.returnError]
     | .ok _ => (List.range nSteps).map .startStep)

end Arca.Model
