/-
Lockset: a tiny trace model of the Go happens-before relation, just large enough for the lockset argument of C17.

A trace is the list of synchronisation-relevant events of one execution in the order in which they took effect:
`acq t m` / `rel t m` (thread `t` returns from `m.Lock()` / calls `m.Unlock()`), `read t x` / `write t x` (thread `t`
reads / writes location `x`).  Happens-before is the transitive closure of
  * program order: two events of the same thread, in trace order;
  * synchronises-with: a release of mutex `m` and any later acquire of `m`
    (Go memory model: "for any sync.Mutex l and n < m, call n of l.Unlock() is synchronized before call m of l.Lock() returns").
A trace is well formed when a mutex is acquired only while free and released only by its holder.

`lockset_sound`: in a well-formed trace two accesses by different threads that are both made while holding one common
mutex are ordered by happens-before — hence they are not a data race.  Proved by induction over the trace.

Core Lean only.  Atomics, channels, wait groups, `go` statements and context cancellation are NOT modelled: accesses that
rely on them are the explicit exceptions of Props/C17.lean and are validated with the race detector only.
-/
namespace Arca.Model.Lockset

abbrev Tid := Nat
abbrev Mid := Nat
abbrev Loc := Nat

inductive Ev where
  | acq (t : Tid) (m : Mid)
  | rel (t : Tid) (m : Mid)
  | read (t : Tid) (x : Loc)
  | write (t : Tid) (x : Loc)
  deriving DecidableEq, Repr

abbrev Trace := List Ev

def Ev.tid : Ev → Tid
  | .acq t _ => t
  | .rel t _ => t
  | .read t _ => t
  | .write t _ => t

/-- `e` is a read or a write of location `x` by thread `t` -/
def Ev.accesses (e : Ev) (t : Tid) (x : Loc) : Prop := e = .read t x ∨ e = .write t x

/-- who holds which mutex -/
abbrev Holders := Mid → Option Tid

def noHolders : Holders := fun _ => none

def stepH (h : Holders) : Ev → Holders
  | .acq t m => fun m' => if m' = m then some t else h m'
  | .rel _ m => fun m' => if m' = m then none else h m'
  | _ => h

def runH (h : Holders) : Trace → Holders
  | [] => h
  | e :: es => runH (stepH h e) es

/-- may `e` happen in holder state `h`: acquire only a free mutex, release only a mutex one holds -/
def okEv (h : Holders) : Ev → Prop
  | .acq _ m => h m = none
  | .rel t m => h m = some t
  | _ => True

def WFfrom (h : Holders) : Trace → Prop
  | [] => True
  | e :: es => okEv h e ∧ WFfrom (stepH h e) es

/-- well-formed trace (all mutexes free at the start) -/
def WF (tr : Trace) : Prop := WFfrom noHolders tr

/-- thread `t` holds mutex `m` when the `i`-th event of `tr` happens -/
def holdsAt (tr : Trace) (i : Nat) (t : Tid) (m : Mid) : Prop := runH noHolders (tr.take i) m = some t

/-- happens-before between positions of a trace -/
inductive HB (tr : Trace) : Nat → Nat → Prop where
  | po {i j : Nat} {e₁ e₂ : Ev} : i < j → tr[i]? = some e₁ → tr[j]? = some e₂ → e₁.tid = e₂.tid → HB tr i j
  | sw {i j : Nat} {t₁ t₂ : Tid} {m : Mid} : i < j → tr[i]? = some (.rel t₁ m) → tr[j]? = some (.acq t₂ m) → HB tr i j
  | trans {i j k : Nat} : HB tr i j → HB tr j k → HB tr i k

/-- a data race: two accesses of one location by different threads, at least one a write, unordered -/
def Race (tr : Trace) (i j : Nat) : Prop :=
  ∃ t₁ t₂ x e₁ e₂, tr[i]? = some e₁ ∧ tr[j]? = some e₂ ∧ e₁.accesses t₁ x ∧ e₂.accesses t₂ x ∧ t₁ ≠ t₂ ∧
    (e₁ = .write t₁ x ∨ e₂ = .write t₂ x) ∧ ¬ HB tr i j ∧ ¬ HB tr j i

theorem HB.lt {tr : Trace} {i j : Nat} (h : HB tr i j) : i < j := by
  induction h with
  | po h _ _ _ => exact h
  | sw h _ _ => exact h
  | trans _ _ ih₁ ih₂ => exact Nat.lt_trans ih₁ ih₂

/-! ### holder bookkeeping -/

theorem runH_append (h : Holders) (xs ys : Trace) : runH h (xs ++ ys) = runH (runH h xs) ys := by
  induction xs generalizing h with
  | nil => rfl
  | cons e es ih => simp [runH, ih]

theorem WFfrom_append (h : Holders) (xs ys : Trace) (hw : WFfrom h (xs ++ ys)) : WFfrom (runH h xs) ys := by
  induction xs generalizing h with
  | nil => exact hw
  | cons e es ih => exact ih _ hw.2

/-- only `acq t m` makes `t` the holder of `m` -/
theorem stepH_becomes {h : Holders} {e : Ev} {m : Mid} {t : Tid} (hn : h m ≠ some t) (hs : stepH h e m = some t) :
    e = .acq t m := by
  cases e with
  | acq t' m' =>
    by_cases hm : m = m'
    · subst hm; simp [stepH] at hs; subst hs; rfl
    · simp [stepH, hm] at hs; exact absurd hs hn
  | rel t' m' =>
    by_cases hm : m = m'
    · subst hm; simp [stepH] at hs
    · simp [stepH, hm] at hs; exact absurd hs hn
  | read _ _ => exact absurd hs hn
  | write _ _ => exact absurd hs hn

/-- in a well-formed step the holder of `m` loses it only by its own `rel` -/
theorem stepH_keeps {h : Holders} {e : Ev} {m : Mid} {t : Tid} (hh : h m = some t) (hok : okEv h e) (hne : e ≠ .rel t m) :
    stepH h e m = some t := by
  cases e with
  | acq t' m' =>
    by_cases hm : m = m'
    · subst hm; simp [okEv, hh] at hok
    · simp [stepH, hm, hh]
  | rel t' m' =>
    by_cases hm : m = m'
    · subst hm
      simp [okEv, hh] at hok
      subst hok
      exact absurd rfl hne
    · simp [stepH, hm, hh]
  | read _ _ => exact hh
  | write _ _ => exact hh

/-- if `t` does not hold `m` now but does after `n` more events, one of them is `acq t m` -/
theorem acquire_found (es : Trace) (h : Holders) (n : Nat) (m : Mid) (t : Tid)
    (hn : h m ≠ some t) (hr : runH h (es.take n) m = some t) :
    ∃ a, a < n ∧ es[a]? = some (.acq t m) := by
  induction es generalizing h n with
  | nil => simp [runH] at hr; exact absurd hr hn
  | cons e es ih =>
    cases n with
    | zero => simp [runH] at hr; exact absurd hr hn
    | succ n =>
      simp only [List.take_succ_cons, runH] at hr
      by_cases hs : stepH h e m = some t
      · exact ⟨0, Nat.succ_pos n, by simp [stepH_becomes hn hs]⟩
      · obtain ⟨a, ha, hget⟩ := ih (stepH h e) n hs hr
        exact ⟨a + 1, Nat.succ_lt_succ ha, by simpa using hget⟩

/-- if `t₁` holds `m` now and another thread `t₂` holds it after `n` more events of a well-formed trace, then `t₁`
    released `m` and `t₂` acquired it afterwards, both within those `n` events -/
theorem handover_found (es : Trace) (h : Holders) (n : Nat) (m : Mid) (t₁ t₂ : Tid)
    (hw : WFfrom h es) (hh : h m = some t₁) (hne : t₁ ≠ t₂) (hr : runH h (es.take n) m = some t₂) :
    ∃ k a, k < a ∧ a < n ∧ es[k]? = some (.rel t₁ m) ∧ es[a]? = some (.acq t₂ m) := by
  induction es generalizing h n with
  | nil =>
    simp [runH, hh] at hr; exact absurd hr hne
  | cons e es ih =>
    cases n with
    | zero => simp [runH, hh] at hr; exact absurd hr hne
    | succ n =>
      simp only [List.take_succ_cons, runH] at hr
      by_cases he : e = .rel t₁ m
      · subst he
        have hfree : stepH h (.rel t₁ m) m ≠ some t₂ := by simp [stepH]
        obtain ⟨a, ha, hget⟩ := acquire_found es _ n m t₂ hfree hr
        exact ⟨0, a + 1, Nat.succ_pos a, Nat.succ_lt_succ ha, by simp, by simpa using hget⟩
      · have hkeep := stepH_keeps hh hw.1 he
        obtain ⟨k, a, hka, han, hk, hacq⟩ := ih (stepH h e) n hw.2 hkeep hr
        exact ⟨k + 1, a + 1, Nat.succ_lt_succ hka, Nat.succ_lt_succ han, by simpa using hk, by simpa using hacq⟩

/-! ### the lockset theorem -/

/-- Two accesses by different threads, both made while holding the common mutex `m`, are ordered by happens-before:
    the earlier thread's release of `m` synchronises with the later thread's acquire. -/
theorem lockset_sound (tr : Trace) (hw : WF tr) (i j : Nat) (hij : i < j) (t₁ t₂ : Tid) (x : Loc) (m : Mid)
    (e₁ e₂ : Ev) (hi : tr[i]? = some e₁) (hj : tr[j]? = some e₂)
    (ha₁ : e₁.accesses t₁ x) (ha₂ : e₂.accesses t₂ x) (hne : t₁ ≠ t₂)
    (hl₁ : holdsAt tr i t₁ m) (hl₂ : holdsAt tr j t₂ m) : HB tr i j := by
  -- split the trace at i
  have hsplit : tr = tr.take i ++ tr.drop i := (List.take_append_drop i tr).symm
  have hwS : WFfrom (runH noHolders (tr.take i)) (tr.drop i) := by
    have : WFfrom noHolders (tr.take i ++ tr.drop i) := by rw [← hsplit]; exact hw
    exact WFfrom_append _ _ _ this
  have htake : tr.take j = tr.take i ++ (tr.drop i).take (j - i) := by
    have h1 : tr.take j = (tr.take i ++ tr.drop i).take j := by rw [← hsplit]
    rw [h1, List.take_append]
    have hlen : i ≤ tr.length := by
      have := (List.getElem?_eq_some_iff.mp hi).1; omega
    have h2 : (tr.take i).length = i := by simp [List.length_take, Nat.min_eq_left hlen]
    rw [h2, List.take_take, Nat.min_eq_right (Nat.le_of_lt hij)]
  have hrun : runH (runH noHolders (tr.take i)) ((tr.drop i).take (j - i)) m = some t₂ := by
    have := hl₂; unfold holdsAt at this; rw [htake, runH_append] at this; exact this
  obtain ⟨k, a, hka, haj, hk, hacq⟩ := handover_found (tr.drop i) _ (j - i) m t₁ t₂ hwS hl₁ hne hrun
  have hk' : tr[i + k]? = some (.rel t₁ m) := by simpa [List.getElem?_drop] using hk
  have hacq' : tr[i + a]? = some (.acq t₂ m) := by simpa [List.getElem?_drop] using hacq
  -- the release is not the access itself
  have hk0 : 0 < k := by
    cases k with
    | zero =>
      simp at hk'
      rw [hi] at hk'
      have : e₁ = .rel t₁ m := Option.some.inj hk'
      rcases ha₁ with h | h <;> rw [h] at this <;> cases this
    | succ k => exact Nat.succ_pos k
  have htid₁ : e₁.tid = t₁ := by rcases ha₁ with h | h <;> simp [h, Ev.tid]
  have htid₂ : e₂.tid = t₂ := by rcases ha₂ with h | h <;> simp [h, Ev.tid]
  have s1 : HB tr i (i + k) := HB.po (by omega) hi hk' (by rw [htid₁]; rfl)
  have s2 : HB tr (i + k) (i + a) := HB.sw (by omega) hk' hacq'
  have s3 : HB tr (i + a) j := HB.po (by omega) hacq' hj (by rw [htid₂]; rfl)
  exact HB.trans s1 (HB.trans s2 s3)

/-- the same for either trace order, including two accesses of one thread (program order) -/
theorem locked_accesses_ordered (tr : Trace) (hw : WF tr) (i j : Nat) (hij : i ≠ j) (t₁ t₂ : Tid) (x : Loc) (m : Mid)
    (e₁ e₂ : Ev) (hi : tr[i]? = some e₁) (hj : tr[j]? = some e₂)
    (ha₁ : e₁.accesses t₁ x) (ha₂ : e₂.accesses t₂ x)
    (hl₁ : holdsAt tr i t₁ m) (hl₂ : holdsAt tr j t₂ m) : HB tr i j ∨ HB tr j i := by
  have htid₁ : e₁.tid = t₁ := by rcases ha₁ with h | h <;> simp [h, Ev.tid]
  have htid₂ : e₂.tid = t₂ := by rcases ha₂ with h | h <;> simp [h, Ev.tid]
  by_cases hne : t₁ = t₂
  · rcases Nat.lt_or_gt_of_ne hij with h | h
    · exact Or.inl (HB.po h hi hj (by rw [htid₁, htid₂, hne]))
    · exact Or.inr (HB.po h hj hi (by rw [htid₁, htid₂, hne]))
  · rcases Nat.lt_or_gt_of_ne hij with h | h
    · exact Or.inl (lockset_sound tr hw i j h t₁ t₂ x m e₁ e₂ hi hj ha₁ ha₂ hne hl₁ hl₂)
    · exact Or.inr (lockset_sound tr hw j i h t₂ t₁ x m e₂ e₁ hj hi ha₂ ha₁ (Ne.symm hne) hl₂ hl₁)

/-- Lockset discipline: if every access of location `x` in a well-formed trace is made while holding `m`, there is no
    data race on `x`. -/
theorem lockset_discipline_race_free (tr : Trace) (hw : WF tr) (x : Loc) (m : Mid)
    (hd : ∀ i t e, tr[i]? = some e → e.accesses t x → holdsAt tr i t m) :
    ∀ i j, ¬ (Race tr i j ∧ ∃ t e, tr[i]? = some e ∧ e.accesses t x) := by
  intro i j ⟨⟨t₁, t₂, y, e₁, e₂, hi, hj, ha₁, ha₂, hne, _, hn₁, hn₂⟩, t, e, hi', hax⟩
  -- the raced location is x
  have he : e = e₁ := Option.some.inj (hi'.symm.trans hi)
  subst he
  have hxy : y = x ∧ t₁ = t := by
    rcases ha₁ with h | h <;> rcases hax with h' | h' <;> rw [h] at h' <;> cases h' <;> exact ⟨rfl, rfl⟩
  obtain ⟨hy, ht⟩ := hxy
  subst hy; subst ht
  have hij : i ≠ j := by
    intro h; subst h
    have : e = e₂ := Option.some.inj (hi.symm.trans hj)
    subst this
    have : t₁ = t₂ := by
      rcases ha₁ with h | h <;> rcases ha₂ with h' | h' <;> rw [h] at h' <;> cases h' <;> rfl
    exact hne this
  rcases locked_accesses_ordered tr hw i j hij t₁ t₂ y m e e₂ hi hj ha₁ ha₂ (hd i t₁ e hi ha₁) (hd j t₂ e₂ hj ha₂) with h | h
  · exact hn₁ h
  · exact hn₂ h

/-! ### non-vacuity -/

/-- two unlocked writes of different threads are NOT ordered: the relation is not trivially total -/
theorem unlocked_writes_race : Race [.write 1 0, .write 2 0] 0 1 := by
  have none : ∀ i j, HB [Ev.write 1 0, Ev.write 2 0] i j → False := by
    intro i j h
    induction h with
    | @po i j e₁ e₂ hlt h₁ h₂ ht =>
      have hj : j < 2 := by
        have := (List.getElem?_eq_some_iff.mp h₂).1; simpa using this
      have hi0 : i = 0 := by omega
      have hj1 : j = 1 := by omega
      subst hi0; subst hj1
      simp at h₁ h₂
      subst h₁; subst h₂
      simp [Ev.tid] at ht
    | @sw i j t₁ t₂ m hlt h₁ h₂ =>
      have hi : i < 2 := by
        have := (List.getElem?_eq_some_iff.mp h₁).1; simpa using this
      have : i = 0 ∨ i = 1 := by omega
      rcases this with h | h <;> subst h <;> simp at h₁
    | trans _ _ ih _ => exact ih
  exact ⟨1, 2, 0, .write 1 0, .write 2 0, rfl, rfl, Or.inr rfl, Or.inr rfl, by decide, Or.inl rfl,
    fun h => none _ _ h, fun h => none _ _ h⟩

/-- the same two writes under one mutex: well formed, both hold the mutex, hence ordered -/
def demo : Trace := [.acq 1 7, .write 1 0, .rel 1 7, .acq 2 7, .write 2 0, .rel 2 7]

theorem demo_wf : WF demo := by
  simp [WF, demo, WFfrom, okEv, stepH, noHolders]

theorem demo_ordered : HB demo 1 4 :=
  lockset_sound demo demo_wf 1 4 (by decide) 1 2 0 7 (.write 1 0) (.write 2 0) rfl rfl (Or.inr rfl) (Or.inr rfl)
    (by decide) (by simp [holdsAt, demo, runH, stepH]) (by simp [holdsAt, demo, runH, stepH])

end Arca.Model.Lockset
