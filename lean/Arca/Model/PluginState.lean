/-
The `State()` / `CurrentStage()` side of the plugin provider (`internal/step/plugin/provider.go`), for property C09.

The engine's fallback deadlock detector (`workflow.go`, `checkForDeadlocks`) polls `State()` of every step and fires
when no step is `starting` or `running` (and nothing is ready in the DAG) on `detectorRetries + 1` consecutive polls.
Whether that is sound depends on WHEN `run()` and the `provide*` handlers write `r.state`.  This file models exactly
that, at the granularity at which another goroutine can observe it: every lock region of `run()` and every callback is
one move; a `provide*` handler (which runs entirely under `r.lock`) is one move.

Program counter = "what `run()` does next".  The lock regions and callbacks modelled, in source order:

  deployStage   dLock        lock{ state := running; read deployInputAvailable }
                dCb          OnStageChange(nil -> deploy)
                dTry         first, non-blocking `select` on deployInput
                dGotEarly    (received)  lock{ state := running }
                dSetWaiting  (default)   lock{ state := waiting_for_input }
                dWait        blocking `select { <-deployInput | <-ctx.Done() }`
                dGotLate     (received)  lock{ state := running }
                dDeploying   deployer Create / Deploy            (environment: deployOk | deployFail)
  startPlugin   spCheck      lock{ select ctx.Done -> closedEarly(enabling,false) | default -> container := .. }
  enableStage   eLock        lock{ currentStage := enabling; read enabledInputAvailable; state := waiting_for_input }
                eCb          OnStageChange(deploy -> enabling)
                eWait        `select { <-enabledInput | <-ctx.Done() }`
                eGotTrue     (enabled) OnStepStageFailure(disabled)          -- no state write
  startStage    sTry         NewClient, lock{ atpClient := .. }, non-blocking receive of runInput (decides newState)
                transLock starting newState / transCb starting              -- transitionStageWithOutput
                sCheck       (no early input) lock{ read state }
                sWait        `select { <-runInput | <-ctx.Done() }`
                sGotLate     (received)  lock{ state := running }
                sSchema      ReadSchema .. go Execute                 (environment: startOk | startFail)
  runStage      transLock running running / transCb running
                rWait        waiting for the plugin                     (environment: resultOk | resultErr)
  transitionStageWithOutput(X, st)   transLock X st : lock{ currentStage := X; state := st }, transCb X : OnStageChange
  transitionFromFailedStage(X)       failedLock X   : lock{ currentStage := X; state := running }, failedCb X : OnStepStageFailure(prev)
  completeStep(X)                    complLock X    : lock{ currentStage := X; state := finished }, complCb X : OnStepComplete
  tail         the remaining OnStepStageFailure callbacks and the deferred closes, then `done`

Since e0ccfb1 the detector no longer looks at the raw `r.state`: `State()` answers `running` when the input of the
current stage has been provided, and `countStates` compares `CurrentStage()` with the stage the step reported last
(`l.reportedStages`, written when the loop PROCESSES an `OnStageChange`) and looks at `l.completedSteps` (written when it
processes `OnStepComplete`).  The model therefore splits every `OnStageChange` / `OnStepComplete` into the moment the
step is about to call the handler (`dCb`, `eCb`, `transCb X`, `complCb X`: report in flight), the processing by the loop
under `l.lock` (action `deliver`, which updates the loop-side record `reportedStage` / `completed` and, for a report with
a previous stage, runs `checkForDeadlocks`) and the return into `run()` (`dCbRet`, `eCbRet`, `transCbRet X`,
`complCbRet X`).  `OnStepStageFailure` calls (`eGotTrue`, `failedCb X`, `tailFail`) touch neither record nor detector.

Since be7655c `State()` also answers `running` for a raw `waiting_for_input` when the step's context is cancelled
(a stop condition or a Close has arrived and `run()` has not reacted yet).

Failure tail (finding F11, loop side): when the loop processes `OnStepComplete` it may call
`markRemainingStagesUnresolvable(stepID)`, which settles every stage the step has not gone through
(`l.finishedStages`).  The model is parametrised by the flag `marks` (= the loop does that); the loop-side record carries
`finishedStages` and `settledStages`, the step carries the stages its post-completion `OnStepStageFailure` notifications
are about (`tailFails` = the argument chain of `markStageFailures` plus `markNotClosable`), and the ghost field `path`
remembers which ending `run()` took.

Core Lean only.
-/
import Arca.Gen.Consts

namespace Arca.Model.PluginState

/-- `step.RunningStepState` -/
inductive RState where
  | starting | waiting | running | finished
  deriving DecidableEq, Repr

/-- `r.currentStage` (the stages `run()` ever assigns) -/
inductive Stage where
  | deploy | deployFailed | enabling | disabled | starting | running | outputs | crashed | closed
  deriving DecidableEq, Repr

/-- every stage of the plugin lifecycle `run()` can be in (the `cancelled` stage is never entered) -/
def allStages : List Stage :=
  [.deploy, .deployFailed, .enabling, .disabled, .starting, .running, .outputs, .crashed, .closed]

/-- `markStageFailures(first, _)`: the fall-through chain (tied to `Arca.Gen.pluginFailChain` in the proofs) -/
def failChain : Stage → List Stage
  | .enabling => [.enabling, .disabled, .starting, .running, .outputs]
  | .disabled => [.disabled, .starting, .running, .outputs]
  | .starting => [.starting, .running, .outputs]
  | .running => [.running, .outputs]
  | .outputs => [.outputs]
  | _ => []

/-- which ending `run()` took (ghost) -/
inductive Path where
  | main                -- no ending chosen yet
  | closedDeploy        -- closedEarly(enabling, true): context done while waiting for the deploy input
  | closedAfterDeploy   -- closedEarly(enabling, false): context done right after the deployment
  | closedEnable        -- closedEarly(starting, true)
  | closedStart         -- closedEarly(running, true)
  | deployFailed        -- deployFailed
  | disabled            -- transitionToDisabled
  | startFailed         -- startFailed
  | runFailed           -- runFailed
  | ok                  -- result without error
  deriving DecidableEq, Repr

/-- the stages the `OnStepStageFailure` notifications AFTER the completion are about, per ending -/
def tailOf : Path → List Stage
  | .main => []
  | .closedDeploy => failChain .enabling
  | .closedAfterDeploy => failChain .enabling
  | .closedEnable => failChain .starting
  | .closedStart => failChain .running
  | .deployFailed => failChain .enabling ++ [.closed]
  | .disabled => failChain .starting ++ [.closed]
  | .startFailed => failChain .running ++ [.closed]
  | .runFailed => failChain .outputs ++ [.closed]
  | .ok => []

inductive Pc where
  | dLock | dCb | dCbRet | dTry | dGotEarly | dSetWaiting | dWait | dGotLate | dDeploying
  | spCheck
  | eLock | eCb | eCbRet | eWait | eGotTrue
  | sTry | sCheck | sWait | sGotLate | sSchema
  | rWait
  | transLock (tgt : Stage) (st : RState)
  | transCb (tgt : Stage)
  | transCbRet (tgt : Stage)
  | failedLock (tgt : Stage)
  | failedCb (tgt : Stage)
  | complLock (tgt : Stage)
  | complCb (tgt : Stage)
  | complCbRet (tgt : Stage)
  | tailFail          -- the OnStepStageFailure calls of markStageFailures / markNotClosable after the completion
  | tailClose         -- the deferred functions: container close, r.cancel(), r.wg.Done()
  | done
  deriving DecidableEq, Repr

structure St where
  pc : Pc
  state : RState          -- r.state
  stage : Stage           -- r.currentStage
  deployAvail : Bool      -- r.deployInputAvailable
  enabledAvail : Bool     -- r.enabledInputAvailable
  runAvail : Bool         -- r.runInputAvailable
  deployOcc : Bool        -- an item sits in r.deployInput   (capacity 1)
  enabledOcc : Bool       -- an item sits in r.enabledInput  (capacity 1)
  enabledVal : Bool       -- .. and its value
  runOcc : Bool           -- an item sits in r.runInput      (capacity 1)
  early : Bool            -- startStage's local `inputReceivedEarly`
  ctxDone : Bool          -- r.ctx cancelled
  tailFails : List Stage  -- the stages of the failure notifications that follow the completion on the chosen ending
  path : Path             -- ghost: the ending chosen
  -- the loop side (workflow.go, under l.lock)
  reportedStage : Option Stage   -- l.reportedStages[stepID]
  completed : Bool               -- stepID ∈ l.completedSteps
  finishedStages : List Stage    -- l.finishedStages[stepID]: the previous stages of the reports processed
  settledStages : List Stage     -- the stages markRemainingStagesUnresolvable has declared unresolvable
  deriving DecidableEq, Repr

/-- the state `Start` returns in -/
def init : St :=
  { pc := .dLock
    state := .starting
    stage := .deploy
    deployAvail := false
    enabledAvail := false
    runAvail := false
    deployOcc := false
    enabledOcc := false
    enabledVal := false
    runOcc := false
    early := false
    ctxDone := false
    tailFails := []
    path := .main
    reportedStage := none
    completed := false
    finishedStages := []
    settledStages := [] }

inductive Act where
  -- the engine (any goroutine): ProvideStageInput / Close / stop condition
  | provideDeploy
  | provideEnabling (enabled : Bool)
  | provideStarting
  | cancel
  -- run(): a move that needs nothing from anybody (lock region, return from a handler, first non-blocking receive)
  | internal
  -- the loop processes the pending OnStageChange / OnStepComplete of this step (onStageComplete under l.lock)
  | deliver
  -- the loop processes a pending OnStepStageFailure of this step
  | deliverFailure
  -- run(): the two branches of a blocking select
  | recv
  | ctx
  -- the plugin side
  | deployOk | deployFail | startOk | startFail | resultOk | resultErr
  deriving DecidableEq, Repr

/-- where `run()` continues after the `OnStageChange` of `transitionStageWithOutput(tgt, ..)` -/
def afterTrans (s : St) : Stage → Option Pc
  | .starting => some (if s.early then .sSchema else .sCheck)
  | .running => some .rWait
  | .outputs => some (.complLock .outputs)
  | .crashed => some (.complLock .crashed)
  | .closed => some (.complLock .closed)
  | .deployFailed => some (.complLock .deployFailed)
  | .disabled => some (.complLock .disabled)
  | .deploy => none
  | .enabling => none

/-- the previous stage an `OnStageChange` into `tgt` reports -/
def prevOf : Stage → Stage
  | .starting => .enabling
  | .disabled => .enabling
  | .running => .starting
  | .outputs => .running
  | .crashed => .running
  | _ => .deploy

/-- choose an ending: remember it and the failure notifications it will send after the completion -/
def choose (s : St) (p : Path) (pc : Pc) : St := { s with pc := pc, path := p, tailFails := tailOf p }

/-- `marks` = the loop calls `markRemainingStagesUnresolvable` when it processes `OnStepComplete` -/
def step (marks : Bool) (s : St) : Act → Option St
  | .provideDeploy =>
    -- provideDeployInput: the only handler that touches r.state
    if s.deployAvail then none
    else some { s with deployAvail := true, deployOcc := true,
                       state := (if s.state = .waiting ∧ s.stage = .deploy then .running else s.state) }
  | .provideEnabling b =>
    if s.enabledAvail then none
    else some { s with enabledAvail := true, enabledOcc := true, enabledVal := b }
  | .provideStarting =>
    if s.runAvail then none
    else some { s with runAvail := true, runOcc := true }
  | .cancel => if s.ctxDone then none else some { s with ctxDone := true }
  | .internal =>
    match s.pc with
    | .dLock => some { s with pc := .dCb, state := .running }
    | .dCbRet => some { s with pc := .dTry }
    | .dTry => if s.deployOcc then some { s with pc := .dGotEarly, deployOcc := false } else some { s with pc := .dSetWaiting }
    | .dGotEarly => some { s with pc := .dDeploying, state := .running }
    | .dSetWaiting => some { s with pc := .dWait, state := .waiting }
    | .dGotLate => some { s with pc := .dDeploying, state := .running }
    | .spCheck => if s.ctxDone then some (choose s .closedAfterDeploy (.transLock .closed .running)) else some { s with pc := .eLock }
    | .eLock => some { s with pc := .eCb, stage := .enabling, state := .waiting }
    | .eCbRet => some { s with pc := .eWait }
    | .sTry =>
      if s.runOcc then some { s with pc := .transLock .starting .running, runOcc := false, early := true }
      else some { s with pc := .transLock .starting .waiting, early := false }
    | .sCheck => some { s with pc := .sWait }
    | .sGotLate => some { s with pc := .sSchema, state := .running }
    | .transLock tgt st => some { s with pc := .transCb tgt, stage := tgt, state := st }
    | .transCbRet tgt => (afterTrans s tgt).map (fun p => { s with pc := p })
    | .failedLock tgt => some { s with pc := .failedCb tgt, stage := tgt, state := .running }
    | .complLock tgt => some { s with pc := .complCb tgt, stage := tgt, state := .finished }
    | .complCbRet tgt => some { s with pc := (if tgt = .outputs then .tailClose else .tailFail) }
    | .tailClose => some { s with pc := .done }
    | _ => none
  | .deliver =>
    match s.pc with
    | .dCb => some { s with pc := .dCbRet, reportedStage := some .deploy }
    | .eCb => some { s with pc := .eCbRet, reportedStage := some .enabling, finishedStages := s.finishedStages ++ [.deploy] }
    | .transCb tgt =>
      if (afterTrans s tgt).isSome then
        some { s with pc := .transCbRet tgt, reportedStage := some tgt, finishedStages := s.finishedStages ++ [prevOf tgt] }
      else none
    | .complCb tgt =>
      some { s with pc := .complCbRet tgt, completed := true, finishedStages := s.finishedStages ++ [tgt],
                    settledStages := (if marks then allStages.filter (fun x => !(s.finishedStages ++ [tgt]).contains x) else []) }
    | _ => none
  | .deliverFailure =>
    match s.pc with
    | .eGotTrue => some { s with pc := .sTry }
    | .failedCb tgt => some { s with pc := .complLock tgt }
    | .tailFail => some { s with pc := .tailClose }
    | _ => none
  | .recv =>
    match s.pc with
    | .dWait => if s.deployOcc then some { s with pc := .dGotLate, deployOcc := false } else none
    | .eWait =>
      if s.enabledOcc then
        some (if s.enabledVal then { s with pc := .eGotTrue, enabledOcc := false }
              else choose { s with enabledOcc := false } .disabled (.transLock .disabled .running))
      else none
    | .sWait => if s.runOcc then some { s with pc := .sGotLate, runOcc := false } else none
    | _ => none
  | .ctx =>
    if s.ctxDone then
      match s.pc with
      | .dWait => some (choose s .closedDeploy (.failedLock .closed))
      | .eWait => some (choose s .closedEnable (.failedLock .closed))
      | .sWait => some (choose s .closedStart (.failedLock .closed))
      | _ => none
    else none
  | .deployOk => if s.pc = .dDeploying then some { s with pc := .spCheck } else none
  | .deployFail => if s.pc = .dDeploying then some (choose s .deployFailed (.transLock .deployFailed .running)) else none
  | .startOk => if s.pc = .sSchema then some { s with pc := .transLock .running .running } else none
  | .startFail => if s.pc = .sSchema then some (choose s .startFailed (.failedLock .crashed)) else none
  | .resultOk => if s.pc = .rWait then some (choose s .ok (.transLock .outputs .running)) else none
  | .resultErr => if s.pc = .rWait then some (choose s .runFailed (.transLock .crashed .running)) else none

/-- everything by which the step moves on WITHOUT a further call of the engine: `run()`'s own moves and the answers of
    the deployer / plugin it is waiting for -/
def progressActs : List Act :=
  [.internal, .deliver, .deliverFailure, .recv, .ctx, .deployOk, .deployFail, .startOk, .startFail, .resultOk, .resultErr]

/-- The step cannot make progress without a further action of the engine: none of the progress moves is possible.
    (No input sits unconsumed in a channel it is selecting on, its context is not cancelled, no report is pending,
    `run()` is not between two of its own actions, and it is not waiting for the deployer or the plugin.) -/
def Quiescent (s : St) : Bool := progressActs.all (fun a => (step true s a).isNone)

/-! ## what the detector sees since e0ccfb1 -/

/-- `currentStageInputAvailable()` -/
def currentStageInputAvailable (s : St) : Bool :=
  match s.stage with
  | .deploy => s.deployAvail
  | .enabling => s.enabledAvail
  | .starting => s.runAvail
  | _ => false

/-- what `State()` returns: a raw `waiting_for_input` is reported as `running` when the input of the current stage has
    been provided (e0ccfb1) or the context is cancelled (be7655c) -/
def reportedState (s : St) : RState :=
  if s.state = .waiting ∧ (currentStageInputAvailable s = true ∨ s.ctxDone = true) then .running else s.state

/-- how `countStates` counts the step (`State()`, then `CurrentStage()` against `l.reportedStages`, `l.completedSteps`;
    the two reads of the step are taken as one snapshot: between them only `run()` can move — inputs are provided under
    `l.lock`, which the poller holds — and a stage change in between only makes the comparison fail towards `running`) -/
def countsAs (s : St) : RState :=
  match reportedState s with
  | .waiting => if s.reportedStage = some s.stage then .waiting else .running
  | .finished => if s.completed then .finished else .running
  | x => x

/-- the refinement is at work: the raw state says `waiting_for_input` / `finished`, the detector counts `running` -/
def Refined (s : St) : Bool :=
  (s.state == .waiting || s.state == .finished) && countsAs s == .running

/-- Nothing but silent local moves is left before `run()` parks or ends: it returns from the handler in which the
    check runs (or has passed the last report) and neither calls the handler again nor finds an input or a cancelled
    context.  (`Quiescent` = parked already.) -/
def Settled (s : St) : Bool :=
  Quiescent s ||
  (match s.pc with
   | .eCbRet => !s.enabledOcc && !s.ctxDone
   | .transCbRet .starting => !s.early && !s.runOcc && !s.ctxDone
   | .sCheck => !s.runOcc && !s.ctxDone
   | .complCbRet .outputs => true
   | .tailClose => true
   | _ => false)

/-- the window that is left after e0ccfb1 when the loop does not mark the remaining stages: the completion has been processed, the `OnStepStageFailure` notifications
    that follow it (`markStageFailures`, `markNotClosable`: every ending except the successful one) have not -/
def inFailureTail (s : St) : Bool :=
  match s.pc with
  | .complCbRet tgt => tgt != .outputs
  | .tailFail => true
  | _ => false

/-- a report whose processing runs `checkForDeadlocks` (`previousStage != nil`) is pending -/
def checkingReportPending (s : St) : Bool :=
  match s.pc with
  | .eCb => true
  | .transCb _ => true
  | .complCb _ => true
  | _ => false

/-- On every path of its own, `run()` will have such a report processed before it parks or ends. -/
def owesCheck (s : St) : Bool :=
  match s.pc with
  | .dLock | .dCb | .dCbRet | .dTry | .dSetWaiting | .dWait => s.deployOcc || s.ctxDone
  | .eCbRet | .eWait => s.enabledOcc || s.ctxDone
  | .transCbRet .starting => s.early || s.runOcc || s.ctxDone
  | .sCheck | .sWait => s.runOcc || s.ctxDone
  | .complCbRet _ | .tailFail | .tailClose | .done => false
  | _ => true

/-- does executing `acts` from `s` contain the processing of a checking report after which the refinement is no longer
    at work (the check then sees the step as it is) -/
def hasFaithfulCheck (marks : Bool) : St → List Act → Bool
  | _, [] => false
  | s, a :: rest =>
    match step marks s a with
    | some s' => (a == .deliver && checkingReportPending s && !Refined s') || hasFaithfulCheck marks s' rest
    | none => false

/-- the loop-side record -/
def loopView (s : St) : Option Stage × Bool × List Stage × List Stage :=
  (s.reportedStage, s.completed, s.finishedStages, s.settledStages)

/-- Nothing the step still does can change what the loop knows: it is settled, or it is in the failure tail and every
    `OnStepStageFailure` notification still to come is about a stage the loop has already declared unresolvable
    (re-marking an unresolvable node is a no-op in dgraph, and `notifySteps` then finds nothing newly ready). -/
def Harmless (s : St) : Bool :=
  Settled s || (inFailureTail s && s.tailFails.all (fun x => s.settledStages.contains x))

inductive Reachable (marks : Bool) : St → Prop where
  | init : Reachable marks init
  | step {s s' : St} (a : Act) : Reachable marks s → step marks s a = some s' → Reachable marks s'

def execute (marks : Bool) : St → List Act → Option St
  | s, [] => some s
  | s, a :: rest =>
    match step marks s a with
    | some s' => execute marks s' rest
    | none => none

theorem execute_reachable {marks : Bool} {s : St} (hs : Reachable marks s) :
    ∀ (acts : List Act) (t : St), execute marks s acts = some t → Reachable marks t := by
  intro acts
  induction acts generalizing s with
  | nil => intro t h; simp [execute] at h; exact h ▸ hs
  | cons a rest ih =>
    intro t h
    simp only [execute] at h
    split at h
    · rename_i s' hstep
      exact ih (Reachable.step a hs hstep) t h
    · cases h

/-! ## the windows in which the RAW `r.state` is `waiting_for_input` / `finished` although the step is still moving

These are the windows of finding F10a; they are the reason for the refinement above. -/

/-- (0) deployStage: the input arrived between the non-blocking `select` (default branch taken) and the lock region
    that sets `waiting_for_input`; `provideDeployInput` saw `running` and did not flip the state.  The item is in the
    channel or has just been received. -/
def inDeployRace (s : St) : Bool :=
  match s.pc with
  | .dWait => s.deployOcc
  | .dGotLate => true
  | _ => false

/-- (i)/(ii) enableStage: `state := waiting_for_input` is written unconditionally before the callback and the receive,
    `provideEnablingInput` never touches the state, and nothing sets it back after the receive: the whole stretch from
    the lock region of `enableStage` to the lock region of the next transition, unless `run()` is parked on an empty
    channel. -/
def inEnableWindow (s : St) : Bool :=
  match s.pc with
  | .eCb => true
  | .eCbRet => true
  | .eWait => s.enabledOcc
  | .eGotTrue => true
  | .sTry => true
  | .transLock .starting _ => true
  | .transLock .disabled _ => true
  | _ => false

/-- (ii)/(iii) startStage: waiting/running is decided by a non-blocking receive, written later by
    `transitionStageWithOutput`, and `provideStartingInput` never touches the state. -/
def inStartWindow (s : St) : Bool :=
  match s.pc with
  | .transCb .starting => true
  | .transCbRet .starting => true
  | .sCheck => true
  | .sWait => s.runOcc
  | .sGotLate => true
  | _ => false

/-- (iv) completeStep writes `finished` before `OnStepComplete` is delivered; the failure notifications and the
    deferred closes follow. -/
def inCompletionWindow (s : St) : Bool :=
  match s.pc with
  | .complCb _ => true
  | .complCbRet _ => true
  | .tailFail => true
  | .tailClose => true
  | _ => false

/-- the step is being closed: parked with a cancelled context, or on its way into `closedEarly` / `startFailed` -/
def inClosingWindow (s : St) : Bool :=
  match s.pc with
  | .dWait => s.ctxDone
  | .eWait => s.ctxDone
  | .sWait => s.ctxDone
  | .failedLock _ => true
  | _ => false

def InWindow (s : St) : Bool :=
  inDeployRace s || inEnableWindow s || inStartWindow s || inCompletionWindow s || inClosingWindow s

/-! ## the detector's polling (workflow.go `checkForDeadlocks`) -/

/-- one poll: the states `countStates` saw; idle = no step `starting` or `running`
    (`hasReadyNodes` and `outputDone` are taken as false: the situation in which the detector matters) -/
def idle (poll : List RState) : Bool := poll.all (fun st => st != .starting && st != .running)

/-- `checkForDeadlocks(retries, ..)` over the sequence of polls that follow: it reports `ErrNoMorePossibleSteps` iff this
    poll is idle and `retries <= 0`, re-polls (after the two 5 ms waits) with `retries - 1` iff idle and `retries > 0`,
    and stops as soon as a poll is not idle -/
def detectorFires : Nat → List (List RState) → Bool
  | _, [] => false
  | 0, p :: _ => idle p
  | r + 1, p :: rest => idle p && detectorFires r rest

end Arca.Model.PluginState
