/-
M2x — the part of go.arcalot.io/dgraph v1.7.0 that the ENGINE NEVER CALLS (`Remove`, `DisconnectInbound`,
`DisconnectOutbound`), `ListNodesWithoutInboundConnections` (used by `internal/step/lifecycle.go`) and the
node *handles* a caller holds (a `Node` value stays usable after `Remove`: most of its methods then return
`ErrNodeDeleted`).

Nothing in `Model/Dgraph.lean` is changed and no property theorem depends on this file; it exists so that the
differential check `arcadrv dgraph` (Driver/Dgraph.lean) can follow operation sequences that use the whole public
interface of the library, and it is validated by that check only.  All operations are defined on top of the
operations of `Model/Dgraph.lean`.
-/
import Arca.Model.Dgraph

namespace Arca.Model

variable {ι : Type} [DecidableEq ι]

/-- `ListNodesWithoutInboundConnections` -/
def Graph.noInbound (g : Graph ι) : List ι :=
  (g.nodes.filter (fun n => (g.preds n.id).isEmpty)).map (·.id)

/-- `Remove` on a live node: the node and its connections disappear; the outstanding / resolved dependency maps of the
other nodes and the ready set are NOT touched (dg.go `Remove`). -/
def Graph.remove (g : Graph ι) (id : ι) : Except (DgErr ι) (Graph ι) :=
  if g.has id then
    .ok { g with
      nodes := g.nodes.filter (fun n => n.id ≠ id)
      edges := g.edges.filter (fun e => e.1 ≠ id ∧ e.2.1 ≠ id) }
  else .error (.notFound id)

/-- the connection `src → dst` disappears (both directions of the bookkeeping); the dependency entry stays -/
def Graph.dropEdge (g : Graph ι) (src dst : ι) : Graph ι :=
  { g with edges := g.edges.filter (fun e => !(e.1 = src ∧ e.2.1 = dst)) }

/-- `connectNodes` when the target may still carry an entry for `src` from a connection that was removed again
(`Remove` / `Disconnect*` keep the entries): Go's map assignment overwrites it.  Without such an entry - always, in
graphs built with the operations of `Model/Dgraph.lean` only - this is `Graph.connect`. -/
def Graph.connectOver (g : Graph ι) (src dst : ι) (d : Dep) : Except (DgErr ι) (Graph ι) :=
  match g.find? dst with
  | none => g.connect src dst d
  | some n =>
    match alookup src n.out with
    | none => g.connect src dst d
    | some _ =>
      -- the entry keeps its place in the (unordered) map, the type is replaced
      match (g.setNode { n with out := aerase src n.out }).connect src dst d with
      | .error e => .error e
      | .ok g' => .ok g'

inductive HErr (ι : Type) where
  | dg (e : DgErr ι)
  | deleted (id : ι)                 -- ErrNodeDeleted
  | noConnection (src dst : ι)       -- ErrConnectionDoesNotExist (returned by Disconnect*)
  deriving Repr

/-- a graph plus the removed nodes whose handle the caller still holds (`dead`, frozen at removal time).  For every id there
is at most one handle: adding a node with the id of a dead handle replaces the handle. -/
structure HGraph (ι : Type) where
  g : Graph ι
  dead : List (Node ι)
  deriving Repr

def HGraph.empty : HGraph ι := ⟨Graph.empty, []⟩

def HGraph.isDead (h : HGraph ι) (id : ι) : Bool := h.dead.any (fun n => n.id = id)

def liftDg {α : Type} (x : Except (DgErr ι) α) : Except (HErr ι) α :=
  match x with
  | .ok a => .ok a
  | .error e => .error (.dg e)

/-- `AddNode` -/
def HGraph.addNode (h : HGraph ι) (id : ι) : Except (HErr ι) (HGraph ι) :=
  match h.g.addNode id with
  | .error e => .error (.dg e)
  | .ok g => .ok { g := g, dead := h.dead.filter (fun n => n.id ≠ id) }

/-- `Connect` / `ConnectDependency`: `connectNodes` looks both ends up by id; a removed node is not found. -/
def HGraph.connect (h : HGraph ι) (src dst : ι) (d : Dep) : Except (HErr ι) (HGraph ι) :=
  match h.g.connectOver src dst d with
  | .error e => .error (.dg e)
  | .ok g => .ok { h with g := g }

/-- Go's `m[k] = v` on an association list that was only appended to: the last entry of a key wins. -/
def dedupLast (l : List (ι × Dep)) : List (ι × Dep) :=
  l.foldl (fun acc p => aerase p.1 acc ++ [p]) []

/-- `resolvedDependencies[src] = type` OVERWRITES an entry that is left from an earlier node with the same id (`Remove`, `AddNode`
again, connect again, resolve again) or from a connection that was disconnected and made again; `Graph.depResolved` appends.  A
second resolution message for the same (node, source) needs `Remove` / `Disconnect*` - `resolveNode` notifies only on the one
transition out of `waiting` - so in graphs built with the operations of `Model/Dgraph.lean` this is the identity. -/
def Graph.normRes (g : Graph ι) : Graph ι :=
  { g with nodes := g.nodes.map (fun n => { n with res := dedupLast n.res }) }

/-- `ResolveNode` on the handle of `id` -/
def HGraph.resolve (h : HGraph ι) (id : ι) (st : St) : Except (HErr ι) (HGraph ι) :=
  if h.g.has id then
    match h.g.resolve id st with
    | .error e => .error (.dg e)
    | .ok g => .ok { h with g := g.normRes }
  else if h.isDead id then .error (.deleted id)
  else .error (.dg (.notFound id))

/-- `Remove` on the handle of `id` -/
def HGraph.remove (h : HGraph ι) (id : ι) : Except (HErr ι) (HGraph ι) :=
  match h.g.find? id with
  | some n =>
    match h.g.remove id with
    | .error e => .error (.dg e)
    | .ok g => .ok { g := g, dead := h.dead ++ [n] }
  | none => if h.isDead id then .error (.deleted id) else .error (.dg (.notFound id))

/-- `DisconnectInbound` (called on the handle of `dst`, `inbound = true`) / `DisconnectOutbound` (on the handle of `src`) -/
def HGraph.disconnect (h : HGraph ι) (src dst : ι) (inbound : Bool) : Except (HErr ι) (HGraph ι) :=
  let caller := if inbound then dst else src
  let other := if inbound then src else dst
  if !(h.g.has caller) then
    if h.isDead caller then .error (.deleted caller) else .error (.dg (.notFound caller))
  else if !(h.g.has other) then .error (.dg (.notFound other))
  else if !(h.g.hasEdge src dst) then .error (.noConnection src dst)
  else .ok { h with g := h.g.dropEdge src dst }

/-- `Clone`: removed nodes are not part of the graph, the clone has no handles for them -/
def HGraph.clone (h : HGraph ι) : HGraph ι := { g := h.g.clone, dead := [] }

end Arca.Model
