/-
Decidable versions of the hypotheses of the run-loop theorems (C01, C03, C07): `Prepared.WF3` (which contains `WF2` and
`WF`), `LegalEvent`, `EventReports`, `LegalHistory`, and the history hypotheses of `quiescent_run_has_verdict`.

Every quantifier is bounded by a list of the prepared workflow (nodes, edges, items, stages), so the predicates are
`Decidable` by instance search; the driver evaluates them on every REAL prepared workflow and delivered history
(`Arca/Driver/WfCheck.lean`), and `Arca/Proofs/LoopCheckSound.lean` proves that they imply the hypotheses as the theorems
state them (`Prepared.WF3OK.sound`, `legalEventB_sound`, `legalHistoryB_sound`).  The concrete workflows of the
non-vacuity examples and of the counterexamples (`LoopCompleteCex.lean`) are checked by the same predicates, by kernel
evaluation.
-/
import Arca.Model.RunLoop

namespace Arca.Model

def declaresB (P : Prepared) (step stage : String) : Bool :=
  match lookup step P.stages with
  | some sts => (lookup stage sts).isSome
  | none => false

/-- a graph as `Prepare` hands it over: nothing resolved, nothing ready, bookkeeping lists = incoming edges -/
def FreshOK (g : Graph String) : Prop :=
  (g.nodes.map (·.id)).Nodup ∧
  (g.edges.map (fun e => (e.1, e.2.1))).Nodup ∧
  (∀ e ∈ g.edges, g.has e.1 = true ∧ g.has e.2.1 = true) ∧
  (∀ n ∈ g.nodes, n.status = St.waiting ∧ n.res = []) ∧
  g.ready = [] ∧
  (∀ n ∈ g.nodes, ∀ p ∈ n.out, (p.1, n.id, p.2) ∈ g.edges) ∧
  (∀ n ∈ g.nodes, (n.out.map (·.1)).Nodup) ∧
  (∀ e ∈ g.edges, ∀ n ∈ g.nodes, n.id = e.2.1 → e.1 ∈ n.out.map (·.1))

instance (g : Graph String) : Decidable (FreshOK g) := by unfold FreshOK; infer_instance

/-- the item of the stage node of (step, stage), if there is one, is a stage item of that step and stage -/
def stageItemB (P : Prepared) (step stage : String) : Bool :=
  match lookup (stageNodeId step stage) P.items with
  | some it => decide (it.kind = Kind.stage ∧ it.step = step ∧ it.stage = stage)
  | none => true

/-- the declared output `o` of (step, stage) has a stage-output item of that step and stage, and its node depends on
    the stage node only -/
def outItemB (P : Prepared) (step stage o : String) : Bool :=
  (match lookup (outputNodeId step stage o) P.items with
   | some it => decide (it.kind = Kind.stageOutput ∧ it.step = step ∧ it.stage = stage)
   | none => false) &&
  P.dag.edges.all (fun ed => decide (ed.2.1 = outputNodeId step stage o → ed.1 = stageNodeId step stage ∧ ed.2.2 = Dep.and))

def stageDataB (it : Item) : Bool :=
  match it.data with
  | some (.map _) => true
  | some _ => false
  | none => true

def inputItemB (P : Prepared) : Bool :=
  match lookup "input" P.items with
  | some it => decide (it.kind = Kind.input)
  | none => true

/-- the clauses of `Prepared.WF3` (hence of `WF2`, `WF`), by name, each one decided -/
def Prepared.wf3Clauses (P : Prepared) : List (String × Bool) :=
  [ ("wf.fresh_graph", decide (FreshOK P.dag)),
    ("wf.items_nodes", decide (∀ n ∈ P.dag.nodes, (lookup n.id P.items).isSome = true)),
    ("wf.stage_id", decide (∀ p ∈ P.items, p.2.kind = Kind.stage → p.1 = stageNodeId p.2.step p.2.stage)),
    ("wf.output_id", decide (∀ p ∈ P.items, p.2.kind = Kind.stageOutput →
        p.1 = outputNodeId p.2.step p.2.stage p.2.output ∧ p.2.output ∈ P.outputsOf p.2.step p.2.stage)),
    ("wf.stage_kind+wf2.stage_unamb", decide (∀ p ∈ P.stages, ∀ q ∈ p.2, stageItemB P p.1 q.1 = true)),
    ("wf.output_kind+wf2.output_nodes",
      decide (∀ p ∈ P.stages, ∀ q ∈ p.2, ∀ o ∈ P.outputsOf p.1 q.1, outItemB P p.1 q.1 o = true)),
    ("wf2.stage_items", decide (∀ p ∈ P.items, p.2.kind = Kind.stage →
        stageDataB p.2 = true ∧ p.2.step ≠ "" ∧ p.2.stage ≠ "")),
    ("wf2.kinds_handled", decide (∀ p ∈ P.items, p.2.data.isSome = true → p.2.kind = Kind.stage ∨ p.2.kind = Kind.output)),
    ("wf2.input_no_deps", decide (∀ ed ∈ P.dag.edges, ed.2.1 ≠ "input")),
    ("wf2.input_kind", inputItemB P),
    ("acyclic", decide (P.dag.hasCycles = false)),
    ("has_input", P.dag.has "input"),
    ("items_nodup", decide ((P.items.map (·.1)).Nodup)),
    ("input_id", decide (∀ p ∈ P.items, p.2.kind = Kind.input → p.1 = "input")),
    ("stage_declared", decide (∀ p ∈ P.items, p.2.kind = Kind.stage → declaresB P p.2.step p.2.stage = true)),
    ("has_output", decide (∃ p ∈ P.items, p.2.kind = Kind.output)),
    ("output_is_node", decide (∀ p ∈ P.items, p.2.kind = Kind.output → P.dag.has p.1 = true)),
    ("output_data", decide (∀ p ∈ P.items, p.2.kind = Kind.output → p.2.data.isSome = true)),
    ("output_sink", decide (∀ p ∈ P.items, p.2.kind = Kind.output → ∀ ed ∈ P.dag.edges, ed.1 ≠ p.1)) ]

/-- the names of the violated clauses (empty = well-formed) -/
def Prepared.wf3Violated (P : Prepared) : List String := (P.wf3Clauses.filter (fun c => !c.2)).map (·.1)

/-- decidable `Prepared.WF3` (hence `WF2`, `WF`): every clause holds -/
def Prepared.WF3OK (P : Prepared) : Prop := ∀ c ∈ P.wf3Clauses, c.2 = true

instance (P : Prepared) : Decidable P.WF3OK := by unfold Prepared.WF3OK; infer_instance

def Prepared.wf3B (P : Prepared) : Bool := decide P.WF3OK

/-! ### the provider contract -/

def stIs (g : Graph String) (id : String) (st : St) : Bool := decide (g.statusOf id = some st)

/-- the contract of a reported stage end (`LegalEvent` for `stageChange (some prev)` / `stepComplete`) -/
def stageEndB (P : Prepared) (s : LoopState) (step prev : String) (out : Option (String × Val)) : Bool :=
  declaresB P step prev && stIs s.dag (stageNodeId step prev) .waiting &&
  P.dag.edges.all (fun ed => decide (ed.2.1 = stageNodeId step prev →
    (ed.2.2 = Dep.and → stIs s.dag ed.1 .resolved = true) ∧ ed.2.2 ≠ Dep.or)) &&
  (match out with
   | none => true
   | some (oid, _) => decide (oid ∈ P.outputsOf step prev) &&
       (P.outputsOf step prev).all (fun o => stIs s.dag (outputNodeId step prev o) .waiting))

/-- decidable `LegalEvent` -/
def legalEventB (P : Prepared) (s : LoopState) : Event → Bool
  | .start _ =>
    P.items.all (fun p => decide (p.2.kind = Kind.stageOutput → stIs s.dag p.1 .resolved = false)) &&
    s.dag.nodes.all (fun n => decide (n.status = St.waiting))
  | .stageChange _ none _ _ => true
  | .stageChange step (some prev) out _ => stageEndB P s step prev out
  | .stepComplete step prev out _ => stageEndB P s step prev out
  | .stageFail step stage =>
    declaresB P step stage && !(stIs s.dag (stageNodeId step stage) .resolved) &&
    (P.outputsOf step stage).all (fun o => !(stIs s.dag (outputNodeId step stage o) .resolved))
  | .tick _ _ => true
  | .drain => true

/-- decidable `EventReports` -/
def eventReportsB (P : Prepared) : Event → Bool
  | .stageChange step (some prev) out _ => out.isSome || (P.outputsOf step prev).isEmpty
  | .stepComplete step prev out _ => out.isSome || (P.outputsOf step prev).isEmpty
  | _ => true

/-- decidable `LegalHistory` -/
def legalHistoryB (P : Prepared) (fns : Fns) (ord : Order) : LoopState → List Event → Bool
  | _, [] => true
  | s, e :: es => legalEventB P s e && legalHistoryB P fns ord (react P fns ord s e).1 es

/-- the completion callback of every step that declares a stage is in the history -/
def allCompleteB (P : Prepared) (h : List Event) : Bool :=
  P.stages.all (fun p => p.2.isEmpty || h.any (fun e => match e with
    | .stepComplete step _ _ _ => step == p.1
    | _ => false))

end Arca.Model
