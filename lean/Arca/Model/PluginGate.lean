/-
The gates of a plugin step (C04): what has to happen before `run()` of `internal/step/plugin/provider.go` hands the step
input to the plugin, as a small transition system over the RAW stage-input values.

It refines the part of `PluginStep.syncStep` between the end of the deployment and the start of the plugin:

* `provideEnablingInput` computes `enabled := <decision on input["enabled"]>` and sends that bool on `r.enabledInput`, or
  returns an error when `<refusal condition>` holds (a value the bool schema rejects); `provideCancelledInput` accepts ONE
  input and calls `cancelStep()` (which cancels the step context) when `<decision on input["stop_if"]>` holds.
  The decisions are NOT written here: they are parameters, instantiated by the regenerated facts
  `Arca.Gen.pluginEnabledDecision` / `pluginEnabledRefusal` / `pluginStopDecision` / `pluginStopOnce` (extract/decisions.go).
* `run()` is modelled with the program points that matter for the races between a stop and the inputs:
  `w0` (deployStage before its receive of the deploy input: a non-blocking receive first, then a blocking `select` with the
  context), `parkedDeploy` (blocked in that `select`), `deploying` (Deploy in progress; `startPlugin` checks the context when it returns), `w1` (context check passed, the
  `select` of `enableStage` not evaluated yet), `parkedEnable` (blocked in that `select`), `w2` (enabled = true received,
  the NON-BLOCKING receive of the run input in `startStage` not done yet), `w3` (starting stage announced, input not there,
  blocking `select` not evaluated yet), `parkedStart`, and the ends `executing` / `disabledEnd` / `closedEnd` /
  `deployFailedEnd`.
* A goroutine parked in a `select` is committed to the FIRST case that becomes ready (Go runtime: the waker wins
  `selectDone`); a `select` evaluated with two ready cases picks either (`pickCtx`); the non-blocking receive of the run
  input does not look at the context at all.

Core Lean only (linked into `arcadrv`, which uses `outcomes` for the provider-level differential).
-/
import Arca.Model.FieldCond

namespace Arca.Model.Gate
open Arca.Model

/-! ## The transition system -/

inductive Pc where
  | w0 | parkedDeploy | deploying | w1 | parkedEnable | w2 | w3 | parkedStart | executing | disabledEnd | closedEnd | deployFailedEnd
  deriving Repr, DecidableEq, Inhabited

structure Cfg where
  /-- the bool sent on r.enabledInput, as a condition on input["enabled"] -/
  enabledDec : FieldCond
  /-- the condition on input["enabled"] under which provideEnablingInput returns an error before touching the step -/
  enabledRefuse : FieldCond
  /-- the condition on input["stop_if"] under which cancelStep() is called -/
  stopDec : FieldCond
  /-- provideCancelledInput accepts one input only (`r.stopInputAvailable`) -/
  stopOnce : Bool

structure GState where
  pc : Pc
  deployCh : Bool                -- r.deployInput holds the deploy input
  deployAvail : Bool             -- r.deployInputAvailable
  enabledCh : Option Bool        -- content of r.enabledInput (capacity 1)
  enabledAvail : Bool            -- r.enabledInputAvailable
  runCh : Bool                   -- r.runInput holds the run input
  runAvail : Bool                -- r.runInputAvailable
  stopAvail : Bool               -- r.stopInputAvailable
  ctxDone : Bool                 -- r.ctx cancelled
  -- ghost state
  given : Option (Option Val)    -- the raw value of input["enabled"] of the accepted enabling input
  announced : Bool               -- the starting stage was announced (transitionStageWithOutput(starting, ..))
  stoppedEarly : Bool            -- a firing stop / a close was processed while run() was in `deploying` or parked
  stoppedBeforeAnnounce : Bool   -- a firing stop / a close was processed before the starting stage was announced
  deriving Inhabited, BEq

def init : GState :=
  { pc := .w0
    deployCh := false
    deployAvail := false
    enabledCh := none
    enabledAvail := false
    runCh := false
    runAvail := false
    stopAvail := false
    ctxDone := false
    given := none
    announced := false
    stoppedEarly := false
    stoppedBeforeAnnounce := false }

inductive GAct where
  | provideDeploy
  | recvDeploy                              -- run(): the receive of the deploy input (non-blocking, then blocking with ctx)
  | provideEnabling (i : Option Val)
  | provideStarting
  | provideCancelled (i : Option Val)
  | close                                   -- Close / ForceClose: cancels the context
  | deployOk
  | deployFail
  | evalEnableSelect (pickCtx : Bool)
  | recvRunNonBlocking
  | evalStartSelect (pickCtx : Bool)
  deriving Inhabited

def isEnd : Pc → Bool
  | .executing | .disabledEnd | .closedEnd | .deployFailedEnd => true
  | _ => false

/-- the context is cancelled (by `cancelStep()` or by a close) -/
def cancelCtx (s : GState) : GState :=
  let early := s.pc = .w0 ∨ s.pc = .parkedDeploy ∨ s.pc = .deploying ∨ s.pc = .parkedEnable ∨ s.pc = .parkedStart
  let s1 := { s with ctxDone := true
                     stoppedEarly := s.stoppedEarly || decide early
                     stoppedBeforeAnnounce := s.stoppedBeforeAnnounce || !s.announced }
  -- a parked goroutine is committed to the context case
  if s.pc = .parkedDeploy ∨ s.pc = .parkedEnable ∨ s.pc = .parkedStart then { s1 with pc := .closedEnd } else s1

/-- one step; `none` = the action is not possible here (a refused provide, a move of `run()` from another point) -/
def step (c : Cfg) (s : GState) : GAct → Option GState
  | .provideDeploy =>
    if s.deployAvail then none
    else if s.pc = .parkedDeploy then some { s with deployAvail := true, pc := .deploying }
    else some { s with deployAvail := true, deployCh := true }
  | .recvDeploy =>
    if s.pc = .w0 then
      -- `select { case cfg = <-r.deployInput: default: select { case cfg = <-r.deployInput: case <-r.ctx.Done(): } }`
      if s.deployCh then some { s with pc := .deploying, deployCh := false }
      else if s.ctxDone then some { s with pc := .closedEnd }
      else some { s with pc := .parkedDeploy }
    else none
  | .provideEnabling i =>
    if s.enabledAvail then none
    else if c.enabledRefuse.eval i then none      -- "invalid enabled value": an error, nothing changed
    else
      let b := c.enabledDec.eval i
      let s1 := { s with enabledAvail := true, given := some i }
      if s.pc = .parkedEnable then
        -- direct hand-off to the parked receiver
        some { s1 with pc := if b then .w2 else .disabledEnd }
      else some { s1 with enabledCh := some b }
  | .provideStarting =>
    if s.runAvail then none
    else if s.pc = .parkedStart then some { s with runAvail := true, pc := .executing }
    else some { s with runAvail := true, runCh := true }
  | .provideCancelled i =>
    if c.stopOnce && s.stopAvail then none        -- "stop condition provided more than once"
    else
      let s1 := { s with stopAvail := true }
      if c.stopDec.eval i then some (cancelCtx s1) else some s1
  | .close => some (cancelCtx s)
  | .deployOk =>
    if s.pc = .deploying then
      some (if s.ctxDone then { s with pc := .closedEnd } else { s with pc := .w1 })
    else none
  | .deployFail =>
    if s.pc = .deploying then some { s with pc := .deployFailedEnd } else none
  | .evalEnableSelect pickCtx =>
    if s.pc = .w1 then
      match s.enabledCh, s.ctxDone with
      | some b, true =>
        if pickCtx then some { s with pc := .closedEnd }
        else some { s with pc := (if b then .w2 else .disabledEnd), enabledCh := none }
      | some b, false => some { s with pc := (if b then .w2 else .disabledEnd), enabledCh := none }
      | none, true => some { s with pc := .closedEnd }
      | none, false => some { s with pc := .parkedEnable }
    else none
  | .recvRunNonBlocking =>
    if s.pc = .w2 then
      -- `select { case runInput = <-r.runInput: .. default: .. }` then the starting stage is announced
      if s.runCh then some { s with pc := .executing, runCh := false, announced := true }
      else some { s with pc := .w3, announced := true }
    else none
  | .evalStartSelect pickCtx =>
    if s.pc = .w3 then
      match s.runCh, s.ctxDone with
      | true, true => if pickCtx then some { s with pc := .closedEnd } else some { s with pc := .executing, runCh := false }
      | true, false => some { s with pc := .executing, runCh := false }
      | false, true => some { s with pc := .closedEnd }
      | false, false => some { s with pc := .parkedStart }
    else none

/-- run a list of actions (`none` when one of them is not possible) -/
def exec (c : Cfg) : GState → List GAct → Option GState
  | s, [] => some s
  | s, a :: rest =>
    match step c s a with
    | some s' => exec c s' rest
    | none => none

inductive Reach (c : Cfg) : GState → Prop where
  | init : Reach c init
  | step {s s' : GState} (a : GAct) : Reach c s → step c s a = some s' → Reach c s'

/-! ## Admissible outcomes of a script (used by `arcadrv gate`) -/

/-- the moves `run()` can make on its own in state `s`; `deployFails`: the scripted deployment returns an error.  A
    deployment in progress may also fail because the context it runs under was cancelled. -/
def internalActs (deployFails : Bool) (s : GState) : List GAct :=
  [.recvDeploy] ++ (if deployFails then [] else [.deployOk]) ++ (if deployFails || s.ctxDone then [.deployFail] else []) ++
  [.evalEnableSelect false, .evalEnableSelect true, .recvRunNonBlocking, .evalStartSelect false, .evalStartSelect true]

/-- one script entry: an external action, and whether `run()` had come to rest (reached an end or a parked point) before
    it was applied -/
structure Entry where
  act : GAct
  settled : Bool
  deriving Inhabited

def atRest (s : GState) : Bool := isEnd s.pc || s.pc = .parkedDeploy || s.pc = .parkedEnable || s.pc = .parkedStart

/-- all states reachable by letting `run()` move at most `fuel` times (every interleaving choice) -/
def closure (c : Cfg) (deployFails : Bool) : Nat → List GState → List GState
  | 0, ss => ss
  | fuel + 1, ss =>
    let next := (ss.flatMap (fun s => (internalActs deployFails s).filterMap (fun a => step c s a))).eraseDups
    if next.isEmpty then ss else (ss ++ closure c deployFails fuel next).eraseDups

/-- final program points admissible for a script: before a `settled` entry only states at rest are kept; a refused provide
    leaves the state as it is -/
def outcomes (c : Cfg) (deployFails : Bool) : List Entry → List GState → List Pc
  | [], ss => (((closure c deployFails 8 ss).filter atRest).map (·.pc)).eraseDups
  | e :: rest, ss =>
    let cl := closure c deployFails 8 ss
    let pre := if e.settled then cl.filter atRest else cl
    let post := (pre.map (fun s => (step c s e.act).getD s)).eraseDups
    outcomes c deployFails rest post

end Arca.Model.Gate
