/-
G9 — engine-generated outputs: what a provider DECLARES for a stage output (the object schema built in
`runnableStep.Lifecycle`) and what it PRODUCES when it completes that stage (`completeStep`,
`transitionStageWithOutput`, `OnStepComplete`), as row types shared by the tables regenerated from the source on every
run (`Arca.Gen.declaredRows`, `Arca.Gen.producedRows`) and their hand-reviewed snapshots (`Arca.Expected.*`), plus the
decidable conformance predicate `conformsShape`.

Modelling assumption (tied to the source by the pin `Arca.Pins.workflow_workflow__serializedOutput`): before an output
enters the data model the run loop applies `serializedOutput`, which turns a Go struct into the map of its JSON fields
(`json.Marshal` + `json.Unmarshal` into `map[string]any`).  So the keys of a struct-shaped output are the json tag
names of its exported fields (a field without a tag keeps its Go name, `json:"-"` drops it, `,omitempty` makes the key
absent for zero values) and the value kinds are those of the Go field types.  Map-shaped outputs are stored as they are.

Core Lean only.
-/
import Arca.Model.Val
namespace Arca.Model

/-- head constructor of a declared schema type, resp. static kind of a produced Go value -/
inductive TyKind where
  | string | bool | int | float | list | map | any | other
  deriving Repr, DecidableEq, Inhabited

/-- one declared property: `name: schema.NewPropertySchema(<ty>, _, <required>, ...)`.
    `ty` is the descriptor text (`string`, `bool`, `int`, `float`, `any`, `list<..>`, `map<..,..>`, `*` for a schema that
    comes from the plugin or the sub-workflow, otherwise the source text), `kind` its head constructor. -/
structure Prop' where
  name : String
  kind : TyKind
  ty : String
  required : Bool
  deriving Repr, DecidableEq, Inhabited

/-- one key of a produced value.  `src` says how the static kind was determined (`fmt.Sprintf`, `err.Error()`,
    `r.cancelled : bool`, `Error string`, ...); `always = false` when the key can be absent (`,omitempty`). -/
structure Field where
  key : String
  kind : TyKind
  src : String
  always : Bool
  deriving Repr, DecidableEq, Inhabited

/-- shape of a produced output value -/
inductive Shape where
  /-- a `map[any]any{..}` / `map[string]any{..}` literal with constant keys -/
  | mapLit (fields : List Field)
  /-- a Go struct value `T{..}`; the fields are keyed by json tag (see the modelling assumption above) -/
  | struct (name : String) (fields : List Field)
  /-- data that comes from the plugin / the sub-workflows (`result.OutputData`) -/
  | dynamic (src : String)
  /-- a shape the extractor did not recognise -/
  | unknown (src : String)
  deriving Repr, DecidableEq, Inhabited

def Shape.isDynamic : Shape → Bool
  | .dynamic _ => true
  | _ => false

/-- the keys as they are after `serializedOutput`; `none` for shapes without statically known keys -/
def Shape.fields : Shape → Option (List Field)
  | .mapLit fs => some fs
  | .struct _ fs => some fs
  | _ => none

/-- a stage output with a schema: `Outputs: map[string]*schema.StepOutputSchema{ <output>: ... }` of stage `stage`.
    `dynamic = true` (and `output = "*"`) when the whole map comes from the plugin schema (`stepSchema.Outputs()`). -/
structure DeclaredRow where
  provider : String
  stage : String
  output : String
  object : String
  via : String
  isError : Bool
  dynamic : Bool
  props : List Prop'
  deriving Repr, DecidableEq, Inhabited

/-- a site where a provider completes a stage with an output.
    `via` = `completeStep` | `transitionStageWithOutput` | `OnStepComplete`; `stageBy` says how `stage` (the stage the
    output belongs to, i.e. the `previousStage` the handler is told) was determined:
    `entered+arg` (the function entered the stage with a `transition*` call before and passes the same constant),
    `entered` (only the preceding transition / assignment is constant), `arg` (only the argument is),
    `pred(<new stage>)` (`transitionStageWithOutput`: the unique stage that has `<new stage>` among its `NextStages`
    and declares the output id). -/
structure ProducedRow where
  provider : String
  site : String
  via : String
  stage : String
  stageBy : String
  output : String
  shape : Shape
  deriving Repr, DecidableEq, Inhabited

/-- is a produced static kind acceptable for a declared type?  Equal head constructors, or `any` declared.
    A produced kind `other` (statically unknown) or a declared kind `other` is never accepted. -/
def TyKind.accepts (declared produced : TyKind) : Bool :=
  match declared, produced with
  | .other, _ => false
  | _, .other => false
  | .any, _ => true
  | d, p => d == p

def findProp (declared : List Prop') (k : String) : Option Prop' :=
  declared.find? (fun p => p.name == k)

def findField (fs : List Field) (k : String) : Option Field :=
  fs.find? (fun f => f.key == k)

/-- every produced key is a declared property of a compatible kind -/
def keysDeclared (declared : List Prop') (fs : List Field) : Bool :=
  fs.all fun f =>
    match findProp declared f.key with
    | some p => p.kind.accepts f.kind
    | none => false

/-- every REQUIRED declared property is always produced -/
def requiredProduced (declared : List Prop') (fs : List Field) : Bool :=
  declared.all fun p =>
    !p.required ||
      match findField fs p.name with
      | some f => f.always
      | none => false

/-- no key is produced twice (a map literal with a duplicate constant key does not compile; two struct fields with
    the same tag are dropped by encoding/json) -/
def keysDistinct : List Field → Bool
  | [] => true
  | f :: rest => !(rest.any (fun g => g.key == f.key)) && keysDistinct rest

/-- the produced shape conforms to the declared object: every produced key is declared with a compatible kind, every
    required property is produced.  Shapes without static keys do not conform (dynamic ones are excused separately). -/
def conformsShape (declared : List Prop') (produced : Shape) : Bool :=
  match produced.fields with
  | some fs => keysDistinct fs && keysDeclared declared fs && requiredProduced declared fs
  | none => false

/-- does declared row `d` describe the output of produced row `r`? -/
def DeclaredRow.describes (d : DeclaredRow) (r : ProducedRow) : Bool :=
  d.provider == r.provider && d.stage == r.stage && d.output == r.output

/-- the row-level check of `generated_outputs_conform` -/
def rowConforms (declared : List DeclaredRow) (r : ProducedRow) : Bool :=
  r.shape.isDynamic || declared.any (fun d => d.describes r && conformsShape d.props r.shape)

/-- a dynamic produced row (plugin data) must belong to a stage whose outputs are declared by the plugin -/
def dynamicRowDeclared (declared : List DeclaredRow) (r : ProducedRow) : Bool :=
  !r.shape.isDynamic || declared.any (fun d => d.provider == r.provider && d.stage == r.stage && d.dynamic)

/-- non-dynamic declared outputs without any producing site -/
def unproduced (declared : List DeclaredRow) (produced : List ProducedRow) : List (String × String × String) :=
  (declared.filter fun d => !d.dynamic && !(produced.any fun r => d.describes r)).map
    fun d => (d.provider, d.stage, d.output)

/-- produced (non-dynamic) outputs that no declared row describes -/
def undeclared (declared : List DeclaredRow) (produced : List ProducedRow) : List (String × String × String × String) :=
  (produced.filter fun r => !r.shape.isDynamic && !(declared.any fun d => d.describes r)).map
    fun r => (r.provider, r.site, r.stage, r.output)

/-! ### values: what the static shapes and the declared objects say about a concrete `Val` -/

/-- a value is of the static kind the extractor determined for the Go expression that produces it -/
def Val.hasKind : TyKind → Val → Bool
  | .string, .str _ => true
  | .bool, .bool _ => true
  | .int, .int _ => true
  | .float, .float _ => true
  | .list, .list _ => true
  | .map, .map _ => true
  | .any, _ => true
  | _, _ => false

/-- the head constructor of a declared type allows a value (element / member types are not modelled) -/
def TyKind.allows : TyKind → Val → Bool
  | .any, _ => true
  | .other, _ => false
  | k, v => Val.hasKind k v

/-- key/value pairs as a site of shape `fs` produces them: only listed keys, each of its static kind, and every
    `always` key present -/
def fieldsMatch (fs : List Field) (kvs : List (String × Val)) : Bool :=
  (kvs.all fun kv =>
    match findField fs kv.1 with
    | some f => Val.hasKind f.kind kv.2
    | none => false) &&
  (fs.all fun f => !f.always || (lookup f.key kvs).isSome)

/-- the value a site of the given shape hands to the stage-change handler: a map for a map literal, a Go struct for a
    struct literal (the run loop serializes it, `Arca.Model.serializedOutput`) -/
def Val.hasShape : Shape → Val → Bool
  | .mapLit fs, .map kvs => fieldsMatch fs kvs
  | .struct n fs, .gostruct m kvs => n == m && fieldsMatch fs kvs
  | _, _ => false

/-- the object-level part of `ObjectSchema.Unserialize` on a serialized value: every key is a declared property whose
    type allows the value, every required property is present (defaults, conflicts and nested types are not modelled) -/
def objectAccepts (declared : List Prop') : Val → Bool
  | .map kvs =>
    (kvs.all fun kv =>
      match findProp declared kv.1 with
      | some p => p.kind.allows kv.2
      | none => false) &&
    (declared.all fun p => !p.required || (lookup p.name kvs).isSome)
  | _ => false

end Arca.Model
