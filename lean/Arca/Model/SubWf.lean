/-
M9 — sub-workflow discovery of `engine.go`: `StepWorkflowPaths`, `SubworkflowCache` / `subworkflowCache`,
`checkSubworkflowCycles` and the part of `workflowEngine.Parse` that builds the file cache.

A file system is a finite list `name ↦ content`, where the content is the abstraction of what `FromYAML` returns for
the file: `invalid` (FromYAML returned an error) or the list of steps reduced to the shapes `StepWorkflowPaths` looks
at.  Cache keys are the strings written in `workflow:` fields; the file on disk they denote is `norm key`, where the
parameter `norm` stands for `filepath.Join(absDir, f)` (relative to the context directory; `./a.yaml` and `a.yaml` denote
the same file).  The files the caller hands to `Parse` (`supplied`) are a second such list, read BY KEY: a referenced key
the caller supplied is taken from there and not looked for on disk.  The chain of parent files holds what the Go code
holds: the key of a supplied file, the absolute path (`norm key`) of a loaded one.

`subworkflowCache` is a total function: Lean accepts its termination with the measure "number of files of the file
system that are not yet in the chain + number of supplied keys that are not yet in the chain" — every recursive call
extends the chain by a file that exists, or by a key that is supplied, and is not in it.  `checkCycles` likewise with
the number of keys of the merged contents that are not in the chain.  No fuel is involved.  (The version of the Go
function before commit 9eb8f49 had no chain and no such measure.)

Core Lean only.
-/

namespace Arca.Model.SubWf

/-- a step field as the type assertions of `StepWorkflowPaths` see it -/
inductive Field where
  | str (s : String)   -- a Go string
  | other              -- anything else: list, map, expression object, …
  deriving DecidableEq, Repr

/-- one entry of `wf.Steps` -/
inductive Step where
  | notMap                                                  -- `stepData.(map[any]any)` fails
  | map (kind : Option Field) (workflow : Option Field)     -- `none`: key absent
  deriving DecidableEq, Repr

/-- the abstraction of one file -/
inductive FileContent where
  | invalid                     -- `converter.FromYAML(content)` returns an error
  | wf (steps : List Step)
  deriving DecidableEq, Repr

abbrev FS := List (String × FileContent)

inductive Err where
  | noWorkflowFile   -- ErrNoWorkflowFile: the root file is not in the context
  | missing          -- LoadContext: "error reading file"
  | invalid          -- FromYAML error of a (sub-)workflow file
  | cycle            -- "sub-workflow file … references itself through its foreach steps"
  deriving DecidableEq, Repr

/-- outcome of a Go function `(value, error)` that may also panic.  Since `FromYAML` recovers panics of the expression
    parser (commit 55d02b1) no statement of the discovery produces `panic`; `Arca.Props.C11.subworkflowCache_total` proves it. -/
inductive Outcome (α : Type) where
  | ok (a : α)
  | error (e : Err)
  | panic (site : String)
  deriving Repr

/-- result: the keys of the merged file cache, an error, or a panic -/
abbrev Res := Outcome (List String)

def lookup (fs : FS) (name : String) : Option FileContent :=
  match fs with
  | [] => none
  | (n, c) :: rest => if n = name then some c else lookup rest name

/-- the path one step contributes:
    `stepDataMap, ok1 := stepData.(map[any]any)`; `kind, ok1 := stepDataMap["kind"]`; `kindString, isString := kind.(string)`;
    `isString && kindString == "foreach"`; `subworkflowPathString, isString := stepDataMap["workflow"].(string)` -/
def stepPath : Step → Option String
  | .map (some (.str k)) (some (.str w)) => if k = "foreach" then some w else none
  | _ => none

def insertNew (p : String) (acc : List String) : List String :=
  if p ∈ acc then acc else acc ++ [p]

/-- `stepFilePaths[subworkflowPathString] = subworkflowPathString` for the path of one step, if it has one -/
def addStepPath (acc : List String) (s : Step) : List String :=
  match stepPath s with
  | some p => insertNew p acc
  | none => acc

/-- `StepWorkflowPaths`: the key set of the map path ↦ path (duplicates collapse), in first-occurrence order of the step
    list (Go iterates the map in an arbitrary order; every theorem quantifies over all step orders) -/
def stepWorkflowPaths (steps : List Step) : List String :=
  steps.foldl addStepPath []

/-- number of files of the file system that are not in the chain: the termination measure -/
def unvisited (fs : FS) (chain : List String) : Nat :=
  ((fs.map Prod.fst).eraseDups.filter (fun n => !(chain.contains n))).length

/-- `NewFileCacheUsingContext` + `LoadContext`: every referenced file must be readable. `norm` is the path
    normalisation `filepath.Join(absDir, f)` (or `f` itself when absolute) expressed on file-system names: two spellings
    of one file have the same `norm`. -/
def allPresent (norm : String → String) (fs : FS) (paths : List String) : Bool :=
  paths.all (fun p => (lookup fs (norm p)).isSome)

theorem lookup_mem {fs : FS} {p : String} {c : FileContent} (h : lookup fs p = some c) : p ∈ fs.map Prod.fst := by
  induction fs with
  | nil => simp [lookup] at h
  | cons x xs ih =>
    obtain ⟨n, c'⟩ := x
    simp only [lookup] at h
    split at h
    · simp_all
    · simp [ih h]

theorem filter_length_lt {α : Type} (p q : α → Bool) (l : List α) (a : α) (ha : a ∈ l) (hp : p a = true) (hq : q a = false)
    (himp : ∀ x, q x = true → p x = true) : (l.filter q).length < (l.filter p).length := by
  induction l with
  | nil => simp at ha
  | cons x xs ih =>
    have hle : ∀ ys : List α, (ys.filter q).length ≤ (ys.filter p).length := by
      intro ys
      induction ys with
      | nil => simp
      | cons y ys ihy =>
        simp only [List.filter_cons]
        cases hqy : q y
        · cases hpy : p y <;> simp <;> omega
        · simp [himp y hqy]; omega
    simp only [List.filter_cons]
    rcases List.mem_cons.mp ha with rfl | hmem
    · simp [hp, hq]; have := hle xs; omega
    · have := ih hmem
      cases hqx : q x
      · cases hpx : p x <;> simp <;> omega
      · simp [himp x hqx]; omega

/-- extending the chain by an existing file that is not in it decreases the measure -/
theorem unvisited_lt {fs : FS} {chain : List String} {p : String} {c : FileContent}
    (hl : lookup fs p = some c) (hn : ¬ p ∈ chain) : unvisited fs (chain ++ [p]) < unvisited fs chain := by
  unfold unvisited
  apply filter_length_lt _ _ _ p
  · exact List.mem_eraseDups.mpr (lookup_mem hl)
  · simp [hn]
  · simp
  · intro x hx
    simp at hx ⊢
    exact hx.1

theorem filter_length_le {α : Type} (p q : α → Bool) (l : List α) (himp : ∀ x, q x = true → p x = true) :
    (l.filter q).length ≤ (l.filter p).length := by
  induction l with
  | nil => simp
  | cons y ys ihy =>
    simp only [List.filter_cons]
    cases hqy : q y
    · cases hpy : p y <;> simp <;> omega
    · simp [himp y hqy]; omega

/-- extending the chain never increases the measure -/
theorem unvisited_le (fs : FS) (chain : List String) (p : String) : unvisited fs (chain ++ [p]) ≤ unvisited fs chain := by
  unfold unvisited
  apply filter_length_le
  intro x hx
  simp at hx ⊢
  exact hx.1

/-- the files the caller handed to `Parse`: key ↦ content; `none` = a nil `supplied` (the exported `SubworkflowCache`) -/
abbrev Supplied := Option FS

/-- `supplied.ContentByKey(path)`; `none`: the error return -/
def supLookup (sup : Supplied) (p : String) : Option FileContent :=
  match sup with
  | none => none
  | some s => lookup s p

def supFS (sup : Supplied) : FS := sup.getD []

theorem supLookup_supFS {sup : Supplied} {p : String} {c : FileContent} (h : supLookup sup p = some c) :
    lookup (supFS sup) p = some c := by
  cases sup with
  | none => simp [supLookup] at h
  | some s => exact h

/-- the termination measure of the discovery: files of the file system + supplied keys that are not in the chain -/
def measure (fs : FS) (sup : Supplied) (chain : List String) : Nat :=
  unvisited fs chain + unvisited (supFS sup) chain

/-- following a supplied key that is not in the chain decreases the measure -/
theorem measure_lt_supplied {fs : FS} {sup : Supplied} {chain : List String} {p : String} {c : FileContent}
    (hs : supLookup sup p = some c) (hn : ¬ p ∈ chain) : measure fs sup (chain ++ [p]) < measure fs sup chain := by
  have h₁ := unvisited_le fs chain p
  have h₂ := unvisited_lt (supLookup_supFS hs) hn
  unfold measure
  omega

/-- following a file of the file system that is not in the chain decreases the measure -/
theorem measure_lt_disk {fs : FS} {sup : Supplied} {chain : List String} {p : String} {c : FileContent}
    (hl : lookup fs p = some c) (hn : ¬ p ∈ chain) : measure fs sup (chain ++ [p]) < measure fs sup chain := by
  have h₁ := unvisited_lt hl hn
  have h₂ := unvisited_le (supFS sup) chain p
  unfold measure
  omega

mutual
/-- `subworkflowCache(wf, rootDir, converter, flowCaches, parentFiles, supplied)`; `steps` is the abstraction of `wf`,
    `flowCaches` the key lists of the caches collected so far, `chain` is `parentFiles`.  A `nil` cache is the empty
    key list (`MergeFileCaches` skips nil caches; `if flowCache != nil` therefore needs no counterpart). All caches are
    created with the same `rootDir`, or are merges of nil caches, so the root directory check of `MergeFileCaches`
    cannot fail here (`Arca.Props.C20`). -/
def subworkflowCache (norm : String → String) (fs : FS) (sup : Supplied) (steps : List Step)
    (flowCaches : List (List String)) (chain : List String) : Res :=
  let paths := stepWorkflowPaths steps
  match loopSupplied norm fs sup chain paths flowCaches with        -- if supplied != nil { for path := range stepWorkflowPaths
  | .error e => .error e
  | .panic s => .panic s
  | .ok flowCaches =>
    let rest := paths.filter (fun p => (supLookup sup p).isNone)    -- what delete(stepWorkflowPaths, path) leaves
    if rest.isEmpty then .ok flowCaches.flatten                     -- return nil, nil / MergeFileCaches(flowCaches...)
    else if allPresent norm fs rest then                            -- NewFileCacheUsingContext + LoadContext
      match loopFiles norm fs sup chain rest flowCaches with        -- for _, ctxFile := range stepFilesCache.Files()
      | .error e => .error e
      | .panic s => .panic s
      | .ok caches => .ok ((caches ++ [rest]).flatten)              -- append(flowCaches, stepFilesCache); MergeFileCaches
    else .error .missing
termination_by (measure fs sup chain, 1, 0)

/-- the loop over the paths the caller supplied; returns the extended `flowCaches` -/
def loopSupplied (norm : String → String) (fs : FS) (sup : Supplied) (chain : List String) (paths : List String)
    (flowCaches : List (List String)) : Outcome (List (List String)) :=
  match paths with
  | [] => .ok flowCaches
  | p :: rest =>
    match hs : supLookup sup p with
    | none => loopSupplied norm fs sup chain rest flowCaches        -- ContentByKey fails: continue
    | some .invalid =>
      if p ∈ chain then .error .cycle else .error .invalid          -- parentFile == path; converter.FromYAML(content)
    | some (.wf sub) =>
      if hc : p ∈ chain then .error .cycle                          -- parentFile == path
      else
        have : measure fs sup (chain ++ [p]) < measure fs sup chain := measure_lt_supplied hs hc
        -- chain := append(append(make(..), parentFiles...), path)
        match subworkflowCache norm fs sup sub flowCaches (chain ++ [p]) with
        | .error e => .error e
        | .panic s => .panic s
        | .ok flowCache => loopSupplied norm fs sup chain rest (flowCaches ++ [flowCache])
termination_by (measure fs sup chain, 0, paths.length)

/-- the loop over the context files; returns the extended `flowCaches` -/
def loopFiles (norm : String → String) (fs : FS) (sup : Supplied) (chain : List String) (files : List String)
    (flowCaches : List (List String)) : Outcome (List (List String)) :=
  match files with
  | [] => .ok flowCaches
  | p :: rest =>
    if hc : norm p ∈ chain then .error .cycle                       -- parentFile == ctxFile.AbsolutePath
    else
      match hl : lookup fs (norm p) with
      | none => .error .missing                                     -- unreachable after LoadContext
      | some .invalid => .error .invalid                            -- converter.FromYAML(ctxFile.Content)
      | some (.wf sub) =>
        have : measure fs sup (chain ++ [norm p]) < measure fs sup chain := measure_lt_disk hl hc
        -- chain := append(append(make(..), parentFiles...), ctxFile.AbsolutePath)
        match subworkflowCache norm fs sup sub flowCaches (chain ++ [norm p]) with
        | .error e => .error e
        | .panic s => .panic s
        | .ok flowCache => loopFiles norm fs sup chain rest (flowCaches ++ [flowCache])
termination_by (measure fs sup chain, 0, files.length)
end

/-- `SubworkflowCache(wf, rootDir, converter, flowCaches)` -/
def subworkflowCacheTop (norm : String → String) (fs : FS) (steps : List Step) : Res :=
  subworkflowCache norm fs none steps [] []

mutual
/-- `checkSubworkflowCycles(wf, contents, converter, parentFiles)`: the references are followed BY KEY in `contents` -/
def checkCycles (ctx : FS) (steps : List Step) (chain : List String) : Outcome Unit :=
  loopCheck ctx chain (stepWorkflowPaths steps)                     -- for _, path := range StepWorkflowPaths(wf)
termination_by (unvisited ctx chain, 1, 0)

def loopCheck (ctx : FS) (chain : List String) (paths : List String) : Outcome Unit :=
  match paths with
  | [] => .ok ()
  | p :: rest =>
    if hc : p ∈ chain then .error .cycle                            -- parentFile == path
    else
      match hl : lookup ctx p with
      | none => loopCheck ctx chain rest                            -- missing: reported when the workflow is prepared
      | some .invalid => .error .invalid                            -- converter.FromYAML(content)
      | some (.wf sub) =>
        have : unvisited ctx (chain ++ [p]) < unvisited ctx chain := unvisited_lt hl hc
        match checkCycles ctx sub (chain ++ [p]) with
        | .error e => .error e
        | .panic s => .panic s
        | .ok () => loopCheck ctx chain rest
termination_by (unvisited ctx chain, 0, paths.length)
end

/-- `files.Contents()` after `MergeFileCaches(stepWorkflowFileCache, files)`: the caller's entries first (they win), then
    the discovered keys with the content of the file they denote -/
def mergedContents (norm : String → String) (fs files : FS) (keys : List String) : FS :=
  files ++ keys.filterMap (fun k => (lookup fs (norm k)).map (fun c => (k, c)))

/-- the file-cache part of `workflowEngine.Parse` for the caller's cache `files`: find the root (by key), convert it,
    collect the sub-workflows (the caller's cache is `supplied`), merge, check the merged contents for reference cycles;
    the result is the key list of the merged cache -/
def parseFiles (norm : String → String) (fs files : FS) (root : String) : Res :=
  match lookup files root with
  | none => .error .noWorkflowFile
  | some .invalid => .error .invalid
  | some (.wf steps) =>
    match subworkflowCache norm fs (some files) steps [] [] with
    | .error e => .error e
    | .panic s => .panic s
    | .ok keys =>                               -- MergeFileCaches(stepWorkflowFileCache, files)
      match checkCycles (mergedContents norm fs files keys) steps [] with
      | .error e => .error e
      | .panic s => .panic s
      | .ok () => .ok (keys ++ files.map Prod.fst)

/-- the cache `cmd/arcaflow/main.go` hands to `Parse`: `NewFileCacheUsingContext(dir, {root: root})` + `LoadContext`, i.e.
    the root workflow alone, as it is on disk -/
def contextCache (norm : String → String) (fs : FS) (root : String) : FS :=
  match lookup fs (norm root) with
  | some c => [(root, c)]
  | none => []

end Arca.Model.SubWf
