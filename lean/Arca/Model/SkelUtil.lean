/-
Small decidable queries over the regenerated control skeletons (`Arca.Gen.Skel.*`: token lists extracted from the Go
source on every run).  Used for ordering facts that must survive harmless edits but break on the reorderings that
matter ("the deferred termination is registered before the first blocking wait").
-/
namespace Arca.Model.Skel

def indexOf? (p : String → Bool) : List String → Option Nat
  | [] => none
  | t :: ts => if p t then some 0 else (indexOf? p ts).map (· + 1)

/-- the first token satisfying `p` occurs, and strictly before the first token satisfying `q` (if any) -/
def firstBefore (p q : String → Bool) (l : List String) : Bool :=
  match indexOf? p l, indexOf? q l with
  | some i, some j => i < j
  | some _, none => true
  | none, _ => false

def has (p : String → Bool) (l : List String) : Bool := l.any p

def count (p : String → Bool) (l : List String) : Nat := (l.filter p).length

def isTok (s : String) : String → Bool := fun t => t == s
/-- prefix test on the character lists (reduces in the kernel, unlike `String.splitOn`) -/
def startsWith (s : String) : String → Bool := fun t => s.toList.isPrefixOf t.toList

/-- tokens `a` immediately followed by `b` somewhere in the list -/
def adjacent (a b : String → Bool) : List String → Bool
  | x :: y :: rest => (a x && b y) || adjacent a b (y :: rest)
  | _ => false

end Arca.Model.Skel
