/-
M4 — `loopState` (workflow/workflow.go) as a deterministic reaction function.

The real run loop is a reactive object protected by one mutex: three callbacks (`onStageComplete` via
OnStageChange/OnStepComplete, the `onStepStageFailure` closure, the deadlock-detector retry) and the
initial `notifySteps` of `Execute`.  Each runs to completion under the lock, so a run is a *linear history
of events*, and the loop is the fold of `react` over that history.

`onStageComplete` is reached from two callbacks: OnStageChange (`Event.stageChange`, `newStage != nil`) and
OnStepComplete (`Event.stepComplete`, `newStage == nil`): only the latter declares the stages the step did not go
through impossible (`markRemaining`, repair of finding F11); both record the finished stage in `finished`.

Every `panic(...)` in workflow.go is an `Action.panic site`; a send on the bounded error channel that would
block while the lock is held is `Action.stuck`; neither is ever hidden behind a default.
-/
import Arca.Model.Val
import Arca.Model.Dgraph

namespace Arca.Model

/-- Unresolved input data: what `DAGItem.Data` holds (literals, expressions, tagged constructs). -/
inductive InVal where
  | lit (v : Val)
  | expr (e : Expr)
  | list (xs : List InVal)
  | map (kvs : List (String × InVal))
  | oneof (disc : String) (nodePath : String) (opts : List (String × InVal))
  | optional (wait : Bool) (group parent : String) (e : Expr)
  deriving Repr, Inhabited

inductive Kind where
  | input | stage | stageOutput | output | group
  deriving DecidableEq, Repr, Inhabited

structure Item where
  kind : Kind
  step : String := ""
  stage : String := ""
  output : String := ""
  data : Option InVal := none
  hasSchema : Bool := false
  deriving Repr, Inhabited

/-- What `Prepare` hands to `Execute`. `stages s` = the stages of step `s` with their declared outputs. -/
structure Prepared where
  dag : Graph String
  items : List (String × Item)
  stages : List (String × List (String × List String))
  errCap : Nat
  deriving Repr

inductive ErrKind where
  | getStageNode | resolveStageNode | getOutputNode | resolveOutputNode
  | noMoreOutputs | noMoreSteps | bugSchema | bugProvide | evalFailed
  deriving DecidableEq, Repr, Inhabited

inductive PanicSite where
  | markOutputsUnresolvable | markStageNodeUnresolvable | notifyGetNode | groupResolve
  | resolveExpressions | missingIds | unhandledKind | dgraphInternal | stageInputNotMap
  deriving DecidableEq, Repr, Inhabited

inductive Action where
  | provide (step stage : String) (input : Val)
  | output (id : String) (v : Val)
  | outputSkipped (id : String) (v : Val)     -- a second output node became ready: "Workflow already done"
  | errorSent (k : ErrKind)
  | errorDropped (k : ErrKind)                -- the error buffer was full: logged only
  | cancel
  | spawnDetector (retries : Nat)
  | panic (site : PanicSite)
  | stuck
  deriving Repr, Inhabited

inductive Event where
  /-- `Execute` after input validation: push starting nodes, resolve the input node, first `notifySteps`. -/
  | start (input : Val)
  /-- OnStageChange / OnStepComplete: `prev` finished, optionally with an output. `busy` = some step is in state
      starting or running when the deadlock check at the end of the callback polls `State()`. -/
  | stageChange (step : String) (prev : Option String) (out : Option (String × Val)) (busy : Bool)
  /-- OnStepComplete: the step is complete (`newStage == nil` in `onStageComplete`); its last stage `prev` (a plain
      string in this callback, so always given) finished, optionally with an output.  The stages the step did not go
      through are declared impossible (`markRemainingStagesUnresolvable`).  `busy` as for `stageChange`. -/
  | stepComplete (step : String) (prev : String) (out : Option (String × Val)) (busy : Bool)
  /-- OnStepStageFailure -/
  | stageFail (step stage : String)
  /-- the retry goroutine of `checkForDeadlocks` fires with `retries` left -/
  | tick (retries : Nat) (busy : Bool)
  /-- `Execute` leaves its wait: `handleErrors` empties the error channel (then steps are terminated) -/
  | drain
  deriving Repr, Inhabited

structure LoopState where
  dag : Graph String
  data : Val
  waitingOutputs : List String
  outputDone : Bool := false
  errs : Nat := 0
  cancelled : Bool := false
  result : Option (String × Val) := none
  dead : Bool := false        -- panicked or blocked forever while holding the lock
  /-- `finishedStages`: the (step, stage) pairs of the stages the steps have gone through (the Go map of sets
      `map[string]map[string]struct{}` as one list of pairs) -/
  finished : List (String × String) := []
  deriving Repr

abbrev Order := List (String × St) → List (String × St)
abbrev Fns := String → List Val → Except EvalErr Val

/-! ### expression evaluation -/

mutual
  def evalExpr (fns : Fns) (data : Val) : Expr → Except EvalErr Val
    | .root => .ok data
    | .dot e k => match evalExpr fns data e with
      | .ok v => v.getKey k
      | .error x => .error x
    | .idx e i => match evalExpr fns data e with
      | .ok v => v.getIdx i
      | .error x => .error x
    | .lit v => .ok v
    | .call fn args => match evalArgs fns data args with
      | .ok vs => fns fn vs
      | .error x => .error x
  def evalArgs (fns : Fns) (data : Val) : List Expr → Except EvalErr (List Val)
    | [] => .ok []
    | e :: es => match evalExpr fns data e with
      | .ok v => match evalArgs fns data es with
        | .ok vs => .ok (v :: vs)
        | .error x => .error x
      | .error x => .error x
end

inductive ResolveErr where
  | eval (e : EvalErr)
  | oneofNoNode | oneofNoResolved | oneofNoOption | oneofNotMap
  | optionalNoParent
  deriving Repr, Inhabited

def stripPrefix (pre s : String) : String :=
  if s.startsWith pre then (s.drop pre.length).toString else s

mutual
  /-- `resolveExpressions`; `Val.null` plays Go's `nil` (an absent optional field). -/
  def resolveIn (fns : Fns) (dag : Graph String) (data : Val) : InVal → Except ResolveErr Val
    | .lit v => .ok v
    | .expr e => match evalExpr fns data e with
      | .ok v => .ok v
      | .error x => .error (.eval x)
    | .list xs => match resolveList fns dag data xs with
      | .ok vs => .ok (.list vs)
      | .error x => .error x
    | .map kvs => match resolveKvs fns dag data kvs with
      | .ok r => .ok (.map r)
      | .error x => .error x
    | .oneof disc nodePath opts =>
      match dag.find? nodePath with
      | none => .error .oneofNoNode
      | some n =>
        match n.res.find? (fun p => p.2 = Dep.or) with
        | none => .error .oneofNoResolved
        | some (depId, _) =>
          let optId := stripPrefix (nodePath ++ ".") depId
          match resolveOpt fns dag data optId opts with
          | .error x => .error x
          | .ok none => .error .oneofNoOption
          | .ok (some (.map kvs)) => .ok (.map (insertKv disc (.str optId) kvs))
          | .ok (some _) => .error .oneofNotMap
    | .optional _ group parent e =>
      match dag.find? parent with
      | none => .error .optionalNoParent
      | some p =>
        if p.res.any (fun q => q.1 = group) then
          match evalExpr fns data e with
          | .ok v => .ok v
          | .error x => .error (.eval x)
        else .ok .null
  def resolveList (fns : Fns) (dag : Graph String) (data : Val) : List InVal → Except ResolveErr (List Val)
    | [] => .ok []
    | x :: xs => match resolveIn fns dag data x with
      | .error e => .error e
      | .ok v => match resolveList fns dag data xs with
        | .error e => .error e
        | .ok vs => match x, v with
          | .optional _ _ _ _, .null => .ok vs    -- an absent optional ITEM is left out (`isOptional && newValue == nil`)
          | _, _ => .ok (v :: vs)
  def resolveKvs (fns : Fns) (dag : Graph String) (data : Val) :
      List (String × InVal) → Except ResolveErr (List (String × Val))
    | [] => .ok []
    | (k, x) :: xs => match resolveIn fns dag data x with
      | .error e => .error e
      | .ok v => match resolveKvs fns dag data xs with
        | .error e => .error e
        | .ok vs => match v with
          | .null => .ok vs                       -- `if newValue != nil`
          | _ => .ok ((k, v) :: vs)
  def resolveOpt (fns : Fns) (dag : Graph String) (data : Val) (optId : String) :
      List (String × InVal) → Except ResolveErr (Option Val)
    | [] => .ok none
    | (k, x) :: xs =>
      if k = optId then
        match resolveIn fns dag data x with
        | .error e => .error e
        | .ok v => .ok (some v)
      else resolveOpt fns dag data optId xs
end

/-! ### the loop -/

abbrev R := LoopState × List Action

def emit (r : R) (a : Action) : R := (r.1, r.2 ++ [a])

def die (r : R) (a : Action) : R := ({ r.1 with dead := true }, r.2 ++ [a])

/-- `l.reportError(err)`: a non-blocking send into the bounded error channel; dropped (and logged) when full. -/
def sendErr (cap : Nat) (r : R) (k : ErrKind) : R :=
  if r.1.dead then r
  else if r.1.errs < cap then ({ r.1 with errs := r.1.errs + 1 }, r.2 ++ [.errorSent k])
  else (r.1, r.2 ++ [.errorDropped k])

def doCancel (r : R) : R :=
  if r.1.dead then r else ({ r.1 with cancelled := true }, r.2 ++ [.cancel])

def stageNodeId (step stage : String) : String := "steps." ++ step ++ "." ++ stage
def outputNodeId (step stage out : String) : String := "steps." ++ step ++ "." ++ stage ++ "." ++ out

def Prepared.outputsOf (P : Prepared) (step stage : String) : List String :=
  match lookup step P.stages with
  | none => []
  | some sts => (lookup stage sts).getD []

/-- `markOutputsUnresolvable(step, stage, skipped)` -/
def markOutputsUnres (P : Prepared) (step stage : String) (skip : Option String) (r : R) : R :=
  (P.outputsOf step stage).foldl (fun r o =>
    if r.1.dead then r
    else if skip = some o then r
    else if !(r.1.dag.has (outputNodeId step stage o)) then r
    else match r.1.dag.resolve (outputNodeId step stage o) .unres with
      | .ok g => ({ r.1 with dag := g }, r.2)
      | .error _ => die r (.panic .markOutputsUnresolvable)) r

/-- `markStageNodeUnresolvable(step, stage)` -/
def markStageUnres (step stage : String) (r : R) : R :=
  if r.1.dead then r
  else if !(r.1.dag.has (stageNodeId step stage)) then r
  else match r.1.dag.resolve (stageNodeId step stage) .unres with
    | .ok g => ({ r.1 with dag := g }, r.2)
    | .error _ => die r (.panic .markStageNodeUnresolvable)

/-- the stage ids of the lifecycle of `step`, in lifecycle order (`l.lifecycles[stepID].Stages`) -/
def Prepared.stagesOf (P : Prepared) (step : String) : List String :=
  match lookup step P.stages with
  | none => []
  | some sts => sts.map (·.1)

/-- the body of the `for` loop of `markRemainingStagesUnresolvable` for one stage of the lifecycle -/
def markRemainingOne (P : Prepared) (step : String) (r : R) (stage : String) : R :=
  if r.1.finished.contains (step, stage) then r      -- `continue`
  else markStageUnres step stage (markOutputsUnres P step stage none r)

/-- `markRemainingStagesUnresolvable(step)`: a completed step will not go through the stages it has not gone through -/
def markRemaining (P : Prepared) (step : String) (r : R) : R :=
  (P.stagesOf step).foldl (markRemainingOne P step) r

/-- `serializedOutput`: a Go struct output is stored as the map of its (JSON) fields -/
def serializedOutput : Val → Val
  | .gostruct _ kvs => .map kvs
  | v => v

def setStageData (data : Val) (step stage out : String) (v0 : Val) : Val :=
  let v := serializedOutput v0
  match data with
  | .map top =>
    let steps := match lookup "steps" top with
      | some (.map s) => s
      | _ => []
    let st := match lookup step steps with
      | some (.map m) => m
      | _ => []
    .map (insertKv "steps" (.map (insertKv step (.map (insertKv stage (.map [(out, v)]) st)) steps)) top)
  | other => other

/-- one ready node, as the body of the `for` loop in `notifySteps`; returns `true` if the loop must `return` -/
def processNode (P : Prepared) (fns : Fns) (notify : R → R) (r : R) (nodeId : String) (st : St) : R × Bool :=
  if r.1.dead then (r, true) else
  match lookup nodeId P.items with
  | none => (die r (.panic .notifyGetNode), true)
  | some item =>
    if st = .unres then
      if item.kind = .output then
        -- a failed output node can become ready again; only the first time counts
        if !(r.1.waitingOutputs.contains nodeId) then (r, false) else
        let s1 := { r.1 with waitingOutputs := r.1.waitingOutputs.filter (· ≠ nodeId) }
        if s1.waitingOutputs.isEmpty ∧ !s1.outputDone then
          let r2 := doCancel (sendErr P.errCap (s1, r.2) .noMoreOutputs)
          (r2, r2.1.dead)
        else ((s1, r.2), false)
      else (r, false)
    else
    match item.data with
    | none =>
      if item.kind = .group then
        match r.1.dag.resolve nodeId .resolved with
        | .error _ => (die r (.panic .groupResolve), true)
        | .ok g =>
          let r2 := notify ({ r.1 with dag := g }, r.2)
          (r2, r2.1.dead)
      else (r, false)
    | some inData =>
      match resolveIn fns r.1.dag r.1.data inData with
      | .error _ =>
        -- reported through the error channel, then cancel and `return`
        (doCancel (sendErr P.errCap r .evalFailed), true)
      | .ok v =>
        match item.kind with
        | .stage =>
          if !item.hasSchema then (r, false)
          else if item.step = "" ∨ item.stage = "" then (die r (.panic .missingIds), true)
          else match v with
            | .map _ => (emit r (.provide item.step item.stage v), false)
            | _ => (die r (.panic .stageInputNotMap), true)
        | .output =>
          let r1 : R :=
            if r.1.outputDone then emit r (.outputSkipped item.output v)
            else ({ r.1 with outputDone := true, result := some (item.output, v) },
                  r.2 ++ [.output item.output v])
          -- node.ResolveNode(Resolved); an error is only logged
          match r1.1.dag.resolve nodeId .resolved with
          | .ok g => (({ r1.1 with dag := g }, r1.2), false)
          | .error _ => (r1, false)
        | _ => (die r (.panic .unhandledKind), true)

def processNodes (P : Prepared) (fns : Fns) (notify : R → R) : R → List (String × St) → R
  | r, [] => r
  | r, (id, st) :: rest =>
    let (r', stop) := processNode P fns notify r id st
    if stop then r' else processNodes P fns notify r' rest

/-- `notifySteps`, with fuel for the recursion through dependency-group nodes (each level resolves one). -/
def notifySteps (P : Prepared) (fns : Fns) (ord : Order) : Nat → R → R
  | 0, r => r
  | f + 1, r =>
    if r.1.dead then r else
    let (readyNodes, g) := r.1.dag.popReady
    processNodes P fns (notifySteps P fns ord f) ({ r.1 with dag := g }, r.2) (ord readyNodes)

def notifyFuel (P : Prepared) : Nat := P.dag.nodes.length + 2

/-- `checkForDeadlocks(retries, wg)` -/
def checkDeadlock (P : Prepared) (retries : Nat) (busy : Bool) (r : R) : R :=
  if r.1.dead then r
  else if !busy ∧ !r.1.dag.hasReady ∧ !r.1.outputDone then
    match retries with
    | 0 => doCancel (sendErr P.errCap r .noMoreSteps)
    | n + 1 => emit r (.spawnDetector n)
  else r

def initData (P : Prepared) (input : Val) : Val :=
  .map [("input", input), ("steps", .map (P.stages.map (fun s => (s.1, Val.map []))))]

def LoopState.init (P : Prepared) : LoopState :=
  { dag := P.dag.clone, data := .map [],
    waitingOutputs := (P.items.filter (fun p => p.2.kind = .output)).map (·.1) }

/-- the end of `onStageComplete`: `if newStage == nil { l.markRemainingStagesUnresolvable(stepID) }; l.notifySteps()`
    (a panic while marking leaves the loop dead: `notifySteps` does nothing then) -/
def finishStage (P : Prepared) (fns : Fns) (ord : Order) (step : String) (complete : Bool) (r : R) : R :=
  notifySteps P fns ord (notifyFuel P) (if complete then markRemaining P step r else r)

/-- `onStageComplete(step, prev, outID, out, newStage, wg)` without the deferred deadlock check;
    `complete` = `newStage == nil` (the call comes from OnStepComplete) -/
def onStageCompleteBody (P : Prepared) (fns : Fns) (ord : Order) (step prev : String)
    (out : Option (String × Val)) (complete : Bool) (r : R) : R :=
  let sn := stageNodeId step prev
  if !(r.1.dag.has sn) then doCancel (sendErr P.errCap r .getStageNode)
  else match r.1.dag.resolve sn .resolved with
    | .error (.panicDupResolution _ _) => die r (.panic .dgraphInternal)
    | .error (.panicNoConnection _ _) => die r (.panic .dgraphInternal)
    | .error _ => doCancel (sendErr P.errCap r .resolveStageNode)
    | .ok g =>
      -- `l.finishedStages[stepID][*previousStage] = struct{}{}`
      let r1 : R := ({ r.1 with dag := g, finished := (step, prev) :: r.1.finished }, r.2)
      match out with
      | none => finishStage P fns ord step complete r1
      | some (oid, v) =>
        let on := outputNodeId step prev oid
        if !(r1.1.dag.has on) then doCancel (sendErr P.errCap r1 .getOutputNode)
        else match r1.1.dag.resolve on .resolved with
          | .error (.panicDupResolution _ _) => die r1 (.panic .dgraphInternal)
          | .error (.panicNoConnection _ _) => die r1 (.panic .dgraphInternal)
          | .error _ => doCancel (sendErr P.errCap r1 .resolveOutputNode)
          | .ok g2 =>
            let r2 := markOutputsUnres P step prev (some oid) ({ r1.1 with dag := g2 }, r1.2)
            if r2.1.dead then r2 else
            let r3 : R := ({ r2.1 with data := setStageData r2.1.data step prev oid v }, r2.2)
            finishStage P fns ord step complete r3

def react (P : Prepared) (fns : Fns) (ord : Order) (s : LoopState) (e : Event) : LoopState × List Action :=
  if s.dead then (s, []) else
  match e with
  | .start input =>
    let s1 := { s with data := initData P input, dag := s.dag.pushStarting }
    if !(s1.dag.has "input") then (s1, [])       -- "bug: cannot obtain input node": Execute returns an error
    else match s1.dag.resolve "input" .resolved with
      | .error _ => (s1, [])
      | .ok g => notifySteps P fns ord (notifyFuel P) ({ s1 with dag := g }, [])
  | .stageChange step prev out busy =>
    match prev with
    | none => (s, [])
    | some p =>
      let r := onStageCompleteBody P fns ord step p out false (s, [])
      checkDeadlock P 3 busy r
  | .stepComplete step prev out busy =>
    let r := onStageCompleteBody P fns ord step prev out true (s, [])
    checkDeadlock P 3 busy r
  | .stageFail step stage =>
    let r := markOutputsUnres P step stage none (s, [])
    let r := markStageUnres step stage r
    if r.1.dead then r else notifySteps P fns ord (notifyFuel P) r
  | .tick retries busy =>
    -- the retry goroutine selects on the run context: once cancelled it returns without checking
    if s.cancelled then (s, []) else checkDeadlock P retries busy (s, [])
  | .drain => ({ s with errs := 0 }, [])

def runFrom (P : Prepared) (fns : Fns) (ord : Order) : LoopState → List Event → LoopState × List Action
  | s, [] => (s, [])
  | s, e :: es =>
    let (s1, a1) := react P fns ord s e
    let (s2, a2) := runFrom P fns ord s1 es
    (s2, a1 ++ a2)

def run (P : Prepared) (fns : Fns) (ord : Order) (h : List Event) : LoopState × List Action :=
  runFrom P fns ord (LoopState.init P) h

end Arca.Model
