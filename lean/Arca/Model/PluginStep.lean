/-
M5/M6 — the plugin and foreach step providers (`internal/step/plugin/provider.go`,
`internal/step/foreach/provider.go`) as far as property C12 needs them.

Two observations keep the model small.

(1) Every notification of a running step (`OnStageChange` / `OnStepComplete` / `OnStepStageFailure`) is issued by ONE
    goroutine, `run()`, whose control-flow graph is acyclic.  The notification trace of a step is therefore one path
    through that graph, selected by the environment (which `select` branch fires, deployment ok/failed, enabled or
    not, start ok/failed, plugin result, where the context was cancelled).  `pluginPaths` / `foreachPaths` list EVERY
    path as data, built from small pieces that mirror the Go helper functions one to one; the fall-through chain of
    `markStageFailures` is not written down here but read from the regenerated facts (`Arca.Gen.pluginFailChain`).

(2) The concurrency-sensitive clauses of C12 (closing is idempotent / returns / no notification afterwards, a second
    input is refused, providing input never blocks) only concern a few flags, channels whose capacities are in
    `Arca.Gen.Consts`, one atomic and one wait group: the synchronisation skeleton `SyncState` / `syncStep`.

`LifecycleSpec` is the property itself as an executable acceptor over a whole notification trace.  It is independent of
`pluginPaths` and is also evaluated by `arcadrv provider` on every trace the real code produced.

Core Lean only (the driver executable links this file).
-/
import Arca.Gen.Lifecycle
import Arca.Gen.Consts

namespace Arca.Model.PluginStep
open Arca.Gen

/-! ## Notifications -/

/-- one call of the `StageChangeHandler` -/
inductive Notif where
  /-- `OnStageChange(prev, prevOutputID, _, newStage, _)` -/
  | change (prev : Option String) (out : Option String) (stage : String)
  /-- `OnStepComplete(prev, prevOutputID, _)` -/
  | complete (prev : String) (out : Option String)
  /-- `OnStepStageFailure(stage, err)` -/
  | fail (stage : String)
  deriving Repr, DecidableEq

/-! ## The helper functions of `runningStep`, as trace builders

`Cursor.cur` is `r.currentStage`, `Cursor.tr` the notifications issued so far. -/

structure Cursor where
  cur : String
  tr : List Notif
  deriving Repr, DecidableEq

abbrev Piece := Cursor → Cursor

def seq (ps : List Piece) : Piece := fun c => ps.foldl (fun c p => p c) c

def emit (n : Notif) : Piece := fun c => { c with tr := c.tr ++ [n] }

/-- `transitionStageWithOutput(newStage, _, outputID, _)` -/
def transitionStageWithOutput (newStage : String) (out : Option String) : Piece := fun c =>
  { cur := newStage
    tr := c.tr ++ [.change (some c.cur) out newStage] }

/-- `transitionRunningStage(newStage)` -/
def transitionRunningStage (newStage : String) : Piece := transitionStageWithOutput newStage none

/-- `transitionFromFailedStage(newStage, _, err)`: the stage that is left is reported as failed -/
def transitionFromFailedStage (newStage : String) : Piece := fun c =>
  { cur := newStage
    tr := c.tr ++ [.fail c.cur] }

/-- `completeStep(currentStage, _, outputID, _)`: note that the *previous* stage reported is `r.currentStage` as it was
    when `completeStep` was entered -/
def completeStep (stage : String) (out : Option String) : Piece := fun c =>
  { cur := stage
    tr := c.tr ++ [.complete c.cur out] }

/-- the marker reported instead of a stage when `markStageFailures` would `panic("unknown StageID")` -/
def panicUnknownStage : String := "<panic: unknown StageID>"

/-- an entry `(case label, "stage+")` falls through to the next case -/
def chainEntry (e : String × String) : String × Bool :=
  if e.2.toList.getLast? == some '+' then (String.ofList e.2.toList.dropLast, true) else (e.2, false)

/-- the stages notified once the switch has been entered at some case -/
def chainRun : List (String × String) → List String
  | [] => []
  | e :: rest => let p := chainEntry e; if p.2 then p.1 :: chainRun rest else [p.1]

/-- `markStageFailures(first, _)` over an extracted fall-through chain; `none` = the `default:` arm (panic) -/
def chainFrom : List (String × String) → String → Option (List String)
  | [], _ => none
  | e :: rest, first => if e.1 == first then some (chainRun (e :: rest)) else chainFrom rest first

def markStageFailuresWith (chain : List (String × String)) (first : String) : Piece := fun c =>
  match chainFrom chain first with
  | some stages => { c with tr := c.tr ++ stages.map .fail }
  | none => { c with tr := c.tr ++ [.fail panicUnknownStage] }

/-- `markStageFailures(first, _)` of the plugin provider -/
def markStageFailures (first : String) : Piece := markStageFailuresWith pluginFailChain first

/-- `markNotClosable(_)` -/
def markNotClosable : Piece := emit (.fail "closed")

/-- `deployFailed(_)` -/
def deployFailed : Piece := seq [
  transitionRunningStage "deploy_failed",
  completeStep "deploy_failed" (some "error"),
  markStageFailures "enabling",
  markNotClosable ]

/-- `transitionToDisabled()` -/
def transitionToDisabled : Piece := seq [
  transitionStageWithOutput "disabled" (some "resolved"),
  completeStep "disabled" (some "output"),
  markStageFailures "starting",
  markNotClosable ]

/-- `closedEarly(stageToMarkUnresolvable, priorStageFailed)` -/
def closedEarly (stageToMarkUnresolvable : String) (priorStageFailed : Bool) : Piece := seq [
  (if priorStageFailed then transitionFromFailedStage "closed" else transitionRunningStage "closed"),
  completeStep "closed" (some "result"),
  markStageFailures stageToMarkUnresolvable ]

/-- `startFailed(_)` -/
def startFailed : Piece := seq [
  transitionFromFailedStage "crashed",
  completeStep "crashed" (some "error"),
  markStageFailures "running",
  markNotClosable ]

/-- `runFailed(_)` -/
def runFailed : Piece := seq [
  transitionRunningStage "crashed",
  completeStep "crashed" (some "error"),
  markStageFailures "outputs",
  markNotClosable ]

/-- `deployStage()` up to the point where it waits: `OnStageChange(nil, nil, nil, "deploy", ..)` -/
def deployStageEntry : Piece := emit (.change none none "deploy")

/-- `enableStage()` up to the `select` -/
def enableStageEntry : Piece := fun c =>
  { cur := "enabling"
    tr := c.tr ++ [.change (some c.cur) none "enabling"] }

/-- `enableStage()` after `enabled == true` was received -/
def enabledTrue : Piece := emit (.fail "disabled")

/-- `startStage()`: `transitionStageWithOutput(StageIDStarting, _, "resolved", _)` -/
def startStageEntry : Piece := transitionStageWithOutput "starting" (some "resolved")

/-- `runStage()`: `transitionStageWithOutput(StageIDRunning, _, "started", _)` -/
def runStageEntry : Piece := transitionStageWithOutput "running" (some "started")

/-- the tail of `runStage()` for a result without error: `transitionRunningStage(StageIDOutput)`,
    `completeStep(r.currentStage, _, &result.OutputID, _)` -/
def runResultOk (outputID : String) : Piece := fun c =>
  let c1 := transitionRunningStage "outputs" c
  completeStep c1.cur (some outputID) c1

def start : Cursor :=
  { cur := "deploy"
    tr := [] }

def path (ps : List Piece) : List Notif := (seq ps start).tr

/-! ## Every path of `run()`

The label names the environment choices that select the path.  Several labels share one notification sequence (the
handler cannot tell a plugin error from a closure timeout); they are kept apart because the driver checks that the path
the real code took is one whose choices the script could have produced. -/

def upToEnabling : List Piece := [deployStageEntry, enableStageEntry]
def upToStarting : List Piece := upToEnabling ++ [enabledTrue, startStageEntry]
def upToRunning : List Piece := upToStarting ++ [runStageEntry]

/-- the paths that do not depend on the plugin's own output ids -/
def fixedPaths : List (String × List Notif) := [
  -- deployStage: `case <-r.ctx.Done(): return nil, true, nil`  ->  startPlugin: closedEarly(StageIDEnabling, true)
  ("closed-waiting-deploy", path [deployStageEntry, closedEarly "enabling" true]),
  -- deployStage: `r.deployerRegistry.Create` fails  ->  startPlugin: deployFailed
  ("deploy-failed:create", path [deployStageEntry, deployFailed]),
  -- deployStage: `stepDeployer.Deploy(r.ctx, ..)` fails (also: aborted because the context is done)
  ("deploy-failed:deploy", path [deployStageEntry, deployFailed]),
  -- startPlugin: deployment succeeded, `case <-r.ctx.Done()` right after  ->  closedEarly(StageIDEnabling, false)
  ("closed-after-deploy", path [deployStageEntry, closedEarly "enabling" false]),
  -- enableStage: `case <-r.ctx.Done()`  ->  postDeployment: closedEarly(StageIDStarting, true)
  ("closed-waiting-enable", path (upToEnabling ++ [closedEarly "starting" true])),
  -- enableStage: enabled == false  ->  transitionToDisabled
  ("disabled", path (upToEnabling ++ [transitionToDisabled])),
  -- startStage: no early input and `case <-r.ctx.Done()`  ->  closedEarly(StageIDRunning, true)
  -- (with early input the non-blocking receive wins and the context is not looked at)
  ("closed-waiting-start", path (upToStarting ++ [closedEarly "running" true])),
  -- startStage: `r.atpClient.ReadSchema()` fails  ->  startFailed
  ("start-failed:read-schema", path (upToStarting ++ [startFailed])),
  -- startStage: the deployed plugin has no step of that name
  ("start-failed:step-missing", path (upToStarting ++ [startFailed])),
  -- startStage: the deployed plugin's input schema rejects the input
  ("start-failed:input-mismatch", path (upToStarting ++ [startFailed])),
  -- runStage: `result.Error != nil` (ATP failure, undeclared output, connection lost)
  ("run-error", path (upToRunning ++ [runFailed])),
  -- runStage: context done, cancel signal sent, the result that arrives carries an error
  ("cancel-result-error", path (upToRunning ++ [runFailed])),
  -- runStage: context done, cancel signal sent, no result within closure_wait_timeout -> forceCloseInternal
  ("cancel-timeout", path (upToRunning ++ [runFailed])),
  -- runStage: context done, step has no cancel signal handler -> forceCloseInternal, error
  ("forced-no-handler", path (upToRunning ++ [runFailed]))
]

/-- the paths on which the plugin delivered a result with output id `x` -/
def resultPaths (x : String) : List (String × List Notif) := [
  -- runStage: `case result = <-r.executionChannel`
  ("run-ok:" ++ x, path (upToRunning ++ [runResultOk x])),
  -- runStage: context done, cancel signal sent, result arrives before the timeout
  ("cancel-result-ok:" ++ x, path (upToRunning ++ [runResultOk x]))
]

/-- all notification traces of a plugin step whose plugin may answer with the output ids `outs` -/
def pluginPaths (outs : List String) : List (String × List Notif) :=
  fixedPaths ++ outs.flatMap resultPaths

/-! ## LifecycleSpec — the property as an executable acceptor over a whole trace -/

namespace LifecycleSpec

def isComplete : Notif → Bool
  | .complete _ _ => true
  | _ => false

def isFail : Notif → Bool
  | .fail _ => true
  | _ => false

/-- stages reported finished: the `prev` of a change or of the completion -/
def finishedStages : List Notif → List String
  | [] => []
  | .change (some p) _ _ :: r => p :: finishedStages r
  | .complete p _ :: r => p :: finishedStages r
  | _ :: r => finishedStages r

/-- stages reported impossible -/
def failedStages : List Notif → List String
  | [] => []
  | .fail s :: r => s :: failedStages r
  | _ :: r => failedStages r

/-- (finished stage, reported output id) pairs -/
def reportedOutputs : List Notif → List (String × Option String)
  | [] => []
  | .change (some p) o _ :: r => (p, o) :: reportedOutputs r
  | .complete p o :: r => (p, o) :: reportedOutputs r
  | _ :: r => reportedOutputs r

/-- The stage transitions a trace makes, `cur` being the stage the step is known to be in (if any):
    `OnStageChange(prev, .., stage)` announces `prev -> stage`; a completion that names another stage than the one
    last entered (`closedEarly`/`startFailed` after `transitionFromFailedStage`, which moves the step without an
    `OnStageChange`) is the silent transition `cur -> prev`. -/
def transitionsFrom : Option String → List Notif → List (String × String)
  | _, [] => []
  | _, .change (some p) _ s :: r => (p, s) :: transitionsFrom (some s) r
  | _, .change none _ s :: r => transitionsFrom (some s) r
  | some c, .complete p _ :: r => if c == p then transitionsFrom (some p) r else (c, p) :: transitionsFrom (some p) r
  | none, .complete p _ :: r => transitionsFrom (some p) r
  | cur, .fail _ :: r => transitionsFrom cur r

def transitions (tr : List Notif) : List (String × String) := transitionsFrom none tr

/-- every stage id that occurs anywhere in the trace -/
def mentioned : List Notif → List String
  | [] => []
  | .change (some p) _ s :: r => p :: s :: mentioned r
  | .change none _ s :: r => s :: mentioned r
  | .complete p _ :: r => p :: mentioned r
  | .fail s :: r => s :: mentioned r

def noDup : List String → Bool
  | [] => true
  | x :: r => !r.contains x && noDup r

/-- what follows the (first) completion -/
def afterComplete : List Notif → List Notif
  | [] => []
  | n :: r => if isComplete n then r else afterComplete r

def declaredOutputs (stages : List StageRow) (stage : String) : Option (List String) :=
  (stages.find? (fun r => r.id == stage)).map (·.outputs)

/-- is output id `o` (or "no output") legal for `stage`?  `"*"` stands for the plugin's own outputs `outs`;
    no output id may be reported only for a stage that declares none -/
def outputOk (stages : List StageRow) (outs : List String) (stage : String) (o : Option String) : Bool :=
  match declaredOutputs stages stage, o with
  | none, _ => false
  | some d, none => d.isEmpty
  | some d, some x => if d.contains "*" then outs.contains x else d.contains x

/-- the `NextStages` relation of a lifecycle -/
def edgesOf (stages : List StageRow) : List (String × String) :=
  stages.flatMap (fun r => r.next.map (fun n => (r.id, n.1)))

def stageIds (stages : List StageRow) : List String := stages.map (·.id)

/-- the clauses a trace violates (empty = legal).  `edges` is the transition relation the trace is checked against. -/
def violations (stages : List StageRow) (edges : List (String × String)) (outs : List String) (tr : List Notif) :
    List String :=
  let fin := finishedStages tr
  let failed := failedStages tr
  (if noDup fin then [] else ["stage-finished-twice"]) ++
  (if fin.all (fun s => !failed.contains s) then [] else ["stage-finished-and-impossible"]) ++
  (if (reportedOutputs tr).all (fun p => outputOk stages outs p.1 p.2) then [] else ["undeclared-output"]) ++
  (if (tr.filter isComplete).length == 1 then [] else
    (if (tr.filter isComplete).isEmpty then ["no-completion"] else ["several-completions"])) ++
  (if (afterComplete tr).all isFail then [] else ["stage-change-after-completion"]) ++
  (if (mentioned tr).all (fun s => (stageIds stages).contains s) then [] else ["unknown-stage"]) ++
  (if (transitions tr).all (fun e => edges.contains e) then [] else ["undeclared-transition"])

def accepts (stages : List StageRow) (edges : List (String × String)) (outs : List String) (tr : List Notif) : Bool :=
  (violations stages edges outs tr).isEmpty

/-- the transitions of a trace that are not in `edges` (reported by the driver) -/
def undeclaredTransitions (edges : List (String × String)) (tr : List Notif) : List (String × String) :=
  (transitions tr).filter (fun e => !edges.contains e)

end LifecycleSpec

/-- the declared transition relation of the plugin lifecycle -/
def pluginEdges : List (String × String) := LifecycleSpec.edgesOf pluginStages

/-- The one transition the plugin provider announces although its lifecycle does not declare it:
    `enableStage()` reports `deploy -> enabling`, whereas `deployingLifecycleStage.NextStages` lists
    `starting`, `deploy_failed`, `closed`. -/
def pluginUndeclaredEdges : List (String × String) := [("deploy", "enabling")]

/-- strict acceptor: the lifecycle exactly as declared -/
def pluginAccepts (outs : List String) (tr : List Notif) : Bool :=
  LifecycleSpec.accepts pluginStages pluginEdges outs tr

/-- acceptor with the transition relation widened by `pluginUndeclaredEdges` -/
def pluginAcceptsRelaxed (outs : List String) (tr : List Notif) : Bool :=
  LifecycleSpec.accepts pluginStages (pluginEdges ++ pluginUndeclaredEdges) outs tr

/-! ## The synchronisation skeleton of the plugin provider -/

/-- coarse program counter of `run()` -/
inductive Pc where
  | notStarted      -- goroutine created by `Start`, nothing executed yet
  | waitingDeploy   -- deployStage: OnStageChange(nil→deploy) done, receiving from `deployInput`
  | deploying       -- deployer Create/Deploy in progress
  | waitingEnable   -- enableStage: `select { <-enabledInput | <-ctx.Done() }`
  | waitingStart    -- startStage: receiving from `runInput`
  | running         -- runStage: `select { <-executionChannel | <-ctx.Done() }`
  | cancelWait      -- runStage after the cancel signal: `select { <-executionChannel | <-time.After }`
  | finishing       -- the closing notifications of the path, then the deferred functions
  | done            -- `r.wg.Done()` executed
  deriving Repr, DecidableEq

structure SyncState where
  deployAvail : Bool      -- r.deployInputAvailable
  enabledAvail : Bool     -- r.enabledInputAvailable
  runAvail : Bool         -- r.runInputAvailable
  stopAvail : Bool        -- r.stopInputAvailable
  deployOcc : Nat         -- len(r.deployInput)
  enabledOcc : Nat        -- len(r.enabledInput)
  runOcc : Nat            -- len(r.runInput)
  sigOcc : Nat            -- len(r.signalToStep)
  sigOpen : Bool          -- r.signalToStep != nil
  execOcc : Nat           -- len(r.executionChannel)
  closed : Bool           -- r.closed
  ctxDone : Bool          -- r.ctx cancelled
  wg : Nat                -- r.wg counter
  pc : Pc
  atp : Bool              -- the goroutine started by startStage is alive
  -- ghost state (no counterpart in the code)
  cancelSends : Nat       -- sends on signalToStep so far
  closeWaiting : Nat      -- Close/ForceClose callers inside `r.wg.Wait()`
  closeReturned : Nat     -- Close/ForceClose calls that have returned
  lateNotif : Bool        -- `run()` made a move after some Close/ForceClose call had returned
  deriving Repr, DecidableEq

/-- the state `Start` returns in: `s.wg.Add(1); go s.run()` -/
def syncInit : SyncState :=
  { deployAvail := false
    enabledAvail := false
    runAvail := false
    stopAvail := false
    deployOcc := 0
    enabledOcc := 0
    runOcc := 0
    sigOcc := 0
    sigOpen := true
    execOcc := 0
    closed := false
    ctxDone := false
    wg := 1
    pc := .notStarted
    atp := false
    cancelSends := 0
    closeWaiting := 0
    closeReturned := 0
    lateNotif := false }

inductive Act where
  -- callers of ProvideStageInput (the whole call runs under r.lock; the only blocking operations are channel sends)
  | provideDeploy
  | provideEnabling
  | provideStarting (valid : Bool)
  | provideCancelled (truthy : Bool)
  | provideOther                      -- the `return nil` arms (running, closed, deploy_failed, crashed, outputs, disabled)
  -- callers of Close / ForceClose, split at `r.wg.Wait()`
  | closeCall
  | forceCloseCall
  | closeReturn
  -- the run() goroutine
  | runBegin                          -- deployStage: first notification, then the receive
  | recvDeploy
  | ctxAtDeploy                       -- `case <-r.ctx.Done()` while waiting for the deploy input
  | deployOk                          -- Deploy returned a connection (then the ctx check of startPlugin)
  | deployFail                        -- Create or Deploy returned an error
  | recvEnabled (enabled : Bool)
  | ctxAtEnable
  | startOk                           -- run input received, schema read, `r.wg.Add(1); go func(){..}`
  | startFail                         -- run input received, ReadSchema / step lookup / input check failed
  | ctxAtStart
  | recvResult                        -- `result = <-r.executionChannel` (first or second select of runStage)
  | ctxAtRun                          -- `case <-r.ctx.Done()` in runStage
  | timer                             -- `<-time.After(forceCloseTimeoutMS)`
  | runExit                           -- deferred: pluginConnection.Close(), r.cancel(), r.wg.Done()
  -- the ATP goroutine and client
  | atpReturn                         -- Execute returned: signalToStep = nil; close; executionChannel <- result; wg.Done
  | drainSignal                       -- the ATP client's write loop takes one signal
  deriving Repr, DecidableEq

inductive Outcome where
  | next (s : SyncState)      -- the action happened (a provide call: accepted, returned nil)
  | refused (s : SyncState)   -- a provide call returned "provided more than once"
  | invalid (s : SyncState)   -- a provide call returned another error before touching the state
  | wouldBlock                -- the action reaches a channel send that cannot complete (holding r.lock)
  | panic (site : String)     -- the action panics (no action of the current code does; kept as an explicit outcome)
  | disabled                  -- the action is not possible in this state
  deriving Repr, DecidableEq

/-- a move of `run()`: possible while it has not finished; remembers whether a close had already returned -/
def runMove (s : SyncState) (s' : SyncState) : Outcome :=
  .next { s' with lateNotif := s.lateNotif || decide (0 < s.closeReturned) }

inductive CancelRes where
  | ok (s : SyncState)
  | block             -- `r.signalToStep <- ..` with the channel full

/-- `cancelStep()`: called with r.lock held.  Only while the step is in stage `running` (pc `running`/`cancelWait`, and
    `finishing` because currentStage is still `running` until the next transition) the signal is looked at:
    without a cancel signal handler the code only logs an error; with one, and the channel not yet set to nil, it
    sends — a plain blocking send.  In every case the context is cancelled afterwards. -/
def cancelStep (handler : Bool) (s : SyncState) : CancelRes :=
  if s.pc = .running ∨ s.pc = .cancelWait ∨ s.pc = .finishing then
    if !handler then .ok { s with ctxDone := true }
    else if s.sigOpen then
      if s.sigOcc < pluginChan_signalToStep then
        .ok { s with sigOcc := s.sigOcc + 1, cancelSends := s.cancelSends + 1, ctxDone := true }
      else .block
    else .ok { s with ctxDone := true }
  else .ok { s with ctxDone := true }

/-- one step of the skeleton; `handler` = the plugin step declares the cancel signal (`op`) or not (`opns`) -/
def syncStep (handler : Bool) (s : SyncState) : Act → Outcome
  | .provideDeploy =>
    if s.deployAvail then .refused s
    else if s.deployOcc < pluginChan_deployInput then
      .next { s with deployAvail := true, deployOcc := s.deployOcc + 1 }
    else .next { s with deployAvail := true }      -- `select default`: returns an error, never blocks
  | .provideEnabling =>
    if s.enabledAvail then .refused s
    else if s.enabledOcc < pluginChan_enabledInput then
      .next { s with enabledAvail := true, enabledOcc := s.enabledOcc + 1 }
    else .wouldBlock                                -- plain `r.enabledInput <- enabled`
  | .provideStarting valid =>
    if s.runAvail then .refused s
    else if !valid then .invalid s
    else if s.runOcc < pluginChan_runInput then
      .next { s with runAvail := true, runOcc := s.runOcc + 1 }
    else .next { s with runAvail := true }          -- `select default`
  | .provideCancelled truthy =>
    -- provideCancelledInput: the stop condition is accepted once, whatever its value
    if s.stopAvail then .refused s
    else if !truthy then .next { s with stopAvail := true }
    else match cancelStep handler { s with stopAvail := true } with
      | .ok s' => .next s'
      | .block => .wouldBlock
  | .provideOther => .next s
  | .closeCall =>
    -- closed.Swap(true); first caller: cancel(), closeComponents (finds closed set: no-op); then wg.Wait()
    .next { s with closed := true, ctxDone := true, closeWaiting := s.closeWaiting + 1 }
  | .forceCloseCall =>
    .next { s with closed := true, ctxDone := true, closeWaiting := s.closeWaiting + 1 }
  | .closeReturn =>
    if 0 < s.closeWaiting ∧ s.wg = 0 then
      .next { s with closeWaiting := s.closeWaiting - 1, closeReturned := s.closeReturned + 1 }
    else .disabled
  | .runBegin =>
    if s.pc = .notStarted then runMove s { s with pc := .waitingDeploy } else .disabled
  | .recvDeploy =>
    if s.pc = .waitingDeploy ∧ 0 < s.deployOcc then
      runMove s { s with pc := .deploying, deployOcc := s.deployOcc - 1 }
    else .disabled
  | .ctxAtDeploy =>
    if s.pc = .waitingDeploy ∧ s.ctxDone then runMove s { s with pc := .finishing } else .disabled
  | .deployOk =>
    if s.pc = .deploying then
      (if s.ctxDone then runMove s { s with pc := .finishing } else runMove s { s with pc := .waitingEnable })
    else .disabled
  | .deployFail =>
    if s.pc = .deploying then runMove s { s with pc := .finishing } else .disabled
  | .recvEnabled enabled =>
    if s.pc = .waitingEnable ∧ 0 < s.enabledOcc then
      runMove s { s with pc := (if enabled then .waitingStart else .finishing), enabledOcc := s.enabledOcc - 1 }
    else .disabled
  | .ctxAtEnable =>
    if s.pc = .waitingEnable ∧ s.ctxDone then runMove s { s with pc := .finishing } else .disabled
  | .startOk =>
    if s.pc = .waitingStart ∧ 0 < s.runOcc then
      runMove s { s with pc := .running, runOcc := s.runOcc - 1, wg := s.wg + 1, atp := true }
    else .disabled
  | .startFail =>
    if s.pc = .waitingStart ∧ 0 < s.runOcc then
      runMove s { s with pc := .finishing, runOcc := s.runOcc - 1 }
    else .disabled
  | .ctxAtStart =>
    if s.pc = .waitingStart ∧ s.ctxDone then runMove s { s with pc := .finishing } else .disabled
  | .recvResult =>
    if (s.pc = .running ∨ s.pc = .cancelWait) ∧ 0 < s.execOcc then
      runMove s { s with pc := .finishing, execOcc := s.execOcc - 1 }
    else .disabled
  | .ctxAtRun =>
    if s.pc = .running ∧ s.ctxDone then
      (if handler then
        match cancelStep handler s with
        | .ok s' => runMove s { s' with pc := .cancelWait }
        | .block => .wouldBlock
      else runMove s { s with pc := .finishing, closed := true })      -- forceCloseInternal
    else .disabled
  | .timer =>
    if s.pc = .cancelWait then runMove s { s with pc := .finishing, closed := true } else .disabled
  | .runExit =>
    if s.pc = .finishing then runMove s { s with pc := .done, ctxDone := true, wg := s.wg - 1 } else .disabled
  | .atpReturn =>
    if s.atp then
      (if s.execOcc < pluginChan_executionChannel then
        .next { s with atp := false, sigOpen := false, execOcc := s.execOcc + 1, wg := s.wg - 1 }
      else .wouldBlock)
    else .disabled
  | .drainSignal =>
    if 0 < s.sigOcc then .next { s with sigOcc := s.sigOcc - 1 } else .disabled

/-- states reachable from `Start` by any interleaving of callers, `run()`, the ATP goroutine and the environment -/
inductive Reachable (handler : Bool) : SyncState → Prop where
  | init : Reachable handler syncInit
  | step {s s' : SyncState} (a : Act) : Reachable handler s → syncStep handler s a = .next s' → Reachable handler s'

/-- `t` is reachable from `s` -/
inductive ReachableFrom (handler : Bool) (s : SyncState) : SyncState → Prop where
  | refl : ReachableFrom handler s s
  | step {t t' : SyncState} (a : Act) : ReachableFrom handler s t → syncStep handler t a = .next t' →
      ReachableFrom handler s t'

/-- run a list of actions; `none` when one of them is not `next` (used for witness executions) -/
def execute (handler : Bool) : SyncState → List Act → Option SyncState
  | s, [] => some s
  | s, a :: rest =>
    match syncStep handler s a with
    | .next s' => execute handler s' rest
    | _ => none

/-- The provider WITHOUT the once-only flag of the stop condition (the code before the stop-once repair): forget that a
    stop condition was provided. -/
def forgetStop (s : SyncState) : SyncState := { s with stopAvail := false }

/-- `execute` for the provider without that flag -/
def executeForgetting (handler : Bool) : SyncState → List Act → Option SyncState
  | s, [] => some s
  | s, a :: rest =>
    match syncStep handler (forgetStop s) a with
    | .next s' => executeForgetting handler s' rest
    | _ => none

/-- the moves that need no further call from outside: `run()`, the ATP goroutine, timer, returning closers -/
def internalActs : List Act :=
  [.closeReturn, .runBegin, .recvDeploy, .ctxAtDeploy, .deployOk, .deployFail, .recvEnabled true, .recvEnabled false,
   .ctxAtEnable, .startOk, .startFail, .ctxAtStart, .recvResult, .ctxAtRun, .timer, .runExit, .atpReturn]

/-- distance of `run()` from its end -/
def pcRank : Pc → Nat
  | .notStarted => 8
  | .waitingDeploy => 7
  | .deploying => 6
  | .waitingEnable => 5
  | .waitingStart => 4
  | .running => 3
  | .cancelWait => 2
  | .finishing => 1
  | .done => 0

/-- termination measure for "every close call returns" -/
def closeRank (s : SyncState) : Nat := 2 * pcRank s.pc + (if s.atp then 1 else 0) + s.closeWaiting

end Arca.Model.PluginStep

/-! # The foreach provider -/

namespace Arca.Model.ForeachStep
open Arca.Gen
open Arca.Model.PluginStep (Notif Cursor Piece seq emit transitionStageWithOutput transitionRunningStage
  transitionFromFailedStage completeStep markStageFailuresWith path)

/-- `markStageFailures(first, _)` of the foreach provider -/
def markStageFailures (first : String) : Piece := markStageFailuresWith foreachFailChain first

def markNotClosable : Piece := emit (.fail "closed")

/-- `closedEarly(stageToMarkUnresolvable, priorStageFailed)` -/
def closedEarly (stageToMarkUnresolvable : String) (priorStageFailed : Bool) : Piece := seq [
  (if priorStageFailed then transitionFromFailedStage "closed" else transitionRunningStage "closed"),
  completeStep "closed" (some "result"),
  markStageFailures stageToMarkUnresolvable ]

/-- `transitionToDisabled()` -/
def transitionToDisabled : Piece := seq [
  transitionStageWithOutput "disabled" (some "resolved"),
  completeStep "disabled" (some "output"),
  markStageFailures "execute",
  markNotClosable ]

/-- `run()` after `enabled == true`: failure of `disabled`, the transition with output and the second
    `OnStageChange(nil, nil, nil, "execute", ..)` -/
def enterExecute : Piece := seq [
  emit (.fail "disabled"),
  transitionStageWithOutput "execute" (some "resolved"),
  emit (.change none none "execute") ]

/-- `processInput`: no item failed -/
def processOk : Piece := fun c =>
  let c1 : Cursor :=
    { cur := "outputs"
      tr := c.tr ++ [.change (some c.cur) none "outputs", .fail "failed"] }
  { c1 with tr := c1.tr ++ [.complete c1.cur (some "success")] }

/-- `processInput`: some item failed -/
def processFailed : Piece := fun c =>
  let c1 : Cursor :=
    { cur := "failed"
      tr := c.tr ++ [.change (some c.cur) none "failed", .fail "outputs"] }
  { c1 with tr := c1.tr ++ [.complete c1.cur (some "error")] }

def start : Cursor :=
  { cur := "enabling"
    tr := [] }

def fpath (ps : List Piece) : List Notif := (seq ps start).tr

/-- every path of the foreach `run()` -/
def foreachPaths : List (String × List Notif) := [
  -- enableStage: `case <-r.ctx.Done()`  ->  closedEarly(StageIDExecute, true)
  ("closed-waiting-enable", fpath [closedEarly "execute" true]),
  -- enabled == false
  ("disabled", fpath [transitionToDisabled]),
  -- runOnInput: `case <-r.ctx.Done()` or the channel was closed  ->  closedEarly(StageIDOutputs, true)
  ("closed-waiting-execute", fpath [enterExecute, closedEarly "outputs" true]),
  -- processInput, all items succeeded
  ("items-ok", fpath [enterExecute, processOk]),
  -- processInput, some item failed (or the context was cancelled while items were executing)
  ("items-failed", fpath [enterExecute, processFailed])
]

def foreachEdges : List (String × String) := PluginStep.LifecycleSpec.edgesOf foreachStages

/-- strict acceptor: the lifecycle exactly as declared (regenerated from the source) -/
def foreachAccepts (tr : List Notif) : Bool :=
  PluginStep.LifecycleSpec.accepts foreachStages foreachEdges [] tr

/-- The foreach lifecycle table as it was BEFORE `closed` was declared as a next stage of `execute` (a literal copy of
    the regenerated table of that time).  Kept to document the finding `execute -> closed`: closed while waiting for the
    items, `runOnInput` calls `closedEarly`, which moves the step `execute -> closed`, and `closed` was only declared as a
    next stage of `enabling`. -/
def foreachStagesBeforeExecuteClosed : List StageRow := [
  { id := "execute", inputFields := ["items", "parallelism", "wait_for"], next := [("failed", Arca.Model.Dep.cand), ("outputs", Arca.Model.Dep.and)], fatal := false, hasSchema := true, outputs := [] },
  { id := "outputs", inputFields := [], next := [], fatal := false, hasSchema := false, outputs := ["success"] },
  { id := "failed", inputFields := [], next := [], fatal := true, hasSchema := false, outputs := ["error"] },
  { id := "enabling", inputFields := ["enabled"], next := [("closed", Arca.Model.Dep.cand), ("disabled", Arca.Model.Dep.and), ("execute", Arca.Model.Dep.and)], fatal := false, hasSchema := true, outputs := ["resolved"] },
  { id := "disabled", inputFields := [], next := [], fatal := false, hasSchema := false, outputs := ["output"] },
  { id := "closed", inputFields := [], next := [], fatal := false, hasSchema := false, outputs := ["result"] }
]

/-- the strict acceptor over that old table -/
def foreachAcceptsBeforeExecuteClosed (tr : List Notif) : Bool :=
  PluginStep.LifecycleSpec.accepts foreachStagesBeforeExecuteClosed
    (PluginStep.LifecycleSpec.edgesOf foreachStagesBeforeExecuteClosed) [] tr

/-! ## Synchronisation skeleton of the foreach provider -/

inductive Pc where
  | notStarted       -- goroutine created by `Start` (which has already executed `rs.wg.Add(1)`), nothing run yet
  | waitingEnable    -- enableStage select
  | waitingExecute   -- runOnInput select
  | executing        -- processInput / executeSubWorkflows
  | finishing        -- last notifications, then the deferred `r.wg.Done()`
  | done
  deriving Repr, DecidableEq

structure SyncState where
  enabledAvail : Bool     -- r.enabledInputAvailable
  execAvail : Bool        -- r.executionInputAvailable
  enabledOcc : Nat        -- len(r.enabledInput)
  execOcc : Nat           -- len(r.executeInput)
  execChanClosed : Bool   -- close(r.executeInput) executed
  closed : Bool           -- r.closed
  ctxDone : Bool
  wg : Nat
  pc : Pc
  provPending : Bool      -- a ProvideStageInput("execute") caller passed `r.closed.Load()` and holds r.lock, send not done
  firstCloser : Bool      -- the Close caller that will `close(r.executeInput)` is inside `r.wg.Wait()` / `r.lock.Lock()`
  -- ghost
  closeWaiting : Nat      -- further callers inside `r.wg.Wait()`
  closeReturned : Nat
  lateNotif : Bool
  completions : Nat       -- OnStepComplete calls so far
  deriving Repr, DecidableEq

/-- the state `Start` returns in: `rs.wg.Add(1); go rs.run()` -/
def syncInit : SyncState :=
  { enabledAvail := false
    execAvail := false
    enabledOcc := 0
    execOcc := 0
    execChanClosed := false
    closed := false
    ctxDone := false
    wg := 1
    pc := .notStarted
    provPending := false
    firstCloser := false
    closeWaiting := 0
    closeReturned := 0
    lateNotif := false
    completions := 0 }

inductive Act where
  | provideEnabling
  | provideExecuteBegin (valid : Bool)   -- lock, closed check, item validation, twice check, flag set
  | provideExecuteSend                   -- `r.executeInput <- ..` (still holding the lock), unlock
  | provideOther
  | closeCall                            -- Close or ForceClose (ForceClose just calls Close)
  | closeReturnFirst                     -- first caller: Wait returned; lock; `close(r.executeInput)`; unlock; return
  | closeReturn                          -- later callers
  | runBegin                             -- enter enableStage
  | recvEnabled (enabled : Bool)
  | ctxAtEnable
  | recvExecute                          -- input received in runOnInput
  | ctxAtExecute                         -- `case <-r.ctx.Done()` or closed channel in runOnInput: closedEarly(outputs, true)
  | itemsDone                            -- executeSubWorkflows returned, completion reported
  | runExit                              -- deferred `r.wg.Done()`
  deriving Repr, DecidableEq

inductive Outcome where
  | next (s : SyncState)
  | refused (s : SyncState)
  | invalid (s : SyncState)
  | ignored (s : SyncState)   -- `if r.closed.Load() { return nil }`: input silently dropped
  | wouldBlock
  | panic (site : String)
  | disabled
  deriving Repr, DecidableEq

def runMove (s : SyncState) (s' : SyncState) : Outcome :=
  .next { s' with lateNotif := s.lateNotif || decide (0 < s.closeReturned) }

def syncStep (s : SyncState) : Act → Outcome
  | .provideEnabling =>
    if s.provPending then .disabled            -- r.lock is held
    else if s.closed then .ignored s
    else if s.enabledAvail then .refused s
    else if s.enabledOcc < foreachChan_enabledInput then
      .next { s with enabledAvail := true, enabledOcc := s.enabledOcc + 1 }
    else .wouldBlock
  | .provideExecuteBegin valid =>
    if s.provPending then .disabled
    else if s.closed then .ignored s
    else if !valid then .invalid s
    else if s.execAvail then .refused s
    else .next { s with execAvail := true, provPending := true }
  | .provideExecuteSend =>
    if !s.provPending then .disabled
    else if s.execChanClosed then .panic "send on closed channel: r.executeInput"
    else if s.execOcc < foreachChan_executeInput then
      .next { s with execOcc := s.execOcc + 1, provPending := false }
    else .wouldBlock
  | .provideOther => if s.provPending then .disabled else .next s
  | .closeCall =>
    if s.closed then .next { s with closeWaiting := s.closeWaiting + 1 }
    else .next { s with closed := true, ctxDone := true, firstCloser := true }
  | .closeReturnFirst =>
    -- `r.lock.Lock()` before `close(r.executeInput)`: not while a provider holds the lock
    if s.firstCloser ∧ s.wg = 0 ∧ s.provPending = false then
      .next { s with firstCloser := false, execChanClosed := true, closeReturned := s.closeReturned + 1 }
    else .disabled
  | .closeReturn =>
    if 0 < s.closeWaiting ∧ s.wg = 0 then
      .next { s with closeWaiting := s.closeWaiting - 1, closeReturned := s.closeReturned + 1 }
    else .disabled
  | .runBegin =>
    if s.pc = .notStarted then runMove s { s with pc := .waitingEnable } else .disabled
  | .recvEnabled enabled =>
    if s.pc = .waitingEnable ∧ 0 < s.enabledOcc then
      runMove s { s with pc := (if enabled then .waitingExecute else .finishing), enabledOcc := s.enabledOcc - 1,
                         completions := (if enabled then s.completions else s.completions + 1) }
    else .disabled
  | .ctxAtEnable =>
    if s.pc = .waitingEnable ∧ s.ctxDone then
      runMove s { s with pc := .finishing, completions := s.completions + 1 }
    else .disabled
  | .recvExecute =>
    if s.pc = .waitingExecute ∧ 0 < s.execOcc then
      runMove s { s with pc := .executing, execOcc := s.execOcc - 1 }
    else .disabled
  | .ctxAtExecute =>
    if s.pc = .waitingExecute ∧ (s.ctxDone ∨ s.execChanClosed) then
      runMove s { s with pc := .finishing, completions := s.completions + 1 }
    else .disabled
  | .itemsDone =>
    if s.pc = .executing then runMove s { s with pc := .finishing, completions := s.completions + 1 } else .disabled
  | .runExit =>
    if s.pc = .finishing then runMove s { s with pc := .done, wg := s.wg - 1 } else .disabled

inductive Reachable : SyncState → Prop where
  | init : Reachable syncInit
  | step {s s' : SyncState} (a : Act) : Reachable s → syncStep s a = .next s' → Reachable s'

def execute : SyncState → List Act → Option SyncState
  | s, [] => some s
  | s, a :: rest =>
    match syncStep s a with
    | .next s' => execute s' rest
    | _ => none

end Arca.Model.ForeachStep
