/-
Row type of the built-in function table (G8): shared by the table regenerated from the source on every run
(`Arca.Gen.builtins`) and its hand-checked snapshot (`Arca.Expected.builtins`).  Core Lean only.
-/
namespace Arca.Model

/-- one built-in function as declared in `/repo/internal/builtinfunctions/functions.go`.
    Type descriptors: `int`, `float`, `bool`, `any`, `string`, `string:/regex/`, `list<..>`; bounds, when present,
    appear as `[min,max]`; a dynamic output type is `dynamic:<type handler>`.
    `handler` is the normalised source text of the handler (identifier or printed function literal). -/
structure BuiltinRow where
  id : String
  params : List String
  output : String
  errors : Bool
  handler : String
  deriving Repr, DecidableEq, Inhabited

end Arca.Model
