/-
M6b — the item pool of the foreach step (`internal/step/foreach/provider.go`, `executeSubWorkflows` + the output
assembly of `processInput`), as a transition system over every interleaving of the item goroutines.

Go code modelled (HEAD of /repo, after fix 26900e2):

    itemOutputs := make([]any, len(input.data))            -- `outputs`  (nil = none)
    itemErrors  := make(map[int]string, len(input.data))   -- `errors`   (partial map index -> message; absent = none)
    sem := make(chan struct{}, input.parallelism)          -- `sem` = len(sem), capacity `p`
    for i, input := range input.data { go func() {
        slotAcquired := false
        defer func() { if slotAcquired { <-sem }; wg.Done() }()
        select { case sem <- struct{}{}: slotAcquired = true  -- Tr.acquire i   (needs len(sem) < p)
                 case <-r.ctx.Done():                          -- Tr.abort i     (needs ctx done): under the lock
                     itemErrors[i] = "aborted before execution because the step was closed"; return }
        outputID, outputData, err := r.workflow.Execute(r.ctx, input)     -- P.exec i xs[i]
        r.lock.Lock(); switch { err != nil: itemErrors[i] = ..; outputID != "success": itemErrors[i] = ..;
                                default: itemOutputs[i] = outputData }; r.lock.Unlock()
    }() }                                                    -- Tr.finish i  (store + `<-sem`, needs len(sem) > 0)
    wg.Wait()

`Tr.cancel` is `r.cancel()` (called by `Close`).  A schedule is any list of transitions; `runSched` rejects a schedule
containing a transition that is not enabled (a goroutine blocked in a select / receive cannot move).  Go picks among the
ready arms of a select at random, so `acquire` stays possible after `cancel`.  The stores happen under the step lock, hence
atomically; store and slot release of one item are merged into one transition (nothing of the shared state is read in
between by that goroutine).  An aborted item never touches the semaphore.

Assumption (trusted): a sub-workflow `success` output is never Go `nil` (it is the object the output schema builds), so
"entry != nil" in `processInput` is exactly "the item stored an output".
-/

namespace Arca.Model.ForeachPool

/-- what `r.workflow.Execute(r.ctx, item)` returned for one item -/
inductive ItemOutcome (β : Type) where
  | ok (v : β)                          -- ("success", v, nil)
  | otherOutput (id : String) (v : β)   -- (id, v, nil) with id ≠ "success"
  | err (msg : String)                  -- (_, _, err)
  deriving Repr, DecidableEq

namespace ItemOutcome
variable {β : Type}

def otherMsg (id : String) : String := "subworkflow finished with output '" ++ id ++ "' instead of 'success'"

/-- the message recorded for an item that left through the `ctx.Done()` arm -/
def abortMsg : String := "aborted before execution because the step was closed"

/-- value stored into `itemOutputs[i]` (none = the slot stays nil) -/
def okVal : ItemOutcome β → Option β
  | .ok v => some v
  | _ => none

/-- message stored into `itemErrors[i]` (none = no entry) -/
def failMsg : ItemOutcome β → Option String
  | .ok _ => none
  | .otherOutput id _ => some (otherMsg id)
  | .err m => some m

def isOk : ItemOutcome β → Bool
  | .ok _ => true
  | _ => false

end ItemOutcome

inductive Phase where
  | pending    -- goroutine created, waiting in the first select
  | running    -- slot taken, inside Execute
  | done       -- result stored, goroutine finished
  | aborted    -- left through the ctx.Done() arm without ever taking a slot (recorded as an error)
  deriving Repr, DecidableEq

/-- the static part: the items, the parallelism and what executing the sub-workflow on item `i` yields -/
structure Pool (α β : Type) where
  xs : List α
  p : Nat
  exec : Nat → α → ItemOutcome β

structure PoolState (α β : Type) where
  phase : List Phase
  sem : Nat                       -- len(sem)
  outputs : List (Option β)       -- itemOutputs
  errors : List (Option String)   -- itemErrors
  cancelled : Bool                -- r.ctx is done
  started : List (Nat × α)        -- the Execute calls made so far: (index, input), in start order

inductive Tr where
  | acquire (i : Nat)
  | finish (i : Nat)
  | cancel
  | abort (i : Nat)
  deriving Repr, DecidableEq

variable {α β : Type}

def Pool.n (P : Pool α β) : Nat := P.xs.length

def init (P : Pool α β) : PoolState α β :=
  { phase := List.replicate P.n .pending
    sem := 0
    outputs := List.replicate P.n none
    errors := List.replicate P.n none
    cancelled := false
    started := [] }

/-- the locked switch after `Execute` -/
def store (s : PoolState α β) (i : Nat) : ItemOutcome β → PoolState α β
  | .err m => { s with errors := s.errors.set i (some m) }
  | .otherOutput id _ => { s with errors := s.errors.set i (some (ItemOutcome.otherMsg id)) }
  | .ok v => { s with outputs := s.outputs.set i (some v) }

def acquireOk (P : Pool α β) (s : PoolState α β) (i : Nat) : Prop :=
  s.phase[i]? = some .pending ∧ s.sem < P.p

/-- the deferred `<-sem` of an item that holds a slot needs a token in the channel -/
def finishOk (s : PoolState α β) (i : Nat) : Prop :=
  s.phase[i]? = some .running ∧ 0 < s.sem

def abortOk (s : PoolState α β) (i : Nat) : Prop :=
  s.phase[i]? = some .pending ∧ s.cancelled = true

instance (P : Pool α β) (s : PoolState α β) (i : Nat) : Decidable (acquireOk P s i) := by
  unfold acquireOk; exact inferInstance
instance (s : PoolState α β) (i : Nat) : Decidable (finishOk s i) := by
  unfold finishOk; exact inferInstance
instance (s : PoolState α β) (i : Nat) : Decidable (abortOk s i) := by
  unfold abortOk; exact inferInstance

/-- one transition; `none` = not enabled in this state -/
def step (P : Pool α β) (s : PoolState α β) : Tr → Option (PoolState α β)
  | .acquire i =>
    match P.xs[i]? with
    | none => none
    | some a =>
      if acquireOk P s i then
        some { s with phase := s.phase.set i .running, sem := s.sem + 1, started := s.started ++ [(i, a)] }
      else none
  | .finish i =>
    match P.xs[i]? with
    | none => none
    | some a =>
      if finishOk s i then
        let s1 := store s i (P.exec i a)
        some { s1 with phase := s1.phase.set i .done, sem := s1.sem - 1 }
      else none
  | .cancel => if s.cancelled then none else some { s with cancelled := true }
  | .abort i =>
    if abortOk s i then
      some { s with phase := s.phase.set i .aborted, errors := s.errors.set i (some ItemOutcome.abortMsg) }
    else none

def runSched (P : Pool α β) (s : PoolState α β) : List Tr → Option (PoolState α β)
  | [] => some s
  | t :: ts =>
    match step P s t with
    | none => none
    | some s' => runSched P s' ts

/-- states reachable from the initial state by some schedule -/
def Reachable (P : Pool α β) (s : PoolState α β) : Prop := ∃ sched, runSched P (init P) sched = some s

def isRunning : Phase → Bool
  | .running => true
  | _ => false

def isPending : Phase → Bool
  | .pending => true
  | _ => false

def isFinal : Phase → Bool
  | .done => true
  | .aborted => true
  | _ => false

/-- number of item goroutines inside `Execute` -/
def running (s : PoolState α β) : Nat := s.phase.countP isRunning

def pendingCount (s : PoolState α β) : Nat := s.phase.countP isPending

/-- `wg.Wait()` returns: every goroutine finished -/
def allDone (s : PoolState α β) : Bool := s.phase.all isFinal

/-- every item went through `Execute` (nothing aborted) -/
def allExecuted (s : PoolState α β) : Bool := s.phase.all (fun ph => ph == .done)

/-! ### output assembly (`processInput`) -/

inductive StepOutput (β : Type) where
  /-- `outputs.success {data: itemOutputs}` (the slice as it is, nil entries included) -/
  | success (data : List (Option β))
  /-- `failed.error {data: map index -> output (non-nil entries), errors: itemErrors}`; maps as key-sorted lists -/
  | failure (data : List (Nat × β)) (errors : List (Nat × String))
  deriving Repr, DecidableEq

/-- the map `index -> value` of the non-nil entries of a slice, keys ascending, first index `k` -/
def indexedFrom {γ : Type} : Nat → List (Option γ) → List (Nat × γ)
  | _, [] => []
  | k, none :: l => indexedFrom (k + 1) l
  | k, some v :: l => (k, v) :: indexedFrom (k + 1) l

def indexed {γ : Type} (l : List (Option γ)) : List (Nat × γ) := indexedFrom 0 l

def assembleOf (outputs : List (Option β)) (errors : List (Option String)) : StepOutput β :=
  if errors.any Option.isSome then   -- len(errors) > 0
    .failure (indexed outputs) (indexed errors)
  else
    .success outputs

def assemble (s : PoolState α β) : StepOutput β := assembleOf s.outputs s.errors

/-! ### the declarative reading: a function of the items and their outcomes only -/

def Pool.outcomes (P : Pool α β) : List (ItemOutcome β) := P.xs.mapIdx (fun i a => P.exec i a)

/-- the step output the property prescribes for a list of per-item outcomes -/
def expectedOf (l : List (ItemOutcome β)) : StepOutput β :=
  if l.all ItemOutcome.isOk then
    .success (l.map ItemOutcome.okVal)
  else
    .failure (indexed (l.map ItemOutcome.okVal)) (indexed (l.map ItemOutcome.failMsg))

/-- the step output of a pool that is not closed: every item is executed -/
def expected (P : Pool α β) : StepOutput β := expectedOf P.outcomes

/-- the per-item outcomes of a (possibly closed) pool: an item that was aborted counts as failed with `abortMsg` -/
def effOutcomes (P : Pool α β) (s : PoolState α β) : List (ItemOutcome β) :=
  P.xs.mapIdx (fun i a => if s.phase[i]? = some .aborted then .err ItemOutcome.abortMsg else P.exec i a)

/-- termination measure: every transition strictly decreases it -/
def measure (s : PoolState α β) : Nat :=
  2 * pendingCount s + running s + (if s.cancelled then 0 else 1)

/-- the canonical schedule: one item after the other (parallelism 1 behaviour) -/
def seqSched : Nat → List Tr
  | 0 => []
  | n + 1 => seqSched n ++ [.acquire n, .finish n]

end Arca.Model.ForeachPool
