/-
Boolean decisions a provider takes on ONE key of a stage input map (`input["enabled"]`, `input["stop_if"]`).

The stage input is a `map[string]any`; the providers compare the raw value with `nil`, `true` and `false` using Go's `==`
on interface values: `x == true` holds iff the dynamic type of `x` is `bool` and its value is `true` — a string "true", an
int 1, ... are NOT equal to `true` — or read it through the bool schema (`schema.NewBoolSchema().Unserialize(x)`,
`boolRead` below: the pluginsdk table of accepted spellings; `arcadrv gate` compares it with the real schema on every run).  `FieldCond` is the shape of such a decision as the fact extractor reads it from the
source (`Arca.Gen.Decisions`, regenerated on every run); `FieldCond.eval` is its meaning over `Option Val`
(`none` = key absent, `some .null` = nil interface value).

Core Lean only (linked into `arcadrv`).
-/
import Arca.Model.Val

namespace Arca.Model

/-! ## The bool schema's reading of a serialized value (pluginsdk `BoolSchema.Unserialize`; ASCII case folding) -/

def boolStrings : List (String × Bool) :=
  [("1", true), ("yes", true), ("y", true), ("on", true), ("true", true), ("enable", true), ("enabled", true),
   ("0", false), ("no", false), ("n", false), ("off", false), ("false", false), ("disable", false), ("disabled", false)]

def lowerAscii (s : String) : String := String.ofList (s.toList.map Char.toLower)

/-- `some b`: the schema reads the value as `b`; `none`: the schema rejects it (`Unserialize` returns an error) -/
def boolRead : Val → Option Bool
  | .bool b => some b
  | .int i => if i = 1 then some true else if i = 0 then some false else none
  | .str s => lookup (lowerAscii s) boolStrings
  | _ => none

inductive FieldCond where
  /-- `input[k] == nil` -/
  | isNil
  /-- `input[k] != nil` -/
  | notNil
  /-- `input[k] == true` / `== false` -/
  | eqBool (b : Bool)
  /-- `input[k] != true` / `!= false` -/
  | neBool (b : Bool)
  /-- `schema.NewBoolSchema().Unserialize(input[k])` succeeds and yields `b` -/
  | boolReads (b : Bool)
  /-- `schema.NewBoolSchema().Unserialize(input[k])` returns an error -/
  | boolRejects
  /-- a constant -/
  | const (b : Bool)
  | and (a b : FieldCond)
  | or (a b : FieldCond)
  | not (a : FieldCond)
  /-- a shape the extractor does not understand (source text kept for the report) -/
  | unknown (src : String)
  deriving Repr, Inhabited

namespace FieldCond

/-- is the raw value Go's `nil` (key absent, or nil interface value)? -/
def rawNil : Option Val → Bool
  | none => true
  | some .null => true
  | _ => false

/-- Go `x == b` for an interface value `x` and a bool constant `b` -/
def rawEqBool (b : Bool) : Option Val → Bool
  | some (.bool c) => c == b
  | _ => false

/-- the bool schema's reading of the raw value (`none`: absent / nil / rejected) -/
def rawRead : Option Val → Option Bool
  | some v => boolRead v
  | none => none

/-- meaning of a decision; an unknown shape is never satisfied (and `known` is an obligation of its own) -/
def eval : FieldCond → Option Val → Bool
  | .isNil, i => rawNil i
  | .notNil, i => !rawNil i
  | .eqBool b, i => rawEqBool b i
  | .neBool b, i => !rawEqBool b i
  | .boolReads b, i => rawRead i == some b
  | .boolRejects, i => (rawRead i).isNone
  | .const b, _ => b
  | .and a b, i => a.eval i && b.eval i
  | .or a b, i => a.eval i || b.eval i
  | .not a, i => !a.eval i
  | .unknown _, _ => false

/-- every leaf was recognised -/
def known : FieldCond → Bool
  | .unknown _ => false
  | .and a b => a.known && b.known
  | .or a b => a.known && b.known
  | .not a => a.known
  | _ => true

end FieldCond
end Arca.Model
