/-
M6b, extension — the item pool of the foreach step when a QUEUED item owns a timer (a "still queued" progress message,
a poll, a time-out of the wait ...), and the close of a loop whose queued items are parked in their select.

The code at HEAD has no timer inside the foreach provider (regenerated fact `Arca.Gen.foreachTimers = []`, obligation
`Arca.Props.C13.foreach_pool_has_no_timer`), and the select of a queued item has exactly two arms: the semaphore send and
`<-r.ctx.Done()` (`queued_items_wait_for_slot_or_close_only`).  This file says what a timer arm MAY do if one is ever
added (the usual `for { select { ...; case <-timer.C: log; continue } }` idiom): fire any number of times and leave the
item queued — and what it must not do: let the item leave the wait loop without a slot.

    for { select { case sem <- struct{}{}: slotAcquired = true        -- Tr.acquire i
                   case <-timer.C: ...; timer.Reset(..); continue       -- TrT.tick i      (state unchanged)
                   case <-r.ctx.Done(): ...; return }                   -- Tr.abort i
          break }
-/
import Arca.Model.ForeachPool

namespace Arca.Model.ForeachPool

variable {α β : Type}

/-- transitions of a pool whose queued items also own a timer -/
inductive TrT where
  | pool (t : Tr)
  | tick (i : Nat)     -- the timer of the queued item `i` fires
  deriving Repr, DecidableEq

/-- a timer that fires leaves the item where it is: queued (enabled only while the item is queued) -/
def stepT (P : Pool α β) (s : PoolState α β) : TrT → Option (PoolState α β)
  | .pool t => step P s t
  | .tick i => if s.phase[i]? = some .pending then some s else none

def runSchedT (P : Pool α β) (s : PoolState α β) : List TrT → Option (PoolState α β)
  | [] => some s
  | t :: ts =>
    match stepT P s t with
    | none => none
    | some s' => runSchedT P s' ts

/-- the pool schedule underneath a schedule with timer events -/
def untick : List TrT → List Tr
  | [] => []
  | .pool t :: ts => t :: untick ts
  | .tick _ :: ts => untick ts

/-- The faulty reading of the timer arm (seeded change C13-2: the `continue` is missing, the item falls to the `break`):
    the item leaves the wait loop on the timer arm and executes WITHOUT a slot; `slotAcquired` stays false, so the
    semaphore is not touched. -/
def tickWithoutSlot (P : Pool α β) (s : PoolState α β) (i : Nat) : Option (PoolState α β) :=
  match P.xs[i]? with
  | none => none
  | some a =>
    if s.phase[i]? = some .pending then
      some { s with phase := s.phase.set i .running, started := s.started ++ [(i, a)] }
    else none

end Arca.Model.ForeachPool
