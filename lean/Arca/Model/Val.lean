/-
M1 — values and the expression fragment.

`Val` is the tree of values the engine moves around (the "serialized" form of the plugin SDK: null, bool,
int, float, string, list, map with string keys) plus `gostruct`, because the engine really does put Go
struct values into its data model (finding F3).  Floats are carried as their IEEE-754 bit pattern.

Core Lean only: this file is linked into the `arcadrv` executable.
-/
namespace Arca.Model

inductive Val where
  | null
  | bool (b : Bool)
  | int (i : Int)
  | float (bits : Nat)
  | str (s : String)
  | list (xs : List Val)
  | map (kvs : List (String × Val))
  | gostruct (name : String) (kvs : List (String × Val))
  deriving Repr, Inhabited

mutual
  def Val.beq : Val → Val → Bool
    | .null, .null => true
    | .bool a, .bool b => a == b
    | .int a, .int b => a == b
    | .float a, .float b => a == b
    | .str a, .str b => a == b
    | .list a, .list b => Val.beqList a b
    | .map a, .map b => Val.beqKvs a b
    | .gostruct n a, .gostruct m b => n == m && Val.beqKvs a b
    | _, _ => false
  def Val.beqList : List Val → List Val → Bool
    | [], [] => true
    | x :: xs, y :: ys => Val.beq x y && Val.beqList xs ys
    | _, _ => false
  def Val.beqKvs : List (String × Val) → List (String × Val) → Bool
    | [], [] => true
    | (k, x) :: xs, (l, y) :: ys => k == l && Val.beq x y && Val.beqKvs xs ys
    | _, _ => false
end

instance : BEq Val := ⟨Val.beq⟩

/-- association-list lookup (first match) -/
def lookup {α : Type} (k : String) : List (String × α) → Option α
  | [] => none
  | (k', v) :: rest => if k = k' then some v else lookup k rest

/-- association-list insert-or-replace, keeping position of an existing key -/
def insertKv {α : Type} (k : String) (v : α) : List (String × α) → List (String × α)
  | [] => [(k, v)]
  | (k', v') :: rest => if k = k' then (k, v) :: rest else (k', v') :: insertKv k v rest

theorem lookup_insertKv_self {α : Type} (k : String) (v : α) (l : List (String × α)) :
    lookup k (insertKv k v l) = some v := by
  induction l with
  | nil => simp [insertKv, lookup]
  | cons p rest ih =>
    obtain ⟨k', v'⟩ := p
    by_cases h : k = k'
    · simp [insertKv, lookup, h]
    · simp [insertKv, lookup, h, ih]

theorem lookup_insertKv_other {α : Type} (k k₂ : String) (v : α) (l : List (String × α)) (h : k₂ ≠ k) :
    lookup k₂ (insertKv k v l) = lookup k₂ l := by
  induction l with
  | nil => simp [insertKv, lookup, h]
  | cons p rest ih =>
    obtain ⟨k', v'⟩ := p
    by_cases h' : k = k'
    · subst h'; simp [insertKv, lookup, h]
    · by_cases h'' : k₂ = k'
      · simp [insertKv, lookup, h', h'']
      · simp [insertKv, lookup, h', h'', ih]

/-- Evaluation errors of the expression fragment (classes, not messages). -/
inductive EvalErr where
  | missingKey (k : String)
  | indexRange (i : Nat)
  | notIndexable
  | callFailed (fn : String)
  | unknownFn (fn : String)
  | badArgs (fn : String)
  deriving Repr, DecidableEq, Inhabited

/-- The expression fragment the generators use: `$`, `.key`, `[n]`, literals and calls of built-ins. -/
inductive Expr where
  | root
  | dot (e : Expr) (k : String)
  | idx (e : Expr) (i : Nat)
  | lit (v : Val)
  | call (fn : String) (args : List Expr)
  deriving Repr, Inhabited

/-- `Val` field access as `expressions.Evaluate` does it on maps. -/
def Val.getKey (v : Val) (k : String) : Except EvalErr Val :=
  match v with
  | .map kvs => match lookup k kvs with
    | some x => .ok x
    | none => .error (.missingKey k)
  | _ => .error .notIndexable

def Val.getIdx (v : Val) (i : Nat) : Except EvalErr Val :=
  match v with
  | .list xs => match xs[i]? with
    | some x => .ok x
    | none => .error (.indexRange i)
  | _ => .error .notIndexable

end Arca.Model
