/-
`Model.LockBalance` — "every `m.Lock()` is followed, on EVERY path to a return, by `m.Unlock()`", decided on the control
skeletons that the extractor regenerates from the Go source on every run (`Arca.Gen.Skel.*`, `Arca.Gen.Locks.*`).

Three layers, all core Lean and all structurally recursive (so that `decide` evaluates them in the kernel):

1. `parse m tokens : Option Block` — the reading of the token language of `extract/main.go` (`skeleton`; every token
   split by the extractor into head and rest, `join` gives the token back) with respect to ONE mutex expression `m` (`"e.inputLock"`, `"r.lock"`, …): `call:m.Lock()` / `call:m.Unlock()` are the two lock
   events, `if(..){ … } else{ … }`, `for(..){`, `range(..){`, `switch(..){ case(..): … default: … }`, `typeswitch`,
   `select{ comm(..): … }` give the branch structure, `return`, `panic`, `break`, `continue` end a path, `defer{ … }` at
   the top level of a function body runs when that body is left, `func{ … }()` is a function literal called on the
   spot, `func{ … }` / `go{ … }` are bodies that run elsewhere (they are checked as functions of their own).  Every other
   token (calls, channel operations, assignments) is irrelevant for the mutex.  `none` = a construct whose paths this
   reading cannot follow (`goto`, `fallthrough`, a `defer` that touches the mutex inside a branch or loop, unbalanced
   braces).
2. `pathsB n b : List (List Ev × Out)` — the PATH SEMANTICS: all syntactic paths through a block with every loop
   unrolled at most `n` times, each with the lock events it passes in order and the way it ends.
3. `postB b σ` — the checker: an abstract interpreter over the four states (held?, misuse seen?), loops by a small
   fixpoint whose closure is re-checked (and `top` otherwise).

`Arca.Proofs.LockBalance.balanced_sound`: whatever the checker accepts, every path of the path semantics that ends in a
return (or falls off the end of the body) passes lock events that are well balanced: never `Lock` while held by this
path, never `Unlock` while free, free at the end.  Intra-procedural: calls are opaque; a path is a syntactic path.
-/
namespace Arca.Model.LockBalance

inductive Ev where
  | acq | rel
  deriving DecidableEq, Repr

inductive Out where
  | fall | ret | brk | cont | panic
  deriving DecidableEq, Repr

mutual
  inductive Stmt where
    | acq | rel | ret | panic | brk | cont
    | ite (t e : Block)
    | loop (b : Block)
    /-- `switch` / `typeswitch` / `select`; `exh` = one arm is always taken (`default`, or a `select`) -/
    | branch (arms : Arms) (exh : Bool)
    /-- a function literal that is not called here (argument, `go`): runs elsewhere, checked on its own -/
    | fn (b : Block)
    /-- a function literal called on the spot -/
    | call (b : Block)
  inductive Block where
    | nil
    | cons (s : Stmt) (rest : Block)
    /-- `defer d` at the top level of a function body, followed by the rest of the body: `d` runs when `rest` is left -/
    | dfr (d : Block) (rest : Block)
  inductive Arms where
    | nil
    | cons (b : Block) (rest : Arms)
end

instance : Inhabited Block := ⟨.nil⟩

/-! ### path semantics -/

abbrev Path := List Ev × Out

/-- a path that ends a function body normally -/
def Out.exits : Out → Bool
  | .fall | .ret => true
  | _ => false

/-- sequential composition: the paths of `ps` that fall through continue with every path of `k` -/
def seqP (ps k : List Path) : List Path :=
  ps.flatMap (fun p => if p.2 = .fall then k.map (fun q => (p.1 ++ q.1, q.2)) else [p])

/-- `defer d; rest`: a path of `rest` that leaves the function runs `d` (as a function body) before it does -/
def dfrP (rest d : List Path) : List Path :=
  rest.flatMap (fun p => if p.2.exits then d.map (fun q => (p.1 ++ q.1, if q.2.exits then p.2 else q.2)) else [p])

/-- a literal called on the spot: returning from it continues the caller -/
def callP (b : List Path) : List Path :=
  b.map (fun p => (p.1, if p.2.exits then .fall else p.2))

/-- `break` inside a `switch` / `select` arm leaves the statement, not an enclosing loop -/
def armP (b : List Path) : List Path :=
  b.map (fun p => (p.1, if p.2 = .brk then .fall else p.2))

/-- a loop unrolled at most `k` times -/
def loopP (body : List Path) : Nat → List Path
  | 0 => [([], .fall)]
  | k + 1 => ([], .fall) :: body.flatMap (fun p =>
      match p.2 with
      | .fall | .cont => (loopP body k).map (fun q => (p.1 ++ q.1, q.2))
      | .brk => [(p.1, .fall)]
      | o => [(p.1, o)])

mutual
  def pathsS (n : Nat) : Stmt → List Path
    | .acq => [([.acq], .fall)]
    | .rel => [([.rel], .fall)]
    | .ret => [([], .ret)]
    | .panic => [([], .panic)]
    | .brk => [([], .brk)]
    | .cont => [([], .cont)]
    | .ite t e => pathsB n t ++ pathsB n e
    | .loop b => loopP (pathsB n b) n
    | .branch arms exh => (if exh then [] else [([], .fall)]) ++ armP (pathsA n arms)
    | .fn _ => [([], .fall)]
    | .call b => callP (pathsB n b)
  def pathsB (n : Nat) : Block → List Path
    | .nil => [([], .fall)]
    | .cons s rest => seqP (pathsS n s) (pathsB n rest)
    | .dfr d rest => dfrP (pathsB n rest) (pathsB n d)
  def pathsA (n : Nat) : Arms → List Path
    | .nil => []
    | .cons b rest => pathsB n b ++ pathsA n rest
end

/-! ### lock state along a path -/

structure St where
  held : Bool
  bad : Bool
  deriving DecidableEq, Repr

def St.free : St := ⟨false, false⟩
def St.locked : St := ⟨true, false⟩

def St.step (σ : St) : Ev → St
  | .acq => if σ.held then { σ with bad := true } else { σ with held := true }
  | .rel => if σ.held then { σ with held := false } else { σ with bad := true }

def St.run (σ : St) (evs : List Ev) : St := evs.foldl St.step σ

/-- the lock events of a path are well balanced from entry state `held₀`: no `Lock` while this path holds the mutex, no
    `Unlock` while it does not, and at the end the mutex is held exactly if it was on entry -/
def wellBalanced (held₀ : Bool) (evs : List Ev) : Prop :=
  ((St.mk held₀ false).run evs).bad = false ∧ ((St.mk held₀ false).run evs).held = held₀

/-! ### the checker -/

abbrev Res := List (Out × St)

def allSt : List St := [⟨false, false⟩, ⟨true, false⟩, ⟨false, true⟩, ⟨true, true⟩]
def allOut : List Out := [.fall, .ret, .brk, .cont, .panic]
/-- everything: the answer for what the checker does not follow -/
def top : Res := allOut.flatMap (fun o => allSt.map (fun s => (o, s)))

def seqR (r : Res) (k : St → Res) : Res :=
  r.flatMap (fun p => if p.1 = .fall then k p.2 else [p])

def dfrR (rest : Res) (d : St → Res) : Res :=
  rest.flatMap (fun p => if p.1.exits then (d p.2).map (fun q => (if q.1.exits then p.1 else q.1, q.2)) else [p])

def callR (b : Res) : Res := b.map (fun p => (if p.1.exits then .fall else p.1, p.2))

def armR (b : Res) : Res := b.map (fun p => (if p.1 = .brk then .fall else p.1, p.2))

def addNew (S xs : List St) : List St :=
  xs.foldl (fun acc x => if acc.contains x then acc else acc ++ [x]) S

/-- the states in which the loop head is reached after one more iteration from `S` -/
def nextHeads (f : St → Res) (S : List St) : List St :=
  (S.flatMap f).filterMap (fun p => if p.1 = .fall ∨ p.1 = .cont then some p.2 else none)

def heads (f : St → Res) : Nat → List St → List St
  | 0, S => S
  | n + 1, S => heads f n (addNew S (nextHeads f S))

def closed (f : St → Res) (S : List St) : Bool :=
  (nextHeads f S).all (fun s => S.contains s)

def loopExits (f : St → Res) (S : List St) : Res :=
  S.map (fun s => (Out.fall, s)) ++
  (S.flatMap f).filterMap (fun p =>
    match p.1 with
    | .brk => some (Out.fall, p.2)
    | .ret => some (Out.ret, p.2)
    | .panic => some (Out.panic, p.2)
    | _ => none)

def loopR (f : St → Res) (σ : St) : Res :=
  let S := heads f 4 [σ]
  if closed f S then loopExits f S else top

mutual
  def postS : Stmt → St → Res
    | .acq, σ => [(.fall, σ.step .acq)]
    | .rel, σ => [(.fall, σ.step .rel)]
    | .ret, σ => [(.ret, σ)]
    | .panic, σ => [(.panic, σ)]
    | .brk, σ => [(.brk, σ)]
    | .cont, σ => [(.cont, σ)]
    | .ite t e, σ => postB t σ ++ postB e σ
    | .loop b, σ => loopR (fun s => postB b s) σ
    | .branch arms exh, σ => (if exh then [] else [(.fall, σ)]) ++ armR (postA arms σ)
    | .fn _, σ => [(.fall, σ)]
    | .call b, σ => callR (postB b σ)
  def postB : Block → St → Res
    | .nil, σ => [(.fall, σ)]
    | .cons s rest, σ => seqR (postS s σ) (fun s' => postB rest s')
    | .dfr d rest, σ => dfrR (postB rest σ) (fun s' => postB d s')
  def postA : Arms → St → Res
    | .nil, _ => []
    | .cons b rest, σ => postB b σ ++ postA rest σ
end

/-- the verdict on one function body entered with the mutex `held₀`: every way out that is not a panic leaves the mutex
    as it was found, without misuse; `break` / `continue` cannot leave a function body -/
def okBody (held₀ : Bool) (b : Block) : Bool :=
  (postB b ⟨held₀, false⟩).all (fun p =>
    match p.1 with
    | .fall | .ret => !p.2.bad && p.2.held == held₀
    | .panic => true
    | _ => false)

mutual
  /-- the bodies of the function literals that run elsewhere (`go`, handlers, deferred literals are part of the path) -/
  def litsS : Stmt → List Block
    | .ite t e => litsB t ++ litsB e
    | .loop b => litsB b
    | .branch arms _ => litsA arms
    | .fn b => b :: litsB b
    | .call b => litsB b
    | _ => []
  def litsB : Block → List Block
    | .nil => []
    | .cons s rest => litsS s ++ litsB rest
    | .dfr d rest => litsB d ++ litsB rest
  def litsA : Arms → List Block
    | .nil => []
    | .cons b rest => litsB b ++ litsA rest
end

/-! ### reading the token language -/

inductive Tok where
  | acq | rel | ret | panic | brk | cont | jump
  | ifO | elseO | loopO | branchO (select : Bool) | label (dflt : Bool) | deferO | goO | funcO
  | close | closeCall
  | other
  deriving DecidableEq, Repr

/-- A token of the skeleton language, split by the extractor into (index of its head in `tokHeads`, rest of the token):
    string comparison and concatenation are cheap in the kernel, character access is not. -/
abbrev SplitTok := Nat × String

/-- the heads of the token language of `extract/main.go` (`skeleton`); the first `exactHeads` are whole tokens -/
def tokHeads : List String :=
  ["}", "}()", "return", "panic", "break", "continue", "goto", "fallthrough", "default:", "else{", "select{", "defer{", "go{", "func{",
   "if(", "for(", "range(", "switch(", "typeswitch(", "case(", "comm(", "call:", "send:", "recv:", "set:", "setidx:"]

def exactHeads : Nat := 14

def headOf (k : Nat) : String := tokHeads.getD k ""

/-- the token a split token stands for -/
def join (t : SplitTok) : String := headOf t.1 ++ t.2

/-- every token has one of the known heads, and a whole-token head has no rest.  Together with `toks.map join = skeleton`
    this fixes the split: the heads are such that none is a proper prefix of another one that allows a rest. -/
def wellSplit (toks : List SplitTok) : Bool :=
  toks.all (fun t => decide (t.1 < tokHeads.length) && (!decide (t.1 < exactHeads) || t.2 == ""))

def classify (m : String) (t : SplitTok) : Tok :=
  match t.1 with
  | 0 => .close
  | 1 => .closeCall
  | 2 => .ret
  | 3 => .panic
  | 4 => .brk
  | 5 => .cont
  | 6 => .jump
  | 7 => .jump
  | 8 => .label true
  | 9 => .elseO
  | 10 => .branchO true
  | 11 => .deferO
  | 12 => .goO
  | 13 => .funcO
  | 14 => .ifO
  | 15 => .loopO
  | 16 => .loopO
  | 17 => .branchO false
  | 18 => .branchO false
  | 19 => .label false
  | 20 => .label false
  | 21 => if t.2 == m ++ ".Lock()" then .acq else if t.2 == m ++ ".Unlock()" then .rel else .other
  | _ => .other

inductive Item where
  | stmt (s : Stmt)
  | dfr (d : Block)

def mkBlock : List Item → Block
  | [] => .nil
  | .stmt s :: rest => .cons s (mkBlock rest)
  | .dfr d :: rest => .dfr d (mkBlock rest)

mutual
  def mentionsS : Stmt → Bool
    | .acq | .rel => true
    | .ite t e => mentionsB t || mentionsB e
    | .loop b => mentionsB b
    | .branch arms _ => mentionsA arms
    | .fn b => mentionsB b
    | .call b => mentionsB b
    | _ => false
  def mentionsB : Block → Bool
    | .nil => false
    | .cons s rest => mentionsS s || mentionsB rest
    | .dfr d rest => mentionsB d || mentionsB rest
  def mentionsA : Arms → Bool
    | .nil => false
    | .cons b rest => mentionsB b || mentionsA rest
end

inductive Frame where
  | root
  | ifThen
  | ifElse (t : Block)
  | loop
  | branch (select : Bool) (arms : Arms) (hasDefault : Bool) (inArm : Bool)
  | dfr | go | func

/-- a function body starts here: `defer` directly inside runs when this body is left -/
def Frame.isBody : Frame → Bool
  | .root | .func => true
  | _ => false

structure PState where
  stack : List (Frame × List Item)   -- enclosing frames with the (reversed) items collected before them
  frame : Frame
  cur : List Item                    -- reversed
  ok : Bool

def PState.fail (p : PState) : PState := { p with ok := false }

def PState.push (p : PState) (f : Frame) : PState :=
  { p with stack := (p.frame, p.cur) :: p.stack, frame := f, cur := [] }

/-- leave the current frame with statement `it` (or nothing) appended to the enclosing one -/
def PState.pop (p : PState) (it : Option Item) : PState :=
  match p.stack with
  | [] => p.fail
  | (f, items) :: rest =>
    { p with stack := rest, frame := f, cur := (match it with | some i => i :: items | none => items) }

/-- a block that is one literal called on the spot: `defer func(){…}()`, `go func(){…}()` -/
def unwrapCall : Block → Block
  | .cons (.call b) .nil => b
  | b => b

def closeFrame (p : PState) (called : Bool) : PState :=
  let body := mkBlock p.cur.reverse
  match p.frame with
  | .root => p.fail
  | .func => p.pop (some (.stmt (if called then .call body else .fn body)))
  | f =>
    if called then p.fail else
    match f with
    | .ifThen => p.pop (some (.stmt (.ite body .nil)))
    | .ifElse t => p.pop (some (.stmt (.ite t body)))
    | .loop => p.pop (some (.stmt (.loop body)))
    | .branch sel arms dflt inArm =>
      let arms' := if inArm then Arms.cons body arms else arms
      p.pop (some (.stmt (.branch arms' (sel || dflt))))
    | .go => p.pop (some (.stmt (.fn (unwrapCall body))))
    | .dfr =>
      let d := unwrapCall body
      match p.stack with
      | (outer, _) :: _ =>
        if outer.isBody then p.pop (some (.dfr d))
        else if mentionsB d then p.fail   -- a conditional / repeated defer that touches the mutex: not followed
        else p.pop none
      | [] => p.fail
    | _ => p.fail

def stepTok (p : PState) (tok : Tok) : PState :=
  if !p.ok then p else
  match tok with
  | .other => p
  | .acq => { p with cur := .stmt .acq :: p.cur }
  | .rel => { p with cur := .stmt .rel :: p.cur }
  | .ret => { p with cur := .stmt .ret :: p.cur }
  | .panic => { p with cur := .stmt .panic :: p.cur }
  | .brk => { p with cur := .stmt .brk :: p.cur }
  | .cont => { p with cur := .stmt .cont :: p.cur }
  | .jump => p.fail
  | .ifO => p.push .ifThen
  | .loopO => p.push .loop
  | .branchO sel => p.push (.branch sel .nil false false)
  | .deferO => p.push .dfr
  | .goO => p.push .go
  | .funcO => p.push .func
  | .elseO =>
    match p.cur with
    | .stmt (.ite t .nil) :: items => { p with stack := (p.frame, items) :: p.stack, frame := .ifElse t, cur := [] }
    | _ => p.fail
  | .label dflt =>
    match p.frame with
    | .branch sel arms d inArm =>
      let arms' := if inArm then Arms.cons (mkBlock p.cur.reverse) arms else arms
      { p with frame := .branch sel arms' (d || dflt) true, cur := [] }
    | _ => p.fail
  | .close => closeFrame p false
  | .closeCall => closeFrame p true

/-- the body of a function, read with respect to mutex `m`; `none`: not followed -/
def parse (m : String) (toks : List SplitTok) : Option Block :=
  let p := (toks.map (classify m)).foldl stepTok ⟨[], .root, [], true⟩
  match p.ok, p.frame, p.stack with
  | true, .root, [] => some (mkBlock p.cur.reverse)
  | _, _, _ => none

/-- the function body and the bodies of all its function literals that run elsewhere are each balanced: the body from
    entry state `held₀`, the literals from "not held" -/
def okFunction (held₀ : Bool) (b : Block) : Bool :=
  okBody held₀ b && (litsB b).all (okBody false)

/-- verdict on a token list: `m` is released on every path (entry: not held) -/
def balanced (m : String) (toks : List SplitTok) : Bool :=
  match parse m toks with
  | some b => okFunction false b
  | none => false

/-- the same for a function that is entered and left with `m` held (it may release and re-acquire it in between) -/
def balancedHeld (m : String) (toks : List SplitTok) : Bool :=
  match parse m toks with
  | some b => okFunction true b
  | none => false

/-- number of `Lock()` calls on `m` in a token list (non-vacuity of the verdicts) -/
def lockCalls (m : String) (toks : List SplitTok) : Nat :=
  ((toks.map (classify m)).filter (fun k => k == .acq)).length

end Arca.Model.LockBalance
