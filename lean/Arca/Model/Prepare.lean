/-
M3 — `executor.Prepare` (workflow/executor.go): the dependency graph the workflow text implies.

The real code walks the workflow and performs a sequence of graph operations on a `dgraph` whose node ids are strings:
`AddNode`, `Connect` / `ConnectDependency`, and returns an error at the first operation (or reference resolution) that
fails.  The model makes that sequence explicit: `Wf.ops` is the list of operations in the order the Go code performs
them (`Op.fail r` marks the place where the Go code returns an error before touching the graph), `runOps` applies them
to the graph model M2 with *rendered string ids*, exactly as the Go code does, and `prepare` adds the final `HasCycles`
check.  Node ids are structured (`NodeId`) so that proofs can tell the kinds of nodes apart; `NodeId.render` gives
the Go string (`steps.S.G`, `steps.S.G.O`, `outputs.X`, `<parent>.<path joined by '.'>`, `<group>.<option>`), and a
collision of rendered ids is detected where Go detects it (`AddNode` on an existing id).

No modelled path of `Prepare` panics: an expression that is only `$` (a dependency path of length 1) is rejected by the
guard `len(dependency) < 2` of `prepareExprDependencies` (`Reject.rootRef`; before /repo commit 1ef90ac that was an
index-out-of-range panic, found by this slice).  `Reject` therefore has no panic constructor (`prepare_never_panics`).

Outside this model (validated by the differential only as "the model accepts ⇒ the code may still reject with class
type/schema"): type compatibility of stage inputs with the step schema, fields *inside* typed outputs, the provider
schema of a step (`plugin`, `step`, `workflow`), the expression language beyond paths / literals / calls.

Core Lean only: linked into `arcadrv`.
-/
import Arca.Model.Val
import Arca.Model.Dgraph
import Arca.Model.RunLoop
import Arca.Gen.Lifecycle

namespace Arca.Model
open Arca.Gen (StageRow pluginStages foreachStages)

/-- Unresolved input data as written in the workflow text (the harness' `AIn`). -/
inductive AIn where
  | lit (v : String)
  | expr (e : Expr)
  | list (xs : List AIn)
  | map (kvs : List (String × AIn))
  | oneof (disc : String) (opts : List (String × AIn))
  | optional (wait : Bool) (e : Expr)
  | ordisabled (e : Expr)
  deriving Repr, Inhabited

inductive StepKind where
  | plugin | foreach
  deriving DecidableEq, Repr, Inhabited

structure Step where
  id : String
  kind : StepKind
  fields : List (String × AIn)
  deriving Repr, Inhabited

structure Wf where
  inputFields : List String
  steps : List Step
  outputs : List (String × AIn)
  deriving Repr, Inhabited

/-- structured node ids -/
inductive NodeId where
  | input
  | stage (s g : String)
  | out (s g o : String)
  | wfout (x : String)
  | group (parent : NodeId) (path : List String)
  | option (grp : NodeId) (key : String)
  deriving DecidableEq, Repr, Inhabited

/-- the Go string id: `DAGItem.String()`, `createGroupNode`, `prepareOneOfExprDependencies` -/
def NodeId.render : NodeId → String
  | .input => "input"
  | .stage s g => "steps." ++ s ++ "." ++ g
  | .out s g o => "steps." ++ s ++ "." ++ g ++ "." ++ o
  | .wfout x => "outputs." ++ x
  | .group p path => p.render ++ "." ++ ".".intercalate path
  | .option g k => g.render ++ "." ++ k

inductive Reject where
  | dangling          -- reference to a non-existing input field / step / stage (with outputs) / output
  | invalidDep        -- `$.steps` / `$.steps.S`: "invalid dependency"
  | rootRef           -- `$` alone: "invalid dependency $ ...: it must refer to the workflow input or to a step"
  | badOrDisabled     -- `!ordisabled` on something that is not `$.steps.S.<more>` (rejected by the YAML layer)
  | emptyOneOf
  | noSteps
  | noOutputs
  | graph (e : DgErr String)
  | cycle
  deriving Repr, Inhabited

def Reject.cls : Reject → String
  | .dangling => "dangling"
  | .invalidDep => "dangling"
  | .rootRef => "dangling"
  | .badOrDisabled => "yaml"
  | .emptyOneOf => "other"
  | .noSteps => "other"
  | .noOutputs => "other"
  | .graph (.alreadyExists _) => "collision"
  | .graph _ => "connect"
  | .cycle => "cycle"

inductive Op where
  | node (id : NodeId)
  /-- `tol`: an `ErrConnectionAlreadyExists` is ignored (prepareExprDependencies) -/
  | edge (src dst : NodeId) (d : Dep) (tol : Bool)
  | fail (r : Reject)
  deriving Repr, Inhabited

/-! ### lifecycles -/

def rowsOf : StepKind → List StageRow
  | .plugin => pluginStages
  | .foreach => foreachStages

/-- declared outputs of a stage; `"*"` stands for the outputs of the plugin step (a parameter of the model) -/
def rowOuts (po : List String) (r : StageRow) : List String :=
  if r.outputs = ["*"] then po else r.outputs

/-! ### expression dependencies (`Expression.Dependencies` under the engine's unpack requirements) -/

/-- keys after `$` of a pure path expression (`IncludeKeys = false`: bracket keys are dropped) -/
def Expr.path? : Expr → Option (List String)
  | .root => some []
  | .dot e k => (Expr.path? e).map (· ++ [k])
  | .idx e _ => Expr.path? e
  | _ => none

mutual
  /-- data-rooted dependency paths (function-rooted ones are excluded) -/
  def Expr.deps : Expr → List (List String)
    | .root => [[]]
    | .dot e k => match Expr.path? (.dot e k) with
      | some p => [p]
      | none => Expr.deps e
    | .idx e i => match Expr.path? (.idx e i) with
      | some p => [p]
      | none => Expr.deps e
    | .lit _ => []
    | .call _ args => Expr.depsArgs args
  def Expr.depsArgs : List Expr → List (List String)
    | [] => []
    | e :: es => Expr.deps e ++ Expr.depsArgs es
end

/-- `$.steps.S.disabled.output` -/
def disabledExpr (s : String) : Expr := .dot (.dot (.dot (.dot .root "steps") s) "disabled") "output"

/-- `buildResultOrDisabledExpression`: the step of `$.steps.S.<more>` -/
def orDisabledStep (e : Expr) : Option String :=
  match Expr.path? e with
  | some (k :: s :: _ :: _) => if k = "steps" then some s else none
  | _ => none

/-! ### reference resolution (type check against the internal data model, then node lookup) -/

def Wf.findStep (wf : Wf) (s : String) : Option Step := wf.steps.find? (fun st => st.id = s)

def findRow (k : StepKind) (g : String) : Option StageRow := (rowsOf k).find? (fun r => r.id = g)

/-- the node an expression dependency `$.<p>` is connected from -/
def Wf.resolve (po : List String) (wf : Wf) : List String → Except Reject NodeId
  | [] => .error .rootRef
  | k :: rest =>
    if k = "input" then
      match rest with
      | [] => .ok .input
      | f :: _ => if f ∈ wf.inputFields then .ok .input else .error .dangling
    else if k = "steps" then
      match rest with
      | [] => .error .invalidDep
      | s :: rest' =>
        match wf.findStep s with
        | none => .error .dangling
        | some st =>
          match rest' with
          | [] => .error .invalidDep
          | g :: rest'' =>
            match findRow st.kind g with
            | none => .error .dangling
            | some row =>
              if rowOuts po row = [] then .error .dangling     -- stages without outputs are not in the data model
              else match rest'' with
                | [] => .ok (.stage s g)
                | o :: _ => if o ∈ rowOuts po row then .ok (.out s g o) else .error .dangling
    else .error .dangling

/-! ### the operations `Prepare` performs -/

abbrev Resolver := List String → Except Reject NodeId

def opsRefs (R : Resolver) (cur : NodeId) (e : Expr) : List Op :=
  (Expr.deps e).map (fun p => match R p with
    | .ok a => Op.edge a cur .and true
    | .error r => Op.fail r)

def optDep (wait : Bool) : Dep := if wait then .cand else .opt

/-- one option of a `!oneof`: its node, the `or` edge to the group node -/
def optionHead (g : NodeId) (k : String) : List Op :=
  [.node (.option g k), .edge (.option g k) g .or false]

mutual
  /-- `prepareDependencies(data, currentNode, pathInCurrentNode)` -/
  def opsIn (R : Resolver) (cur : NodeId) (path : List String) : AIn → List Op
    | .lit _ => []
    | .expr e => opsRefs R cur e
    | .list xs => opsList R cur path 0 xs
    | .map kvs => opsKvs R cur path kvs
    | .optional w e =>
      [.node (.group cur path), .edge (.group cur path) cur (optDep w) false] ++ opsRefs R (.group cur path) e
    | .oneof _ opts =>
      if opts.isEmpty then [.fail .emptyOneOf]
      else [.node (.group cur path), .edge (.group cur path) cur .and false] ++ opsOpts R (.group cur path) opts
    | .ordisabled e =>
      match orDisabledStep e with
      | none => [.fail .badOrDisabled]
      | some s =>
        [.node (.group cur path), .edge (.group cur path) cur .and false]
          ++ optionHead (.group cur path) "disabled" ++ opsRefs R (.option (.group cur path) "disabled") (disabledExpr s)
          ++ optionHead (.group cur path) "enabled" ++ opsRefs R (.option (.group cur path) "enabled") e
  def opsList (R : Resolver) (cur : NodeId) (path : List String) (i : Nat) : List AIn → List Op
    | [] => []
    | x :: xs => opsIn R cur (path ++ [toString i]) x ++ opsList R cur path (i + 1) xs
  def opsKvs (R : Resolver) (cur : NodeId) (path : List String) : List (String × AIn) → List Op
    | [] => []
    | (k, x) :: rest => opsIn R cur (path ++ [k]) x ++ opsKvs R cur path rest
  def opsOpts (R : Resolver) (g : NodeId) : List (String × AIn) → List Op
    | [] => []
    | (k, x) :: rest => optionHead g k ++ opsIn R (.option g k) [] x ++ opsOpts R g rest
end

/-- `buildOutputProperties` / `addOutputProperties` for one stage -/
def rowNodeOps (po : List String) (s : String) (row : StageRow) : List Op :=
  .node (.stage s row.id) ::
    (rowOuts po row).flatMap (fun o => [Op.node (.out s row.id o), .edge (.stage s row.id) (.out s row.id o) .and false])

def stepNodeOps (po : List String) (s : Step) : List Op :=
  (rowsOf s.kind).flatMap (rowNodeOps po s.id)

/-- one input field of a stage -/
def fieldOps (R : Resolver) (s : Step) (row : StageRow) (f : String) : List Op :=
  match lookup f s.fields with
  | none => []
  | some a => opsIn R (.stage s.id row.id) [] a

/-- `connectStepDependencies` for one stage: lifecycle edges, then the stage's input fields -/
def rowEdgeOps (R : Resolver) (s : Step) (row : StageRow) : List Op :=
  row.next.map (fun nd => Op.edge (.stage s.id row.id) (.stage s.id nd.1) nd.2 false)
    ++ row.inputFields.flatMap (fieldOps R s row)

def stepEdgeOps (R : Resolver) (s : Step) : List Op :=
  (rowsOf s.kind).flatMap (rowEdgeOps R s)

def outputOps (R : Resolver) (o : String × AIn) : List Op :=
  .node (.wfout o.1) :: opsIn R (.wfout o.1) [] o.2

def failIf (b : Bool) (r : Reject) : List Op := if b then [.fail r] else []

/-- all operations of `Prepare`, in the order of the Go code -/
def Wf.ops (po : List String) (wf : Wf) : List Op :=
  failIf wf.steps.isEmpty .noSteps
    ++ [.node .input]
    ++ wf.steps.flatMap (stepNodeOps po)
    ++ wf.steps.flatMap (stepEdgeOps (wf.resolve po))
    ++ failIf wf.outputs.isEmpty .noOutputs
    ++ wf.outputs.flatMap (outputOps (wf.resolve po))

/-! ### applying the operations to the graph model -/

def applyOp (g : Graph String) : Op → Except Reject (Graph String)
  | .node id =>
    match g.addNode id.render with
    | .ok g' => .ok g'
    | .error e => .error (.graph e)
  | .edge a b d tol =>
    match g.connect a.render b.render d with
    | .ok g' => .ok g'
    | .error (.connectionExists x y) => if tol then .ok g else .error (.graph (.connectionExists x y))
    | .error e => .error (.graph e)
  | .fail r => .error r

def runOps (g : Graph String) : List Op → Except Reject (Graph String)
  | [] => .ok g
  | op :: rest =>
    match applyOp g op with
    | .ok g' => runOps g' rest
    | .error r => .error r

/-! ### `DAGItem`s -/

mutual
  /-- the data as `DAGItem.Data` holds it after preparation (group / parent / option node paths filled in) -/
  def annot (cur : NodeId) (path : List String) : AIn → InVal
    | .lit v => .lit (.str v)
    | .expr e => .expr e
    | .list xs => .list (annotList cur path 0 xs)
    | .map kvs => .map (annotKvs cur path kvs)
    | .optional w e => .optional w (NodeId.group cur path).render cur.render e
    | .oneof d opts => .oneof d (NodeId.group cur path).render (annotOpts (.group cur path) opts)
    | .ordisabled e =>
      .oneof "result" (NodeId.group cur path).render
        [("disabled", .expr (disabledExpr ((orDisabledStep e).getD ""))), ("enabled", .expr e)]
  def annotList (cur : NodeId) (path : List String) (i : Nat) : List AIn → List InVal
    | [] => []
    | x :: xs => annot cur (path ++ [toString i]) x :: annotList cur path (i + 1) xs
  def annotKvs (cur : NodeId) (path : List String) : List (String × AIn) → List (String × InVal)
    | [] => []
    | (k, x) :: rest => (k, annot cur (path ++ [k]) x) :: annotKvs cur path rest
  def annotOpts (g : NodeId) : List (String × AIn) → List (String × InVal)
    | [] => []
    | (k, x) :: rest => (k, annot (.option g k) [] x) :: annotOpts g rest
end

/-! ### sites: every value occurring in a field, with its coordinates

`sites` enumerates every value occurring in a field together with its coordinates (the node it belongs to and the path
inside that node) and every option of every `!oneof`.  It is the basis of the declarative definitions below
(`siteNodes`, `siteEdges`), which look at one site in isolation and do not refer to the operation sequence above. -/

inductive Site where
  /-- the value `a` occurs at `path` inside the data of node `cur` -/
  | val (cur : NodeId) (path : List String) (a : AIn)
  /-- `k` is an option of the `!oneof` whose group node is `g` -/
  | opt (g : NodeId) (k : String)
  deriving Repr, Inhabited

mutual
  def sites (cur : NodeId) (path : List String) : AIn → List Site
    | .list xs => .val cur path (.list xs) :: sitesList cur path 0 xs
    | .map kvs => .val cur path (.map kvs) :: sitesKvs cur path kvs
    | .oneof d opts => .val cur path (.oneof d opts) :: sitesOpts (.group cur path) opts
    | .lit v => [.val cur path (.lit v)]
    | .expr e => [.val cur path (.expr e)]
    | .optional w e => [.val cur path (.optional w e)]
    | .ordisabled e => [.val cur path (.ordisabled e)]
  def sitesList (cur : NodeId) (path : List String) (i : Nat) : List AIn → List Site
    | [] => []
    | x :: xs => sites cur (path ++ [toString i]) x ++ sitesList cur path (i + 1) xs
  def sitesKvs (cur : NodeId) (path : List String) : List (String × AIn) → List Site
    | [] => []
    | (k, x) :: rest => sites cur (path ++ [k]) x ++ sitesKvs cur path rest
  def sitesOpts (g : NodeId) : List (String × AIn) → List Site
    | [] => []
    | (k, x) :: rest => .opt g k :: (sites (.option g k) [] x ++ sitesOpts g rest)
end

/-- the dependency-group nodes a site needs -/
def siteNodes : Site → List NodeId
  | .val cur path (.optional _ _) => [.group cur path]
  | .val cur path (.oneof _ _) => [.group cur path]
  | .val cur path (.ordisabled _) =>
    [.group cur path, .option (.group cur path) "disabled", .option (.group cur path) "enabled"]
  | .opt g k => [.option g k]
  | .val _ _ (.lit _) => []
  | .val _ _ (.expr _) => []
  | .val _ _ (.list _) => []
  | .val _ _ (.map _) => []

def groupItem : Item := { kind := .group }

def stageItems (po : List String) (s : Step) (row : StageRow) : List (String × Item) :=
  let cur := NodeId.stage s.id row.id
  let present := row.inputFields.filterMap (fun f => (lookup f s.fields).map (fun a => (f, a)))
  let data : List (String × InVal) := present.map (fun fa => (fa.1, annot cur [] fa.2))
  [(cur.render, { kind := .stage
                  step := s.id
                  stage := row.id
                  data := some (.map data)
                  hasSchema := row.hasSchema })]
    ++ (rowOuts po row).map (fun o => ((NodeId.out s.id row.id o).render,
          { kind := .stageOutput
            step := s.id
            stage := row.id
            output := o }))
    ++ ((present.flatMap (fun fa => sites cur [] fa.2)).flatMap siteNodes).map (fun id => (id.render, groupItem))

def outputItems (o : String × AIn) : List (String × Item) :=
  [((NodeId.wfout o.1).render, { kind := .output
                                 output := o.1
                                 data := some (annot (.wfout o.1) [] o.2) })]
    ++ ((sites (.wfout o.1) [] o.2).flatMap siteNodes).map (fun id => (id.render, groupItem))

def Wf.items (po : List String) (wf : Wf) : List (String × Item) :=
  [("input", { kind := .input })]
    ++ wf.steps.flatMap (fun s => (rowsOf s.kind).flatMap (stageItems po s))
    ++ wf.outputs.flatMap outputItems

/-! ### `Prepare` -/

def build (po : List String) (wf : Wf) : Except Reject (Graph String) := runOps Graph.empty (wf.ops po)

/-- `executor.Prepare` for the modelled fragment; `po` = the declared outputs of the plugin step -/
def prepare (po : List String) (wf : Wf) : Except Reject (Graph String × List (String × Item)) :=
  match build po wf with
  | .error r => .error r
  | .ok g => if g.hasCycles then .error .cycle else .ok (g, wf.items po)

/-! ### the declarative side: which edges does the text imply?

`siteEdges` says, for one site looked at in isolation, which dependencies its tag requires. -/

abbrev Edge := NodeId × NodeId × Dep

/-- a reference is a required (`and`) dependency of the node that holds it on the node that produces the value -/
def refEdges (R : Resolver) (cur : NodeId) (e : Expr) : List Edge :=
  (Expr.deps e).filterMap (fun p => match R p with
    | .ok a => some (a, cur, Dep.and)
    | .error _ => none)

def siteEdges (R : Resolver) : Site → List Edge
  | .val cur _ (.expr e) => refEdges R cur e
  | .val cur path (.optional w e) =>
    -- the holder waits for the group to complete (`!wait-optional`) or not at all (`!soft-optional`)
    (.group cur path, cur, optDep w) :: refEdges R (.group cur path) e
  | .val cur path (.oneof _ _) =>
    -- the holder requires the group ...
    [(.group cur path, cur, Dep.and)]
  | .opt g k =>
    -- ... and the group requires one of its options
    [(.option g k, g, Dep.or)]
  | .val cur path (.ordisabled e) =>
    match orDisabledStep e with
    | none => []
    | some s =>
      [(.group cur path, cur, Dep.and),
       (.option (.group cur path) "disabled", .group cur path, Dep.or),
       (.option (.group cur path) "enabled", .group cur path, Dep.or)]
        ++ refEdges R (.option (.group cur path) "disabled") (disabledExpr s)
        ++ refEdges R (.option (.group cur path) "enabled") e
  | .val _ _ (.lit _) => []
  | .val _ _ (.list _) => []
  | .val _ _ (.map _) => []

/-- the root values of a workflow: every input field of every stage of every step, and every output -/
def Wf.roots (wf : Wf) : List (NodeId × AIn) :=
  wf.steps.flatMap (fun s => (rowsOf s.kind).flatMap (fun row =>
      row.inputFields.filterMap (fun f => (lookup f s.fields).map (fun a => (NodeId.stage s.id row.id, a)))))
    ++ wf.outputs.map (fun o => (NodeId.wfout o.1, o.2))

def Wf.allSites (wf : Wf) : List Site :=
  wf.roots.flatMap (fun ra => sites ra.1 [] ra.2)

/-- every reference in every field: the edge its tag requires (structured ids) -/
def Wf.impliedS (po : List String) (wf : Wf) : List Edge :=
  wf.allSites.flatMap (siteEdges (wf.resolve po))

/-- the ordering of each step's own stages -/
def Wf.lifecycleS (wf : Wf) : List Edge :=
  wf.steps.flatMap (fun s => (rowsOf s.kind).flatMap (fun row =>
    row.next.map (fun nd => (NodeId.stage s.id row.id, NodeId.stage s.id nd.1, nd.2))))

/-- a stage precedes each of its outputs -/
def Wf.stageOutS (po : List String) (wf : Wf) : List Edge :=
  wf.steps.flatMap (fun s => (rowsOf s.kind).flatMap (fun row =>
    (rowOuts po row).map (fun o => (NodeId.stage s.id row.id, NodeId.out s.id row.id o, Dep.and))))

def renderEdge (e : Edge) : String × String × Dep := (e.1.render, e.2.1.render, e.2.2)

def impliedEdges (po : List String) (wf : Wf) : List (String × String × Dep) := (wf.impliedS po).map renderEdge
def lifecycleEdges (wf : Wf) : List (String × String × Dep) := wf.lifecycleS.map renderEdge
def stageOutEdges (po : List String) (wf : Wf) : List (String × String × Dep) := (wf.stageOutS po).map renderEdge

end Arca.Model
