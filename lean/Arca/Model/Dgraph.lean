/-
M2 — go.arcalot.io/dgraph v1.7.0 as the engine uses it (dg.go), branch for branch.

A graph is a list of nodes (id, status, outstanding dependencies, resolved dependencies), a list of edges
(from, to) and the set of nodes that are "ready for processing".  Go maps become association lists; the
order inside them never influences a result that the engine observes (the differential check compares
canonically sorted renderings, and `Props/Dgraph` proves the invariants for every order).

Every Go `panic` and error return is an explicit `DgErr`; nothing is defaulted.
-/
namespace Arca.Model

inductive Dep where
  | and | or | cand | opt | obv
  deriving DecidableEq, Repr, Inhabited

inductive St where
  | waiting | resolved | unres
  deriving DecidableEq, Repr, Inhabited

/-- `isHardDependency` -/
def Dep.hard : Dep → Bool
  | .obv => false
  | .opt => false
  | _ => true

structure Node (ι : Type) where
  id : ι
  status : St
  out : List (ι × Dep)
  res : List (ι × Dep)
  deriving Repr

/-- `edges` = (from, to, dependency type given at `connect` time); the type recorded here never changes, whereas
the entry in the target's `out` list may later be rewritten to `obv`. -/
structure Graph (ι : Type) where
  nodes : List (Node ι)
  edges : List (ι × ι × Dep)
  ready : List ι
  deriving Repr

inductive DgErr (ι : Type) where
  | notFound (id : ι)
  | alreadyExists (id : ι)
  | connectSelf (id : ι)
  | connectionExists (a b : ι)
  | alreadySet (id : ι) (old new : St)           -- ErrNodeResolutionAlreadySet (returned)
  | panicDupResolution (n src : ι)               -- panic(ErrDuplicateDependencyResolution)
  | panicNoConnection (src n : ι)                -- panic(ErrConnectionDoesNotExist)
  | notifiedOfWaiting (n src : ι)
  | fuel
  deriving Repr

variable {ι : Type} [DecidableEq ι]

def Graph.empty : Graph ι := ⟨[], [], []⟩

def Graph.find? (g : Graph ι) (id : ι) : Option (Node ι) :=
  g.nodes.find? (fun n => n.id = id)

def Graph.has (g : Graph ι) (id : ι) : Bool := (g.find? id).isSome

def Graph.statusOf (g : Graph ι) (id : ι) : Option St := (g.find? id).map (·.status)

/-- replace the node with the same id -/
def Graph.setNode (g : Graph ι) (n : Node ι) : Graph ι :=
  { g with nodes := g.nodes.map (fun m => if m.id = n.id then n else m) }

def Graph.succs (g : Graph ι) (id : ι) : List ι :=
  (g.edges.filter (fun e => e.1 = id)).map (·.2.1)

def Graph.preds (g : Graph ι) (id : ι) : List ι :=
  (g.edges.filter (fun e => e.2.1 = id)).map (·.1)

def Graph.hasEdge (g : Graph ι) (src dst : ι) : Bool :=
  g.edges.any (fun e => e.1 = src ∧ e.2.1 = dst)

def insertSet (x : ι) (l : List ι) : List ι := if x ∈ l then l else l ++ [x]

def alookup (k : ι) : List (ι × Dep) → Option Dep
  | [] => none
  | (k', v) :: rest => if k = k' then some v else alookup k rest

def aerase (k : ι) (l : List (ι × Dep)) : List (ι × Dep) := l.filter (fun p => p.1 ≠ k)

def hasDep (d : Dep) (l : List (ι × Dep)) : Bool := l.any (fun p => p.2 = d)

def obviate (d : Dep) (l : List (ι × Dep)) : List (ι × Dep) :=
  l.map (fun p => if p.2 = d then (p.1, Dep.obv) else p)

/-- `AddNode` -/
def Graph.addNode (g : Graph ι) (id : ι) : Except (DgErr ι) (Graph ι) :=
  if g.has id then .error (.alreadyExists id)
  else .ok { g with nodes := g.nodes ++ [⟨id, .waiting, [], []⟩] }

/-- `connectNodes(from, to, type)` -/
def Graph.connect (g : Graph ι) (src dst : ι) (d : Dep) : Except (DgErr ι) (Graph ι) :=
  match g.find? src, g.find? dst with
  | none, _ => .error (.notFound src)
  | _, none => .error (.notFound dst)
  | some _, some n =>
    if src = dst then .error (.connectSelf src)
    else if g.hasEdge src dst then .error (.connectionExists src dst)
    else .ok ({ g with edges := g.edges ++ [(src, dst, d)] }.setNode { n with out := n.out ++ [(src, d)] })

/-- `PushStartingNodes`: every node without an outstanding hard dependency becomes ready. -/
def Graph.pushStarting (g : Graph ι) : Graph ι :=
  let starters := g.nodes.filter (fun n => !(n.out.any (fun p => p.2.hard)))
  { g with ready := starters.foldl (fun r n => insertSet n.id r) g.ready }

/-- `PopReadyNodes` -/
def Graph.popReady (g : Graph ι) : List (ι × St) × Graph ι :=
  (g.ready.filterMap (fun id => (g.statusOf id).map (fun s => (id, s))), { g with ready := [] })

def Graph.hasReady (g : Graph ι) : Bool := !g.ready.isEmpty

/-- `markReady` on node `n` (obviates optional dependencies, puts it in the ready set). -/
def Graph.markReady (g : Graph ι) (n : Node ι) : Graph ι × Node ι :=
  let n' := { n with out := obviate .opt n.out }
  ({ g.setNode n' with ready := insertSet n.id g.ready }, n')

/--
`dependencyResolved(n, src, st)`.  Returns the new graph and whether `n` *newly* turned unresolvable
(in which case the caller must propagate to `n`'s successors, as `resolveNode` does).
-/
def Graph.depResolved (g : Graph ι) (nid src : ι) (st : St) : Except (DgErr ι) (Graph ι × Bool) :=
  match g.find? nid with
  | none => .error (.notFound nid)
  | some n =>
    if st = .waiting then .error (.notifiedOfWaiting nid src) else
    match alookup src n.out with
    | none =>
      if g.hasEdge src nid then .error (.panicDupResolution nid src)
      else .error (.panicNoConnection src nid)
    | some dt =>
      let n1 : Node ι := { n with
        res := if st = .resolved then n.res ++ [(src, dt)] else n.res,
        out := aerase src n.out }
      let g1 := g.setNode n1
      if !dt.hard then .ok (g1, false)
      else if st = .unres ∧ dt ≠ .cand then
        if dt = .and ∨ !(hasDep .or n1.out) then
          let (g2, n2) := g1.markReady n1
          -- n.resolveNode(Unresolvable)
          match n2.status with
          | .waiting => .ok (g2.setNode { n2 with status := .unres }, true)
          | .unres => .ok (g2, false)
          | .resolved => .error (.alreadySet nid .resolved .unres)
        else .ok (g1, false)
      else
        let n2 : Node ι := if dt = .or then { n1 with out := obviate .or n1.out } else n1
        let hasOr := if dt = .or then false else hasDep .or n2.out
        let hasAnd := hasDep .and n2.out || hasDep .cand n2.out
        let g2 := g1.setNode n2
        if !(hasAnd || hasOr) then .ok ((g2.markReady n2).1, false)
        else .ok (g2, false)

/-- work-list propagation in the DFS order of the Go recursion; one message per edge at most -/
def Graph.propagate : Nat → Graph ι → List (ι × ι × St) → Except (DgErr ι) (Graph ι)
  | _, g, [] => .ok g
  | 0, _, _ :: _ => .error .fuel
  | f + 1, g, (tgt, src, st) :: rest =>
    match g.depResolved tgt src st with
    | .error e => .error e
    | .ok (g', turned) =>
      let more := if turned then (g'.succs tgt).map (fun t => (t, tgt, St.unres)) else []
      Graph.propagate f g' (more ++ rest)

/-- `Node.ResolveNode(status)` (the explicit, externally visible resolution). -/
def Graph.resolve (g : Graph ι) (id : ι) (st : St) : Except (DgErr ι) (Graph ι) :=
  match g.find? id with
  | none => .error (.notFound id)
  | some n =>
    match n.status with
    | .resolved => .error (.alreadySet id .resolved st)
    | .unres => if st = .unres then .ok g else .error (.alreadySet id .unres st)
    | .waiting =>
      if st = .waiting then .ok g else
      let g1 := g.setNode { n with status := st }
      Graph.propagate (g.edges.length + 1) g1 ((g1.succs id).map (fun t => (t, id, st)))

/-- Kahn-style elimination as in `HasCycles` (nodes without inbound connections are removed repeatedly). -/
def Graph.hasCyclesAux : Nat → List ι → List (ι × ι × Dep) → Bool
  | 0, remaining, _ => !remaining.isEmpty
  | f + 1, remaining, edges =>
    let free := remaining.filter (fun n => !(edges.any (fun e => e.2.1 = n)))
    if free.isEmpty then !remaining.isEmpty
    else
      let remaining' := remaining.filter (fun n => n ∉ free)
      let edges' := edges.filter (fun e => e.1 ∉ free ∧ e.2.1 ∉ free)
      Graph.hasCyclesAux f remaining' edges'

def Graph.hasCycles (g : Graph ι) : Bool :=
  Graph.hasCyclesAux (g.nodes.length + 1) (g.nodes.map (·.id)) g.edges

/-- `Clone()`: same nodes and connections, empty ready set. -/
def Graph.clone (g : Graph ι) : Graph ι := { g with ready := [] }

end Arca.Model
