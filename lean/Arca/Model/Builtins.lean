/-
M10 — the built-in expression functions (`/repo/internal/builtinfunctions/functions.go`), one definition per function.

Core Lean only (this file is linked into `arcadrv`).  Every definition is a total function: "returns a value or an
error, never a panic" holds for the model *by construction*; that the real functions agree with these definitions is
the differential `vharness builtins | arcadrv builtins`.

Representation
* integers: `Int`, with explicit int64 range checks where Go has them (`strconv.ParseInt(s, 10, 0)`, saturation);
* floats: `Val.float bits`, `bits : Nat` the IEEE-754 binary64 pattern.  `floatToInt`, `intToFloat`, `ceil`, `floor`,
  `round`, `abs` are EXACT integer arithmetic on sign / exponent / mantissa.  Every finite double is an integer
  multiple of 2^-1074; `scaled x : Int` is that integer (value · 2^1074).  ±Inf are given the value of the next
  binade (±2^1024, i.e. `scaled = ±2^2098`), which keeps `scaled` an order embedding of all non-NaN doubles;
* strings: `String` (valid Unicode only: Lean strings cannot carry invalid UTF-8, such inputs are outside the model
  and the driver skips them), processed as `List Char`.

Modelled value-exactly: intToFloat, floatToInt, intToString, boolToString, stringToInt, stringToBool, ceil, floor,
round, abs, splitString, bindConstants; toLower / toUpper exactly on ASCII code points and through a parameter
`caseMap : Char → Char` elsewhere (the driver compares ASCII inputs only).

NOT modelled value-exactly: floatToString, floatToFormattedString, stringToFloat (shortest float formatting and
correctly rounded parsing live in Go's strconv).  For these only a *shape* contract is stated
(`floatToStringShape`, `formattedShape`, `stringToFloatShape`): special values, sign, and the class of the declared
output pattern; the Go side checks the real result against the real declared pattern and the round-trip laws.
readFile and getEnvVar depend on the environment and are not modelled at all.
-/
import Arca.Model.Val

namespace Arca.Model.Builtins
open Arca.Model

/-- outcome of a call of a built-in in the model -/
inductive BuiltinResult where
  | ok (v : Val)
  | err            -- the function reports an error (allowed only for functions declared with `errors = true`)
  | notModelled    -- no value-exact model (see file comment)
  | badArgs        -- wrong number / types of arguments: `CallableFunctionSchema.Call` would fail or panic in reflect
  deriving Inhabited

def maxInt64 : Int := 9223372036854775807
def minInt64 : Int := -9223372036854775808

/-! ### IEEE-754 binary64 decoding -/

def fSign (b : Nat) : Bool := (b / 2 ^ 63) % 2 == 1
def fExp (b : Nat) : Nat := (b / 2 ^ 52) % 2048
def fMant (b : Nat) : Nat := b % 2 ^ 52

def isNaN (b : Nat) : Bool := fExp b == 2047 && fMant b != 0
def isInf (b : Nat) : Bool := fExp b == 2047 && fMant b == 0

/-- 2^1074: the reciprocal of the smallest positive double -/
def unit : Nat := 2 ^ 1074

/-- |x| · 2^1074 for finite x; 2^2098 for ±Inf (meaningless for NaN) -/
def scaledAbs (b : Nat) : Nat :=
  if fExp b = 0 then fMant b else (2 ^ 52 + fMant b) * 2 ^ (fExp b - 1)

/-- x · 2^1074 as an integer -/
def scaled (b : Nat) : Int :=
  if fSign b then -(scaledAbs b : Int) else (scaledAbs b : Int)

/-- the double nearest to the natural number `n` (ties to even), positive sign; exact when `n < 2^53`.
    Domain: `n < 2^1024` (no overflow handling: callers pass magnitudes of int64 values or integers below 2^53). -/
def encodeNat (n : Nat) : Nat :=
  if n = 0 then 0
  else
    let l := Nat.log2 n
    if l ≤ 52 then (1023 + l) * 2 ^ 52 + (n * 2 ^ (52 - l) - 2 ^ 52)
    else
      let sh := l - 52
      let q := n / 2 ^ sh
      let r := n % 2 ^ sh
      let half := 2 ^ (sh - 1)
      let q' := if r > half ∨ (r = half ∧ q % 2 = 1) then q + 1 else q
      -- q' = 2^53 carries into the exponent by itself
      (1023 + l) * 2 ^ 52 + (q' - 2 ^ 52)

def withSign (neg : Bool) (b : Nat) : Nat := if neg then b + 2 ^ 63 else b

/-! ### conversions between numbers -/

/-- `func(a int64) float64 { return float64(a) }` — round to nearest, ties to even -/
def intToFloat (i : Int) : Nat := withSign (decide (i < 0)) (encodeNat i.natAbs)

/-- `floatToInt`: +Inf → MaxInt64, -Inf → MinInt64, NaN → error, `a >= 2^63` → MaxInt64, `a <= -2^63` → MinInt64,
    else `int64(a)` (truncation toward zero).  `none` = error. -/
def floatToInt (b : Nat) : Option Int :=
  if isInf b && !fSign b then some maxInt64
  else if isInf b && fSign b then some minInt64
  else if isNaN b then none
  else
    let q := scaledAbs b / unit
    if !fSign b && decide (q ≥ 2 ^ 63) then some maxInt64
    else if fSign b && decide (q ≥ 2 ^ 63) then some minInt64
    else if fSign b then some (-(q : Int)) else some (q : Int)

/-! ### math helpers -/

/-- `math.Abs`: clear the sign bit (also of a NaN) -/
def absBits (b : Nat) : Nat := if fSign b then b - 2 ^ 63 else b

/-- `math.Floor`; values with exponent ≥ 52 (|x| ≥ 2^52, ±Inf, NaN) are returned unchanged -/
def floorBits (b : Nat) : Nat :=
  if fExp b ≥ 1075 then b
  else
    let q := scaledAbs b / unit
    let r := scaledAbs b % unit
    if fSign b then withSign true (encodeNat (if r = 0 then q else q + 1)) else encodeNat q

/-- `math.Ceil` (= -Floor(-x): ceil of a value in (-1, 0) is -0) -/
def ceilBits (b : Nat) : Nat :=
  if fExp b ≥ 1075 then b
  else
    let q := scaledAbs b / unit
    let r := scaledAbs b % unit
    if fSign b then withSign true (encodeNat q) else encodeNat (if r = 0 then q else q + 1)

/-- `math.Round`: nearest integer, halves away from zero, sign kept (round(-0.3) = -0) -/
def roundBits (b : Nat) : Nat :=
  if fExp b ≥ 1075 then b
  else withSign (fSign b) (encodeNat ((scaledAbs b + unit / 2) / unit))

/-! ### integers and booleans as text -/

/-- `strconv.FormatInt(a, 10)` -/
def intToString (i : Int) : String :=
  if i < 0 then "-" ++ Nat.repr i.natAbs else Nat.repr i.natAbs

/-- one or more ASCII digits (no sign, no underscore, no space) -/
def parseNat (cs : List Char) : Option Nat :=
  if cs.isEmpty || !cs.all Char.isDigit then none else some (Nat.ofDigitChars 10 cs 0)

/-- `strconv.ParseInt(s, 10, 0)` on a 64-bit platform: optional `+` or `-`, decimal digits, range error.
    `none` = error. -/
def stringToIntChars : List Char → Option Int
  | '-' :: cs => (parseNat cs).bind fun n => if n ≤ 2 ^ 63 then some (-(n : Int)) else none
  | '+' :: cs => (parseNat cs).bind fun n => if n < 2 ^ 63 then some (n : Int) else none
  | cs => (parseNat cs).bind fun n => if n < 2 ^ 63 then some (n : Int) else none

def stringToInt (s : String) : Option Int := stringToIntChars s.toList

/-- `strconv.FormatBool` -/
def boolToString (b : Bool) : String := if b then "true" else "false"

def isAscii (c : Char) : Bool := c.toNat < 128

/-- `strconv.ParseBool(strings.ToLower(s))`.  A string with a non-ASCII code point is an error: no non-ASCII code
    point lower-cases to one of the letters of the accepted words (the only non-ASCII code points with an ASCII lower
    case are U+0130 → i and U+212A → k). -/
def stringToBool (s : String) : Option Bool :=
  if !s.toList.all isAscii then none
  else
    let l := String.ofList (s.toList.map Char.toLower)
    if l == "1" || l == "t" || l == "true" then some true
    else if l == "0" || l == "f" || l == "false" then some false
    else none

/-! ### strings -/

/-- per code point: ASCII exactly (`Char.toLower` maps A–Z only), everything else through `caseMap` -/
def lowerChar (caseMap : Char → Char) (c : Char) : Char := if isAscii c then c.toLower else caseMap c
def upperChar (caseMap : Char → Char) (c : Char) : Char := if isAscii c then c.toUpper else caseMap c

def toLowerWith (caseMap : Char → Char) (s : String) : String := String.ofList (s.toList.map (lowerChar caseMap))
def toUpperWith (caseMap : Char → Char) (s : String) : String := String.ofList (s.toList.map (upperChar caseMap))

/-- the instance the driver runs: non-ASCII code points unchanged (compared on ASCII inputs only) -/
def toLower (s : String) : String := toLowerWith id s
def toUpper (s : String) : String := toUpperWith id s

/-- `strings.Split` for a non-empty separator: cut at the leftmost occurrence, continue behind it.
    `fuel` bounds the recursion (any `fuel ≥ s.length` gives the same result); `cur` is the current piece, reversed. -/
def splitGo (sep : List Char) : Nat → List Char → List Char → List (List Char)
  | 0, _, cur => [cur.reverse]
  | _ + 1, [], cur => [cur.reverse]
  | fuel + 1, c :: cs, cur =>
    if sep.isPrefixOf (c :: cs) then cur.reverse :: splitGo sep fuel ((c :: cs).drop sep.length) []
    else splitGo sep fuel cs (c :: cur)

/-- `strings.Split(s, sep)` on code-point lists; the empty separator explodes `s` into its code points -/
def splitChars (s sep : List Char) : List (List Char) :=
  if sep.isEmpty then s.map (fun c => [c]) else splitGo sep s.length s []

def splitString (s sep : String) : List String := (splitChars s.toList sep.toList).map String.ofList

/-- `strings.Count(s, sep)` for a non-empty separator: non-overlapping occurrences, leftmost first -/
def countGo (sep : List Char) : Nat → List Char → Nat
  | 0, _ => 0
  | _ + 1, [] => 0
  | fuel + 1, c :: cs =>
    if sep.isPrefixOf (c :: cs) then countGo sep fuel ((c :: cs).drop sep.length) + 1 else countGo sep fuel cs

def countChars (s sep : List Char) : Nat :=
  if sep.isEmpty then s.length + 1 else countGo sep s.length s

/-- `strings.Join` -/
def joinChars (sep : List Char) : List (List Char) → List Char
  | [] => []
  | [p] => p
  | p :: q :: rest => p ++ sep ++ joinChars sep (q :: rest)

def joinString (sep : String) (l : List String) : String := String.ofList (joinChars sep.toList (l.map String.toList))

/-! ### data transformation -/

def constantKey : String := "constant"
def itemKey : String := "item"

/-- `bindConstants`: one `{item, constant}` object per item, in order -/
def bindConstants (items : List Val) (c : Val) : List Val :=
  items.map fun it => Val.map [(constantKey, c), (itemKey, it)]

/-! ### shape contracts of the functions that are not modelled value-exactly -/

def allDigits (cs : List Char) : Bool := !cs.isEmpty && cs.all Char.isDigit

/-- `\d+(?:\.\d+)?` -/
def unsignedDecimalShape (cs : List Char) : Bool :=
  match cs.span Char.isDigit with
  | (ds, []) => !ds.isEmpty
  | (ds, '.' :: fs) => !ds.isEmpty && allDigits fs
  | _ => false

/-- `-?\d+(?:\.\d+)?` -/
def decimalShape : List Char → Bool
  | '-' :: cs => unsignedDecimalShape cs
  | cs => unsignedDecimalShape cs

/-- the declared output pattern of floatToString: `^(?:NaN|[-+]Inf|-?\d+(?:\.\d+)?)$` -/
def floatToStringPattern (s : String) : Bool :=
  s == "NaN" || s == "+Inf" || s == "-Inf" || decimalShape s.toList

def startsWithMinus (s : String) : Bool :=
  match s.toList with
  | '-' :: _ => true
  | _ => false

/-- what the model says about `floatToString x = s`: special values exactly, otherwise a plain decimal whose sign is
    the sign bit (also for -0) -/
def floatToStringShape (b : Nat) (s : String) : Bool :=
  if isNaN b then s == "NaN"
  else if isInf b then s == (if fSign b then "-Inf" else "+Inf")
  else decimalShape s.toList && (startsWithMinus s == fSign b)

/-- `floatToFormattedString x verb prec = s`, for a declared verb: special values exactly, otherwise the sign -/
def formattedShape (b : Nat) (s : String) : Bool :=
  if isNaN b then s == "NaN"
  else if isInf b then s == (if fSign b then "-Inf" else "+Inf")
  else !s.isEmpty && (startsWithMinus s == fSign b)

/-- `stringToFloat s`: a plain decimal of at most 300 characters is accepted and yields a non-NaN value whose sign is
    the sign of the text; everything else is not constrained by the model.  `res = none` is an error. -/
def stringToFloatShape (s : String) (res : Option Nat) : Bool :=
  if decimalShape s.toList && decide (s.length ≤ 300) then
    match res with
    | some b => !isNaN b && (fSign b == startsWithMinus s)
    | none => false
  else true

/-! ### dispatch -/

def ofOptInt : Option Int → BuiltinResult
  | some i => .ok (.int i)
  | none => .err

def ofOptBool : Option Bool → BuiltinResult
  | some b => .ok (.bool b)
  | none => .err

def inInt64 (i : Int) : Bool := decide (minInt64 ≤ i) && decide (i ≤ maxInt64)

/-- a call of the built-in `fn` with the (already evaluated) arguments -/
def callBuiltin (fn : String) (args : List Val) : BuiltinResult :=
  match fn, args with
  | "intToFloat", [.int i] => if inInt64 i then .ok (.float (intToFloat i)) else .badArgs
  | "floatToInt", [.float b] => ofOptInt (floatToInt b)
  | "intToString", [.int i] => if inInt64 i then .ok (.str (intToString i)) else .badArgs
  | "boolToString", [.bool b] => .ok (.str (boolToString b))
  | "stringToInt", [.str s] => ofOptInt (stringToInt s)
  | "stringToBool", [.str s] => ofOptBool (stringToBool s)
  | "ceil", [.float b] => .ok (.float (ceilBits b))
  | "floor", [.float b] => .ok (.float (floorBits b))
  | "round", [.float b] => .ok (.float (roundBits b))
  | "abs", [.float b] => .ok (.float (absBits b))
  | "toLower", [.str s] => .ok (.str (toLower s))
  | "toUpper", [.str s] => .ok (.str (toUpper s))
  | "splitString", [.str s, .str sep] => .ok (.list ((splitString s sep).map Val.str))
  | "bindConstants", [.list items, c] => .ok (.list (bindConstants items c))
  | "floatToString", [.float _] => .notModelled
  | "floatToFormattedString", [.float _, .str _, .int _] => .notModelled
  | "stringToFloat", [.str _] => .notModelled
  | "readFile", [.str _] => .notModelled
  | "getEnvVar", [.str _, .str _] => .notModelled
  | _, _ => .badArgs

/-- the ids `callBuiltin` knows, with their arity (pinned against the extracted table in Props/C18) -/
def modelledIds : List (String × Nat) :=
  [("abs", 1), ("bindConstants", 2), ("boolToString", 1), ("ceil", 1), ("floatToFormattedString", 3), ("floatToInt", 1),
   ("floatToString", 1), ("floor", 1), ("getEnvVar", 2), ("intToFloat", 1), ("intToString", 1), ("readFile", 1),
   ("round", 1), ("splitString", 2), ("stringToBool", 1), ("stringToFloat", 1), ("stringToInt", 1), ("toLower", 1),
   ("toUpper", 1)]

end Arca.Model.Builtins
