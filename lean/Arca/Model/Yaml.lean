/-
M8 — the engine's own YAML layer (`internal/yaml/parser.go`) and the expression builder of `workflow/yaml.go`.

The model starts at the output alphabet of gopkg.in/yaml.v3 (`YNode`): yaml.v3 is trusted as the byte → node function
(see DESIGN.md section 11); everything the engine itself does with the node tree is mirrored statement by statement.
Every Go panic (index out of range, failed type assertion, `MapKey`/`MapKeys` on a non-map, nil dereference) is an
explicit `panic` outcome, never a default value.

Abstract parameters (`Env`): `parseExpr` — what `expressions.New` does with the text (accept, reject, panic: recovered by `compileExpression`); `stepPath` — capture group 1 of
`stepPathRegex` (`((?:\$.)?steps\.[^.]+)(\..+)`) when `FindStringSubmatch` returns the three parts.  The correspondence
driver takes their values from the real functions.

Core Lean only (this file is linked into `arcadrv`).
-/

namespace Arca.Model.Yaml

/-! ## outcomes -/

/-- outcome of a Go function `(value, error)` that may also panic -/
inductive Out (ε α : Type) where
  | ok (a : α)
  | err (e : ε)
  | panic (site : String)
  deriving Repr

/-- outcome of a Go function without an error result that may panic -/
inductive PRes (α : Type) where
  | ok (a : α)
  | panic (site : String)
  deriving Repr

def Out.isPanic {ε α : Type} : Out ε α → Bool
  | .panic _ => true
  | _ => false

def PRes.isPanic {α : Type} : PRes α → Bool
  | .panic _ => true
  | _ => false

/-! ## the yaml.v3 node alphabet -/

/-- `yaml.Node` as `parser.transform` reads it: `Kind`, `Tag`, `Value`, `Content`.
    `empty` is the zero node (Kind 0: what `yaml.Unmarshal` leaves for an empty stream); the content of a mapping is
    kept as key/value pairs (yaml.v3 always produces an even number of children); `alias` stands for `AliasNode`
    (every kind outside the four handled ones takes the `default:` branch). -/
inductive YNode where
  | empty
  | doc (content : List YNode)
  | map (tag value : String) (entries : List (YNode × YNode))
  | seq (tag value : String) (items : List YNode)
  | scalar (tag value : String)
  | alias (value : String)
  deriving Repr

def YNode.isScalar : YNode → Bool
  | .scalar _ _ => true
  | _ => false

/-! ## the engine's simplified node -/

/-- `yaml.TypeID` is a Go string type; `other` stands for every value outside the three constants. -/
inductive TypeID where
  | map | seq | str | other
  deriving DecidableEq, Repr

/-- `internal/yaml.node` -/
inductive Node where
  | mk (typeID : TypeID) (tag : String) (contents : List Node) (value : String)
  deriving Repr

def Node.typeID : Node → TypeID
  | .mk t _ _ _ => t
def Node.tag : Node → String
  | .mk _ t _ _ => t
def Node.contents : Node → List Node
  | .mk _ _ c _ => c
def Node.value : Node → String
  | .mk _ _ _ v => v

inductive ParseErr where
  | emptyFile        -- "empty YAML file given"
  | unsupportedKind  -- "unsupported node type"
  | nonScalarKey     -- "unsupported map key ...: map keys must be scalars"
  deriving DecidableEq, Repr

def keysScalar (entries : List (YNode × YNode)) : Bool :=
  entries.all (fun e => e.1.isScalar)

/-! ## `parser.transform` -/

mutual
/-- `func (p parser) transform(n *yaml.Node) (Node, error)` -/
def transform : YNode → Out ParseErr Node
  | .empty => .err .emptyFile                                   -- case 0
  | .doc [] => .panic "transform: n.Content[0] (index out of range)"
  | .doc (c :: _) => transform c                                -- case yaml.DocumentNode: return p.transform(n.Content[0])
  | .alias _ => .err .unsupportedKind                           -- default:
  | .scalar tag v => .ok (.mk .str tag [] v)                    -- a scalar has no Content
  | .seq tag v items =>
    match transformList items with
    | .ok cs => .ok (.mk .seq tag cs v)
    | .err e => .err e
    | .panic s => .panic s
  | .map tag v entries =>
    -- if n.Kind == yaml.MappingNode { for i := 0; i < len(n.Content); i += 2 { if n.Content[i].Kind != yaml.ScalarNode {
    if keysScalar entries then
      match transformEntries entries with
      | .ok cs => .ok (.mk .map tag cs v)
      | .err e => .err e
      | .panic s => .panic s
    else .err .nonScalarKey

/-- the loop `for i, subNode := range n.Content` of a sequence -/
def transformList : List YNode → Out ParseErr (List Node)
  | [] => .ok []
  | x :: xs =>
    match transform x with
    | .ok n =>
      match transformList xs with
      | .ok ns => .ok (n :: ns)
      | .err e => .err e
      | .panic s => .panic s
    | .err e => .err e
    | .panic s => .panic s

/-- the same loop over the (key, value, key, value, …) content of a mapping -/
def transformEntries : List (YNode × YNode) → Out ParseErr (List Node)
  | [] => .ok []
  | (k, v) :: rest =>
    match transform k with
    | .ok kn =>
      match transform v with
      | .ok vn =>
        match transformEntries rest with
        | .ok ns => .ok (kn :: vn :: ns)
        | .err e => .err e
        | .panic s => .panic s
      | .err e => .err e
      | .panic s => .panic s
    | .err e => .err e
    | .panic s => .panic s
end

/-! ## `node.Raw`, `node.MapKeys`, `node.MapKey` -/

/-- the `any` that `Raw()` returns: `string | map[string]any | []any` -/
inductive RawVal where
  | str (s : String)
  | map (kvs : List (String × RawVal))   -- in insertion order; a later duplicate overwrites (Go map assignment)
  | seq (xs : List RawVal)
  deriving Repr

mutual
/-- `func (n node) Raw() any` -/
def raw : Node → PRes RawVal
  | .mk .str _ _ v => .ok (.str v)
  | .mk .map _ cs _ =>
    match rawPairs cs with
    | .ok kvs => .ok (.map kvs)
    | .panic s => .panic s
  | .mk .seq _ cs _ =>
    match rawList cs with
    | .ok xs => .ok (.seq xs)
    | .panic s => .panic s
  | .mk .other _ _ _ => .panic "Raw: bug: unexpected type ID"

/-- `for i := 0; i < len(n.contents); i += 2 { key := n.contents[i].Raw().(string); value := n.contents[i+1].Raw() … }` -/
def rawPairs : List Node → PRes (List (String × RawVal))
  | [] => .ok []
  | [_] => .panic "Raw: n.contents[i+1] (index out of range)"
  | k :: v :: rest =>
    match raw k with
    | .panic s => .panic s
    | .ok (.str key) =>
      match raw v with
      | .panic s => .panic s
      | .ok val =>
        match rawPairs rest with
        | .panic s => .panic s
        | .ok kvs => .ok ((key, val) :: kvs)
    | .ok _ => .panic "Raw: n.contents[i].Raw().(string) (type assertion)"

def rawList : List Node → PRes (List RawVal)
  | [] => .ok []
  | x :: xs =>
    match raw x with
    | .panic s => .panic s
    | .ok v =>
      match rawList xs with
      | .panic s => .panic s
      | .ok vs => .ok (v :: vs)
end

/-- loop of `MapKeys`: `result := make([]string, len/2); for i := 0; i < len; i += 2 { result[i/2] = contents[i].Value() }` -/
def mapKeysC : List Node → PRes (List String)
  | [] => .ok []
  | [_] => .panic "MapKeys: result[i/2] (index out of range)"
  | k :: _ :: rest =>
    match mapKeysC rest with
    | .ok ks => .ok (k.value :: ks)
    | .panic s => .panic s

/-- `func (n node) MapKeys() []string` -/
def mapKeys (n : Node) : PRes (List String) :=
  if n.typeID ≠ .map then .panic "MapKeys: node is not a map" else mapKeysC n.contents

/-- loop of `MapKey`: `if key == n.contents[i].Raw() { return n.contents[i+1], true }` (a `string == any` comparison:
    true exactly when the dynamic value is that string) -/
def mapKeyC (key : String) : List Node → PRes (Option Node)
  | [] => .ok none
  | [k] =>
    match raw k with
    | .panic s => .panic s
    | .ok (.str s) => if key = s then .panic "MapKey: n.contents[i+1] (index out of range)" else .ok none
    | .ok _ => .ok none
  | k :: v :: rest =>
    match raw k with
    | .panic s => .panic s
    | .ok (.str s) => if key = s then .ok (some v) else mapKeyC key rest
    | .ok _ => mapKeyC key rest

/-- `func (n node) MapKey(key string) (Node, bool)`; `none` is the `(nil, false)` result -/
def mapKey (n : Node) (key : String) : PRes (Option Node) :=
  if n.typeID ≠ .map then .panic "MapKey: node is not a map" else mapKeyC key n.contents

/-! ## `yamlBuildExpressions` and friends -/

/-- what `expressions.New(text)` does: it returns an expression, returns an error, or — found by the correspondence
    stream: v0.4.6 dereferences a nil token when the text ends in a binary operator, e.g. `1 +` — panics.  Since commit
    55d02b1 the engine calls it only through `compileExpression`, which recovers the panic. -/
inductive ExprRes where
  | compiles | rejected | panics
  deriving DecidableEq, Repr

/-- abstract parameters of the expression builder -/
structure Env where
  /-- `expressions.New(text)` -/
  parseExpr : String → ExprRes
  /-- `stepPathRegex.FindStringSubmatch(text)`: `some capture1` when it returns three parts -/
  stepPath : String → Option String

inductive BuildErr where
  | nonString           -- "<tag> found on non-string node"
  | exprCompile         -- "failed to compile expression"
  | oneofNonMap | oneofNoDisc | oneofDiscNotString | oneofDiscEmpty | oneofNoOptions | oneofOptionsNotMap
  | orDisabledNoMatch   -- "unable to parse expression in !ordisabled"
  | orDisabledCompile   -- "failed to compile auto-generated disable case"
  | optionalTag         -- "unsupported tag in buildOptionalExpression"
  | invalidType         -- "invalid YAML node type"
  deriving DecidableEq, Repr

/-- what `yamlBuildExpressions` returns: strings, maps, lists and the expression objects -/
inductive Tree where
  | str (s : String)
  | expr (src : String)
  | oneof (disc : String) (opts : List (String × Tree))
  | orDisabled (src disabledPath : String)
  | optional (wait : Bool) (src : String)
  | map (kvs : List (String × Tree))
  | seq (xs : List Tree)
  deriving Repr

/-- `compileExpression(expression) (expr, err)`: `expressions.New` under a deferred `recover`; a panic of the expression
    parser becomes the error "malformed expression".  `true`: an expression was returned, `false`: an error. -/
def compileExpression (env : Env) (text : String) : Bool :=
  match env.parseExpr text with
  | .compiles => true
  | .rejected => false      -- return expressions.New(expression)
  | .panics => false        -- defer func() { if r := recover(); r != nil { expr = nil; err = fmt.Errorf(..) } }()

/-- `buildExpression` -/
def buildExpression (env : Env) (n : Node) : Out BuildErr Tree :=
  if n.typeID ≠ .str then .err .nonString
  else if compileExpression env n.value then .ok (.expr n.value)
  else .err .exprCompile

/-- `buildResultOrDisabledExpression` -/
def buildOrDisabled (env : Env) (n : Node) : Out BuildErr Tree :=
  match buildExpression env n with
  | .err e => .err e
  | .panic s => .panic s
  | .ok _ =>
    match env.stepPath n.value with
    | none => .err .orDisabledNoMatch
    | some stepPath =>
      let disabledPath := stepPath ++ ".disabled.output"
      if compileExpression env disabledPath then .ok (.orDisabled n.value disabledPath) else .err .orDisabledCompile

/-- `buildOptionalExpression` -/
def buildOptional (env : Env) (n : Node) : Out BuildErr Tree :=
  if n.tag = "!soft-optional" then
    match buildExpression env n with
    | .ok _ => .ok (.optional false n.value)
    | .err e => .err e
    | .panic s => .panic s
  else if n.tag = "!wait-optional" then
    match buildExpression env n with
    | .ok _ => .ok (.optional true n.value)
    | .err e => .err e
    | .panic s => .panic s
  else .err .optionalTag

/-- termination support: what `MapKey` returns is one of the node's children -/
theorem mapKeyC_mem {key : String} {m : Node} : ∀ (cs : List Node), mapKeyC key cs = .ok (some m) → m ∈ cs
  | [], h => by simp [mapKeyC] at h
  | [k], h => by
    unfold mapKeyC at h
    split at h
    · simp at h
    · split at h <;> simp at h
    · simp at h
  | k :: v :: rest, h => by
    unfold mapKeyC at h
    split at h
    · simp at h
    · split at h
      · simp at h; simp [h]
      · have := mapKeyC_mem rest h; simp [this]
    · have := mapKeyC_mem rest h; simp [this]

theorem mapKey_sizeOf {n m : Node} {key : String} (h : mapKey n key = .ok (some m)) : sizeOf m < sizeOf n := by
  cases n with
  | mk t tag cs v =>
    unfold mapKey at h
    split at h
    · simp at h
    · have hm := mapKeyC_mem _ h
      have := List.sizeOf_lt_of_mem hm
      simp [Node.contents] at this ⊢
      omega

def Out.mapOk {ε α β : Type} (f : α → β) : Out ε α → Out ε β
  | .ok a => .ok (f a)
  | .err e => .err e
  | .panic s => .panic s

mutual
/-- `yamlBuildExpressions` (with `buildOneOfExpressions` inlined: it is the only builder that recurses) -/
def build (env : Env) (n : Node) : Out BuildErr Tree :=
  -- switch data.Tag()
  if n.tag = "!expr" then buildExpression env n
  else if n.tag = "!oneof" then
    -- buildOneOfExpressions
    if n.typeID ≠ .map then .err .oneofNonMap
    else
      match mapKey n "discriminator" with
      | .panic s => .panic s
      | .ok none => .err .oneofNoDisc
      | .ok (some d) =>
        if d.typeID ≠ .str then .err .oneofDiscNotString
        else if d.value.length = 0 then .err .oneofDiscEmpty
        else
          match h : mapKey n "one_of" with
          | .panic s => .panic s
          | .ok none => .err .oneofNoOptions
          | .ok (some o) =>
            if o.typeID ≠ .map then .err .oneofOptionsNotMap
            else
              match mapKeys o with
              | .panic s => .panic s
              | .ok keys =>
                have : sizeOf o < sizeOf n := mapKey_sizeOf h
                (buildKeys env o keys).mapOk (.oneof d.value)
  else if n.tag = "!ordisabled" then buildOrDisabled env n
  else if n.tag = "!soft-optional" ∨ n.tag = "!wait-optional" then buildOptional env n
  else
    -- switch data.Type()
    match n with
    | .mk .str _ _ v => .ok (.str v)
    | .mk .map tag cs v =>
      match mapKeys (.mk .map tag cs v) with
      | .panic s => .panic s
      | .ok keys => (buildKeys env (.mk .map tag cs v) keys).mapOk .map
    | .mk .seq _ cs _ => (buildList env cs).mapOk .seq
    | .mk .other _ _ _ => .err .invalidType
termination_by (sizeOf n, 1, 0)

/-- `for _, key := range data.MapKeys() { node, _ := data.MapKey(key); result[key], err = yamlBuildExpressions(node, …) }`:
    the `found` result of `MapKey` is discarded, so a key that is not found hands a nil `yaml.Node` to the recursive call,
    whose first statement `data.Tag()` dereferences it. -/
def buildKeys (env : Env) (n : Node) (keys : List String) : Out BuildErr (List (String × Tree)) :=
  match keys with
  | [] => .ok []
  | key :: rest =>
    match h : mapKey n key with
    | .panic s => .panic s
    | .ok none => .panic "yamlBuildExpressions: data.Tag() on a nil node (MapKey did not find the key)"
    | .ok (some m) =>
      have : sizeOf m < sizeOf n := mapKey_sizeOf h
      match build env m with
      | .ok t =>
        match buildKeys env n rest with
        | .ok kvs => .ok ((key, t) :: kvs)
        | .err e => .err e
        | .panic s => .panic s
      | .err e => .err e
      | .panic s => .panic s
termination_by (sizeOf n, 0, keys.length)

/-- `for i, node := range data.Contents() { result[i], err = yamlBuildExpressions(node, …) }` -/
def buildList (env : Env) (l : List Node) : Out BuildErr (List Tree) :=
  match l with
  | [] => .ok []
  | x :: xs =>
    match build env x with
    | .ok t =>
      match buildList env xs with
      | .ok ts => .ok (t :: ts)
      | .err e => .err e
      | .panic s => .panic s
    | .err e => .err e
    | .panic s => .panic s
termination_by (sizeOf l, 0, 0)
end

/-- `yamlBuildExpressions(parsedData, []string{})` as `FromYAML` calls it -/
def buildExpressions (env : Env) (n : Node) : Out BuildErr Tree := build env n

/-! ## the three entry points compared with the implementation -/

/-- `yaml.New().Parse(data)` after yaml.v3 produced `y` -/
def parse (y : YNode) : Out ParseErr Node := transform y

/-- `decodedInput.Raw()` of `engineWorkflow.Run` -/
def parseRaw (y : YNode) : Out ParseErr RawVal :=
  match transform y with
  | .ok n =>
    match raw n with
    | .ok v => .ok v
    | .panic s => .panic s
  | .err e => .err e
  | .panic s => .panic s

inductive FromYamlErr where
  | yaml (e : ParseErr)     -- ErrInvalidWorkflowYAML
  | build (e : BuildErr)    -- ErrInvalidWorkflow from yamlBuildExpressions
  deriving Repr

/-- `FromYAML` up to and including `yamlBuildExpressions` (schema unserialization is outside the model) -/
def fromYamlPrefix (env : Env) (y : YNode) : Out FromYamlErr Tree :=
  match transform y with
  | .ok n =>
    match build env n with
    | .ok t => .ok t
    | .err e => .err (.build e)
    | .panic s => .panic s
  | .err e => .err (.yaml e)
  | .panic s => .panic s

end Arca.Model.Yaml
