/-
M9 (engine part) — the engine entry point: `workflowEngine.Parse` / `RunWorkflow`, `engineWorkflow.Run`,
`SubworkflowCache` (engine.go), the file cache of loadfile/loadfile.go and the CLI's exit-code map
(cmd/arcaflow/main.go).  Core Lean only.

What is modelled statement by statement: the default file name, the lookup of the workflow file in the cache, the
recursive discovery of sub-workflow files (the files the caller supplied are taken from the caller's cache by key and
followed first, a fresh `NewFileCacheUsingContext(rootDir, paths)` + `LoadContext` per workflow for the remaining paths,
the chain of parent files — keys of supplied files, absolute paths of loaded ones — for self references, the growing
`flowCaches` list with its `nil` entries), the check for reference cycles in the merged contents (`checkSubworkflowCycles`),
`MergeFileCaches` (nil skipped, last writer wins per key, root directories compared with `sameDirectory`), the version check, stage 6 of
`Prepare` (explicit output schema table vs inferred schema: error flag = `outputID == "error"`), `Run` (input
decoding, `Execute`, look-up of the output schema, error flag) and every error return with `("", nil, true, err)`.

What is a parameter (`Env`): the YAML converter (`fromYAML`: file content -> version, referenced sub-workflow paths,
output ids, explicit schema table), the file system and path functions (`abs` = filepath.Abs in the current working
directory, `isAbs`, `join`, `readFile`), stages 1-5 of `Prepare` (`prepareSteps`), input decoding and `Execute`.
The model never consults a working directory except through `abs`, which the engine applies to the root directory only.

An unbounded chain of distinct sub-workflow files cannot be followed by a total function: the recursion carries explicit
fuel and reports `Err.tooDeep` when it runs out (never a default value).
-/

namespace Arca.Model.EngineApi

/-! ### file caches (loadfile/loadfile.go) -/

/-- `loadfile.ContextFile` -/
structure CtxFile where
  id : String
  absPath : String
  content : String
  deriving DecidableEq, Repr, Inhabited

/-- Go `map[string]ContextFile`, as an association list read with `getFile` and written with `putFile` -/
abbrev Files := List (String × CtxFile)

def getFile (k : String) : Files → Option CtxFile
  | [] => none
  | (k', v) :: r => if k' = k then some v else getFile k r

/-- `m[k] = v` -/
def putFile (k : String) (v : CtxFile) : Files → Files
  | [] => [(k, v)]
  | (k', v') :: r => if k' = k then (k, v) :: r else (k', v') :: putFile k v r

/-- `for key, f := range src { dst[key] = f }` (the entry `getFile` sees in `src` is the one that ends up in `dst`) -/
def putAll (src dst : Files) : Files :=
  src.foldr (fun kv m => putFile kv.1 kv.2 m) dst

/-- `fileCache` -/
structure FileCache where
  rootDir : String
  files : Files
  deriving DecidableEq, Repr, Inhabited

/-- `Contents()`: key -> content -/
def FileCache.contents (fc : FileCache) : List (String × String) :=
  fc.files.map (fun kv => (kv.1, kv.2.content))

inductive Err
  | noWorkflowFile        -- ErrNoWorkflowFile
  | yaml                  -- the converter rejected a file
  | readError             -- LoadContext: os.ReadFile failed
  | selfReference         -- a sub-workflow file references itself through its foreach steps
  | tooDeep               -- fuel of the model exhausted (an unbounded chain of distinct files)
  | rootMismatch          -- MergeFileCaches: "file caches have different root directory"
  | unsupportedVersion
  | missingOutputSchema   -- Prepare: "could not find output id %q in output schema"
  | prepare               -- any other failure of Prepare
  | inputDecode           -- Run: "failed to YAML decode input"
  | execute               -- Execute returned an error
  | noOutputSchema        -- Run: "bug: the output schema has no output named"
  deriving DecidableEq, Repr, Inhabited

/-- `sameDirectory(dir1, dir2)`: equal spellings, or equal `filepath.Abs` of both (`abs` = filepath.Abs in the current
    working directory; its error return — the working directory cannot be determined — is not modelled) -/
def sameDirectory (abs : String → String) (dir1 dir2 : String) : Bool :=
  dir1 == dir2 || abs dir1 == abs dir2

/-- one iteration of the loop of `MergeFileCaches` for a non-nil cache -/
def mergeStep (abs : String → String) (acc fc : FileCache) : Except Err FileCache :=
  if acc.rootDir ≠ "" ∧ sameDirectory abs acc.rootDir fc.rootDir = false then .error .rootMismatch
  else .ok { rootDir := fc.rootDir, files := putAll fc.files acc.files }

def mergeFrom (abs : String → String) (acc : FileCache) : List (Option FileCache) → Except Err FileCache
  | [] => .ok acc
  | none :: r => mergeFrom abs acc r
  | some fc :: r =>
    match mergeStep abs acc fc with
    | .error e => .error e
    | .ok acc' => mergeFrom abs acc' r

/-- `loadfile.MergeFileCaches(fileCaches...)`; `none` = a nil `FileCache` -/
def mergeFileCaches (abs : String → String) (cs : List (Option FileCache)) : Except Err FileCache :=
  mergeFrom abs { rootDir := "", files := [] } cs

/-- the entry of key `k` in the last cache of the list that has one (what "last writer wins" means) -/
def lastWins (k : String) : List (Option FileCache) → Option CtxFile
  | [] => none
  | none :: r => lastWins k r
  | some fc :: r =>
    match lastWins k r with
    | some v => some v
    | none => getFile k fc.files

/-! ### the workflow as far as the entry point looks at it -/

/-- what `yamlConverter.FromYAML` yields, restricted to what `Parse`, `StepWorkflowPaths`, stage 6 of `Prepare` and
    `Run` read -/
structure Wf where
  version : String
  /-- `StepWorkflowPaths`: the `workflow` fields of the foreach steps, as written (keys = values) -/
  refs : List String
  /-- ids of `outputs` -/
  outputs : List String
  /-- the `outputSchema` section: output id -> `error` flag; `none` when the section is absent -/
  declared : Option (List (String × Bool))
  deriving DecidableEq, Repr, Inhabited

def lookup {α : Type} (k : String) : List (String × α) → Option α
  | [] => none
  | (k', v) :: r => if k' = k then some v else lookup k r

/-- the `error` flag the workflow text declares for an output, if it declares one -/
def declaredFlag (wf : Wf) (outputID : String) : Option Bool :=
  match wf.declared with
  | none => none
  | some tbl => lookup outputID tbl

/-- the error flag of a result: the declared flag, else (inferred schema, `infer.OutputSchema`) `outputID == "error"` -/
def classify (declared : Option Bool) (outputID : String) : Bool :=
  match declared with
  | some b => b
  | none => outputID == "error"

/-- stage 6 of `Prepare`: with an `outputSchema` section every output id needs an entry -/
def schemaComplete (wf : Wf) : Bool :=
  match wf.declared with
  | none => true
  | some tbl => wf.outputs.all (fun id => (lookup id tbl).isSome)

def supportedVersions : List String := ["v0.2.0"]

/-- `SupportedVersion` -/
def supportedVersion (v : String) : Bool := supportedVersions.contains v

/-- `if workflowFileName == "" { workflowFileName = "workflow.yaml" }` -/
def defaultName (n : String) : String := if n = "" then "workflow.yaml" else n

/-- everything outside the entry point.  `P` prepared workflow, `I` decoded input, `D` output data. -/
structure Env (P I D : Type) where
  fromYAML : String → Option Wf
  /-- `filepath.Abs` (the only place the process working directory enters) -/
  abs : String → String
  isAbs : String → Bool
  join : String → String → String
  /-- `os.ReadFile(filepath.Clean(absPath))` -/
  readFile : String → Option String
  /-- stages 1-5 of `Executor.Prepare` on the workflow context (key -> content) -/
  prepareSteps : Wf → List (String × String) → Option P
  decodeInput : String → Option I
  /-- `ExecutableWorkflow.Execute` -/
  execute : P → I → Option (String × D)

/-- `(outputID, outputData, outputError, err)` -/
structure Result (D : Type) where
  outputID : String
  data : Option D
  isError : Bool
  err : Option Err
  deriving Repr

/-- `return "", nil, true, err` -/
def errResult {D : Type} (e : Err) : Result D :=
  { outputID := ""
    data := none
    isError := true
    err := some e }

section
variable {P I D : Type}

/-- absolute path of a referenced file: `if !filepath.IsAbs(f) { abspath = filepath.Join(absDir, f) }` -/
def resolve (env : Env P I D) (absDir f : String) : String :=
  if env.isAbs f then f else env.join absDir f

/-- `NewFileCacheUsingContext(rootDir, paths)` followed by `LoadContext()` for a path table whose keys are the paths -/
def loadCache (env : Env P I D) (rootDir : String) (paths : List String) : Except Err FileCache :=
  let absDir := env.abs rootDir
  paths.foldr (fun f acc =>
    match acc with
    | .error e => .error e
    | .ok fc =>
      match env.readFile (resolve env absDir f) with
      | none => .error .readError
      | some c =>
        .ok { fc with files := putFile f { id := f, absPath := resolve env absDir f, content := c } fc.files })
    (.ok { rootDir := absDir, files := [] })

/-- the body of `for _, ctxFile := range stepFilesCache.Files()` in `subworkflowCache`; `recur` is the recursive call -/
def visitStep (env : Env P I D)
    (recur : Wf → List (Option FileCache) → List String → Except Err (Option FileCache)) (parents : List String)
    (acc : Except Err (List (Option FileCache))) (kv : String × CtxFile) : Except Err (List (Option FileCache)) :=
  match acc with
  | .error e => .error e
  | .ok caches =>
    if parents.contains kv.2.absPath then .error .selfReference else
    match env.fromYAML kv.2.content with
    | none => .error .yaml
    | some subwf =>
      match recur subwf caches (parents ++ [kv.2.absPath]) with
      | .error e => .error e
      | .ok flowCache => .ok (caches ++ [flowCache])

/-- the body of `for path := range stepWorkflowPaths` in the `supplied != nil` part of `subworkflowCache`: a path the
    caller's cache has no entry for is left to the loader (`continue`); a supplied file is checked against the chain BY
    ITS KEY, converted and followed; only a non-nil result is appended (`if flowCache != nil`) -/
def visitSupplied (env : Env P I D) (supplied : FileCache)
    (recur : Wf → List (Option FileCache) → List String → Except Err (Option FileCache)) (parents : List String)
    (acc : Except Err (List (Option FileCache))) (path : String) : Except Err (List (Option FileCache)) :=
  match acc with
  | .error e => .error e
  | .ok caches =>
    match getFile path supplied.files with
    | none => .ok caches
    | some cf =>
      if parents.contains path then .error .selfReference else
      match env.fromYAML cf.content with
      | none => .error .yaml
      | some subwf =>
        match recur subwf caches (parents ++ [path]) with
        | .error e => .error e
        | .ok none => .ok caches
        | .ok (some flowCache) => .ok (caches ++ [some flowCache])

/-- `if supplied != nil { for path := range stepWorkflowPaths { … } }`; `none` = a nil `supplied` -/
def suppliedLoop (env : Env P I D) (supplied : Option FileCache)
    (recur : Wf → List (Option FileCache) → List String → Except Err (Option FileCache)) (parents : List String)
    (flowCaches : List (Option FileCache)) (refs : List String) : Except Err (List (Option FileCache)) :=
  match supplied with
  | none => .ok flowCaches
  | some sup => refs.foldl (visitSupplied env sup recur parents) (.ok flowCaches)

/-- what the `delete(stepWorkflowPaths, path)` of that loop leave in the table: the paths the caller did not supply -/
def remaining (supplied : Option FileCache) (refs : List String) : List String :=
  match supplied with
  | none => refs
  | some sup => refs.filter (fun p => (getFile p sup.files).isNone)

/-- `subworkflowCache(wf, rootDir, converter, flowCaches, parentFiles, supplied)`; the paths and the files of the step
    cache are visited in list order (Go: map order — every visit order gives caches that agree on shared keys, see
    `loaded_caches_agree`).  `supplied = none` is the exported `SubworkflowCache`. -/
def subworkflowCache (env : Env P I D) : Nat → Wf → String → List (Option FileCache) → List String →
    Option FileCache → Except Err (Option FileCache)
  | 0, _, _, _, _, _ => .error .tooDeep
  | fuel + 1, wf, rootDir, flowCaches, parents, supplied =>
    match suppliedLoop env supplied (fun w c p => subworkflowCache env fuel w rootDir c p supplied) parents flowCaches
        wf.refs with
    | .error e => .error e
    | .ok flowCaches =>
      if (remaining supplied wf.refs).isEmpty then
        if flowCaches.isEmpty then .ok none else
        match mergeFileCaches env.abs flowCaches with
        | .error e => .error e
        | .ok m => .ok (some m)
      else
      match loadCache env rootDir (remaining supplied wf.refs) with
      | .error e => .error e
      | .ok stepCache =>
        match stepCache.files.foldl
            (visitStep env (fun w c p => subworkflowCache env fuel w rootDir c p supplied) parents) (.ok flowCaches) with
        | .error e => .error e
        | .ok caches =>
          match mergeFileCaches env.abs (caches ++ [some stepCache]) with
          | .error e => .error e
          | .ok m => .ok (some m)

/-- the file part of `Parse`: workflow file, converter, sub-workflow discovery, merge with the caller's cache.
    `passSupplied = true` is the code (`subworkflowCache(…, nil, files)`); `false` is the same code handing `nil` to the
    discovery, as `Parse` did before it passed the caller's cache on (kept for `memory_cache_needed_disk`) -/
def parseFilesWith (env : Env P I D) (passSupplied : Bool) (fuel : Nat) (files : FileCache) (name : String) :
    Except Err (Wf × FileCache) :=
  match getFile (defaultName name) files.files with
  | none => .error .noWorkflowFile
  | some cf =>
    match env.fromYAML cf.content with
    | none => .error .yaml
    | some wf =>
      match subworkflowCache env fuel wf files.rootDir [] [] (if passSupplied then some files else none) with
      | .error e => .error e
      | .ok none => .ok (wf, files)
      | .ok (some sc) =>
        match mergeFileCaches env.abs [some sc, some files] with
        | .error e => .error e
        | .ok m => .ok (wf, m)

/-- the file part of `Parse` -/
abbrev parseFiles (env : Env P I D) (fuel : Nat) (files : FileCache) (name : String) : Except Err (Wf × FileCache) :=
  parseFilesWith env true fuel files name

/-- the body of `for _, path := range StepWorkflowPaths(wf)` in `checkSubworkflowCycles`; `recur` is the recursive call -/
def visitRef (fromYAML : String → Option Wf) (contents : List (String × String))
    (recur : Wf → List String → Except Err Unit) (parents : List String)
    (acc : Except Err Unit) (path : String) : Except Err Unit :=
  match acc with
  | .error e => .error e
  | .ok () =>
    if parents.contains path then .error .selfReference else
    match lookup path contents with
    | none => .ok ()                      -- a missing file is reported when the workflow is prepared
    | some content =>
      match fromYAML content with
      | none => .error .yaml
      | some subwf => recur subwf (parents ++ [path])

/-- `checkSubworkflowCycles(wf, contents, converter, parentFiles)`: the references are followed BY KEY in the contents
    that are going to be used; paths visited in list order (Go: map order; whether an error is returned does not
    depend on it) -/
def checkCycles (fromYAML : String → Option Wf) : Nat → Wf → List (String × String) → List String → Except Err Unit
  | 0, _, _, _ => .error .tooDeep
  | fuel + 1, wf, contents, parents =>
    wf.refs.foldl (visitRef fromYAML contents (fun w p => checkCycles fromYAML fuel w contents p) parents) (.ok ())

/-- `Executor.Prepare(wf, context)` as far as the entry point depends on it -/
def prepare (env : Env P I D) (wf : Wf) (ctx : List (String × String)) : Except Err P :=
  match env.prepareSteps wf ctx with
  | none => .error .prepare
  | some p => if schemaComplete wf then .ok p else .error .missingOutputSchema

/-- `workflowEngine.Parse`; `passSupplied`: see `parseFilesWith` -/
def parseWith (env : Env P I D) (passSupplied : Bool) (fuel : Nat) (files : FileCache) (name : String) : Except Err (Wf × P) :=
  match parseFilesWith env passSupplied fuel files name with
  | .error e => .error e
  | .ok (wf, m) =>
    match checkCycles env.fromYAML fuel wf m.contents [] with
    | .error e => .error e
    | .ok () =>
      if supportedVersion wf.version then
        match prepare env wf m.contents with
        | .error e => .error e
        | .ok p => .ok (wf, p)
      else .error .unsupportedVersion

/-- `workflowEngine.Parse` -/
abbrev parse (env : Env P I D) (fuel : Nat) (files : FileCache) (name : String) : Except Err (Wf × P) :=
  parseWith env true fuel files name

/-- `engineWorkflow.Run` -/
def run (env : Env P I D) (wf : Wf) (p : P) (input : String) : Result D :=
  match env.decodeInput input with
  | none => errResult .inputDecode
  | some i =>
    match env.execute p i with
    | none => errResult .execute
    | some (id, d) =>
      if wf.outputs.contains id then
        { outputID := id
          data := some d
          isError := classify (declaredFlag wf id) id
          err := none }
      else errResult .noOutputSchema

/-- `workflowEngine.RunWorkflow` -/
def runWorkflow (env : Env P I D) (fuel : Nat) (files : FileCache) (name : String) (input : String) : Result D :=
  match parse env fuel files name with
  | .error e => errResult e
  | .ok (wf, p) => run env wf p input

/-- the direct path: converter result + `Prepare(wf, context)` + `Execute` + the flag of the prepared output schema -/
def direct (env : Env P I D) (wf : Wf) (ctx : List (String × String)) (input : String) : Result D :=
  match prepare env wf ctx with
  | .error e => errResult e
  | .ok p => run env wf p input

end

/-! ### the CLI's exit codes (cmd/arcaflow/main.go, `runWorkflow`) -/

inductive CliOutcome
  | parseFailed                 -- `flow.Parse` returned an error
  | runFailed                   -- `workFlowObj.Run` returned an error
  | output (isError : Bool)     -- an output was returned
  deriving DecidableEq, Repr

def exitCodeOK : Nat := 0
def exitCodeInvalidData : Nat := 1
def exitCodeWorkflowErrorOutput : Nat := 2
def exitCodeWorkflowFailed : Nat := 3

def exitCode : CliOutcome → Nat
  | .parseFailed => exitCodeInvalidData
  | .runFailed => exitCodeWorkflowFailed
  | .output true => exitCodeWorkflowErrorOutput
  | .output false => exitCodeOK

end Arca.Model.EngineApi
