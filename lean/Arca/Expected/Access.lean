/-
Allowlist of C17: accesses of mutable engine data that are NOT made under the owning mutex and are nevertheless ordered
with every conflicting access — by something the lockset model (Arca/Model/Lockset.lean) does not represent: a single
goroutine, the `go` statement, a WaitGroup.  Hand-written, reviewed against the source.

EVERY ENTRY IS VALIDATED DYNAMICALLY ONLY (race-detector build of the harness, stream `racesuite`): nothing here is proved.
An entry names (file, function, field, read/write) — not a line — so unrelated edits do not disturb it; a new unlocked
access in another function, or of another field, is not covered and breaks `Arca.Props.C17.engine_access_table_safe`.

Deliberately NOT listed: the read of `cancelled` in plugin `runningStep.closedEarly` (written under the step lock by
`provideCancelledInput` on another goroutine): suspected genuine race F10d, carried by the theorem as the named exclusion
`knownRace_cancelled`.
-/
namespace Arca.Expected

structure AccessException where
  file : String
  func : String
  field : String
  write : Bool
  /-- what orders the access: single-goroutine | go-statement | waitgroup -/
  ordering : String
  why : String
  deriving Repr, DecidableEq, Inhabited

def wfFile : String := "workflow/workflow.go"
def pluginFile : String := "internal/step/plugin/provider.go"
def foreachFile : String := "internal/step/foreach/provider.go"

def accessExceptions : List AccessException := [
  { file := wfFile
    func := "loopState.terminateAllSteps"
    field := "runningSteps"
    write := false
    ordering := "go-statement"
    why := "the map is filled only by Execute itself, under l.lock, before its first Unlock; terminateAllSteps runs later on the Execute goroutine (deferred) or on a goroutine Execute starts after that; all other uses are reads" },
  { file := pluginFile
    func := "runningStep.startStage"
    field := "atpClient"
    write := false
    ordering := "single-goroutine"
    why := "atpClient is assigned once, by startStage itself (run goroutine), a few lines earlier; the other readers (closeComponents) hold r.lock" },
  { file := pluginFile
    func := "runningStep.startStage$lit1"
    field := "atpClient"
    write := false
    ordering := "go-statement"
    why := "the ATP goroutine is started by startStage after the only assignment of atpClient" },
  { file := pluginFile
    func := "runningStep.startStage$lit1"
    field := "signalToStep"
    write := false
    ordering := "single-goroutine"
    why := "the only assignment after construction (signalToStep = nil, under r.lock) is made later by this same goroutine; the other readers (cancelStep) hold r.lock" },
  { file := pluginFile
    func := "runningStep.startStage$lit1"
    field := "local:runningStep.startStage:err"
    write := true
    ordering := "go-statement"
    why := "startStage does not touch err after the go statement (it returns the constant nil)" },
  { file := pluginFile
    func := "runningStep.startStage$lit1"
    field := "local:runningStep.startStage:err"
    write := false
    ordering := "go-statement"
    why := "as above: after the go statement only the goroutine uses err" },
  { file := pluginFile
    func := "runningStep.runStage"
    field := "currentStage"
    write := false
    ordering := "single-goroutine"
    why := "currentStage is written only on the run goroutine (enableStage, transition*, completeStep, always under r.lock); runStage runs on that goroutine, so the read sees its own last write; readers on other goroutines hold r.lock" },
  { file := foreachFile
    func := "runningStep.executeSubWorkflows"
    field := "local:runningStep.executeSubWorkflows:itemOutputs"
    write := false
    ordering := "waitgroup"
    why := "read after wg.Wait(); every item goroutine writes its slot under r.lock and calls wg.Done() afterwards" },
  { file := foreachFile
    func := "runningStep.executeSubWorkflows"
    field := "local:runningStep.executeSubWorkflows:itemErrors"
    write := false
    ordering := "waitgroup"
    why := "read after wg.Wait(); every item goroutine writes the map under r.lock and calls wg.Done() afterwards" }
]

end Arca.Expected
