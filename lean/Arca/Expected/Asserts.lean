-- Expected unchecked type assertions of the parse path: a snapshot of Arca.Gen.uncheckedAsserts taken when the
-- hand-written model (Arca.Model.Yaml, Arca.Model.SubWf) was last reconciled with the code.  Each entry names the
-- guard of the model that makes the assertion safe; `Arca.Props.C11.unchecked_assertions_pinned` states Gen = Expected,
-- so a new unchecked assertion in engine.go, internal/yaml/parser.go, workflow/yaml.go or loadfile/loadfile.go breaks
-- an obligation until the model has an outcome for it.
namespace Arca.Expected

def uncheckedAsserts : List (String × String × String × String × Bool) := [
  -- `key := n.contents[i].Raw().(string)` in node.Raw: safe on every node `transform` returns, because transform
  -- rejects mappings with a non-scalar key, a scalar becomes a node of type "str", and Raw of such a node is its
  -- string value (model: `rawPairs` has the explicit panic outcome "Raw: n.contents[i].Raw().(string)"; theorem
  -- `Arca.Props.C11.raw_never_panics` shows it is unreachable after a successful transform).
  ("internal/yaml/parser.go", "node.Raw", "n.contents[i].Raw()", "string", false)]

end Arca.Expected
