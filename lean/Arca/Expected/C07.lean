-- Expected facts behind the C07 obligations about recover handlers, run-loop type assertions and built-in guards: a snapshot of
-- Arca.Gen.Recover / Arca.Gen.Sinks taken when the hand-written argument below was last reconciled with the code.  The
-- theorems in Arca/Props/C07.lean state Gen = Expected (so a new recover site, a new unchecked assertion in the run loop or
-- a new integer argument flowing into a library call breaks an obligation until somebody has looked at it) and the
-- properties of the regenerated tables the argument needs.
namespace Arca.Expected.C07

/-- The recover handlers of the engine library.  Both turn ANY recovered value into an error with `%v`; neither asserts a
    type on it (`Arca.Props.C07.no_unchecked_assertion_on_recovered_value` is about the regenerated table, not this list). -/
def recoverSites : List (String × String) := [
  -- preparation: the SDK panics while a scope is assembled from an inconsistent inferred output schema (a one-of
  -- discriminator that is also a field of an option); turned into an "inferred schema is invalid" error (fix 68cf47f; C11)
  ("internal/infer/infer.go", "Scope"),
  -- preparation: the SDK panics on a default value of the workflow input section that it cannot decode; turned into an
  -- "invalid workflow" error while the workflow is prepared (fix 2d63d83), so that it cannot happen during a run
  ("workflow/executor.go", "validateDefaults"),
  -- run-time faults of expression evaluation (integer division by zero, reflect misuse on Go-typed containers, ...)
  ("workflow/workflow.go", "loopState.resolveExpressions"),
  -- panics of the expression parser on malformed expressions (parse time; C11)
  ("workflow/yaml.go", "compileExpression")]

/-- The type assertions of workflow/workflow.go without comma-ok, each with the reason it cannot fail at run time whatever
    the workflow input and the step outputs are (none of them looks at run-time DATA: all are about containers the run
    loop itself allocated). -/
def runUncheckedAsserts : List (String × String × String × String × Bool) := [
  -- `l.data` is allocated a few lines above with `WorkflowStepsKey: map[string]any{}` and never reassigned
  ("workflow/workflow.go", "executableWorkflow.Execute", "l.data[WorkflowStepsKey]", "map[string]any", false),
  -- `steps[stepID]` was set to `map[string]any{}` by the statement just before when it was missing
  ("workflow/workflow.go", "executableWorkflow.Execute", "steps[stepID]", "map[string]any", false),
  ("workflow/workflow.go", "executableWorkflow.Execute", "l.data[WorkflowStepsKey]", "map[string]any", false),
  -- onStageComplete: the step's entry was stored by Execute as `stepDataModel : map[string]any` before the step was started;
  -- the stage entry is assigned `map[string]any{}` by the statement before the one that asserts it
  ("workflow/workflow.go", "loopState.onStageComplete", "l.data[WorkflowStepsKey].(map[string]any)[stepID]", "map[string]any", false),
  ("workflow/workflow.go", "loopState.onStageComplete", "l.data[WorkflowStepsKey]", "map[string]any", false),
  ("workflow/workflow.go", "loopState.onStageComplete", "l.data[WorkflowStepsKey].(map[string]any)[stepID].(map[string]any)[*previousStage]", "map[string]any", false),
  ("workflow/workflow.go", "loopState.onStageComplete", "l.data[WorkflowStepsKey].(map[string]any)[stepID]", "map[string]any", false),
  ("workflow/workflow.go", "loopState.onStageComplete", "l.data[WorkflowStepsKey]", "map[string]any", false),
  -- notifySteps: the data of a stage node is the map of the stage's input fields built by Prepare; resolveExpressions maps a
  -- map to a `map[any]any` with the same keys (pinned skeleton of resolveExpressions), the keys are the field names, and the
  -- value passed `DataSchema.Unserialize` just before
  ("workflow/workflow.go", "loopState.notifySteps", "untypedInputData", "map[any]any", false),
  ("workflow/workflow.go", "loopState.notifySteps", "k", "string", false)]

/-- Integer parameters of built-in handlers that reach a library call.
    * floatToFormattedString: strconv.FormatFloat allocates `max(precision+4, 24)` bytes BEFORE it looks at the format, so the
      precision must be range-checked for every format, by a check that does not look at the format.
    * intToString: strconv.FormatInt(a, 10) - `a` is the value being formatted (at most 20 characters), not a size. -/
def builtinSinks : List (String × String × Nat × String × String × List String) := [
  ("floatToFormattedString", "strconv.FormatFloat", 2, "precision", "int(precision)", ["precision < -1 || precision > maxFormatPrecision"]),
  ("intToString", "strconv.FormatInt", 0, "a", "a", [])]

/-- (callee, argument index) pairs where the integer is a VALUE, not a size / count / precision: no guard needed. -/
def valueSinks : List (String × Nat) := [("strconv.FormatInt", 0)]

/-- The lifecycle input fields (of both step kinds) at which the `evalpos` stream of the harness places faulty expressions
    (harness/vharness/cmd_evalpos.go, `epPositions[*].Field`; the stream itself re-checks this list against the regenerated
    lifecycle facts on every run, see lib/props_c07.py). -/
def coveredInputFields : List String :=
  ["deploy", "enabled", "closure_wait_timeout", "input", "wait_for", "stop_if", "items", "parallelism"]

end Arca.Expected.C07
