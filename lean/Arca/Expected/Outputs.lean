/-
Expected tables of the engine-generated outputs (fact class G9): a snapshot of `Arca.Gen.declaredRows`,
`Arca.Gen.producedRows` and `Arca.Gen.outputHelpers` (regenerated from /repo/internal/step/plugin/*.go,
/repo/internal/step/foreach/provider.go and /repo/internal/step/shared_schema.go on every run), reviewed by hand against
the source at commit 2e2fefe.  `Arca.Props.C08.declared_outputs_pinned` / `produced_outputs_pinned` /
`output_helpers_pinned` state Gen = Expected: a renamed key, a changed required flag or type, a new producing site or a
changed way of determining the stage breaks the pin (and, when it matters, `generated_outputs_conform` itself, which is
stated over the regenerated tables, not over this file).

Review notes, row by row (file:line of the pinned commit):
* plugin declared (`runnableStep.Lifecycle`, plugin/provider.go:422-673): deploy_failed.error = object DeployError
  {error: string, required} (the key is the constant `errorStr = "error"`); enabling.resolved = step.EnabledOutputSchema()
  {enabled: bool, required} (shared_schema.go:7); starting.started = r.StartedSchema() = empty object (provider.go:389);
  disabled.output = step.DisabledOutputSchema() {message: string, required} (shared_schema.go:36); outputs = the plugin
  step's own `stepSchema.Outputs()` (dynamic); crashed.error = object Crashed {output: string, required};
  closed.result = ClosedInfo {cancelled: bool, close_requested: bool, both required}.  deploy / running / cancelled
  declare `Outputs: nil`.
* foreach declared (foreach/provider.go:227-431): outputs.success = {data: list of the sub-workflow's success schema,
  required}; failed.error = {data: map int -> success schema, errors: map int -> string, both required};
  enabling.resolved / disabled.output as for plugin; closed.result = ClosedInfo {close_requested: bool, required}
  ("cannot be cancelled at this time": no `cancelled`).
* plugin produced: startStage:1243 ends `enabling` with resolved {enabled: true}; runStage:1315 ends `starting` with
  started {}; runStage:1353 completes `outputs` (entered by transitionRunningStage(StageIDOutput) one line before) with
  the plugin's id and data; deployFailed:1394 DeployFailed{Error string `json:"error"`} (deploy.go);
  transitionToDisabled:1405/1412 resolved {enabled: false} then output {message: fmt.Sprintf(..)}; closedEarly:1434
  {cancelled: r.cancelled (bool field), close_requested: r.closed.Load() (atomic.Bool)}; startFailed:1455 and
  runFailed:1469 Crashed{Output string `json:"output"`} (crash.go).
* foreach produced: run:613 resolved {enabled: true}; closedEarly:661 {close_requested}; transitionToDisabled:676/683;
  processInput:858 calls OnStepComplete directly: on the `len(errors) > 0` path stage `failed`, id "error",
  {data: dataMap (map[int]any), errors: errors (map[int]string)}; otherwise stage `outputs`, id "success",
  {data: outputs ([]any)}.
* `stageBy`: `pred(x)` = the stage was not entered inside the function; it is the only stage that has `x` among its
  NextStages and declares the output id (enabling -> starting/disabled/execute, starting -> running).  The dynamic
  stream `vharness typed` observes the real previous stage of every notification, so a wrong resolution shows there.
-/
import Arca.Model.OutputShape
namespace Arca.Expected
open Arca.Model

/-- DECLARED: every stage output with a schema in `runnableStep.Lifecycle` of both providers (source order) -/
def declaredRows : List DeclaredRow := [
  { provider := "plugin"
    stage := "deploy_failed"
    output := "error"
    object := "DeployError"
    via := "literal"
    isError := true
    dynamic := false
    props := [
        { name := "error", kind := .string, ty := "string", required := true }] },
  { provider := "plugin"
    stage := "enabling"
    output := "resolved"
    object := "EnabledOutput"
    via := "step.EnabledOutputSchema"
    isError := false
    dynamic := false
    props := [
        { name := "enabled", kind := .bool, ty := "bool", required := true }] },
  { provider := "plugin"
    stage := "starting"
    output := "started"
    object := "StartedOutput"
    via := "r.StartedSchema"
    isError := false
    dynamic := false
    props := [] },
  { provider := "plugin"
    stage := "disabled"
    output := "output"
    object := "DisabledMessageOutput"
    via := "step.DisabledOutputSchema"
    isError := false
    dynamic := false
    props := [
        { name := "message", kind := .string, ty := "string", required := true }] },
  { provider := "plugin"
    stage := "outputs"
    output := "*"
    object := ""
    via := "stepSchema.Outputs()"
    isError := false
    dynamic := true
    props := [] },
  { provider := "plugin"
    stage := "crashed"
    output := "error"
    object := "Crashed"
    via := "literal"
    isError := true
    dynamic := false
    props := [
        { name := "output", kind := .string, ty := "string", required := true }] },
  { provider := "plugin"
    stage := "closed"
    output := "result"
    object := "ClosedInfo"
    via := "literal"
    isError := true
    dynamic := false
    props := [
        { name := "cancelled", kind := .bool, ty := "bool", required := true },
        { name := "close_requested", kind := .bool, ty := "bool", required := true }] },
  { provider := "foreach"
    stage := "outputs"
    output := "success"
    object := "data"
    via := "literal"
    isError := false
    dynamic := false
    props := [
        { name := "data", kind := .list, ty := "list<*>", required := true }] },
  { provider := "foreach"
    stage := "failed"
    output := "error"
    object := "error"
    via := "literal"
    isError := true
    dynamic := false
    props := [
        { name := "data", kind := .map, ty := "map<int,*>", required := true },
        { name := "errors", kind := .map, ty := "map<int,string>", required := true }] },
  { provider := "foreach"
    stage := "enabling"
    output := "resolved"
    object := "EnabledOutput"
    via := "step.EnabledOutputSchema"
    isError := false
    dynamic := false
    props := [
        { name := "enabled", kind := .bool, ty := "bool", required := true }] },
  { provider := "foreach"
    stage := "disabled"
    output := "output"
    object := "DisabledMessageOutput"
    via := "step.DisabledOutputSchema"
    isError := false
    dynamic := false
    props := [
        { name := "message", kind := .string, ty := "string", required := true }] },
  { provider := "foreach"
    stage := "closed"
    output := "result"
    object := "ClosedInfo"
    via := "literal"
    isError := true
    dynamic := false
    props := [
        { name := "close_requested", kind := .bool, ty := "bool", required := true }] }]

/-- PRODUCED: every site where a provider completes a stage with an output (source order, one row per path shape) -/
def producedRows : List ProducedRow := [
  { provider := "plugin"
    site := "startStage"
    via := "transitionStageWithOutput"
    stage := "enabling"
    stageBy := "pred(starting)"
    output := "resolved"
    shape := Shape.mapLit [
        { key := "enabled", kind := .bool, src := "true", always := true }] },
  { provider := "plugin"
    site := "runStage"
    via := "transitionStageWithOutput"
    stage := "starting"
    stageBy := "pred(running)"
    output := "started"
    shape := Shape.mapLit [] },
  { provider := "plugin"
    site := "runStage"
    via := "completeStep"
    stage := "outputs"
    stageBy := "entered"
    output := "*"
    shape := Shape.dynamic "result.OutputData" },
  { provider := "plugin"
    site := "deployFailed"
    via := "completeStep"
    stage := "deploy_failed"
    stageBy := "entered+arg"
    output := "error"
    shape := Shape.struct "DeployFailed" [
        { key := "error", kind := .string, src := "Error string", always := true }] },
  { provider := "plugin"
    site := "transitionToDisabled"
    via := "transitionStageWithOutput"
    stage := "enabling"
    stageBy := "pred(disabled)"
    output := "resolved"
    shape := Shape.mapLit [
        { key := "enabled", kind := .bool, src := "false", always := true }] },
  { provider := "plugin"
    site := "transitionToDisabled"
    via := "completeStep"
    stage := "disabled"
    stageBy := "entered+arg"
    output := "output"
    shape := Shape.mapLit [
        { key := "message", kind := .string, src := "fmt.Sprintf", always := true }] },
  { provider := "plugin"
    site := "closedEarly"
    via := "completeStep"
    stage := "closed"
    stageBy := "entered+arg"
    output := "result"
    shape := Shape.mapLit [
        { key := "cancelled", kind := .bool, src := "cancelled := r.cancelled : bool", always := true },
        { key := "close_requested", kind := .bool, src := "r.closed.Load() : atomic.Bool", always := true }] },
  { provider := "plugin"
    site := "startFailed"
    via := "completeStep"
    stage := "crashed"
    stageBy := "entered+arg"
    output := "error"
    shape := Shape.struct "Crashed" [
        { key := "output", kind := .string, src := "Output string", always := true }] },
  { provider := "plugin"
    site := "runFailed"
    via := "completeStep"
    stage := "crashed"
    stageBy := "entered+arg"
    output := "error"
    shape := Shape.struct "Crashed" [
        { key := "output", kind := .string, src := "Output string", always := true }] },
  { provider := "foreach"
    site := "run"
    via := "transitionStageWithOutput"
    stage := "enabling"
    stageBy := "pred(execute)"
    output := "resolved"
    shape := Shape.mapLit [
        { key := "enabled", kind := .bool, src := "true", always := true }] },
  { provider := "foreach"
    site := "closedEarly"
    via := "completeStep"
    stage := "closed"
    stageBy := "entered+arg"
    output := "result"
    shape := Shape.mapLit [
        { key := "close_requested", kind := .bool, src := "r.closed.Load() : atomic.Bool", always := true }] },
  { provider := "foreach"
    site := "transitionToDisabled"
    via := "transitionStageWithOutput"
    stage := "enabling"
    stageBy := "pred(disabled)"
    output := "resolved"
    shape := Shape.mapLit [
        { key := "enabled", kind := .bool, src := "false", always := true }] },
  { provider := "foreach"
    site := "transitionToDisabled"
    via := "completeStep"
    stage := "disabled"
    stageBy := "entered+arg"
    output := "output"
    shape := Shape.mapLit [
        { key := "message", kind := .string, src := "fmt.Sprintf", always := true }] },
  { provider := "foreach"
    site := "processInput"
    via := "OnStepComplete"
    stage := "failed"
    stageBy := "assigned"
    output := "error"
    shape := Shape.mapLit [
        { key := "data", kind := .map, src := "dataMap := make(map[int]any)", always := true },
        { key := "errors", kind := .map, src := "errors : map[int]string (result 1 of r.executeSubWorkflows)", always := true }] },
  { provider := "foreach"
    site := "processInput"
    via := "OnStepComplete"
    stage := "outputs"
    stageBy := "assigned"
    output := "success"
    shape := Shape.mapLit [
        { key := "data", kind := .list, src := "outputs : []any (result 0 of r.executeSubWorkflows)", always := true }] }]

/-- the generic helpers hand their output parameters to the handler unchanged: (provider, helper, what it calls) -/
def outputHelpers : List (String × String × String) := [
  ("plugin", "completeStep", "OnStepComplete(previous = r.currentStage before the update, outputID, previousStageOutput)"),
  ("plugin", "transitionStageWithOutput", "OnStageChange(previous = r.currentStage before the update, outputID, previousStageOutput)"),
  ("foreach", "completeStep", "OnStepComplete(previous = r.currentStage before the update, outputID, previousStageOutput)"),
  ("foreach", "transitionStageWithOutput", "OnStageChange(previous = r.currentStage before the update, outputID, previousStageOutput)")]

end Arca.Expected
