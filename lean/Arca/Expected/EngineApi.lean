/-
Hand-written: the facts of the engine entry point the model `Arca.Model.EngineApi` was written against.  The pin
theorems of Arca/Props/C20.lean state that the facts regenerated from the source on every run (Arca.Gen.EngineApi)
are these.
-/
namespace Arca.Expected.EngineApi

def defaultWorkflowFileName : String := "workflow.yaml"

def supportedVersions : List String := ["v0.2.0"]

/-- `infer.OutputSchema`: an inferred output schema is an error schema exactly for the output id "error" -/
def inferredErrorFlag : String := "outputID == \"error\""

/-- The only places where the process working directory can enter a result:
    * `NewFileCacheUsingContext` makes the context directory absolute (once, when the cache is created);
    * `sameDirectory` (used by `MergeFileCaches` since the fix of finding F15) makes both root directories absolute when
      their spellings differ: the working directory matters only for the meaning of a RELATIVE root directory, which is
      "relative to the working directory" by intent (`Env.abs` in the model; `cwd_independent`);
    * the built-in `readFile` resolves its argument against the working directory — finding F14: a relative path in a
      workflow is not resolved against the context directory. -/
def cwdCallSites : List (String × String × String × String) := [
  ("loadfile/loadfile.go", "NewFileCacheUsingContext", "filepath.Abs", "rootDir"),
  ("loadfile/loadfile.go", "sameDirectory", "filepath.Abs", "dir1"),
  ("loadfile/loadfile.go", "sameDirectory", "filepath.Abs", "dir2"),
  ("internal/builtinfunctions/functions.go", "getReadFileFunction", "filepath.Abs", "filePath")]

/-- `sameDirectory(dir1, dir2)`: equal strings, or equal `filepath.Abs` of both (model: `sameDirectory abs`) -/
def sameDirectoryBody : List String := [
  "if dir1 == dir2 { return true }",
  "abs1, err1 := filepath.Abs(dir1)",
  "abs2, err2 := filepath.Abs(dir2)",
  "return err1 == nil && err2 == nil && abs1 == abs2"]

/-- `MergeFileCaches` rejects a cache when the accumulated root is non-empty and not the same directory (model: `mergeStep`) -/
def mergeRejectCondition : String := "rootDir != \"\" && !sameDirectory(rootDir, fc.RootDir())"

def exitCodes : List (String × Nat) :=
  [("ExitCodeInvalidData", 1), ("ExitCodeOK", 0), ("ExitCodeWorkflowErrorOutput", 2), ("ExitCodeWorkflowFailed", 3)]

/-- `runWorkflow` of cmd/arcaflow/main.go: (last call before the branch, condition, returned constant) -/
def exitCodeTable : List (String × String × String) := [
  ("flow.Parse", "err != nil", "ExitCodeInvalidData"),
  ("flow.Parse", "getNamespaces", "ExitCodeOK"),
  ("workFlowObj.Run", "err != nil", "ExitCodeWorkflowFailed"),
  ("yaml.Marshal", "err != nil", "ExitCodeInvalidData"),
  ("os.Stdout.Write", "outputError", "ExitCodeWorkflowErrorOutput"),
  ("os.Stdout.Write", "otherwise", "ExitCodeOK")]

def mainExitArgs : List String := ["ExitCodeInvalidData", "runWorkflow(..)"]

/-- the CLI builds its cache with the context API (absolute root), never with `NewFileCache` -/
def mainFileCacheCalls : List String :=
  ["loadfile.NewFileCacheUsingContext(dir, requiredFiles)", "fileCtx.LoadContext()"]

end Arca.Expected.EngineApi
