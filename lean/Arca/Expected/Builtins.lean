/-
Expected table of built-in functions: a snapshot of `Arca.Gen.builtins` (regenerated from
/repo/internal/builtinfunctions/functions.go on every run) taken when `Arca.Model.Builtins` was last reconciled with
the code, reviewed by hand against the source.  `Arca.Props.C18.builtins_table_pinned` states Gen = Expected: a change
of an id, a parameter or output declaration, an error flag or a handler breaks that obligation, and the model must be
re-read against the new code before this file is updated.

What the model relies on, row by row:
* abs, ceil, floor, round wrap math.Abs / Ceil / Floor / Round; splitString wraps strings.Split; toLower / toUpper wrap
  strings.ToLower / ToUpper; boolToString wraps strconv.FormatBool;
* floatToInt: the switch over +Inf, -Inf, NaN, `>= MaxInt64`, `<= MinInt64`, then `int64(a)`;
* intToFloat: `float64(a)`; intToString: `strconv.FormatInt(a, 10)`; stringToInt: `strconv.ParseInt(s, 10, 0)`;
  stringToBool: `strconv.ParseBool(strings.ToLower(s))`;
* bindConstants: one map {item, constant} per item, in order;
* floatToString / floatToFormattedString / stringToFloat: strconv.FormatFloat / ParseFloat (shape contract only).
-/
import Arca.Model.BuiltinRow
namespace Arca.Expected
open Arca.Model

/-- the built-in functions registered by `builtinfunctions.GetFunctions`, sorted by id -/
def builtins : List BuiltinRow := [
  { id := "abs"
    params := ["float"]
    output := "float"
    errors := false
    handler := "math.Abs" },
  { id := "bindConstants"
    params := ["list<any>", "any"]
    output := "dynamic:HandleTypeSchemaCombine"
    errors := true
    handler := "func(items []any, columnValues any) (any, error) { combinedItems := make([]any, len(items)) for k, itemValue := range items { combinedItems[k] = map[string]any{ CombinedObjPropertyItemName: itemValue, CombinedObjPropertyConstantName: columnValues, } } return combinedItems, nil }" },
  { id := "boolToString"
    params := ["bool"]
    output := "string:/^true|false$/"
    errors := false
    handler := "strconv.FormatBool" },
  { id := "ceil"
    params := ["float"]
    output := "float"
    errors := false
    handler := "math.Ceil" },
  { id := "floatToFormattedString"
    params := ["float", "string:/^[beEfgGxX]$/", "int[schema.PointerTo[int64](-1),schema.PointerTo[int64](maxFormatPrecision)]"]
    output := "string:/^(?:NaN|[-+]Inf|-?(?:0[xX])?[0-9a-fA-F]+(?:\\.[0-9a-fA-F]*)?(?:[pPeE][-+]\\d{1,4})?)$/"
    errors := true
    handler := "func(f float64, format string, precision int64) (string, error) { if precision < -1 || precision > maxFormatPrecision { return \"\", fmt.Errorf( \"precision %d is out of range for floatToFormattedString, must be between -1 and %d\", precision, maxFormatPrecision) } if len(format) != 1 { return \"\", fmt.Errorf(\"format specifier '%s' for floatToFormattedString must be a single character\", format) } return strconv.FormatFloat(f, format[0], int(precision), 64), nil }" },
  { id := "floatToInt"
    params := ["float"]
    output := "int"
    errors := true
    handler := "func(a float64) (int64, error) { switch { case math.IsInf(a, 1): return math.MaxInt64, nil case math.IsInf(a, -1): return math.MinInt64, nil case math.IsNaN(a): return math.MinInt64, fmt.Errorf(\"attempted to convert a NaN float to an integer\") case a >= math.MaxInt64: return math.MaxInt64, nil case a <= math.MinInt64: return math.MinInt64, nil } return int64(a), nil }" },
  { id := "floatToString"
    params := ["float"]
    output := "string:/^(?:NaN|[-+]Inf|-?\\d+(?:\\.\\d+)?)$/"
    errors := false
    handler := "func(a float64) string { return strconv.FormatFloat(a, 'f', -1, 64) }" },
  { id := "floor"
    params := ["float"]
    output := "float"
    errors := false
    handler := "math.Floor" },
  { id := "getEnvVar"
    params := ["string", "string"]
    output := "string"
    errors := false
    handler := "func(envVarName string, defaultValue string) string { envVarValue, envVarPresent := os.LookupEnv(envVarName) if envVarPresent { return envVarValue } return defaultValue }" },
  { id := "intToFloat"
    params := ["int"]
    output := "float"
    errors := false
    handler := "func(a int64) float64 { return float64(a) }" },
  { id := "intToString"
    params := ["int"]
    output := "string"
    errors := false
    handler := "func(a int64) string { return strconv.FormatInt(a, 10) }" },
  { id := "readFile"
    params := ["string"]
    output := "string"
    errors := true
    handler := "func(filePath string) (string, error) { absPath, err := filepath.Abs(filePath) if err != nil { return \"\", err } fileData, err := os.ReadFile(absPath) if err != nil { return \"\", err } return string(fileData), nil }" },
  { id := "round"
    params := ["float"]
    output := "float"
    errors := false
    handler := "math.Round" },
  { id := "splitString"
    params := ["string", "string"]
    output := "list<string>"
    errors := false
    handler := "strings.Split" },
  { id := "stringToBool"
    params := ["string:/(?i)^(?:true|false|[tf01])$/"]
    output := "bool"
    errors := true
    handler := "func(s string) (bool, error) { return strconv.ParseBool(strings.ToLower(s)) }" },
  { id := "stringToFloat"
    params := ["string"]
    output := "float"
    errors := true
    handler := "func(s string) (float64, error) { return strconv.ParseFloat(s, 64) }" },
  { id := "stringToInt"
    params := ["string:/^-?\\d+$/"]
    output := "int"
    errors := true
    handler := "func(s string) (int64, error) { return strconv.ParseInt(s, 10, 0) }" },
  { id := "toLower"
    params := ["string"]
    output := "string"
    errors := false
    handler := "strings.ToLower" },
  { id := "toUpper"
    params := ["string"]
    output := "string"
    errors := false
    handler := "strings.ToUpper" }
]

/-- functions computing dynamic output types (and their helpers): name, normalised source -/
def builtinTypeHandlers : List (String × String) := [
  ("BuildSchemaNames", "func(typeSchema schema.Type, names []string) []string { listSchema, isList := typeSchema.(*schema.ListSchema) if isList { names = append(names, string(listSchema.TypeID())) return BuildSchemaNames(listSchema.ItemsValue, names) } objItemType, itemIsObject := schema.ConvertToObjectSchema(typeSchema) if itemIsObject { return append(names, objItemType.ID()) } return append(names, string(typeSchema.TypeID())) }"),
  ("HandleTypeSchemaCombine", "func(inputType []schema.Type) (schema.Type, error) { if len(inputType) != 2 { return nil, fmt.Errorf(\"expected exactly two input types\") } itemsType, isList := inputType[0].(*schema.ListSchema) if !isList { return nil, fmt.Errorf(\"expected first input type to be a list schema\") } itemType := itemsType.ItemsValue constantsTypeArg := inputType[1] combinedObjectName := schemaName(itemType) + CombinedObjIDDelimiter + schemaName(constantsTypeArg) return schema.NewListSchema( schema.NewUnenforcedIDObjectSchema( combinedObjectName, map[string]*schema.PropertySchema{ CombinedObjPropertyItemName: schema.NewPropertySchema(itemType, nil, false, nil, nil, nil, nil, nil), CombinedObjPropertyConstantName: schema.NewPropertySchema(constantsTypeArg, nil, false, nil, nil, nil, nil, nil), }), nil, nil), nil }"),
  ("schemaName", "func(typeSchema schema.Type) string { return strings.Join(BuildSchemaNames(typeSchema, []string{}), ListSchemaNameDelimiter) }")
]

/-- string constants used by the handlers -/
def builtinConsts : List (String × String) := [("CombinedObjIDDelimiter", "__"), ("CombinedObjPropertyConstantName", "constant"), ("CombinedObjPropertyItemName", "item"), ("ListSchemaNameDelimiter", "_")]

end Arca.Expected
