/-
Helper lemmas for C19 (`Arca.Model.Ty`): the mutual induction principle for `Ty` / `Props`, `mapE`, association lists,
and the link between `normalise`, `valid` and `conforms`.
-/
import Arca.Model.Ty

namespace Arca.Proofs.Ty
open Arca.Model

/-! ### induction over the mutual pair `Ty` / `Props`

The object case also receives the induction hypothesis for the type of the single property of a one-property object
(needed for the inlined spelling). -/

theorem ty_props_ind {P : Ty → Prop} {Q : Props → Prop}
    (hstr : ∀ mn mx p, P (.str mn mx p)) (hint : ∀ mn mx, P (.int mn mx)) (hbool : P .bool) (hfloat : P .float)
    (hlist : ∀ item mn mx, P item → P (.list item mn mx)) (hmap : ∀ val, P val → P (.map val))
    (hobj : ∀ ps, Q ps → (∀ n r d ty, ps = .cons n r d ty .nil → P ty) → P (.obj ps))
    (hnil : Q .nil) (hcons : ∀ n r d ty rest, P ty → Q rest → Q (.cons n r d ty rest)) :
    (∀ t, P t) ∧ (∀ ps, Q ps) := by
  let Q' : Props → Prop := fun ps => Q ps ∧ (∀ n r d ty, ps = .cons n r d ty .nil → P ty)
  have hnil' : Q' .nil := ⟨hnil, fun n r d ty h => by cases h⟩
  have hcons' : ∀ n r d ty rest, P ty → Q' rest → Q' (.cons n r d ty rest) := by
    intro n r d ty rest hp hq
    refine ⟨hcons n r d ty rest hp hq.1, ?_⟩
    intro n' r' d' ty' h
    cases h
    exact hp
  have hobj' : ∀ ps, Q' ps → P (.obj ps) := fun ps hq => hobj ps hq.1 hq.2
  constructor
  · intro t
    exact Ty.rec (motive_1 := P) (motive_2 := Q') hstr hint hbool hfloat hlist hmap hobj' hnil' hcons' t
  · intro ps
    exact (Props.rec (motive_1 := P) (motive_2 := Q') hstr hint hbool hfloat hlist hmap hobj' hnil' hcons' ps).1

/-- induction over `Props` alone -/
theorem props_ind {Q : Props → Prop} (hnil : Q .nil) (hcons : ∀ n r d ty rest, Q rest → Q (.cons n r d ty rest)) :
    ∀ ps, Q ps :=
  (ty_props_ind (P := fun _ => True) (Q := Q) (fun _ _ _ => trivial) (fun _ _ => trivial) trivial trivial
    (fun _ _ _ _ => trivial) (fun _ _ => trivial) (fun _ _ _ => trivial) hnil (fun n r d ty rest _ h => hcons n r d ty rest h)).2

/-! ### `mapE` -/

theorem mapE_isOk {α β ε : Type} (f : α → Except ε β) (p : α → Bool) (xs : List α)
    (h : ∀ x ∈ xs, tyOk (f x) = p x) : tyOk (mapE f xs) = xs.all p := by
  induction xs with
  | nil => simp [mapE, tyOk]
  | cons x xs ih =>
    have hx := h x (by simp)
    have ih' := ih (fun y hy => h y (by simp [hy]))
    rw [List.all_cons, ← hx, ← ih']
    cases hfx : f x with
    | error e => simp [mapE, hfx, tyOk]
    | ok y =>
      cases hm : mapE f xs with
      | error e => simp [mapE, hfx, hm, tyOk]
      | ok ys => simp [mapE, hfx, hm, tyOk]

/-- every element of a successful `mapE` is the image of an element of the argument, and the length is kept -/
theorem mapE_ok {α β ε : Type} (f : α → Except ε β) (xs : List α) (ys : List β) (h : mapE f xs = .ok ys) :
    ys.length = xs.length ∧ ∀ y ∈ ys, ∃ x ∈ xs, f x = .ok y := by
  induction xs generalizing ys with
  | nil => simp [mapE] at h; subst h; simp
  | cons x xs ih =>
    simp only [mapE] at h
    cases hfx : f x with
    | error e => simp [hfx] at h
    | ok y =>
      cases hm : mapE f xs with
      | error e => simp [hfx, hm] at h
      | ok ys' =>
        simp [hfx, hm] at h
        subst h
        obtain ⟨hl, hall⟩ := ih ys' hm
        refine ⟨by simp [hl], ?_⟩
        intro z hz
        rcases List.mem_cons.mp hz with rfl | hz
        · exact ⟨x, by simp, hfx⟩
        · obtain ⟨x', hx', hfx'⟩ := hall z hz
          exact ⟨x', by simp [hx'], hfx'⟩

theorem mapE_fixed {α ε : Type} (f : α → Except ε α) (xs : List α) (h : ∀ x ∈ xs, f x = .ok x) :
    mapE f xs = .ok xs := by
  induction xs with
  | nil => simp [mapE]
  | cons x xs ih =>
    have hx := h x (by simp)
    have ih' := ih (fun y hy => h y (by simp [hy]))
    simp [mapE, hx, ih']

/-! ### association lists and property names -/

theorem lookup_none_of_keys {α : Type} (n : String) (kvs : List (String × α))
    (h : ∀ kv ∈ kvs, kv.1 ≠ n) : lookup n kvs = none := by
  induction kvs with
  | nil => simp [lookup]
  | cons kv tl ih =>
    obtain ⟨k, x⟩ := kv
    have hk : n ≠ k := fun e => h (k, x) (by simp) e.symm
    simp only [lookup, hk, if_false]
    exact ih (fun kv hkv => h kv (by simp [hkv]))

theorem hasName_cons (m n : String) (r : Bool) (d : Option Val) (ty : Ty) (rest : Props) :
    (Props.cons n r d ty rest).hasName m = (m == n || rest.hasName m) := by
  simp [Props.hasName]

end Arca.Proofs.Ty
