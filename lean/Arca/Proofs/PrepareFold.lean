/-
Helper lemmas for C10 / C16, part 1: what a successful run of an operation sequence (`runOps`) says about the resulting
graph — for ANY operation list, independent of how `Wf.ops` produces it.
-/
import Arca.Model.Prepare
import Arca.Proofs.DgraphInv

set_option linter.unusedSectionVars false
set_option linter.unusedVariables false

namespace Arca.Model

/-! ### the two graph operations, when they succeed -/

theorem Graph.addNode_ok {g g' : Graph String} {id : String} (h : g.addNode id = .ok g') :
    g.has id = false ∧ g'.nodes = g.nodes ++ [⟨id, .waiting, [], []⟩] ∧ g'.edges = g.edges ∧ g'.ready = g.ready := by
  unfold Graph.addNode at h
  split at h
  · cases h
  · rename_i hh
    simp only [Except.ok.injEq] at h
    subst h
    exact ⟨by simpa using hh, rfl, rfl, rfl⟩

theorem Graph.connect_ok {g g' : Graph String} {s t : String} {d : Dep} (h : g.connect s t d = .ok g') :
    g'.edges = g.edges ++ [(s, t, d)] ∧ g'.nodes.map (·.id) = g.nodes.map (·.id) ∧ g.has s = true ∧ g.has t = true
      ∧ s ≠ t ∧ g.hasEdge s t = false ∧ g'.ready = g.ready := by
  unfold Graph.connect at h
  split at h
  · cases h
  · cases h
  rename_i ms n hms hn
  split at h
  · cases h
  rename_i hne
  split at h
  · cases h
  rename_i hedge
  simp only [Except.ok.injEq] at h
  subst h
  refine ⟨rfl, ?_, ?_, ?_, hne, by simpa using hedge, rfl⟩
  · exact Graph.setNode_ids _ _
  · exact Graph.has_iff.2 ⟨ms, hms⟩
  · exact Graph.has_iff.2 ⟨n, hn⟩

theorem Graph.connect_exists {g : Graph String} {s t x y : String} {d : Dep}
    (h : g.connect s t d = .error (.connectionExists x y)) :
    g.hasEdge s t = true ∧ g.has s = true ∧ g.has t = true := by
  unfold Graph.connect at h
  split at h
  · cases h
  · cases h
  rename_i ms n hms hn
  split at h
  · cases h
  split at h
  · rename_i hedge
    exact ⟨hedge, Graph.has_iff.2 ⟨ms, hms⟩, Graph.has_iff.2 ⟨n, hn⟩⟩
  · cases h

theorem Graph.has_iff_mem_ids {g : Graph String} {x : String} : g.has x = true ↔ x ∈ g.nodes.map (·.id) := by
  constructor
  · intro h
    obtain ⟨n, hn⟩ := Graph.has_iff.1 h
    have := Graph.find?_some hn
    exact List.mem_map.2 ⟨n, this.1, this.2⟩
  · intro h
    cases hc : g.has x with
    | true => rfl
    | false => exact absurd h (Graph.find?_none_iff.1 (Graph.has_false_iff.1 hc))

/-! ### one operation -/

/-- the ids of the node operations of a sequence -/
def nodeIds (os : List Op) : List NodeId :=
  os.filterMap (fun op => match op with
    | .node id => some id
    | _ => none)

theorem mem_nodeIds {os : List Op} {n : NodeId} : n ∈ nodeIds os ↔ Op.node n ∈ os := by
  unfold nodeIds
  simp only [List.mem_filterMap]
  constructor
  · rintro ⟨op, hop, h⟩
    cases op <;> simp at h
    subst h
    exact hop
  · intro h
    exact ⟨_, h, rfl⟩

theorem nodeIds_cons_node (n : NodeId) (os : List Op) : nodeIds (.node n :: os) = n :: nodeIds os := by
  simp [nodeIds]

theorem nodeIds_cons_edge (a b : NodeId) (d : Dep) (t : Bool) (os : List Op) :
    nodeIds (.edge a b d t :: os) = nodeIds os := by
  simp [nodeIds]

theorem nodeIds_append (xs ys : List Op) : nodeIds (xs ++ ys) = nodeIds xs ++ nodeIds ys := by
  simp [nodeIds, List.filterMap_append]

/-- what one successful operation does -/
inductive Stepped (g g' : Graph String) : Op → Prop where
  | node (id : NodeId) (hnew : g.has id.render = false)
      (hn : g'.nodes = g.nodes ++ [⟨id.render, .waiting, [], []⟩]) (he : g'.edges = g.edges) (hr : g'.ready = g.ready) :
      Stepped g g' (.node id)
  | edgeNew (a b : NodeId) (d : Dep) (tol : Bool) (ha : g.has a.render = true) (hb : g.has b.render = true)
      (hne : a.render ≠ b.render) (hno : g.hasEdge a.render b.render = false)
      (hn : g'.nodes.map (·.id) = g.nodes.map (·.id)) (he : g'.edges = g.edges ++ [(a.render, b.render, d)])
      (hr : g'.ready = g.ready) (hc : g.connect a.render b.render d = .ok g') :
      Stepped g g' (.edge a b d tol)
  | edgeDup (a b : NodeId) (d : Dep) (ha : g.has a.render = true) (hb : g.has b.render = true)
      (hex : g.hasEdge a.render b.render = true) (heq : g' = g) :
      Stepped g g' (.edge a b d true)

theorem applyOp_stepped {g g' : Graph String} {op : Op} (h : applyOp g op = .ok g') : Stepped g g' op := by
  cases op with
  | node id =>
    simp only [applyOp] at h
    split at h
    · rename_i g1 h1
      simp only [Except.ok.injEq] at h
      subst h
      obtain ⟨a, b, c, d⟩ := Graph.addNode_ok h1
      exact .node id a b c d
    · cases h
  | edge a b d tol =>
    simp only [applyOp] at h
    split at h
    · rename_i g1 h1
      simp only [Except.ok.injEq] at h
      subst h
      obtain ⟨he, hn, ha, hb, hne, hno, hr⟩ := Graph.connect_ok h1
      exact .edgeNew a b d tol ha hb hne hno hn he hr h1
    · rename_i x y h1
      split at h
      · rename_i ht
        simp only [Except.ok.injEq] at h
        subst h
        subst ht
        obtain ⟨hex, ha, hb⟩ := Graph.connect_exists h1
        exact .edgeDup a b d ha hb hex rfl
      · cases h
    · cases h
  | fail r => simp [applyOp] at h

theorem runOps_cons {g g' : Graph String} {op : Op} {os : List Op} (h : runOps g (op :: os) = .ok g') :
    ∃ g1, applyOp g op = .ok g1 ∧ runOps g1 os = .ok g' := by
  simp only [runOps] at h
  split at h
  · rename_i g1 h1
    exact ⟨g1, h1, h⟩
  · cases h

theorem runOps_append {g g' : Graph String} {xs ys : List Op} (h : runOps g (xs ++ ys) = .ok g') :
    ∃ g1, runOps g xs = .ok g1 ∧ runOps g1 ys = .ok g' := by
  induction xs generalizing g with
  | nil => exact ⟨g, rfl, h⟩
  | cons op xs ih =>
    obtain ⟨g1, h1, h2⟩ := runOps_cons h
    obtain ⟨g2, h3, h4⟩ := ih h2
    refine ⟨g2, ?_, h4⟩
    simp only [runOps, h1]
    exact h3

/-! ### a whole sequence -/

/-- no `fail` operation in a sequence that ran through -/
theorem runOps_nofail {g g' : Graph String} {os : List Op} (h : runOps g os = .ok g') : ∀ r, Op.fail r ∉ os := by
  induction os generalizing g with
  | nil => simp
  | cons op os ih =>
    obtain ⟨g1, h1, h2⟩ := runOps_cons h
    intro r hr
    rcases List.mem_cons.1 hr with rfl | hr
    · simp [applyOp] at h1
    · exact ih h2 r hr

/-- node ids: the old ones followed by the rendered ids of the node operations, in order -/
theorem runOps_ids {g g' : Graph String} {os : List Op} (h : runOps g os = .ok g') :
    g'.nodes.map (·.id) = g.nodes.map (·.id) ++ (nodeIds os).map NodeId.render := by
  induction os generalizing g with
  | nil => simp [runOps] at h; subst h; simp [nodeIds]
  | cons op os ih =>
    obtain ⟨g1, h1, h2⟩ := runOps_cons h
    rw [ih h2]
    cases applyOp_stepped h1 with
    | node id hnew hn he hr => rw [hn, nodeIds_cons_node]; simp
    | edgeNew a b d tol ha hb hne hno hn he hr hc => rw [hn, nodeIds_cons_edge]
    | edgeDup a b d ha hb hex heq => rw [heq, nodeIds_cons_edge]

theorem runOps_edges_mono {g g' : Graph String} {os : List Op} (h : runOps g os = .ok g') :
    ∀ e ∈ g.edges, e ∈ g'.edges := by
  induction os generalizing g with
  | nil => simp [runOps] at h; subst h; simp
  | cons op os ih =>
    obtain ⟨g1, h1, h2⟩ := runOps_cons h
    intro e he
    apply ih h2
    cases applyOp_stepped h1 with
    | node id hnew hn he' hr => rw [he']; exact he
    | edgeNew a b d tol ha hb hne hno hn he' hr hc => rw [he']; exact List.mem_append_left _ he
    | edgeDup a b d ha hb hex heq => rw [heq]; exact he

/-- soundness of the edge list: every edge is an old one or was put there by an edge operation, with that
operation's dependency type -/
theorem runOps_edges_sound {g g' : Graph String} {os : List Op} (h : runOps g os = .ok g') :
    ∀ e ∈ g'.edges, e ∈ g.edges ∨ ∃ a b d tol, Op.edge a b d tol ∈ os ∧ e = (a.render, b.render, d) := by
  induction os generalizing g with
  | nil => simp [runOps] at h; subst h; intro e he; exact Or.inl he
  | cons op os ih =>
    obtain ⟨g1, h1, h2⟩ := runOps_cons h
    intro e he
    rcases ih h2 e he with h3 | ⟨a, b, d, tol, hop, heq⟩
    · cases applyOp_stepped h1 with
      | node id hnew hn he' hr => rw [he'] at h3; exact Or.inl h3
      | edgeNew a b d tol ha hb hne hno hn he' hr hc =>
        rw [he'] at h3
        rcases List.mem_append.1 h3 with h4 | h4
        · exact Or.inl h4
        · simp only [List.mem_singleton] at h4
          exact Or.inr ⟨a, b, d, tol, List.mem_cons_self, h4⟩
      | edgeDup a b d ha hb hex heq => rw [heq] at h3; exact Or.inl h3
    · exact Or.inr ⟨a, b, d, tol, List.mem_cons_of_mem _ hop, heq⟩

/-- completeness: every edge operation left an edge between its endpoints; with the operation's own type unless it
was a tolerated duplicate -/
theorem runOps_edges_complete {g g' : Graph String} {os : List Op} (h : runOps g os = .ok g') :
    ∀ a b d tol, Op.edge a b d tol ∈ os →
      ∃ d', (a.render, b.render, d') ∈ g'.edges ∧ (tol = false → d' = d) := by
  induction os generalizing g with
  | nil => simp
  | cons op os ih =>
    obtain ⟨g1, h1, h2⟩ := runOps_cons h
    intro a b d tol hop
    rcases List.mem_cons.1 hop with rfl | hop
    · cases applyOp_stepped h1 with
      | edgeNew _ _ _ _ ha hb hne hno hn he' hr hc =>
        refine ⟨d, runOps_edges_mono h2 _ ?_, fun _ => rfl⟩
        rw [he']; simp
      | edgeDup _ _ _ ha hb hex heq =>
        obtain ⟨d', hd'⟩ := Graph.hasEdge_iff.1 hex
        refine ⟨d', runOps_edges_mono h2 _ ?_, by simp⟩
        rw [heq]; exact hd'
    · exact ih h2 a b d tol hop

/-- both endpoints of every edge operation are nodes of the result -/
theorem runOps_endpoints {g g' : Graph String} {os : List Op} (h : runOps g os = .ok g') :
    ∀ a b d tol, Op.edge a b d tol ∈ os → g'.has a.render = true ∧ g'.has b.render = true := by
  induction os generalizing g with
  | nil => simp
  | cons op os ih =>
    obtain ⟨g1, h1, h2⟩ := runOps_cons h
    intro a b d tol hop
    rcases List.mem_cons.1 hop with rfl | hop
    · have hmono : ∀ x, g.has x = true → g'.has x = true := by
        intro x hx
        rw [Graph.has_iff_mem_ids] at hx ⊢
        have e1 := runOps_ids h
        rw [e1]
        exact List.mem_append_left _ hx
      cases applyOp_stepped h1 with
      | edgeNew _ _ _ _ ha hb hne hno hn he' hr hc => exact ⟨hmono _ ha, hmono _ hb⟩
      | edgeDup _ _ _ ha hb hex heq => exact ⟨hmono _ ha, hmono _ hb⟩
    · exact ih h2 a b d tol hop

/-- the graph is well-formed and nothing has been resolved -/
structure Fresh (g : Graph String) : Prop where
  inv : g.Inv
  waiting : ∀ n ∈ g.nodes, n.status = St.waiting ∧ n.res = []
  ready : g.ready = []

theorem fresh_empty : Fresh (Graph.empty : Graph String) :=
  ⟨Graph.inv_empty, by simp [Graph.empty], rfl⟩

theorem applyOp_fresh {g g' : Graph String} {op : Op} (hf : Fresh g) (h : applyOp g op = .ok g') : Fresh g' := by
  cases op with
  | node id =>
    simp only [applyOp] at h
    split at h
    · rename_i g1 h1
      simp only [Except.ok.injEq] at h
      subst h
      obtain ⟨a, b, c, d⟩ := Graph.addNode_ok h1
      refine ⟨Graph.inv_addNode _ _ _ hf.inv h1, ?_, by rw [d]; exact hf.ready⟩
      intro n hn
      rw [b] at hn
      rcases List.mem_append.1 hn with hn | hn
      · exact hf.waiting n hn
      · simp only [List.mem_singleton] at hn
        subst hn
        exact ⟨rfl, rfl⟩
    · cases h
  | edge a b d tol =>
    simp only [applyOp] at h
    split at h
    · rename_i g1 h1
      simp only [Except.ok.injEq] at h
      subst h
      obtain ⟨hi, hw⟩ := Graph.inv_connect _ _ _ _ _ hf.inv hf.waiting (by rw [hf.ready]; simp) h1
      exact ⟨hi, hw, by rw [Graph.connect_ready _ _ _ _ _ h1]; exact hf.ready⟩
    · split at h
      · simp only [Except.ok.injEq] at h
        subst h
        exact hf
      · cases h
    · cases h
  | fail r => simp [applyOp] at h

theorem runOps_fresh {g g' : Graph String} {os : List Op} (hf : Fresh g) (h : runOps g os = .ok g') : Fresh g' := by
  induction os generalizing g with
  | nil => simp [runOps] at h; subst h; exact hf
  | cons op os ih =>
    obtain ⟨g1, h1, h2⟩ := runOps_cons h
    exact ih (applyOp_fresh hf h1) h2

/-- the rendered ids of the node operations are pairwise distinct -/
theorem runOps_nodup {g' : Graph String} {os : List Op} (h : runOps Graph.empty os = .ok g') :
    ((nodeIds os).map NodeId.render).Nodup := by
  have h1 := (runOps_fresh fresh_empty h).inv.nodup
  rw [runOps_ids h] at h1
  simpa [Graph.empty] using h1

theorem nodup_map_inj {α β : Type} {f : α → β} {l : List α} (h : (l.map f).Nodup) {a b : α}
    (ha : a ∈ l) (hb : b ∈ l) (hab : f a = f b) : a = b := by
  induction l with
  | nil => cases ha
  | cons x xs ih =>
    simp only [List.map_cons, List.nodup_cons, List.mem_map, not_exists, not_and] at h
    rcases List.mem_cons.1 ha with rfl | ha' <;> rcases List.mem_cons.1 hb with rfl | hb'
    · rfl
    · exact absurd hab.symm (h.1 b hb')
    · exact absurd hab (h.1 a ha')
    · exact ih h.2 ha' hb'

/-- hence `render` is injective on them -/
theorem render_inj_of_run {g' : Graph String} {os : List Op} (h : runOps Graph.empty os = .ok g')
    {a b : NodeId} (ha : Op.node a ∈ os) (hb : Op.node b ∈ os) (hab : a.render = b.render) : a = b :=
  nodup_map_inj (runOps_nodup h) (mem_nodeIds.2 ha) (mem_nodeIds.2 hb) hab

end Arca.Model
