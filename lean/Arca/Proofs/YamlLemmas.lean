/-
Helper lemmas for C11 about `Arca.Model.Yaml`: the invariant `Node.wf` that every successfully transformed node
satisfies (type id among the three constants, map contents in key/value pairs with string-typed keys), and the
consequences: `Raw`, `MapKeys`, `MapKey` and `yamlBuildExpressions` do not panic on such nodes.
-/
import Arca.Model.Yaml

namespace Arca.Model.Yaml

set_option linter.unusedSimpArgs false

/-! ## what yaml.v3 guarantees and `transform` relies on: a document node has a child -/

mutual
/-- no document node without content on the part of the tree `transform` can reach -/
def YNode.docsOk : YNode → Bool
  | .doc [] => false
  | .doc (c :: _) => c.docsOk
  | .map _ _ es => docsOkEntries es
  | .seq _ _ xs => docsOkList xs
  | _ => true
def docsOkList : List YNode → Bool
  | [] => true
  | x :: xs => x.docsOk && docsOkList xs
def docsOkEntries : List (YNode × YNode) → Bool
  | [] => true
  | (k, v) :: rest => k.docsOk && v.docsOk && docsOkEntries rest
end

/-! ## the invariant of transformed nodes -/

mutual
def Node.wf : Node → Bool
  | .mk .str _ _ _ => true
  | .mk .seq _ cs _ => wfList cs
  | .mk .map _ cs _ => wfPairs cs
  | .mk .other _ _ _ => false
def wfList : List Node → Bool
  | [] => true
  | x :: xs => x.wf && wfList xs
def wfPairs : List Node → Bool
  | [] => true
  | [_] => false
  | k :: v :: rest => (k.typeID == .str) && v.wf && wfPairs rest
end

/-! ## transform -/

mutual
theorem transform_no_panic : ∀ (t : YNode), t.docsOk = true → (transform t).isPanic = false
  | .empty, _ => by simp [transform, Out.isPanic]
  | .doc [], h => by simp [YNode.docsOk] at h
  | .doc (c :: _), h => by
    simp only [YNode.docsOk] at h
    simp only [transform]
    exact transform_no_panic c h
  | .alias _, _ => by simp [transform, Out.isPanic]
  | .scalar _ _, _ => by simp [transform, Out.isPanic]
  | .seq tag v items, h => by
    simp only [YNode.docsOk] at h
    have := transformList_no_panic items h
    simp only [transform]
    cases hr : transformList items <;> simp_all [Out.isPanic]
  | .map tag v es, h => by
    simp only [YNode.docsOk] at h
    have := transformEntries_no_panic es h
    simp only [transform]
    split
    · cases hr : transformEntries es <;> simp_all [Out.isPanic]
    · simp [Out.isPanic]
theorem transformList_no_panic : ∀ (l : List YNode), docsOkList l = true → (transformList l).isPanic = false
  | [], _ => by simp [transformList, Out.isPanic]
  | x :: xs, h => by
    simp only [docsOkList, Bool.and_eq_true] at h
    have h1 := transform_no_panic x h.1
    have h2 := transformList_no_panic xs h.2
    simp only [transformList]
    cases hx : transform x <;> simp_all [Out.isPanic]
    cases hxs : transformList xs <;> simp_all [Out.isPanic]
theorem transformEntries_no_panic : ∀ (l : List (YNode × YNode)), docsOkEntries l = true → (transformEntries l).isPanic = false
  | [], _ => by simp [transformEntries, Out.isPanic]
  | (k, v) :: rest, h => by
    simp only [docsOkEntries, Bool.and_eq_true] at h
    have h1 := transform_no_panic k h.1.1
    have h2 := transform_no_panic v h.1.2
    have h3 := transformEntries_no_panic rest h.2
    simp only [transformEntries]
    cases hk : transform k <;> simp_all [Out.isPanic]
    cases hv : transform v <;> simp_all [Out.isPanic]
    cases hr : transformEntries rest <;> simp_all [Out.isPanic]
end

mutual
theorem transform_wf : ∀ (t : YNode) (n : Node), transform t = .ok n → n.wf = true
  | .empty, n, h => by simp [transform] at h
  | .doc [], n, h => by simp [transform] at h
  | .doc (c :: _), n, h => by
    simp only [transform] at h
    exact transform_wf c n h
  | .alias _, n, h => by simp [transform] at h
  | .scalar _ _, n, h => by
    simp only [transform, Out.ok.injEq] at h
    subst h
    simp [Node.wf]
  | .seq tag v items, n, h => by
    simp only [transform] at h
    cases hr : transformList items with
    | ok cs =>
      simp only [hr, Out.ok.injEq] at h
      subst h
      simp only [Node.wf]
      exact transformList_wf items cs hr
    | err e => simp [hr] at h
    | panic s => simp [hr] at h
  | .map tag v es, n, h => by
    simp only [transform] at h
    split at h
    · rename_i hk
      cases hr : transformEntries es with
      | ok cs =>
        simp only [hr, Out.ok.injEq] at h
        subst h
        simp only [Node.wf]
        exact transformEntries_wf es cs hk hr
      | err e => simp [hr] at h
      | panic s => simp [hr] at h
    · simp at h
theorem transformList_wf : ∀ (l : List YNode) (ns : List Node), transformList l = .ok ns → wfList ns = true
  | [], ns, h => by
    simp only [transformList, Out.ok.injEq] at h
    subst h
    simp [wfList]
  | x :: xs, ns, h => by
    simp only [transformList] at h
    cases hx : transform x with
    | ok n =>
      cases hxs : transformList xs with
      | ok ns' =>
        simp only [hx, hxs, Out.ok.injEq] at h
        subst h
        simp [wfList, transform_wf x n hx, transformList_wf xs ns' hxs]
      | err e => simp [hx, hxs] at h
      | panic s => simp [hx, hxs] at h
    | err e => simp [hx] at h
    | panic s => simp [hx] at h
theorem transformEntries_wf : ∀ (l : List (YNode × YNode)) (ns : List Node), keysScalar l = true →
    transformEntries l = .ok ns → wfPairs ns = true
  | [], ns, _, h => by
    simp only [transformEntries, Out.ok.injEq] at h
    subst h
    simp [wfPairs]
  | (k, v) :: rest, ns, hk, h => by
    simp only [keysScalar, List.all_cons, Bool.and_eq_true] at hk
    have hrest : keysScalar rest = true := by simpa [keysScalar] using hk.2
    simp only [transformEntries] at h
    cases hkn : transform k with
    | ok kn =>
      cases hvn : transform v with
      | ok vn =>
        cases hr : transformEntries rest with
        | ok ns' =>
          simp only [hkn, hvn, hr, Out.ok.injEq] at h
          subst h
          have hkstr : kn.typeID = .str := by
            cases k <;> simp [YNode.isScalar] at hk
            simp only [transform, Out.ok.injEq] at hkn
            subst hkn
            rfl
          simp [wfPairs, hkstr, transform_wf v vn hvn, transformEntries_wf rest ns' hrest hr]
        | err e => simp [hkn, hvn, hr] at h
        | panic s => simp [hkn, hvn, hr] at h
      | err e => simp [hkn, hvn] at h
      | panic s => simp [hkn, hvn] at h
    | err e => simp [hkn] at h
    | panic s => simp [hkn] at h
end

/-! ## Raw -/

theorem raw_of_str {n : Node} (h : n.typeID = .str) : raw n = .ok (.str n.value) := by
  cases n with
  | mk t tag cs v =>
    simp only [Node.typeID] at h
    subst h
    simp [raw, Node.value]

mutual
theorem raw_wf : ∀ (n : Node), n.wf = true → ∃ v, raw n = .ok v
  | .mk .str _ _ v, _ => ⟨.str v, by simp [raw]⟩
  | .mk .seq _ cs _, h => by
    simp only [Node.wf] at h
    obtain ⟨xs, hxs⟩ := rawList_wf cs h
    exact ⟨.seq xs, by simp [raw, hxs]⟩
  | .mk .map _ cs _, h => by
    simp only [Node.wf] at h
    obtain ⟨kvs, hk⟩ := rawPairs_wf cs h
    exact ⟨.map kvs, by simp [raw, hk]⟩
  | .mk .other _ _ _, h => by simp [Node.wf] at h
theorem rawList_wf : ∀ (l : List Node), wfList l = true → ∃ vs, rawList l = .ok vs
  | [], _ => ⟨[], by simp [rawList]⟩
  | x :: xs, h => by
    simp only [wfList, Bool.and_eq_true] at h
    obtain ⟨v, hv⟩ := raw_wf x h.1
    obtain ⟨vs, hvs⟩ := rawList_wf xs h.2
    exact ⟨v :: vs, by simp [rawList, hv, hvs]⟩
theorem rawPairs_wf : ∀ (l : List Node), wfPairs l = true → ∃ kvs, rawPairs l = .ok kvs
  | [], _ => ⟨[], by simp [rawPairs]⟩
  | [_], h => by simp [wfPairs] at h
  | k :: v :: rest, h => by
    simp only [wfPairs, Bool.and_eq_true, beq_iff_eq] at h
    obtain ⟨val, hv⟩ := raw_wf v h.1.2
    obtain ⟨kvs, hk⟩ := rawPairs_wf rest h.2
    exact ⟨(k.value, val) :: kvs, by simp [rawPairs, raw_of_str h.1.1, hv, hk]⟩
end

/-! ## MapKeys / MapKey on a well-formed map -/

theorem mapKeysC_wf : ∀ (cs : List Node), wfPairs cs = true → ∃ ks, mapKeysC cs = .ok ks
  | [], _ => ⟨[], by simp [mapKeysC]⟩
  | [_], h => by simp [wfPairs] at h
  | k :: v :: rest, h => by
    simp only [wfPairs, Bool.and_eq_true] at h
    obtain ⟨ks, hks⟩ := mapKeysC_wf rest h.2
    exact ⟨k.value :: ks, by simp [mapKeysC, hks]⟩

/-- `MapKey` never panics on a well-formed map and what it finds is well formed -/
theorem mapKeyC_wf (key : String) : ∀ (cs : List Node), wfPairs cs = true →
    ∃ r, mapKeyC key cs = .ok r ∧ ∀ m, r = some m → m.wf = true
  | [], _ => ⟨none, by simp [mapKeyC]⟩
  | [_], h => by simp [wfPairs] at h
  | k :: v :: rest, h => by
    simp only [wfPairs, Bool.and_eq_true, beq_iff_eq] at h
    obtain ⟨r, hr, hwf⟩ := mapKeyC_wf key rest h.2
    by_cases hk : key = k.value
    · exact ⟨some v, by simp [mapKeyC, raw_of_str h.1.1, hk], by intro m hm; simp at hm; subst hm; exact h.1.2⟩
    · exact ⟨r, by simp [mapKeyC, raw_of_str h.1.1, hk, hr], hwf⟩

/-- every key listed by `MapKeys` is found by `MapKey` (this is what makes the discarded `found` result harmless) -/
theorem mapKeyC_of_mapKeysC : ∀ (cs : List Node) (ks : List String), wfPairs cs = true → mapKeysC cs = .ok ks →
    ∀ key ∈ ks, ∃ m, mapKeyC key cs = .ok (some m) ∧ m.wf = true
  | [], ks, _, hks, key, hmem => by
    simp only [mapKeysC, PRes.ok.injEq] at hks
    subst hks
    simp at hmem
  | [_], _, h, _, _, _ => by simp [wfPairs] at h
  | k :: v :: rest, ks, h, hks, key, hmem => by
    simp only [wfPairs, Bool.and_eq_true, beq_iff_eq] at h
    simp only [mapKeysC] at hks
    cases hrest : mapKeysC rest with
    | panic s => simp [hrest] at hks
    | ok ks' =>
      simp only [hrest, PRes.ok.injEq] at hks
      subst hks
      by_cases hk : key = k.value
      · exact ⟨v, by simp [mapKeyC, raw_of_str h.1.1, hk], h.1.2⟩
      · have hmem' : key ∈ ks' := by
          rcases List.mem_cons.mp hmem with h1 | h1
          · exact absurd h1 hk
          · exact h1
        obtain ⟨m, hm, hwf⟩ := mapKeyC_of_mapKeysC rest ks' h.2 hrest key hmem'
        exact ⟨m, by simp [mapKeyC, raw_of_str h.1.1, hk, hm], hwf⟩

theorem wf_map_contents {n : Node} (hwf : n.wf = true) (ht : n.typeID = .map) : wfPairs n.contents = true := by
  cases n with
  | mk t tag cs v =>
    simp only [Node.typeID] at ht
    subst ht
    simpa [Node.wf, Node.contents] using hwf

theorem mapKeys_wf {n : Node} (hwf : n.wf = true) (ht : n.typeID = .map) : ∃ ks, mapKeys n = .ok ks := by
  obtain ⟨ks, h⟩ := mapKeysC_wf n.contents (wf_map_contents hwf ht)
  exact ⟨ks, by simp [mapKeys, ht, h]⟩

theorem mapKey_wf {n : Node} (key : String) (hwf : n.wf = true) (ht : n.typeID = .map) :
    ∃ r, mapKey n key = .ok r ∧ ∀ m, r = some m → m.wf = true := by
  obtain ⟨r, h, hm⟩ := mapKeyC_wf key n.contents (wf_map_contents hwf ht)
  exact ⟨r, by simp [mapKey, ht, h], hm⟩

theorem mapKey_of_mapKeys {n : Node} {ks : List String} (hwf : n.wf = true) (ht : n.typeID = .map)
    (hks : mapKeys n = .ok ks) : ∀ key ∈ ks, ∃ m, mapKey n key = .ok (some m) ∧ m.wf = true := by
  intro key hmem
  have hks' : mapKeysC n.contents = .ok ks := by simpa [mapKeys, ht] using hks
  obtain ⟨m, h, hm⟩ := mapKeyC_of_mapKeysC n.contents ks (wf_map_contents hwf ht) hks' key hmem
  exact ⟨m, by simp [mapKey, ht, h], hm⟩

/-! ## yamlBuildExpressions -/

theorem buildExpression_no_panic (env : Env) (n : Node) : (buildExpression env n).isPanic = false := by
  unfold buildExpression
  split
  · rfl
  · split <;> rfl

/-- a text on which the expression parser panics is reported as an ordinary compile error -/
theorem compileExpression_of_panics (env : Env) (text : String) (h : env.parseExpr text = .panics) :
    compileExpression env text = false := by
  simp [compileExpression, h]

theorem buildOrDisabled_no_panic (env : Env) (n : Node) : (buildOrDisabled env n).isPanic = false := by
  unfold buildOrDisabled
  have := buildExpression_no_panic env n
  cases h : buildExpression env n with
  | panic s => simp [h, Out.isPanic] at this
  | err e => rfl
  | ok t =>
    simp only
    split
    · rfl
    · split <;> rfl

theorem buildOptional_no_panic (env : Env) (n : Node) : (buildOptional env n).isPanic = false := by
  unfold buildOptional
  have := buildExpression_no_panic env n
  cases h : buildExpression env n with
  | panic s => simp [h, Out.isPanic] at this
  | err e =>
    repeat' split
    all_goals first | rfl | simp_all
  | ok t =>
    repeat' split
    all_goals first | rfl | simp_all

theorem mapOk_isPanic {ε α β : Type} (f : α → β) (r : Out ε α) : (r.mapOk f).isPanic = r.isPanic := by
  cases r <;> rfl

/-- the key loop does not panic when every key is found and the recursive calls on smaller nodes do not panic -/
theorem buildKeys_no_panic (env : Env) (n : Node) (hwf : n.wf = true) (ht : n.typeID = .map)
    (ih : ∀ m : Node, sizeOf m < sizeOf n → m.wf = true → (build env m).isPanic = false) :
    ∀ (keys : List String), (∀ key ∈ keys, ∃ m, mapKey n key = .ok (some m) ∧ m.wf = true) →
      (buildKeys env n keys).isPanic = false
  | [], _ => by rw [buildKeys]; rfl
  | key :: rest, hkeys => by
    obtain ⟨m, hm, hmwf⟩ := hkeys key (by simp)
    have hrest := buildKeys_no_panic env n hwf ht ih rest (fun k hk => hkeys k (by simp [hk]))
    have hb := ih m (mapKey_sizeOf hm) hmwf
    rw [buildKeys]
    split
    · rename_i h; rw [hm] at h; cases h
    · rename_i h; rw [hm] at h; cases h
    · rename_i m' h
      rw [hm] at h
      injection h with h
      injection h with h
      subst h
      cases hbm : build env m with
      | panic s => simp [hbm, Out.isPanic] at hb
      | err e => rfl
      | ok t =>
        simp only
        cases hbr : buildKeys env n rest with
        | panic s => simp [hbr, Out.isPanic] at hrest
        | err e => rfl
        | ok kvs => rfl

theorem buildList_no_panic (env : Env) : ∀ (l : List Node), (∀ x ∈ l, (build env x).isPanic = false) →
    (buildList env l).isPanic = false
  | [], _ => by rw [buildList]; rfl
  | x :: xs, h => by
    have hx := h x (by simp)
    have hxs := buildList_no_panic env xs (fun y hy => h y (by simp [hy]))
    rw [buildList]
    cases hbx : build env x with
    | panic s => simp [hbx, Out.isPanic] at hx
    | err e => rfl
    | ok t =>
      simp only
      cases hbr : buildList env xs with
      | panic s => simp [hbr, Out.isPanic] at hxs
      | err e => rfl
      | ok ts => rfl

theorem wfList_mem : ∀ (l : List Node), wfList l = true → ∀ x ∈ l, x.wf = true
  | [], _, x, hx => by simp at hx
  | y :: ys, h, x, hx => by
    simp only [wfList, Bool.and_eq_true] at h
    rcases List.mem_cons.mp hx with rfl | hx'
    · exact h.1
    · exact wfList_mem ys h.2 x hx'

/-- `yamlBuildExpressions` does not panic on a well-formed node, whatever the expression parser does (strong induction on the size of the node) -/
theorem build_no_panic_aux (env : Env) : ∀ (k : Nat) (n : Node), sizeOf n ≤ k → n.wf = true → (build env n).isPanic = false := by
  intro k
  induction k with
  | zero =>
    intro n hk _
    cases n with
    | mk t tag cs v => simp at hk
  | succ k ihk =>
    intro n hk hwf
    have ih : ∀ m : Node, sizeOf m < sizeOf n → m.wf = true → (build env m).isPanic = false :=
      fun m hm hmwf => ihk m (by omega) hmwf
    rw [build.eq_def]
    split
    · exact buildExpression_no_panic env n
    · split
      · -- !oneof
        split
        · rfl
        · rename_i hmap
          have hmap : n.typeID = .map := by simpa using hmap
          obtain ⟨r1, hr1, hwf1⟩ := mapKey_wf "discriminator" hwf hmap
          split
          · rename_i h; rw [hr1] at h; cases h
          · rfl
          · split
            · rfl
            · split
              · rfl
              · obtain ⟨r2, hr2, hwf2⟩ := mapKey_wf "one_of" hwf hmap
                split
                · rename_i h; rw [hr2] at h; cases h
                · rfl
                · rename_i o ho
                  have howf : o.wf = true := hwf2 o (by rw [hr2] at ho; cases ho; rfl)
                  split
                  · rfl
                  · rename_i homap
                    have homap : o.typeID = .map := by simpa using homap
                    obtain ⟨ks, hks⟩ := mapKeys_wf howf homap
                    split
                    · rename_i h; rw [hks] at h; cases h
                    · rename_i keys hkeys
                      rw [hks] at hkeys
                      injection hkeys with hkeys
                      subst hkeys
                      rw [mapOk_isPanic]
                      have hlt : sizeOf o < sizeOf n := mapKey_sizeOf ho
                      exact buildKeys_no_panic env o howf homap
                        (fun m hm hmwf => ih m (by omega) hmwf) ks (mapKey_of_mapKeys howf homap hks)
      · split
        · exact buildOrDisabled_no_panic env n
        · split
          · exact buildOptional_no_panic env n
          · split
            · rfl
            · have hmap := @rfl _ TypeID.map
              obtain ⟨ks, hks⟩ := mapKeys_wf hwf rfl
              split
              · rename_i h; rw [hks] at h; cases h
              · rename_i keys hkeys
                rw [hks] at hkeys
                injection hkeys with hkeys
                subst hkeys
                rw [mapOk_isPanic]
                exact buildKeys_no_panic env _ hwf rfl ih ks (mapKey_of_mapKeys hwf rfl hks)
            · rw [mapOk_isPanic]
              have hcs := hwf
              simp only [Node.wf] at hcs
              apply buildList_no_panic
              intro x hx
              apply ih x _ (wfList_mem _ hcs x hx)
              have := List.sizeOf_lt_of_mem hx
              simp
              omega
            · rfl

theorem build_no_panic (env : Env) (n : Node) (hwf : n.wf = true) : (build env n).isPanic = false :=
  build_no_panic_aux env (sizeOf n) n (Nat.le_refl _) hwf

end Arca.Model.Yaml
