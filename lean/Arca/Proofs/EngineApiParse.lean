/-
Helper lemmas for C20 (Arca/Props/C20.lean): `SubworkflowCache`, `Parse`, `RunWorkflow`.
-/
import Arca.Proofs.EngineApi

namespace Arca.Proofs.EngineApi
open Arca.Model.EngineApi

/-- two folds agree when their step functions agree on the accumulators an invariant describes -/
theorem foldl_congr_inv {α β : Type} (F G : β → α → β) (Inv : β → Prop)
    (hFG : ∀ b a, Inv b → F b a = G b a) (hInv : ∀ b a, Inv b → Inv (G b a)) :
    ∀ (l : List α) (b : β), Inv b → l.foldl F b = l.foldl G b ∧ Inv (l.foldl G b) := by
  intro l
  induction l with
  | nil => intro b hb; exact ⟨rfl, hb⟩
  | cons x r ih =>
    intro b hb
    simp only [List.foldl_cons]
    rw [hFG b x hb]
    exact ih (G b x) (hInv b x hb)

/-- an invariant of the step function is an invariant of the fold -/
theorem foldl_inv {α β : Type} (F : β → α → β) (Inv : β → Prop) (h : ∀ b a, Inv b → Inv (F b a)) :
    ∀ (l : List α) (b : β), Inv b → Inv (l.foldl F b) := by
  intro l
  induction l with
  | nil => intro b hb; exact hb
  | cons x r ih => intro b hb; exact ih (F b x) (h b x hb)

/-! ### the root directories of the caches sub-workflow discovery collects

Every cache loaded from disk carries `filepath.Abs(rootDir)`.  Since the caller's files are followed without being
loaded, a workflow whose references are all supplied merges the caches collected so far, and `MergeFileCaches` of a list
of nil caches is a cache with the EMPTY root directory.  Such a cache only arises while nothing has been loaded yet, so
in every list that is merged the caches with the empty root come first: `Sorted`. -/

/-- every cache of the list carries the root directory string `a` -/
def AllRoot (a : String) (cs : List (Option FileCache)) : Prop := ∀ c, some c ∈ cs → c.rootDir = a

/-- caches with the empty root directory, then caches with the root directory `a` -/
def Sorted (a : String) (cs : List (Option FileCache)) : Prop :=
  ∃ pre post, cs = pre ++ post ∧ AllRoot "" pre ∧ AllRoot a post

theorem allRoot_nil (a : String) : AllRoot a [] := fun c hc => by cases hc

theorem sorted_nil (a : String) : Sorted a [] := ⟨[], [], rfl, allRoot_nil _, allRoot_nil _⟩

theorem allRoot_append {a : String} {l₁ l₂ : List (Option FileCache)} (h₁ : AllRoot a l₁) (h₂ : AllRoot a l₂) :
    AllRoot a (l₁ ++ l₂) := fun c hc => by
  rcases List.mem_append.mp hc with h | h
  · exact h₁ c h
  · exact h₂ c h

theorem allRoot_left {a : String} {l₁ l₂ : List (Option FileCache)} (h : AllRoot a (l₁ ++ l₂)) : AllRoot a l₁ :=
  fun c hc => h c (List.mem_append_left _ hc)

theorem allRoot_single {a : String} {c : FileCache} (h : c.rootDir = a) : AllRoot a [some c] := fun c' hc => by
  simp only [List.mem_singleton, Option.some.injEq] at hc
  subst hc
  exact h

theorem allRoot_none (a : String) : AllRoot a [none] := fun c hc => by simp at hc

theorem sorted_append_none {a : String} {cs : List (Option FileCache)} (h : Sorted a cs) : Sorted a (cs ++ [none]) := by
  obtain ⟨pre, post, he, h₁, h₂⟩ := h
  exact ⟨pre, post ++ [none], by rw [he, List.append_assoc], h₁, allRoot_append h₂ (allRoot_none a)⟩

theorem sorted_append_root {a : String} {cs : List (Option FileCache)} {c : FileCache} (h : Sorted a cs)
    (hc : c.rootDir = a) : Sorted a (cs ++ [some c]) := by
  obtain ⟨pre, post, he, h₁, h₂⟩ := h
  exact ⟨pre, post ++ [some c], by rw [he, List.append_assoc], h₁, allRoot_append h₂ (allRoot_single hc)⟩

theorem sorted_append_empty {a : String} {cs : List (Option FileCache)} {c : FileCache} (h : AllRoot "" cs)
    (hc : c.rootDir = "") : Sorted a (cs ++ [some c]) :=
  ⟨cs ++ [some c], [], by simp, allRoot_append h (allRoot_single hc), allRoot_nil a⟩

/-- caches that all carry the root directory string `a`, merged into an accumulator whose root is empty or `a`: the merge
    succeeds whatever `filepath.Abs` is; the root of the result is `a` if there is a non-nil cache, else the accumulator's -/
theorem mergeFrom_allRoot (abs : String → String) (a : String) (cs : List (Option FileCache)) (acc : FileCache)
    (hacc : acc.rootDir = "" ∨ acc.rootDir = a) (hcs : AllRoot a cs) :
    ∃ m, mergeFrom abs acc cs = .ok m ∧ ((∃ c, some c ∈ cs) → m.rootDir = a) ∧
      ((∀ c, ¬ some c ∈ cs) → m.rootDir = acc.rootDir) := by
  induction cs generalizing acc with
  | nil => exact ⟨acc, rfl, fun h => (by obtain ⟨c, hc⟩ := h; cases hc), fun _ => rfl⟩
  | cons x r ih =>
    have hr : AllRoot a r := fun c hc => hcs c (List.mem_cons_of_mem _ hc)
    cases x with
    | none =>
      obtain ⟨m, hm, h₁, h₂⟩ := ih acc hacc hr
      refine ⟨m, hm, fun h => ?_, fun hn => h₂ (fun c hc => hn c (List.mem_cons_of_mem _ hc))⟩
      obtain ⟨c, hc⟩ := h
      cases hc with
      | tail _ hc' => exact h₁ ⟨c, hc'⟩
    | some fc =>
      have hfc : fc.rootDir = a := hcs fc List.mem_cons_self
      have hstep := mergeStep_pass (abs := abs) (acc := acc) (fc := fc) (by
        cases hacc with
        | inl h0 => exact Or.inl h0
        | inr h1 => exact Or.inr ((sameDirectory_iff abs _ _).mpr (Or.inl (h1.trans hfc.symm))))
      obtain ⟨m, hm, h₁, h₂⟩ := ih { rootDir := fc.rootDir, files := putAll fc.files acc.files } (Or.inr hfc) hr
      refine ⟨m, by simp only [mergeFrom, hstep]; exact hm, fun _ => ?_, fun hn => absurd List.mem_cons_self (hn fc)⟩
      by_cases hex : ∃ c, some c ∈ r
      · exact h₁ hex
      · rw [h₂ (fun c hc => hex ⟨c, hc⟩)]
        exact hfc

/-- a `Sorted` list always merges (from an accumulator without root directory), whatever `filepath.Abs` is; the result
    carries the root directory `a` unless every cache of the list has the empty one -/
theorem mergeFrom_sorted (abs : String → String) (a : String) (cs : List (Option FileCache)) (acc : FileCache)
    (hacc : acc.rootDir = "") (hs : Sorted a cs) :
    ∃ m, mergeFrom abs acc cs = .ok m ∧ (m.rootDir = a ∨ (m.rootDir = "" ∧ AllRoot "" cs)) := by
  obtain ⟨pre, post, he, hpre, hpost⟩ := hs
  subst he
  obtain ⟨m₁, hm₁, a₁, b₁⟩ := mergeFrom_allRoot abs "" pre acc (Or.inl hacc) hpre
  have hroot₁ : m₁.rootDir = "" := by
    by_cases hex : ∃ c, some c ∈ pre
    · exact a₁ hex
    · rw [b₁ (fun c hc => hex ⟨c, hc⟩)]
      exact hacc
  obtain ⟨m₂, hm₂, a₂, b₂⟩ := mergeFrom_allRoot abs a post m₁ (Or.inl hroot₁) hpost
  refine ⟨m₂, by rw [mergeFrom_append, hm₁]; exact hm₂, ?_⟩
  by_cases hex : ∃ c, some c ∈ post
  · exact Or.inl (a₂ hex)
  · refine Or.inr ⟨by rw [b₂ (fun c hc => hex ⟨c, hc⟩)]; exact hroot₁, fun c hc => ?_⟩
    rcases List.mem_append.mp hc with h | h
    · exact hpre c h
    · exact absurd ⟨c, h⟩ hex

/-- the merge of a `Sorted` list does not depend on `filepath.Abs` -/
theorem mergeFrom_sorted_indep (f g : String → String) (a : String) (cs : List (Option FileCache)) (acc : FileCache)
    (hacc : acc.rootDir = "") (hs : Sorted a cs) : mergeFrom f acc cs = mergeFrom g acc cs := by
  obtain ⟨pre, post, he, hpre, hpost⟩ := hs
  subst he
  rw [mergeFrom_append, mergeFrom_append, mergeFrom_allRoot_indep f g "" pre acc (Or.inl hacc) hpre]
  obtain ⟨m₁, hm₁, a₁, b₁⟩ := mergeFrom_allRoot g "" pre acc (Or.inl hacc) hpre
  have hroot₁ : m₁.rootDir = "" := by
    by_cases hex : ∃ c, some c ∈ pre
    · exact a₁ hex
    · rw [b₁ (fun c hc => hex ⟨c, hc⟩)]
      exact hacc
  rw [hm₁]
  exact mergeFrom_allRoot_indep f g a post m₁ (Or.inl hroot₁) hpost

/-- what a recursive call of the discovery guarantees about the root directory of its result, given the list of caches it
    was handed: the absolute root, or the empty one while nothing has been loaded -/
def RootOk (a : String) (caches : List (Option FileCache)) (sc : FileCache) : Prop :=
  sc.rootDir = a ∨ (sc.rootDir = "" ∧ AllRoot "" caches)

/-- invariant of the two loops of `subworkflowCache`: the list stays `Sorted` and only grows -/
def LoopInv (a : String) (caches : List (Option FileCache)) : Except Err (List (Option FileCache)) → Prop
  | .ok cs => Sorted a cs ∧ ∃ extra, cs = caches ++ extra
  | .error _ => True

/-- the hypothesis about the recursive calls -/
def RecurRootOk (a : String) (recur : Wf → List (Option FileCache) → List String → Except Err (Option FileCache)) : Prop :=
  ∀ w cs p sc, Sorted a cs → recur w cs p = .ok (some sc) → RootOk a cs sc

theorem loopInv_append_some {a : String} {caches cs : List (Option FileCache)} {sc : FileCache}
    (hb : LoopInv a caches (.ok cs)) (hsc : RootOk a cs sc) : LoopInv a caches (.ok (cs ++ [some sc])) := by
  obtain ⟨hs, extra, he⟩ := hb
  refine ⟨?_, extra ++ [some sc], by rw [he, List.append_assoc]⟩
  rcases hsc with h | ⟨h0, hall⟩
  · exact sorted_append_root hs h
  · exact sorted_append_empty hall h0

section
variable {P I D : Type}

theorem visitStep_inv (env : Env P I D) (a : String) (caches : List (Option FileCache))
    (recur : Wf → List (Option FileCache) → List String → Except Err (Option FileCache)) (parents : List String)
    (hrecur : RecurRootOk a recur) (b : Except Err (List (Option FileCache))) (kv : String × CtxFile)
    (hb : LoopInv a caches b) : LoopInv a caches (visitStep env recur parents b kv) := by
  cases b with
  | error e => exact trivial
  | ok cs =>
    simp only [visitStep]
    split
    · exact trivial
    · split
      · exact trivial
      · rename_i subwf _
        cases hr : recur subwf cs (parents ++ [kv.2.absPath]) with
        | error e => exact trivial
        | ok fc =>
          cases fc with
          | none =>
            obtain ⟨hs, extra, he⟩ := hb
            exact ⟨sorted_append_none hs, extra ++ [none], by rw [he, List.append_assoc]⟩
          | some sc => exact loopInv_append_some hb (hrecur _ _ _ _ hb.1 hr)

theorem visitSupplied_inv (env : Env P I D) (a : String) (caches : List (Option FileCache)) (sup : FileCache)
    (recur : Wf → List (Option FileCache) → List String → Except Err (Option FileCache)) (parents : List String)
    (hrecur : RecurRootOk a recur) (b : Except Err (List (Option FileCache))) (path : String)
    (hb : LoopInv a caches b) : LoopInv a caches (visitSupplied env sup recur parents b path) := by
  cases b with
  | error e => exact trivial
  | ok cs =>
    simp only [visitSupplied]
    split
    · exact hb
    · split
      · exact trivial
      · split
        · exact trivial
        · rename_i subwf _
          cases hr : recur subwf cs (parents ++ [path]) with
          | error e => exact trivial
          | ok fc =>
            cases fc with
            | none => exact hb
            | some sc => exact loopInv_append_some hb (hrecur _ _ _ _ hb.1 hr)

theorem suppliedLoop_inv (env : Env P I D) (a : String) (caches : List (Option FileCache)) (supplied : Option FileCache)
    (recur : Wf → List (Option FileCache) → List String → Except Err (Option FileCache)) (parents : List String)
    (hrecur : RecurRootOk a recur) (refs : List String) (hs : Sorted a caches) :
    LoopInv a caches (suppliedLoop env supplied recur parents caches refs) := by
  cases supplied with
  | none => exact ⟨hs, [], by simp⟩
  | some sup =>
    exact foldl_inv _ (LoopInv a caches) (visitSupplied_inv env a caches sup recur parents hrecur) refs _ ⟨hs, [], by simp⟩

/-- a sub-workflow cache, when there is one, carries the absolute spelling of the root directory — or, when it is the
    merge of caches none of which was loaded, the empty one -/
theorem subworkflowCache_root (env : Env P I D) (rootDir : String) (supplied : Option FileCache) (fuel : Nat) :
    ∀ (wf : Wf) (caches : List (Option FileCache)) (parents : List String) (sc : FileCache),
    Sorted (env.abs rootDir) caches →
    subworkflowCache env fuel wf rootDir caches parents supplied = .ok (some sc) →
    RootOk (env.abs rootDir) caches sc := by
  induction fuel with
  | zero => intro wf caches parents sc _ h; simp [subworkflowCache] at h
  | succ n ih =>
    intro wf caches parents sc hs h
    have hrecur : RecurRootOk (env.abs rootDir) (fun w c p => subworkflowCache env n w rootDir c p supplied) :=
      fun w cs p sc hcs hr => ih w cs p sc hcs hr
    have hloop := suppliedLoop_inv env (env.abs rootDir) caches supplied _ parents hrecur wf.refs hs
    simp only [subworkflowCache] at h
    split at h
    · cases h
    · rename_i caches₀ hsl
      rw [hsl] at hloop
      obtain ⟨hs₀, extra, he⟩ := hloop
      split at h
      · split at h
        · cases h
        · split at h
          · cases h
          · rename_i m hm
            cases h
            obtain ⟨m', hm', hroot⟩ := mergeFrom_sorted env.abs (env.abs rootDir) caches₀ { rootDir := "", files := [] } rfl hs₀
            have : m' = sc := by
              have := hm'.symm.trans hm
              cases this
              rfl
            subst this
            rcases hroot with h | ⟨h0, hall⟩
            · exact Or.inl h
            · exact Or.inr ⟨h0, allRoot_left (he ▸ hall)⟩
      · split at h
        · cases h
        · rename_i stepCache hload
          split at h
          · cases h
          · rename_i cs hvisit
            split at h
            · cases h
            · rename_i m hm
              cases h
              refine Or.inl ?_
              rw [mergeFrom_append_root env.abs cs stepCache _ _ hm]
              exact (loadCache_spec env rootDir _ stepCache hload).1

/-- a workflow without foreach steps, with nothing collected so far, has no sub-workflow cache -/
theorem subworkflowCache_no_refs (env : Env P I D) (fuel : Nat) (wf : Wf) (rootDir : String)
    (parents : List String) (supplied : Option FileCache) (h : wf.refs = []) :
    subworkflowCache env (fuel + 1) wf rootDir [] parents supplied = .ok none := by
  cases supplied <;> simp [subworkflowCache, suppliedLoop, remaining, h]

/-- the same environment with another `filepath.Abs` (another working directory) -/
def withAbs (env : Env P I D) (f : String → String) : Env P I D :=
  { env with abs := f }

theorem loadCache_withAbs (env : Env P I D) (f g : String → String) (rootDir : String) (paths : List String)
    (h : f rootDir = g rootDir) :
    loadCache (withAbs env f) rootDir paths = loadCache (withAbs env g) rootDir paths := by
  unfold loadCache resolve withAbs
  simp only []
  rw [h]

/-- sub-workflow discovery consults `filepath.Abs` for the root directory only (the lists of caches it merges are
    `Sorted`: `sameDirectory` is only asked about two equal strings) -/
theorem subworkflowCache_withAbs (env : Env P I D) (f g : String → String) (rootDir : String) (h : f rootDir = g rootDir)
    (supplied : Option FileCache) (fuel : Nat) : ∀ (wf : Wf) (caches : List (Option FileCache)) (parents : List String),
    Sorted (g rootDir) caches →
    subworkflowCache (withAbs env f) fuel wf rootDir caches parents supplied =
      subworkflowCache (withAbs env g) fuel wf rootDir caches parents supplied := by
  induction fuel with
  | zero => intro wf caches parents _; rfl
  | succ n ih =>
    intro wf caches parents hall
    have hrecur : RecurRootOk (g rootDir) (fun w c p => subworkflowCache (withAbs env g) n w rootDir c p supplied) :=
      fun w cs p sc hcs hr => subworkflowCache_root (withAbs env g) rootDir supplied n w cs p sc hcs hr
    -- the loop over the supplied files
    have hsup : suppliedLoop (withAbs env f) supplied (fun w c p => subworkflowCache (withAbs env f) n w rootDir c p supplied)
          parents caches wf.refs =
        suppliedLoop (withAbs env g) supplied (fun w c p => subworkflowCache (withAbs env g) n w rootDir c p supplied)
          parents caches wf.refs := by
      cases supplied with
      | none => rfl
      | some sup =>
        exact (foldl_congr_inv
          (visitSupplied (withAbs env f) sup (fun w c p => subworkflowCache (withAbs env f) n w rootDir c p (some sup)) parents)
          (visitSupplied (withAbs env g) sup (fun w c p => subworkflowCache (withAbs env g) n w rootDir c p (some sup)) parents)
          (LoopInv (g rootDir) caches)
          (by
            intro b path hb
            cases b with
            | error e => rfl
            | ok cs =>
              simp only [visitSupplied]
              rw [show (withAbs env f).fromYAML = (withAbs env g).fromYAML from rfl]
              split
              · rfl
              · split
                · rfl
                · split
                  · rfl
                  · rw [ih _ cs _ hb.1])
          (visitSupplied_inv (withAbs env g) (g rootDir) caches sup _ parents hrecur)
          wf.refs (.ok caches) ⟨hall, [], by simp⟩).1
    have hloop := suppliedLoop_inv (withAbs env g) (g rootDir) caches supplied _ parents hrecur wf.refs hall
    simp only [subworkflowCache, hsup, loadCache_withAbs env f g rootDir _ h]
    split
    · rfl
    · rename_i caches₀ hsl
      rw [hsl] at hloop
      obtain ⟨hs₀, _, _⟩ := hloop
      split
      · split
        · rfl
        · have hm : mergeFileCaches (withAbs env f).abs caches₀ = mergeFileCaches (withAbs env g).abs caches₀ :=
            mergeFrom_sorted_indep _ _ (g rootDir) _ { rootDir := "", files := [] } rfl hs₀
          simp only [hm]
      · split
        · rfl
        · rename_i stepCache hload
          have hsc : stepCache.rootDir = g rootDir := (loadCache_spec (withAbs env g) rootDir _ stepCache hload).1
          have key := foldl_congr_inv
            (visitStep (withAbs env f) (fun w c p => subworkflowCache (withAbs env f) n w rootDir c p supplied) parents)
            (visitStep (withAbs env g) (fun w c p => subworkflowCache (withAbs env g) n w rootDir c p supplied) parents)
            (LoopInv (g rootDir) caches₀)
            (by
              intro b kv hb
              cases b with
              | error e => rfl
              | ok cs =>
                simp only [visitStep]
                rw [show (withAbs env f).fromYAML = (withAbs env g).fromYAML from rfl]
                split
                · rfl
                · split
                  · rfl
                  · rw [ih _ cs _ hb.1])
            (visitStep_inv (withAbs env g) (g rootDir) caches₀ _ parents hrecur)
            stepCache.files (.ok caches₀) ⟨hs₀, [], by simp⟩
          rw [key.1]
          cases hv : List.foldl (visitStep (withAbs env g) (fun w c p => subworkflowCache (withAbs env g) n w rootDir c p supplied) parents)
              (.ok caches₀) stepCache.files with
          | error e => rfl
          | ok cs' =>
            have hinv : Sorted (g rootDir) cs' := by
              have := key.2
              rw [hv] at this
              exact this.1
            have hm : mergeFileCaches (withAbs env f).abs (cs' ++ [some stepCache]) =
                mergeFileCaches (withAbs env g).abs (cs' ++ [some stepCache]) :=
              mergeFrom_sorted_indep _ _ (g rootDir) _ { rootDir := "", files := [] } rfl (sorted_append_root hinv hsc)
            simp only [hm]

/-- sub-workflow discovery depends on the root directory through its `filepath.Abs` only -/
theorem loadCache_root_congr (env : Env P I D) (r₁ r₂ : String) (paths : List String) (h : env.abs r₁ = env.abs r₂) :
    loadCache env r₁ paths = loadCache env r₂ paths := by
  unfold loadCache
  simp only []
  rw [h]

theorem subworkflowCache_root_congr (env : Env P I D) (r₁ r₂ : String) (h : env.abs r₁ = env.abs r₂)
    (supplied : Option FileCache) (fuel : Nat) :
    ∀ (wf : Wf) (caches : List (Option FileCache)) (parents : List String),
    subworkflowCache env fuel wf r₁ caches parents supplied = subworkflowCache env fuel wf r₂ caches parents supplied := by
  induction fuel with
  | zero => intro wf caches parents; rfl
  | succ n ih =>
    intro wf caches parents
    simp only [subworkflowCache, loadCache_root_congr env r₁ r₂ _ h, ih]

/-- the discovery reads the files of the supplied cache only, not its root directory -/
theorem subworkflowCache_supplied_congr (env : Env P I D) (s₁ s₂ : FileCache) (h : s₁.files = s₂.files) (rootDir : String)
    (fuel : Nat) : ∀ (wf : Wf) (caches : List (Option FileCache)) (parents : List String),
    subworkflowCache env fuel wf rootDir caches parents (some s₁) =
      subworkflowCache env fuel wf rootDir caches parents (some s₂) := by
  induction fuel with
  | zero => intro wf caches parents; rfl
  | succ n ih =>
    intro wf caches parents
    have hv : ∀ recur, visitSupplied env s₁ recur parents = visitSupplied env s₂ recur parents := by
      intro recur
      funext acc path
      simp only [visitSupplied, h]
    simp only [subworkflowCache, suppliedLoop, remaining, h, hv, ih]
    rfl

/-- `filepath.Abs` of an absolute path is that path (cleaned): a property of the real function, a hypothesis here -/
def AbsIdempotent (env : Env P I D) : Prop := ∀ s, env.abs (env.abs s) = env.abs s

/-- a run without error: input decoded, `Execute` returned a declared output, the flag is `classify` -/
theorem run_ok (env : Env P I D) (wf : Wf) (p : P) (input : String) (h : (run env wf p input).err = none) :
    ∃ i id d, env.decodeInput input = some i ∧ env.execute p i = some (id, d) ∧ wf.outputs.contains id = true ∧
      run env wf p input =
        { outputID := id, data := some d, isError := classify (declaredFlag wf id) id, err := none } := by
  unfold run at h
  split at h
  · simp [errResult] at h
  · rename_i i hi
    split at h
    · simp [errResult] at h
    · rename_i id d he
      split at h
      · rename_i hc
        refine ⟨i, id, d, hi, he, hc, ?_⟩
        unfold run
        simp only [hi, he]
        rw [if_pos hc]
      · simp [errResult] at h

/-- a run with an error is `("", nil, true, err)` -/
theorem run_err (env : Env P I D) (wf : Wf) (p : P) (input : String) (e : Err) (h : (run env wf p input).err = some e) :
    run env wf p input = errResult e := by
  unfold run at h ⊢
  split at h
  · simp only [errResult, Option.some.injEq] at h
    subst h
    rfl
  · split at h
    · simp only [errResult, Option.some.injEq] at h
      subst h
      rfl
    · split at h
      · cases h
      · rename_i hc
        simp only [errResult, Option.some.injEq] at h
        subst h
        rw [if_neg hc]

end

end Arca.Proofs.EngineApi
