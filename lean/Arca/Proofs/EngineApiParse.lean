/-
Helper lemmas for C20 (Arca/Props/C20.lean): `SubworkflowCache`, `Parse`, `RunWorkflow`.
-/
import Arca.Proofs.EngineApi

namespace Arca.Proofs.EngineApi
open Arca.Model.EngineApi

section
variable {P I D : Type}

/-- a sub-workflow cache, when there is one, carries the absolute spelling of the root directory -/
theorem subworkflowCache_root (env : Env P I D) (fuel : Nat) (wf : Wf) (rootDir : String)
    (caches : List (Option FileCache)) (parents : List String) (sc : FileCache)
    (h : subworkflowCache env fuel wf rootDir caches parents = .ok (some sc)) :
    sc.rootDir = env.abs rootDir := by
  cases fuel with
  | zero => simp [subworkflowCache] at h
  | succ n =>
    simp only [subworkflowCache] at h
    split at h
    · cases h
    · split at h
      · cases h
      · rename_i stepCache hload
        split at h
        · cases h
        · rename_i cs hvisit
          split at h
          · cases h
          · rename_i m hm
            cases h
            have := mergeFrom_append_root env.abs cs stepCache _ _ hm
            rw [this]
            exact (loadCache_spec env rootDir wf.refs stepCache hload).1

/-- a workflow without foreach steps has no sub-workflow cache -/
theorem subworkflowCache_no_refs (env : Env P I D) (fuel : Nat) (wf : Wf) (rootDir : String)
    (caches : List (Option FileCache)) (parents : List String) (h : wf.refs = []) :
    subworkflowCache env (fuel + 1) wf rootDir caches parents = .ok none := by
  simp [subworkflowCache, h]

/-- two folds agree when their step functions agree on the accumulators an invariant describes -/
theorem foldl_congr_inv {α β : Type} (F G : β → α → β) (Inv : β → Prop)
    (hFG : ∀ b a, Inv b → F b a = G b a) (hInv : ∀ b a, Inv b → Inv (G b a)) :
    ∀ (l : List α) (b : β), Inv b → l.foldl F b = l.foldl G b ∧ Inv (l.foldl G b) := by
  intro l
  induction l with
  | nil => intro b hb; exact ⟨rfl, hb⟩
  | cons x r ih =>
    intro b hb
    simp only [List.foldl_cons]
    rw [hFG b x hb]
    exact ih (G b x) (hInv b x hb)

/-- every cache of the list carries the root directory string `a` -/
def AllRoot (a : String) (cs : List (Option FileCache)) : Prop := ∀ c, some c ∈ cs → c.rootDir = a

/-- invariant of the visit loop -/
def VisitInv (a : String) : Except Err (List (Option FileCache)) → Prop
  | .ok cs => AllRoot a cs
  | .error _ => True

/-- the same environment with another `filepath.Abs` (another working directory) -/
def withAbs (env : Env P I D) (f : String → String) : Env P I D :=
  { env with abs := f }

theorem loadCache_withAbs (env : Env P I D) (f g : String → String) (rootDir : String) (paths : List String)
    (h : f rootDir = g rootDir) :
    loadCache (withAbs env f) rootDir paths = loadCache (withAbs env g) rootDir paths := by
  unfold loadCache resolve withAbs
  simp only []
  rw [h]

/-- sub-workflow discovery consults `filepath.Abs` for the root directory only (all the caches it merges carry the
    same root directory string, for which `sameDirectory` needs no `filepath.Abs`) -/
theorem subworkflowCache_withAbs (env : Env P I D) (f g : String → String) (rootDir : String) (h : f rootDir = g rootDir)
    (fuel : Nat) : ∀ (wf : Wf) (caches : List (Option FileCache)) (parents : List String),
    AllRoot (g rootDir) caches →
    subworkflowCache (withAbs env f) fuel wf rootDir caches parents =
      subworkflowCache (withAbs env g) fuel wf rootDir caches parents := by
  induction fuel with
  | zero => intro wf caches parents _; rfl
  | succ n ih =>
    intro wf caches parents hall
    simp only [subworkflowCache, loadCache_withAbs env f g rootDir wf.refs h]
    split
    · rfl
    · split
      · rfl
      · rename_i stepCache hload
        have hsc : stepCache.rootDir = g rootDir := (loadCache_spec (withAbs env g) rootDir wf.refs stepCache hload).1
        have key := foldl_congr_inv
          (visitStep (withAbs env f) (fun w c p => subworkflowCache (withAbs env f) n w rootDir c p) parents)
          (visitStep (withAbs env g) (fun w c p => subworkflowCache (withAbs env g) n w rootDir c p) parents)
          (VisitInv (g rootDir))
          (by
            intro b kv hb
            cases b with
            | error e => rfl
            | ok cs =>
              simp only [visitStep]
              rw [show (withAbs env f).fromYAML = (withAbs env g).fromYAML from rfl]
              split
              · rfl
              · split
                · rfl
                · rw [ih _ cs _ hb])
          (by
            intro b kv hb
            cases b with
            | error e => exact trivial
            | ok cs =>
              simp only [visitStep]
              split
              · exact trivial
              · split
                · exact trivial
                · rename_i subwf _
                  cases hr : subworkflowCache (withAbs env g) n subwf rootDir cs (parents ++ [kv.2.absPath]) with
                  | error e => exact trivial
                  | ok fc =>
                    intro c hc
                    rcases List.mem_append.mp hc with hc | hc
                    · exact hb c hc
                    · simp only [List.mem_singleton] at hc
                      subst hc
                      exact subworkflowCache_root (withAbs env g) n subwf rootDir cs _ c hr)
          stepCache.files (.ok caches) hall
        rw [key.1]
        cases hv : List.foldl (visitStep (withAbs env g) (fun w c p => subworkflowCache (withAbs env g) n w rootDir c p) parents)
            (.ok caches) stepCache.files with
        | error e => rfl
        | ok cs' =>
          have hinv : AllRoot (g rootDir) cs' := by
            have := key.2
            rw [hv] at this
            exact this
          have hm : mergeFileCaches (withAbs env f).abs (cs' ++ [some stepCache]) =
              mergeFileCaches (withAbs env g).abs (cs' ++ [some stepCache]) :=
            mergeFrom_allRoot_indep _ _ (g rootDir) _ _ (Or.inl rfl) (by
              intro c hc
              rcases List.mem_append.mp hc with hc | hc
              · exact hinv c hc
              · simp only [List.mem_singleton, Option.some.injEq] at hc
                subst hc
                exact hsc)
          simp only [hm]

/-- sub-workflow discovery depends on the root directory through its `filepath.Abs` only -/
theorem loadCache_root_congr (env : Env P I D) (r₁ r₂ : String) (paths : List String) (h : env.abs r₁ = env.abs r₂) :
    loadCache env r₁ paths = loadCache env r₂ paths := by
  unfold loadCache
  simp only []
  rw [h]

theorem subworkflowCache_root_congr (env : Env P I D) (r₁ r₂ : String) (h : env.abs r₁ = env.abs r₂) (fuel : Nat) :
    ∀ (wf : Wf) (caches : List (Option FileCache)) (parents : List String),
    subworkflowCache env fuel wf r₁ caches parents = subworkflowCache env fuel wf r₂ caches parents := by
  induction fuel with
  | zero => intro wf caches parents; rfl
  | succ n ih =>
    intro wf caches parents
    simp only [subworkflowCache, loadCache_root_congr env r₁ r₂ wf.refs h, ih]

/-- `filepath.Abs` of an absolute path is that path (cleaned): a property of the real function, a hypothesis here -/
def AbsIdempotent (env : Env P I D) : Prop := ∀ s, env.abs (env.abs s) = env.abs s

/-- a run without error: input decoded, `Execute` returned a declared output, the flag is `classify` -/
theorem run_ok (env : Env P I D) (wf : Wf) (p : P) (input : String) (h : (run env wf p input).err = none) :
    ∃ i id d, env.decodeInput input = some i ∧ env.execute p i = some (id, d) ∧ wf.outputs.contains id = true ∧
      run env wf p input =
        { outputID := id, data := some d, isError := classify (declaredFlag wf id) id, err := none } := by
  unfold run at h
  split at h
  · simp [errResult] at h
  · rename_i i hi
    split at h
    · simp [errResult] at h
    · rename_i id d he
      split at h
      · rename_i hc
        refine ⟨i, id, d, hi, he, hc, ?_⟩
        unfold run
        simp only [hi, he]
        rw [if_pos hc]
      · simp [errResult] at h

/-- a run with an error is `("", nil, true, err)` -/
theorem run_err (env : Env P I D) (wf : Wf) (p : P) (input : String) (e : Err) (h : (run env wf p input).err = some e) :
    run env wf p input = errResult e := by
  unfold run at h ⊢
  split at h
  · simp only [errResult, Option.some.injEq] at h
    subst h
    rfl
  · split at h
    · simp only [errResult, Option.some.injEq] at h
      subst h
      rfl
    · split at h
      · cases h
      · rename_i hc
        simp only [errResult, Option.some.injEq] at h
        subst h
        rw [if_neg hc]

end

end Arca.Proofs.EngineApi
