/-
Helper lemmas for C20 (Arca/Props/C20.lean): `SubworkflowCache`, `Parse`, `RunWorkflow`.
-/
import Arca.Proofs.EngineApi

namespace Arca.Proofs.EngineApi
open Arca.Model.EngineApi

section
variable {P I D : Type}

/-- a sub-workflow cache, when there is one, carries the absolute spelling of the root directory -/
theorem subworkflowCache_root (env : Env P I D) (fuel : Nat) (wf : Wf) (rootDir : String)
    (caches : List (Option FileCache)) (parents : List String) (sc : FileCache)
    (h : subworkflowCache env fuel wf rootDir caches parents = .ok (some sc)) :
    sc.rootDir = env.abs rootDir := by
  cases fuel with
  | zero => simp [subworkflowCache] at h
  | succ n =>
    simp only [subworkflowCache] at h
    split at h
    · cases h
    · split at h
      · cases h
      · rename_i stepCache hload
        split at h
        · cases h
        · rename_i cs hvisit
          split at h
          · cases h
          · rename_i m hm
            cases h
            have := mergeFrom_append_root cs stepCache _ _ hm
            rw [this]
            exact (loadCache_spec env rootDir wf.refs stepCache hload).1

/-- a workflow without foreach steps has no sub-workflow cache -/
theorem subworkflowCache_no_refs (env : Env P I D) (fuel : Nat) (wf : Wf) (rootDir : String)
    (caches : List (Option FileCache)) (parents : List String) (h : wf.refs = []) :
    subworkflowCache env (fuel + 1) wf rootDir caches parents = .ok none := by
  simp [subworkflowCache, h]

/-- the same environment with another `filepath.Abs` (another working directory) -/
def withAbs (env : Env P I D) (f : String → String) : Env P I D :=
  { env with abs := f }

theorem loadCache_withAbs (env : Env P I D) (f g : String → String) (rootDir : String) (paths : List String)
    (h : f rootDir = g rootDir) :
    loadCache (withAbs env f) rootDir paths = loadCache (withAbs env g) rootDir paths := by
  unfold loadCache resolve withAbs
  simp only []
  rw [h]

/-- sub-workflow discovery consults `filepath.Abs` for the root directory only -/
theorem subworkflowCache_withAbs (env : Env P I D) (f g : String → String) (rootDir : String) (h : f rootDir = g rootDir)
    (fuel : Nat) : ∀ (wf : Wf) (caches : List (Option FileCache)) (parents : List String),
    subworkflowCache (withAbs env f) fuel wf rootDir caches parents =
      subworkflowCache (withAbs env g) fuel wf rootDir caches parents := by
  induction fuel with
  | zero => intro wf caches parents; rfl
  | succ n ih =>
    intro wf caches parents
    simp only [subworkflowCache, loadCache_withAbs env f g rootDir wf.refs h, ih]
    rfl

/-- a run without error: input decoded, `Execute` returned a declared output, the flag is `classify` -/
theorem run_ok (env : Env P I D) (wf : Wf) (p : P) (input : String) (h : (run env wf p input).err = none) :
    ∃ i id d, env.decodeInput input = some i ∧ env.execute p i = some (id, d) ∧ wf.outputs.contains id = true ∧
      run env wf p input =
        { outputID := id, data := some d, isError := classify (declaredFlag wf id) id, err := none } := by
  unfold run at h
  split at h
  · simp [errResult] at h
  · rename_i i hi
    split at h
    · simp [errResult] at h
    · rename_i id d he
      split at h
      · rename_i hc
        refine ⟨i, id, d, hi, he, hc, ?_⟩
        unfold run
        simp only [hi, he]
        rw [if_pos hc]
      · simp [errResult] at h

/-- a run with an error is `("", nil, true, err)` -/
theorem run_err (env : Env P I D) (wf : Wf) (p : P) (input : String) (e : Err) (h : (run env wf p input).err = some e) :
    run env wf p input = errResult e := by
  unfold run at h ⊢
  split at h
  · simp only [errResult, Option.some.injEq] at h
    subst h
    rfl
  · split at h
    · simp only [errResult, Option.some.injEq] at h
      subst h
      rfl
    · split at h
      · cases h
      · rename_i hc
        simp only [errResult, Option.some.injEq] at h
        subst h
        rw [if_neg hc]

end

end Arca.Proofs.EngineApi
