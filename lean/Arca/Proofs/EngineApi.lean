/-
Helper lemmas for C20 (Arca/Props/C20.lean): association lists, `MergeFileCaches`, caches loaded from disk.
-/
import Arca.Model.EngineApi

namespace Arca.Proofs.EngineApi
open Arca.Model.EngineApi

instance {α : Type} [DecidableEq α] : DecidableEq (Except Err α) := fun a b =>
  match a, b with
  | .ok x, .ok y => if h : x = y then isTrue (by rw [h]) else isFalse (fun h' => by cases h'; exact h rfl)
  | .error x, .error y => if h : x = y then isTrue (by rw [h]) else isFalse (fun h' => by cases h'; exact h rfl)
  | .ok _, .error _ => isFalse (fun h => by cases h)
  | .error _, .ok _ => isFalse (fun h => by cases h)

/-! ### association lists -/

theorem getFile_putFile (k k' : String) (v : CtxFile) (m : Files) :
    getFile k (putFile k' v m) = if k' = k then some v else getFile k m := by
  induction m with
  | nil => simp [putFile, getFile]
  | cons hd tl ih =>
    obtain ⟨a, b⟩ := hd
    simp only [putFile]
    by_cases h : a = k'
    · subst h
      by_cases h2 : a = k <;> simp [getFile, h2]
    · simp only [h, if_false, getFile]
      by_cases h2 : a = k
      · subst h2
        simp [Ne.symm h]
      · simp [h2, ih]

/-- copying `src` into `dst`: keys of `src` win, the others keep the entry of `dst` -/
theorem getFile_putAll (k : String) (src dst : Files) :
    getFile k (putAll src dst) = match getFile k src with
      | some v => some v
      | none => getFile k dst := by
  induction src with
  | nil => simp [putAll, getFile]
  | cons hd tl ih =>
    obtain ⟨a, b⟩ := hd
    have : putAll ((a, b) :: tl) dst = putFile a b (putAll tl dst) := rfl
    rw [this, getFile_putFile]
    by_cases h : a = k
    · simp [getFile, h]
    · simp only [h, if_false, getFile]
      exact ih

/-! ### MergeFileCaches -/

theorem sameDirectory_iff (abs : String → String) (a b : String) :
    sameDirectory abs a b = true ↔ (a = b ∨ abs a = abs b) := by
  simp [sameDirectory]

theorem sameDirectory_abs {abs : String → String} {a b : String} (h : sameDirectory abs a b = true) : abs a = abs b := by
  rcases (sameDirectory_iff abs a b).mp h with h | h
  · rw [h]
  · exact h

theorem mergeStep_ok {abs : String → String} {acc fc m : FileCache} (h : mergeStep abs acc fc = .ok m) :
    (acc.rootDir = "" ∨ sameDirectory abs acc.rootDir fc.rootDir = true) ∧ m.rootDir = fc.rootDir ∧
      m.files = putAll fc.files acc.files := by
  unfold mergeStep at h
  split at h
  · cases h
  · rename_i hc
    cases h
    refine ⟨?_, rfl, rfl⟩
    by_cases h1 : acc.rootDir = ""
    · exact Or.inl h1
    · cases h2 : sameDirectory abs acc.rootDir fc.rootDir with
      | true => exact Or.inr rfl
      | false => exact absurd ⟨h1, h2⟩ hc

theorem mergeStep_error {abs : String → String} {acc fc : FileCache} {e : Err} (h : mergeStep abs acc fc = .error e) :
    e = .rootMismatch ∧ acc.rootDir ≠ "" ∧ sameDirectory abs acc.rootDir fc.rootDir = false := by
  unfold mergeStep at h
  split at h
  · rename_i hc
    cases h
    exact ⟨rfl, hc⟩
  · cases h

/-- a step whose check passes -/
theorem mergeStep_pass {abs : String → String} {acc fc : FileCache}
    (h : acc.rootDir = "" ∨ sameDirectory abs acc.rootDir fc.rootDir = true) :
    mergeStep abs acc fc = .ok { rootDir := fc.rootDir, files := putAll fc.files acc.files } := by
  unfold mergeStep
  split
  · rename_i hc
    cases h with
    | inl h0 => exact absurd h0 hc.1
    | inr h1 => rw [h1] at hc; exact absurd hc.2 (by simp)
  · rfl

/-- the only error of a merge is the root-directory mismatch -/
theorem mergeFrom_error (abs : String → String) (cs : List (Option FileCache)) (acc : FileCache) (e : Err)
    (h : mergeFrom abs acc cs = .error e) : e = .rootMismatch := by
  induction cs generalizing acc with
  | nil => cases h
  | cons c r ih =>
    cases c with
    | none => exact ih acc h
    | some fc =>
      simp only [mergeFrom] at h
      cases hs : mergeStep abs acc fc with
      | error e' =>
        rw [hs] at h
        cases h
        exact (mergeStep_error hs).1
      | ok acc' =>
        rw [hs] at h
        exact ih acc' h

/-- last writer wins: the merged entry of `k` is the one of the last cache that has the key, else the accumulator's -/
theorem mergeFrom_getFile (abs : String → String) (k : String) (cs : List (Option FileCache)) (acc m : FileCache)
    (h : mergeFrom abs acc cs = .ok m) :
    getFile k m.files = match lastWins k cs with
      | some v => some v
      | none => getFile k acc.files := by
  induction cs generalizing acc with
  | nil =>
    cases h
    simp [lastWins]
  | cons c r ih =>
    cases c with
    | none => exact ih acc h
    | some fc =>
      simp only [mergeFrom] at h
      cases hs : mergeStep abs acc fc with
      | error e' => rw [hs] at h; cases h
      | ok acc' =>
        rw [hs] at h
        have := ih acc' h
        rw [this]
        simp only [lastWins]
        cases hl : lastWins k r with
        | some v => rfl
        | none =>
          simp only
          rw [(mergeStep_ok hs).2.2, getFile_putAll]

/-- a successful merge of caches that all carry a non-empty root directory: every root directory involved denotes the
    directory of the result (same `filepath.Abs`) -/
theorem mergeFrom_roots (abs : String → String) (cs : List (Option FileCache)) (acc m : FileCache)
    (hne : ∀ c, some c ∈ cs → c.rootDir ≠ "") (h : mergeFrom abs acc cs = .ok m) :
    (∀ c, some c ∈ cs → abs c.rootDir = abs m.rootDir) ∧ (acc.rootDir ≠ "" → abs acc.rootDir = abs m.rootDir) := by
  induction cs generalizing acc with
  | nil =>
    cases h
    exact ⟨fun c hc => (by cases hc), fun _ => rfl⟩
  | cons c r ih =>
    have hne' : ∀ c, some c ∈ r → c.rootDir ≠ "" := fun c hc => hne c (List.mem_cons_of_mem _ hc)
    cases c with
    | none =>
      have := ih acc hne' h
      refine ⟨fun c hc => ?_, this.2⟩
      cases hc with
      | tail _ hc' => exact this.1 c hc'
    | some fc =>
      simp only [mergeFrom] at h
      cases hs : mergeStep abs acc fc with
      | error e' => rw [hs] at h; cases h
      | ok acc' =>
        rw [hs] at h
        have ih' := ih acc' hne' h
        obtain ⟨hroot, hacc', _⟩ := mergeStep_ok hs
        have hfc : fc.rootDir ≠ "" := hne fc List.mem_cons_self
        have hfcm : abs fc.rootDir = abs m.rootDir := by
          rw [← hacc']
          exact ih'.2 (by rw [hacc']; exact hfc)
        refine ⟨fun c hc => ?_, fun hn => ?_⟩
        · cases hc with
          | head => exact hfcm
          | tail _ hc' => exact ih'.1 c hc'
        · cases hroot with
          | inl h0 => exact absurd h0 hn
          | inr h1 => exact (sameDirectory_abs h1).trans hfcm

/-- caches whose root directories all denote one directory (same `filepath.Abs`) always merge -/
theorem mergeFrom_same_dir (abs : String → String) (a : String) (cs : List (Option FileCache)) (acc : FileCache)
    (hacc : acc.rootDir = "" ∨ abs acc.rootDir = a) (hcs : ∀ c, some c ∈ cs → abs c.rootDir = a) :
    ∃ m, mergeFrom abs acc cs = .ok m ∧ (m.rootDir = "" ∨ abs m.rootDir = a) := by
  induction cs generalizing acc with
  | nil => exact ⟨acc, rfl, hacc⟩
  | cons c rest ih =>
    cases c with
    | none => exact ih acc hacc (fun c hc => hcs c (List.mem_cons_of_mem _ hc))
    | some fc =>
      have hfc : abs fc.rootDir = a := hcs fc (List.mem_cons_self)
      have hstep := mergeStep_pass (abs := abs) (acc := acc) (fc := fc) (by
        cases hacc with
        | inl h0 => exact Or.inl h0
        | inr h1 => exact Or.inr ((sameDirectory_iff abs _ _).mpr (Or.inr (h1.trans hfc.symm))))
      simp only [mergeFrom, hstep]
      exact ih _ (Or.inr hfc) (fun c hc => hcs c (List.mem_cons_of_mem _ hc))

/-- when every cache carries literally the same root directory string, the merge does not depend on `filepath.Abs` -/
theorem mergeFrom_allRoot_indep (f g : String → String) (a : String) (cs : List (Option FileCache)) (acc : FileCache)
    (hacc : acc.rootDir = "" ∨ acc.rootDir = a) (hcs : ∀ c, some c ∈ cs → c.rootDir = a) :
    mergeFrom f acc cs = mergeFrom g acc cs := by
  induction cs generalizing acc with
  | nil => rfl
  | cons c rest ih =>
    cases c with
    | none => exact ih acc hacc (fun c hc => hcs c (List.mem_cons_of_mem _ hc))
    | some fc =>
      have hfc : fc.rootDir = a := hcs fc (List.mem_cons_self)
      have pass : ∀ abs : String → String, acc.rootDir = "" ∨ sameDirectory abs acc.rootDir fc.rootDir = true := fun abs => by
        cases hacc with
        | inl h0 => exact Or.inl h0
        | inr h1 => exact Or.inr ((sameDirectory_iff abs _ _).mpr (Or.inl (h1.trans hfc.symm)))
      simp only [mergeFrom, mergeStep_pass (pass f), mergeStep_pass (pass g)]
      exact ih _ (Or.inr hfc) (fun c hc => hcs c (List.mem_cons_of_mem _ hc))

/-- the root directory of a successful merge that ends with a non-nil cache is that cache's root directory -/
theorem mergeFrom_append_root (abs : String → String) (cs : List (Option FileCache)) (c acc m : FileCache)
    (h : mergeFrom abs acc (cs ++ [some c]) = .ok m) : m.rootDir = c.rootDir := by
  induction cs generalizing acc with
  | nil =>
    simp only [List.nil_append, mergeFrom] at h
    cases hs : mergeStep abs acc c with
    | error e' => rw [hs] at h; cases h
    | ok acc' =>
      rw [hs] at h
      cases h
      exact (mergeStep_ok hs).2.1
  | cons x r ih =>
    cases x with
    | none => exact ih acc h
    | some fc =>
      simp only [List.cons_append, mergeFrom] at h
      cases hs : mergeStep abs acc fc with
      | error e' => rw [hs] at h; cases h
      | ok acc' =>
        rw [hs] at h
        exact ih acc' h

/-- merging a concatenation: merge the first list, continue with the second -/
theorem mergeFrom_append (abs : String → String) (l₁ l₂ : List (Option FileCache)) (acc : FileCache) :
    mergeFrom abs acc (l₁ ++ l₂) = match mergeFrom abs acc l₁ with
      | .error e => .error e
      | .ok acc' => mergeFrom abs acc' l₂ := by
  induction l₁ generalizing acc with
  | nil => rfl
  | cons c r ih =>
    cases c with
    | none => exact ih acc
    | some fc =>
      simp only [List.cons_append, mergeFrom]
      cases mergeStep abs acc fc with
      | error e => rfl
      | ok acc' => exact ih acc'

/-! ### `lastWins` -/

theorem lastWins_mem {k : String} {cs : List (Option FileCache)} {v : CtxFile} (h : lastWins k cs = some v) :
    ∃ c, some c ∈ cs ∧ getFile k c.files = some v := by
  induction cs with
  | nil => cases h
  | cons c r ih =>
    cases c with
    | none =>
      obtain ⟨c, hc, hg⟩ := ih h
      exact ⟨c, List.mem_cons_of_mem _ hc, hg⟩
    | some fc =>
      simp only [lastWins] at h
      cases hl : lastWins k r with
      | some w =>
        rw [hl] at h
        cases h
        obtain ⟨c, hc, hg⟩ := ih hl
        exact ⟨c, List.mem_cons_of_mem _ hc, hg⟩
      | none =>
        rw [hl] at h
        exact ⟨fc, List.mem_cons_self, h⟩

theorem lastWins_none {k : String} {cs : List (Option FileCache)} (h : lastWins k cs = none) :
    ∀ c, some c ∈ cs → getFile k c.files = none := by
  induction cs with
  | nil => intro c hc; cases hc
  | cons x r ih =>
    intro c hc
    cases x with
    | none =>
      cases hc with
      | tail _ hc' => exact ih h c hc'
    | some fc =>
      simp only [lastWins] at h
      cases hl : lastWins k r with
      | some w => rw [hl] at h; cases h
      | none =>
        rw [hl] at h
        cases hc with
        | head => exact h
        | tail _ hc' => exact ih hl c hc'

/-- the caches of a list agree on the content of every key two of them share -/
def Agree (cs : List (Option FileCache)) : Prop :=
  ∀ c₁ c₂ k v₁ v₂, some c₁ ∈ cs → some c₂ ∈ cs → getFile k c₁.files = some v₁ → getFile k c₂.files = some v₂ →
    v₁.content = v₂.content

theorem lastWins_content_perm {k : String} {cs cs' : List (Option FileCache)} (hp : cs.Perm cs') (ha : Agree cs) :
    (lastWins k cs).map (·.content) = (lastWins k cs').map (·.content) := by
  cases h : lastWins k cs with
  | none =>
    have hn := lastWins_none h
    cases h' : lastWins k cs' with
    | none => rfl
    | some w =>
      obtain ⟨c, hc, hg⟩ := lastWins_mem h'
      have := hn c (hp.mem_iff.mpr hc)
      rw [this] at hg
      cases hg
  | some v =>
    obtain ⟨c, hc, hg⟩ := lastWins_mem h
    cases h' : lastWins k cs' with
    | none =>
      have := lastWins_none h' c (hp.mem_iff.mp hc)
      rw [this] at hg
      cases hg
    | some w =>
      obtain ⟨c', hc', hg'⟩ := lastWins_mem h'
      simp only [Option.map_some]
      congr 1
      exact ha c c' k v w hc (hp.mem_iff.mpr hc') hg hg'

/-! ### caches loaded from disk -/

section
variable {P I D : Type}

theorem loadCache_spec (env : Env P I D) (rootDir : String) (paths : List String) (fc : FileCache)
    (h : loadCache env rootDir paths = .ok fc) :
    fc.rootDir = env.abs rootDir ∧
    ∀ k v, getFile k fc.files = some v →
      v.absPath = resolve env (env.abs rootDir) k ∧ env.readFile (resolve env (env.abs rootDir) k) = some v.content := by
  induction paths generalizing fc with
  | nil =>
    simp only [loadCache, List.foldr_nil] at h
    cases h
    exact ⟨rfl, fun k v hg => by cases hg⟩
  | cons f r ih =>
    have hstep : loadCache env rootDir (f :: r) =
        (match loadCache env rootDir r with
          | .error e => .error e
          | .ok fc =>
            match env.readFile (resolve env (env.abs rootDir) f) with
            | none => .error .readError
            | some c =>
              .ok { fc with files := putFile f { id := f, absPath := resolve env (env.abs rootDir) f, content := c } fc.files }) := rfl
    rw [hstep] at h
    cases hr : loadCache env rootDir r with
    | error e => rw [hr] at h; cases h
    | ok fc0 =>
      rw [hr] at h
      simp only at h
      cases hrd : env.readFile (resolve env (env.abs rootDir) f) with
      | none => rw [hrd] at h; cases h
      | some c =>
        rw [hrd] at h
        cases h
        obtain ⟨h1, h2⟩ := ih fc0 hr
        refine ⟨h1, fun k v hg => ?_⟩
        simp only at hg
        rw [getFile_putFile] at hg
        by_cases hk : f = k
        · subst hk
          simp only [if_true] at hg
          cases hg
          exact ⟨rfl, hrd⟩
        · simp only [hk, if_false] at hg
          exact h2 k v hg

end

end Arca.Proofs.EngineApi
