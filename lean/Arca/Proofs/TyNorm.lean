/-
C19 helper theorems: `normalise` succeeds exactly on valid values, its results conform, conforming values are fixed
points.  Property statements are in `Arca/Props/C19.lean`.
-/
import Arca.Proofs.TyLemmas

namespace Arca.Proofs.Ty
open Arca.Model

/-! ### A. `normalise` succeeds iff `valid` -/

theorem normalise_isOk_both :
    (∀ t v, tyOk (normalise t v) = valid t v) ∧ (∀ ps kvs, tyOk (normProps ps kvs) = validProps ps kvs) := by
  apply ty_props_ind (P := fun t => ∀ v, tyOk (normalise t v) = valid t v)
    (Q := fun ps => ∀ kvs, tyOk (normProps ps kvs) = validProps ps kvs)
  · intro mn mx p v; simp [normalise, valid]
  · intro mn mx v; simp [normalise, valid]
  · intro v; simp [normalise, valid]
  · intro v; simp [normalise, valid]
  · intro item mn mx ih v
    cases v with
    | list xs =>
      simp only [normalise, valid]
      by_cases hl : lenOk mn mx xs.length = true
      · have := mapE_isOk (normalise item) (valid item) xs (fun x _ => ih x)
        simp only [hl, if_true, Bool.true_and, ← this]
        cases mapE (normalise item) xs <;> simp [tyOk]
      · simp [hl, tyOk]
    | _ => simp [normalise, valid, tyOk]
  · intro val ih v
    cases v with
    | map kvs =>
      simp only [normalise, valid]
      have := mapE_isOk (fun kv : String × Val => match normalise val kv.2 with
            | .ok w => (Except.ok (kv.1, w) : Except TyErr (String × Val))
            | .error e => .error e) (fun kv => valid val kv.2) kvs (by
              intro kv _
              rw [← ih kv.2]
              cases normalise val kv.2 <;> simp [tyOk])
      rw [← this]
      cases mapE _ kvs <;> simp [tyOk]
    | _ => simp [normalise, valid, tyOk]
  · intro ps ih ih1 v
    cases v with
    | map kvs =>
      simp only [normalise, valid]
      by_cases hk : (kvs.all fun kv => ps.hasName kv.1) = true
      · simp only [hk, if_true, Bool.true_and, ← ih kvs]
        cases normProps ps kvs <;> simp [tyOk]
      · simp [hk, tyOk]
    | _ =>
      cases ps with
      | nil => simp [normalise, valid, tyOk]
      | cons n r d ty rest =>
        cases rest with
        | nil =>
          simp only [normalise, valid]
          rw [← ih1 n r d ty rfl]
          cases normalise ty _ <;> simp [tyOk]
        | cons _ _ _ _ _ => simp [normalise, valid, tyOk]
  · intro kvs; simp [normProps, validProps, tyOk]
  · intro n r d ty rest iht ihr kvs
    simp only [normProps, validProps]
    cases hg : given n d kvs with
    | none =>
      cases r with
      | true => simp [tyOk]
      | false => simpa using ihr kvs
    | some x =>
      simp only [← iht x, ← ihr kvs]
      cases normalise ty x with
      | error e => simp [tyOk]
      | ok w => cases normProps rest kvs <;> simp [tyOk]

theorem normalise_isOk (t : Ty) (v : Val) : tyOk (normalise t v) = valid t v := normalise_isOk_both.1 t v

/-! ### B. results of `normalise` conform -/

theorem chkStr_ok {mn mx p s w} (h : chkStr mn mx p s = .ok w) : w = .str s ∧ strOk mn mx p s = true := by
  unfold chkStr at h
  split at h
  · rename_i hs; cases h; exact ⟨rfl, hs⟩
  · cases h

theorem normStr_ok {mn mx p v w} (h : normStr mn mx p v = .ok w) : ∃ s, w = .str s ∧ strOk mn mx p s = true := by
  cases v <;> simp only [normStr] at h <;> first | cases h | exact ⟨_, chkStr_ok h⟩

theorem chkInt_ok {mn mx i w} (h : chkInt mn mx i = .ok w) : w = .int i ∧ intOk mn mx i = true := by
  unfold chkInt at h
  split at h
  · rename_i hs; cases h; exact ⟨rfl, hs⟩
  · cases h

theorem normInt_ok {mn mx v w} (h : normInt mn mx v = .ok w) : ∃ i, w = .int i ∧ intOk mn mx i = true := by
  cases v <;> simp only [normInt] at h
  case int i => exact ⟨_, chkInt_ok h⟩
  case bool b => exact ⟨_, chkInt_ok h⟩
  case str s =>
    split at h
    · exact ⟨_, chkInt_ok h⟩
    · cases h
  all_goals cases h

theorem normBool_ok {v w} (h : normBool v = .ok w) : ∃ b, w = .bool b := by
  cases v <;> simp only [normBool] at h
  case bool b => cases h; exact ⟨_, rfl⟩
  case str s =>
    split at h
    · cases h; exact ⟨_, rfl⟩
    · cases h
  case int i =>
    split at h
    · cases h; exact ⟨_, rfl⟩
    · split at h
      · cases h; exact ⟨_, rfl⟩
      · cases h
  all_goals cases h

theorem normFloat_ok {v w} (h : normFloat v = .ok w) : ∃ b, w = .float b := by
  cases v <;> simp only [normFloat] at h
  case float b => cases h; exact ⟨_, rfl⟩
  case int i => cases h; exact ⟨_, rfl⟩
  case bool b => cases h; exact ⟨_, rfl⟩
  case str s =>
    split at h
    · cases h; exact ⟨_, rfl⟩
    · cases h
    · cases h
  all_goals cases h

theorem normalised_conforms_both :
    (∀ t, t.wf = true → ∀ v w, normalise t v = .ok w → conforms t w = true) ∧
    (∀ ps, ps.wf = true → ∀ kvs out, normProps ps kvs = .ok out →
      conformsProps ps out = true ∧ ∀ kv ∈ out, ps.hasName kv.1 = true) := by
  apply ty_props_ind (P := fun t => t.wf = true → ∀ v w, normalise t v = .ok w → conforms t w = true)
    (Q := fun ps => ps.wf = true → ∀ kvs out, normProps ps kvs = .ok out →
      conformsProps ps out = true ∧ ∀ kv ∈ out, ps.hasName kv.1 = true)
  · intro mn mx p _ v w h
    simp only [normalise] at h
    obtain ⟨s, rfl, hs⟩ := normStr_ok h
    simp [conforms, hs]
  · intro mn mx _ v w h
    simp only [normalise] at h
    obtain ⟨i, rfl, hi⟩ := normInt_ok h
    simp [conforms, hi]
  · intro _ v w h
    simp only [normalise] at h
    obtain ⟨b, rfl⟩ := normBool_ok h
    simp [conforms]
  · intro _ v w h
    simp only [normalise] at h
    obtain ⟨b, rfl⟩ := normFloat_ok h
    simp [conforms]
  · intro item mn mx ih hwf v w h
    have hwi : item.wf = true := by simpa [Ty.wf] using hwf
    cases v with
    | list xs =>
      simp only [normalise] at h
      split at h
      · rename_i hl
        cases hm : mapE (normalise item) xs with
        | error e => simp [hm] at h
        | ok ys =>
          simp [hm] at h
          subst h
          obtain ⟨hlen, hall⟩ := mapE_ok _ _ _ hm
          simp only [conforms, hlen, hl, Bool.true_and, List.all_eq_true]
          intro y hy
          obtain ⟨x, _, hx⟩ := hall y hy
          exact ih hwi x y hx
      · cases h
    | _ => simp [normalise] at h
  · intro val ih hwf v w h
    have hwv : val.wf = true := by simpa [Ty.wf] using hwf
    cases v with
    | map kvs =>
      simp only [normalise] at h
      split at h
      · rename_i out hm
        cases h
        obtain ⟨_, hall⟩ := mapE_ok _ _ _ hm
        simp only [conforms, List.all_eq_true]
        intro kv' hkv'
        obtain ⟨kv, _, hkv⟩ := hall kv' hkv'
        cases hn : normalise val kv.2 with
        | error e => simp [hn] at hkv
        | ok w' =>
          simp [hn] at hkv
          subst hkv
          exact ih hwv kv.2 w' hn
      · cases h
    | _ => simp [normalise] at h
  · intro ps ih ih1 hwf v w h
    have hwp : ps.wf = true := by simpa [Ty.wf] using hwf
    cases v with
    | map kvs =>
      simp only [normalise] at h
      split at h
      · cases hn : normProps ps kvs with
        | error e => simp [hn] at h
        | ok out =>
          simp [hn] at h
          subst h
          simpa [conforms] using (ih hwp kvs out hn).1
      · cases h
    | _ =>
      cases ps with
      | nil => simp [normalise] at h
      | cons n r d ty rest =>
        cases rest with
        | nil =>
          simp only [normalise] at h
          have hwt : ty.wf = true := by
            simp [Props.wf] at hwp
            exact hwp.2
          split at h
          · rename_i w' hn
            cases h
            simp [conforms, conformsProps, ih1 n r d ty rfl hwt _ w' hn]
          · cases h
        | cons _ _ _ _ _ => simp [normalise] at h
  · intro _ kvs out h
    simp [normProps] at h
    subst h
    simp [conformsProps]
  · intro n r d ty rest iht ihr hwf kvs out h
    simp only [Props.wf, Bool.and_eq_true, Bool.not_eq_true'] at hwf
    obtain ⟨⟨hnot, hwt⟩, hwr⟩ := hwf
    simp only [normProps] at h
    cases hg : given n d kvs with
    | some x =>
      simp only [hg] at h
      cases hn : normalise ty x with
      | error e => simp [hn] at h
      | ok w =>
        cases hr : normProps rest kvs with
        | error e => simp [hn, hr] at h
        | ok out' =>
          simp [hn, hr] at h
          subst h
          obtain ⟨hc, hk⟩ := ihr hwr kvs out' hr
          refine ⟨by simp [conformsProps, iht hwt x w hn, hc], ?_⟩
          intro kv hkv
          rcases List.mem_cons.mp hkv with rfl | hkv
          · simp [Props.hasName]
          · simp [Props.hasName, hk kv hkv]
    | none =>
      simp only [hg] at h
      have hd : d = none := by
        unfold given at hg
        split at hg
        · cases hg
        · exact hg
      cases r with
      | true => simp at h
      | false =>
        simp at h
        obtain ⟨hc, hk⟩ := ihr hwr kvs out h
        refine ⟨?_, fun kv hkv => by simp [Props.hasName, hk kv hkv]⟩
        cases out with
        | nil => simpa [conformsProps, hd] using hc
        | cons kv tl =>
          obtain ⟨k, x⟩ := kv
          have hkn : k ≠ n := by
            intro e
            have := hk (k, x) (by simp)
            simp [e, hnot] at this
          simp only [conformsProps, hkn, if_false, hd]
          simpa using hc

theorem normalised_conforms_aux (t : Ty) (hwf : t.wf = true) (v w : Val) (h : normalise t v = .ok w) :
    conforms t w = true := normalised_conforms_both.1 t hwf v w h

/-! ### C. conforming values are fixed points of `normalise` -/

theorem conforms_fixed_both :
    (∀ t, t.wf = true → ∀ w, conforms t w = true → normalise t w = .ok w) ∧
    (∀ ps, ps.wf = true → ∀ kvs, conformsProps ps kvs = true →
      (∀ kv ∈ kvs, ps.hasName kv.1 = true) ∧
      ∀ full, (∀ m, ps.hasName m = true → lookup m full = lookup m kvs) → normProps ps full = .ok kvs) := by
  apply ty_props_ind (P := fun t => t.wf = true → ∀ w, conforms t w = true → normalise t w = .ok w)
    (Q := fun ps => ps.wf = true → ∀ kvs, conformsProps ps kvs = true →
      (∀ kv ∈ kvs, ps.hasName kv.1 = true) ∧
      ∀ full, (∀ m, ps.hasName m = true → lookup m full = lookup m kvs) → normProps ps full = .ok kvs)
  · intro mn mx p _ w h
    cases w <;> simp [conforms] at h
    simp [normalise, normStr, chkStr, h]
  · intro mn mx _ w h
    cases w <;> simp [conforms] at h
    simp [normalise, normInt, chkInt, h]
  · intro _ w h
    cases w <;> simp [conforms] at h
    simp [normalise, normBool]
  · intro _ w h
    cases w <;> simp [conforms] at h
    simp [normalise, normFloat]
  · intro item mn mx ih hwf w h
    have hwi : item.wf = true := by simpa [Ty.wf] using hwf
    cases w <;> simp only [conforms, Bool.and_eq_true, List.all_eq_true] at h <;> try cases h
    rename_i xs hl hall
    have := mapE_fixed (normalise item) xs (fun x hx => ih hwi x (hall x hx))
    simp [normalise, hl, this]
  · intro val ih hwf w h
    have hwv : val.wf = true := by simpa [Ty.wf] using hwf
    cases w <;> simp only [conforms, List.all_eq_true] at h <;> try cases h
    rename_i kvs
    simp only [normalise]
    rw [mapE_fixed _ kvs]
    intro kv hkv
    simp [ih hwv kv.2 (h kv hkv)]
  · intro ps ih _ hwf w h
    have hwp : ps.wf = true := by simpa [Ty.wf] using hwf
    cases w <;> simp only [conforms] at h <;> try cases h
    rename_i kvs
    obtain ⟨hk, hn⟩ := ih hwp kvs h
    have hall : (kvs.all fun kv => ps.hasName kv.1) = true := by
      simpa [List.all_eq_true] using hk
    simp [normalise, hall, hn kvs (fun _ _ => rfl)]
  · intro _ kvs h
    cases kvs with
    | nil => simp [normProps]
    | cons kv tl => simp [conformsProps] at h
  · intro n r d ty rest iht ihr hwf kvs h
    simp only [Props.wf, Bool.and_eq_true, Bool.not_eq_true'] at hwf
    obtain ⟨⟨hnot, hwt⟩, hwr⟩ := hwf
    -- a property that is not listed: optional, no default, and not among the given keys
    have absent : ∀ kvs', (!r && d.isNone) = true → conformsProps rest kvs' = true →
        (∀ kv ∈ kvs', kv.1 ≠ n) →
        (∀ kv ∈ kvs', (Props.cons n r d ty rest).hasName kv.1 = true) ∧
        ∀ full, (∀ m, (Props.cons n r d ty rest).hasName m = true → lookup m full = lookup m kvs') →
          normProps (Props.cons n r d ty rest) full = .ok kvs' := by
      intro kvs' hrd hc hne
      obtain ⟨hk, hn⟩ := ihr hwr kvs' hc
      simp only [Bool.and_eq_true, Bool.not_eq_true', Option.isNone_iff_eq_none] at hrd
      obtain ⟨hr, hd⟩ := hrd
      refine ⟨fun kv hkv => by simp [Props.hasName, hk kv hkv], ?_⟩
      intro full hfull
      have hl : lookup n full = none := by
        rw [hfull n (by simp [Props.hasName])]
        exact lookup_none_of_keys n kvs' hne
      have hg : given n d full = none := by simp [given, hl, hd]
      simp only [normProps, hg, hr]
      exact hn full (fun m hm => hfull m (by simp [Props.hasName, hm]))
    cases kvs with
    | nil =>
      simp only [conformsProps, Bool.and_eq_true] at h
      exact absent [] (by simpa using h.1) h.2 (by simp)
    | cons kv tl =>
      obtain ⟨k, x⟩ := kv
      simp only [conformsProps] at h
      by_cases hkn : k = n
      · subst hkn
        simp only [if_true, Bool.and_eq_true] at h
        obtain ⟨hcx, hct⟩ := h
        obtain ⟨hk, hn⟩ := ihr hwr tl hct
        refine ⟨?_, ?_⟩
        · intro kv hkv
          rcases List.mem_cons.mp hkv with rfl | hkv
          · simp [Props.hasName]
          · simp [Props.hasName, hk kv hkv]
        · intro full hfull
          have hl : lookup k full = some x := by
            rw [hfull k (by simp [Props.hasName])]
            simp [lookup]
          have hg : given k d full = some x := by simp [given, hl]
          have hrest : normProps rest full = .ok tl := by
            apply hn full
            intro m hm
            have hmk : m ≠ k := by
              intro e
              rw [e, hnot] at hm
              cases hm
            rw [hfull m (by simp [Props.hasName, hm])]
            simp [lookup, hmk]
          simp [normProps, hg, iht hwt x hcx, hrest]
      · simp only [hkn, if_false, Bool.and_eq_true] at h
        have hne : ∀ kv ∈ (k, x) :: tl, kv.1 ≠ n := by
          intro kv hkv e
          have := (ihr hwr _ h.2).1 kv hkv
          rw [e, hnot] at this
          cases this
        exact absent ((k, x) :: tl) (by simpa using h.1) h.2 hne

theorem conforms_fixed (t : Ty) (hwf : t.wf = true) (w : Val) (h : conforms t w = true) : normalise t w = .ok w :=
  conforms_fixed_both.1 t hwf w h

/-! ### D. required and defaulted properties are present in the result -/

theorem normProps_present : ∀ ps kvs out, normProps ps kvs = .ok out →
    ∀ row ∈ ps.toList, (row.2.1 = true ∨ row.2.2.1.isSome = true) → (lookup row.1 out).isSome = true := by
  apply props_ind
  · intro kvs out _ row hrow
    simp [Props.toList] at hrow
  · intro n r d ty rest ih kvs out h row hrow hpres
    simp only [normProps] at h
    simp only [Props.toList, List.mem_cons] at hrow
    cases hg : given n d kvs with
    | some x =>
      simp only [hg] at h
      split at h
      · cases h
      · rename_i w _
        split at h
        · cases h
        · rename_i out' hr
          cases h
          rcases hrow with rfl | hrow
          · simp [lookup]
          · have := ih kvs out' hr row hrow hpres
            by_cases e : row.1 = n
            · simp [lookup, e]
            · simpa [lookup, e] using this
    | none =>
      simp only [hg] at h
      have hd : d = none := by
        unfold given at hg
        split at hg
        · cases hg
        · exact hg
      cases r with
      | true => simp at h
      | false =>
        simp at h
        rcases hrow with rfl | hrow
        · simp [hd] at hpres
        · exact ih kvs out h row hrow hpres

end Arca.Proofs.Ty
