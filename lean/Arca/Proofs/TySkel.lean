/-
Decidable order checks on control skeletons (token lists of `Arca.Gen.Skel`), used by the C19 obligations that tie the
model of `Execute`'s prologue to the statement order of the real function.
-/
namespace Arca.Proofs.Ty

/-- `pat` occurs in `s` (both as code-point lists) -/
def hasSub (pat : List Char) : List Char → Bool
  | [] => pat.isEmpty
  | c :: cs => pat.isPrefixOf (c :: cs) || hasSub pat cs

/-- the token `a` occurs in the list and no token satisfying `p` occurs before its first occurrence -/
def occursBefore (a : String) (p : String → Bool) : List String → Bool
  | [] => false
  | t :: ts => if t == a then true else if p t then false else occursBefore a p ts

/-- the tokens that follow the first occurrence of `a` -/
def after (a : String) : List String → List String
  | [] => []
  | t :: ts => if t == a then ts else after a ts

/-- the token mentions the call that starts a step (`runnableStep.Start(...)`) -/
def mentionsStart (t : String) : Bool := hasSub "runnableStep.Start".toList t.toList

theorem occursBefore_sound (a : String) (p : String → Bool) (l : List String) (h : occursBefore a p l = true) :
    ∃ pre post, l = pre ++ a :: post ∧ ∀ t ∈ pre, p t = false := by
  induction l with
  | nil => simp [occursBefore] at h
  | cons t ts ih =>
    simp only [occursBefore] at h
    by_cases hta : (t == a) = true
    · refine ⟨[], ts, ?_, by simp⟩
      have : t = a := by simpa using hta
      simp [this]
    · simp only [hta] at h
      by_cases hp : p t = true
      · simp [hp] at h
      · simp only [hp] at h
        obtain ⟨pre, post, hl, hpre⟩ := ih (by simpa using h)
        refine ⟨t :: pre, post, by simp [hl], ?_⟩
        intro u hu
        rcases List.mem_cons.mp hu with rfl | hu
        · simpa using hp
        · exact hpre u hu

end Arca.Proofs.Ty
