/-
Helper lemmas for C18: `floatToInt` on the exact scaled-integer value of a double.
-/
import Arca.Model.Builtins

set_option exponentiation.threshold 4096

namespace Arca.Proofs.Builtins
open Arca.Model Arca.Model.Builtins

theorem unit_pos : 0 < unit := by unfold unit; exact Nat.pow_pos (by decide)

theorem isNaN_not_isInf {b : Nat} (h : isNaN b = true) : isInf b = false := by
  unfold isNaN at h; unfold isInf
  cases hm : (fMant b == 0) <;> simp_all

/-- the truncated magnitude `⌊|x|⌋` (2^1024 for ±Inf) -/
def truncAbs (b : Nat) : Nat := scaledAbs b / unit

theorem scaledAbs_inf {b : Nat} (h : isInf b = true) : scaledAbs b = 2 ^ 2098 := by
  unfold isInf at h
  have he : fExp b = 2047 := by
    cases h1 : (fExp b == 2047) <;> simp_all
  have hm : fMant b = 0 := by
    cases h1 : (fMant b == 0) <;> simp_all
  unfold scaledAbs
  rw [he, hm]
  decide +kernel

/-- `floatToInt` of a non-NaN double: clamp the truncated value (the infinities need no special case) -/
theorem floatToInt_eq {b : Nat} (h : isNaN b = false) :
    floatToInt b = some (if fSign b then (if truncAbs b ≥ 2 ^ 63 then minInt64 else -(truncAbs b : Int))
                         else (if truncAbs b ≥ 2 ^ 63 then maxInt64 else (truncAbs b : Int))) := by
  unfold floatToInt
  cases hi : isInf b
  · cases hs : fSign b <;> simp [h, truncAbs] <;> split <;> simp_all
  · have hq : truncAbs b ≥ 2 ^ 63 := by
      unfold truncAbs; rw [scaledAbs_inf hi]; unfold unit; decide +kernel
    cases hs : fSign b <;> simp [hq]

theorem floatToInt_nan {b : Nat} (h : isNaN b = true) : floatToInt b = none := by
  unfold floatToInt
  simp [isNaN_not_isInf h, h]

theorem floatToInt_some_not_nan {b : Nat} {a : Int} (h : floatToInt b = some a) : isNaN b = false := by
  cases hn : isNaN b
  · rfl
  · rw [floatToInt_nan hn] at h; cases h

theorem scaled_natAbs (b : Nat) : (scaled b).natAbs = scaledAbs b := by
  unfold scaled; split <;> simp

theorem scaled_of_neg {b : Nat} (h : fSign b = true) : scaled b = -(scaledAbs b : Int) := by
  unfold scaled; simp [h]

theorem scaled_of_pos {b : Nat} (h : fSign b = false) : scaled b = (scaledAbs b : Int) := by
  unfold scaled; simp [h]


theorem div_bounds (n k : Nat) (hk : 0 < k) : n / k * k ≤ n ∧ n < (n / k + 1) * k := by
  constructor
  · exact Nat.div_mul_le_self n k
  · exact Nat.lt_mul_of_div_lt (Nat.lt_succ_self _) hk

/-- truncation toward zero on the exact value: for a finite double strictly between -2^63 and 2^63 -/
theorem floatToInt_trunc_aux {b : Nat} (hn : isNaN b = false) (hr : scaledAbs b < 2 ^ 63 * unit) :
    ∃ r : Int, floatToInt b = some r ∧
      r.natAbs * unit ≤ (scaled b).natAbs ∧ (scaled b).natAbs < (r.natAbs + 1) * unit ∧
      (0 ≤ scaled b → 0 ≤ r) ∧ (scaled b ≤ 0 → r ≤ 0) ∧ minInt64 < r ∧ r ≤ maxInt64 := by
  have hq : truncAbs b < 2 ^ 63 := by
    unfold truncAbs
    exact (Nat.div_lt_iff_lt_mul unit_pos).2 hr
  have hb := div_bounds (scaledAbs b) unit unit_pos
  rw [floatToInt_eq hn, scaled_natAbs]
  have hq' : ¬ truncAbs b ≥ 2 ^ 63 := by omega
  have e1 : (truncAbs b : Int).natAbs = scaledAbs b / unit := by rw [Int.natAbs_natCast]; rfl
  have e2 : (-(truncAbs b : Int)).natAbs = scaledAbs b / unit := by rw [Int.natAbs_neg, Int.natAbs_natCast]; rfl
  cases hs : fSign b
  · refine ⟨(truncAbs b : Int), by simp [hq'], ?_, ?_, ?_, ?_, ?_, ?_⟩
    · rw [e1]; exact hb.1
    · rw [e1]; exact hb.2
    · intro _; omega
    · rw [scaled_of_pos hs]; intro h
      have h0 : scaledAbs b = 0 := by omega
      have : truncAbs b = 0 := by unfold truncAbs; rw [h0]; simp
      omega
    · unfold minInt64; omega
    · unfold maxInt64; omega
  · refine ⟨-(truncAbs b : Int), by simp [hq'], ?_, ?_, ?_, ?_, ?_, ?_⟩
    · rw [e2]; exact hb.1
    · rw [e2]; exact hb.2
    · rw [scaled_of_neg hs]; intro h
      have h0 : scaledAbs b = 0 := by omega
      have : truncAbs b = 0 := by unfold truncAbs; rw [h0]; simp
      omega
    · intro _; omega
    · unfold minInt64; omega
    · unfold maxInt64; omega

theorem floatToInt_monotone_aux {x y : Nat} {a c : Int} (hx : floatToInt x = some a) (hy : floatToInt y = some c)
    (hle : scaled x ≤ scaled y) : a ≤ c := by
  rw [floatToInt_eq (floatToInt_some_not_nan hx)] at hx
  rw [floatToInt_eq (floatToInt_some_not_nan hy)] at hy
  injection hx with hx
  injection hy with hy
  subst hx; subst hy
  cases hsx : fSign x <;> cases hsy : fSign y
  · rw [scaled_of_pos hsx, scaled_of_pos hsy] at hle
    have : truncAbs x ≤ truncAbs y := Nat.div_le_div_right (by omega)
    simp only [Bool.false_eq_true, if_false]
    unfold maxInt64
    split <;> split <;> omega
  · rw [scaled_of_pos hsx, scaled_of_neg hsy] at hle
    have h0 : scaledAbs x = 0 := by omega
    have h1 : scaledAbs y = 0 := by omega
    have hx0 : truncAbs x = 0 := by unfold truncAbs; rw [h0]; simp
    have hy0 : truncAbs y = 0 := by unfold truncAbs; rw [h1]; simp
    simp [hx0, hy0]
  · simp only [Bool.false_eq_true, if_false, if_true]
    unfold maxInt64 minInt64
    split <;> split <;> omega
  · rw [scaled_of_neg hsx, scaled_of_neg hsy] at hle
    have : truncAbs y ≤ truncAbs x := Nat.div_le_div_right (by omega)
    simp only [if_true]
    unfold minInt64
    split <;> split <;> omega

theorem floatToInt_sat_hi {b : Nat} (hn : isNaN b = false) (h : (2 ^ 63 * unit : Int) ≤ scaled b) :
    floatToInt b = some maxInt64 := by
  rw [floatToInt_eq hn]
  cases hs : fSign b
  · rw [scaled_of_pos hs] at h
    have : 2 ^ 63 * unit ≤ scaledAbs b := by omega
    have hq : truncAbs b ≥ 2 ^ 63 := (Nat.le_div_iff_mul_le unit_pos).2 this
    simp [hq]
  · rw [scaled_of_neg hs] at h
    have := unit_pos
    have : (0 : Int) < 2 ^ 63 * (unit : Int) := by
      have : (0 : Int) < (unit : Int) := by exact_mod_cast unit_pos
      exact Int.mul_pos (by decide) this
    omega

theorem floatToInt_sat_lo {b : Nat} (hn : isNaN b = false) (h : scaled b ≤ -(2 ^ 63 * unit : Int)) :
    floatToInt b = some minInt64 := by
  rw [floatToInt_eq hn]
  have hpos : (0 : Int) < 2 ^ 63 * (unit : Int) := by
    have : (0 : Int) < (unit : Int) := by exact_mod_cast unit_pos
    exact Int.mul_pos (by decide) this
  cases hs : fSign b
  · rw [scaled_of_pos hs] at h
    omega
  · rw [scaled_of_neg hs] at h
    have : 2 ^ 63 * unit ≤ scaledAbs b := by omega
    have hq : truncAbs b ≥ 2 ^ 63 := (Nat.le_div_iff_mul_le unit_pos).2 this
    simp [hq]

theorem floatToInt_inf {b : Nat} (h : isInf b = true) :
    floatToInt b = some (if fSign b then minInt64 else maxInt64) := by
  unfold floatToInt
  cases hs : fSign b <;> simp [h]

end Arca.Proofs.Builtins
