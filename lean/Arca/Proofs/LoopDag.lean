/-
Composition of the run-loop model (M4) with the dependency-graph invariants (M2): what the loop guarantees about
the *meaning* of its reactions — a stage is handed its input (and a workflow output is produced) only when every
required dependency is resolved and every completion dependency is settled, the values handed over are the
expressions of the prepared item evaluated over the data model, resolved stage outputs have their data in the data
model, and a stage whose required dependency failed is never provided.  Obligations of C02, C03, C04, C15.

Layout: definitions (`OrdOK`, `Prepared.WF`, `LoopDagInv`, `statusIs`, `lookupData`); helper material (graph order
`GLe`, refined primitive steps `StepN` / `StepPre` and the decomposition `react_decomp` of a reaction into preparatory
steps followed by `notifySteps` steps, what each step adds to the action list, the data-model lemmas); then the
theorems.  Changes with respect to the first version of the statements are marked CHANGED:
* `Prepared.WF`: `stage_kind` restricted to declared stages and `output_kind` to declared outputs of declared stages
  (the unrestricted version is contradictory with any stage-output item: `WFOrig_no_stage_outputs`, and false of real
  DAGs with dependency-group nodes), new field `output_unamb`;
* `react_data_inv`, `provide_refs_available`: new hypotheses `DataMap s` and `EventOK P s e`.
-/
import Arca.Model.RunLoop
import Arca.Proofs.DgraphInv
import Arca.Proofs.LoopLemmas
import Arca.Proofs.LoopDagLemmas

set_option linter.unusedSimpArgs false
set_option linter.unusedVariables false

namespace Arca.Model

/-- the processing order only permutes (or drops) what `PopReadyNodes` returned: it cannot invent nodes -/
def OrdOK (ord : Order) : Prop := ∀ l, ∀ x ∈ ord l, x ∈ l

/-- `stage` is a declared stage of the declared step `step` -/
def Prepared.declares (P : Prepared) (step stage : String) : Prop :=
  ∃ sts outs, lookup step P.stages = some sts ∧ lookup stage sts = some outs

/--
What `Prepare` guarantees about the prepared workflow (checked on every real prepared DAG by the driver).

CHANGED with respect to the first version of this file (`Prepared.WFOrig` below):
* `stage_kind` is restricted to *declared* stages, `output_kind` to *declared outputs* of declared stages.
  Unrestricted they are contradictory with the existence of any stage-output item (`WFOrig_no_stage_outputs`):
  `outputNodeId a b c = stageNodeId a (b ++ "." ++ c)`, so the unrestricted `stage_kind` forces the item of every
  stage-output node to have kind `stage`.  And `output_kind` for arbitrary `out` is false of real DAGs: the
  dependency-group node of a tagged stage input has the id `<stage node id>.<path>` (`createGroupNode`), i.e. the shape
  `outputNodeId step stage path`, with kind `group` (see `Cex.P2_wf`).
* `output_unamb` is new (needed by `react_data_inv`), also only for declared outputs.
-/
structure Prepared.WF (P : Prepared) : Prop where
  inv : P.dag.Inv
  fresh : ∀ n ∈ P.dag.nodes, n.status = St.waiting ∧ n.res = []
  no_ready : P.dag.ready = []
  items_nodes : ∀ n ∈ P.dag.nodes, (lookup n.id P.items).isSome = true
  /-- node ids of stage and stage-output items are the ids the run loop computes -/
  stage_id : ∀ id it, lookup id P.items = some it → it.kind = Kind.stage → id = stageNodeId it.step it.stage
  output_id : ∀ id it, lookup id P.items = some it → it.kind = Kind.stageOutput →
      id = outputNodeId it.step it.stage it.output ∧ it.output ∈ P.outputsOf it.step it.stage
  /-- the ids the loop resolves explicitly for finished (declared) stages are stage / stage-output items -/
  stage_kind : ∀ step stage it, P.declares step stage →
      lookup (stageNodeId step stage) P.items = some it → it.kind = Kind.stage
  output_kind : ∀ step stage out it, P.declares step stage → out ∈ P.outputsOf step stage →
      lookup (outputNodeId step stage out) P.items = some it → it.kind = Kind.stageOutput
  /-- (added, needed by `react_data_inv`) node ids of stage outputs are unambiguous: the id computed by the run loop
  for a declared output of a declared (step, stage) belongs to an item of that step and stage.  Without it an id such
  as `steps.a.b.c.d` can be read as step `a`, stage `b.c` by the item and as step `a.b`, stage `c` by the event. -/
  output_unamb : ∀ step stage out it, P.declares step stage → out ∈ P.outputsOf step stage →
      lookup (outputNodeId step stage out) P.items = some it →
      it.kind = Kind.stageOutput → it.step = step ∧ it.stage = stage

/-- the well-formedness predicate as first stated (unrestricted `stage_kind` / `output_kind`) -/
structure Prepared.WFOrig (P : Prepared) : Prop where
  inv : P.dag.Inv
  fresh : ∀ n ∈ P.dag.nodes, n.status = St.waiting ∧ n.res = []
  no_ready : P.dag.ready = []
  items_nodes : ∀ n ∈ P.dag.nodes, (lookup n.id P.items).isSome = true
  stage_id : ∀ id it, lookup id P.items = some it → it.kind = Kind.stage → id = stageNodeId it.step it.stage
  output_id : ∀ id it, lookup id P.items = some it → it.kind = Kind.stageOutput →
      id = outputNodeId it.step it.stage it.output ∧ it.output ∈ P.outputsOf it.step it.stage
  stage_kind : ∀ step stage it, lookup (stageNodeId step stage) P.items = some it → it.kind = Kind.stage
  output_kind : ∀ step stage out it, lookup (outputNodeId step stage out) P.items = some it → it.kind = Kind.stageOutput

theorem outputNodeId_eq_stageNodeId (a b c : String) : outputNodeId a b c = stageNodeId a (b ++ "." ++ c) := by
  simp [outputNodeId, stageNodeId, String.append_assoc]

/-- why `WFOrig` had to be changed: it excludes every workflow that has a stage-output item, which made all
statements about `DataInv` vacuous -/
theorem WFOrig_no_stage_outputs (P : Prepared) (hP : P.WFOrig) (id : String) (it : Item)
    (hit : lookup id P.items = some it) : it.kind ≠ Kind.stageOutput := by
  intro hk
  have h1 := (hP.output_id id it hit hk).1
  rw [outputNodeId_eq_stageNodeId] at h1
  have := hP.stage_kind it.step (it.stage ++ "." ++ it.output) it (h1 ▸ hit)
  rw [hk] at this
  cases this

/-- the graph part of the loop invariant: the run works on a graph with the prepared workflow's nodes and edges -/
structure LoopDagInv (P : Prepared) (s : LoopState) : Prop where
  inv : s.dag.Inv
  edges : s.dag.edges = P.dag.edges
  ids : s.dag.nodes.map (·.id) = P.dag.nodes.map (·.id)

def statusIs (g : Graph String) (id : String) (st : St) : Prop := ∃ n, g.find? id = some n ∧ n.status = st

/-- value stored in the data model for a stage output -/
def lookupData (data : Val) (step stage out : String) : Option Val :=
  match data with
  | .map top => match lookup "steps" top with
    | some (.map steps) => match lookup step steps with
      | some (.map sts) => match lookup stage sts with
        | some (.map outs) => lookup out outs
        | _ => none
      | _ => none
    | _ => none
  | _ => none

/-! ## Helper material: graph order, refined primitive steps

The `Step` relation of `LoopLemmas` abstracts every graph change to an arbitrary graph.  Here the graph changes are
the concrete ones (`popReady`, `pushStarting`, successful `resolve`), and the `provide` / `output` steps carry what is
known at the moment they are performed. -/

theorem statusIs_unique {g : Graph String} {id : String} {a b : St} (h1 : statusIs g id a) (h2 : statusIs g id b) :
    a = b := by
  obtain ⟨n, hn, rfl⟩ := h1
  obtain ⟨m, hm, rfl⟩ := h2
  rw [hn] at hm; cases hm; rfl

/-- `g'` is a later graph of the same run: invariant holds, same edges and node ids, settled statuses are kept -/
structure GLe (g g' : Graph String) : Prop where
  inv : g'.Inv
  edges : g'.edges = g.edges
  ids : g'.nodes.map (·.id) = g.nodes.map (·.id)
  mono : ∀ id st, st ≠ St.waiting → statusIs g id st → statusIs g' id st

namespace GLe

theorem refl {g : Graph String} (h : g.Inv) : GLe g g := ⟨h, rfl, rfl, fun _ _ _ h => h⟩

theorem trans {a b c : Graph String} (h1 : GLe a b) (h2 : GLe b c) : GLe a c :=
  ⟨h2.inv, h2.edges.trans h1.edges, h2.ids.trans h1.ids, fun id st hst h => h2.mono id st hst (h1.mono id st hst h)⟩

theorem resolve {g g' : Graph String} {id : String} {st : St} (h : g.Inv) (hok : g.resolve id st = .ok g') :
    GLe g g' := by
  obtain ⟨h1, h2⟩ := Graph.resolve_frame g g' id st hok
  refine ⟨Graph.inv_resolve g g' id st h hok, h1, h2, ?_⟩
  rintro x s hs ⟨n, hn, rfl⟩
  exact Graph.resolve_status_mono g g' id x st n h hok hn hs

theorem pushStarting {g : Graph String} (h : g.Inv) : GLe g g.pushStarting :=
  ⟨Graph.inv_pushStarting g h, rfl, rfl, fun _ _ _ h => h⟩

theorem popReady {g : Graph String} (h : g.Inv) : GLe g g.popReady.2 :=
  ⟨Graph.inv_popReady g h, rfl, rfl, fun _ _ _ h => h⟩

theorem find {g g' : Graph String} (h : GLe g g') {x : String} {n : Node String} (hn : g.find? x = some n) :
    ∃ n', g'.find? x = some n' := Graph.find?_of_ids h.ids hn

end GLe

/-- `id` was returned by `PopReadyNodes` with status `st` from a graph `g0` between `gb` and `cur` -/
def Popped (gb cur : Graph String) (id : String) (st : St) : Prop :=
  ∃ g0, GLe gb g0 ∧ GLe g0 cur ∧ id ∈ g0.ready ∧ statusIs g0 id st

theorem Popped.mono {gb cur cur' : Graph String} {id : String} {st : St} (h : Popped gb cur id st)
    (hle : GLe cur cur') : Popped gb cur' id st := by
  obtain ⟨g0, h1, h2, h3, h4⟩ := h
  exact ⟨g0, h1, h2.trans hle, h3, h4⟩

/-- reflexive-transitive closure -/
inductive Star (S : R → R → Prop) : R → R → Prop
  | refl (r : R) : Star S r r
  | tail {a b c : R} : Star S a b → S b c → Star S a c

namespace Star
variable {S : R → R → Prop}

theorem single {a b : R} (h : S a b) : Star S a b := .tail (.refl a) h

theorem trans {a b c : R} (h1 : Star S a b) (h2 : Star S b c) : Star S a c := by
  induction h2 with
  | refl => exact h1
  | tail _ s ih => exact .tail ih s

theorem head {a b c : R} (s : S a b) (h : Star S b c) : Star S a c := trans (single s) h

theorem preserves {Q : R → Prop} (hstep : ∀ a b, S a b → Q a → Q b) {a b : R}
    (h : Star S a b) (ha : Q a) : Q b := by
  induction h with
  | refl => exact ha
  | tail _ s ih => exact hstep _ _ s ih

end Star

/-- the primitive steps of `notifySteps` (and of the deadlock check); none of them changes the data model.
`kn` = the processing order is known to be `OrdOK` (then the `provide`/`output` steps know where their node was popped) -/
inductive StepN (P : Prepared) (fns : Fns) (gb : Graph String) (kn : Prop) : R → R → Prop
  | popReady (r : R) : StepN P fns gb kn r ({ r.1 with dag := r.1.dag.popReady.2 }, r.2)
  | resolveItem (r : R) (id : String) (it : Item) (g' : Graph String) :
      lookup id P.items = some it → (it.kind = Kind.group ∨ it.kind = Kind.output) →
      r.1.dag.resolve id St.resolved = .ok g' → StepN P fns gb kn r ({ r.1 with dag := g' }, r.2)
  | provide (r : R) (id : String) (st : St) (it : Item) (d : InVal) (v : Val) :
      (kn → Popped gb r.1.dag id st) → st ≠ St.unres → lookup id P.items = some it → it.kind = Kind.stage →
      it.data = some d → resolveIn fns r.1.dag r.1.data d = .ok v →
      StepN P fns gb kn r (emit r (.provide it.step it.stage v))
  | output (r : R) (id : String) (st : St) (it : Item) (d : InVal) (v : Val) :
      (kn → Popped gb r.1.dag id st) → st ≠ St.unres → lookup id P.items = some it → it.kind = Kind.output →
      it.data = some d → resolveIn fns r.1.dag r.1.data d = .ok v →
      StepN P fns gb kn r ({ r.1 with outputDone := true, result := some (it.output, v) }, r.2 ++ [.output it.output v])
  | skipped (r : R) (o : String) (v : Val) : StepN P fns gb kn r (emit r (.outputSkipped o v))
  | spawn (r : R) (n : Nat) : StepN P fns gb kn r (emit r (.spawnDetector n))
  | die (r : R) (site : PanicSite) : StepN P fns gb kn r (die r (.panic site))
  | sendErr (r : R) (k : ErrKind) : StepN P fns gb kn r (sendErr P.errCap r k)
  | cancel (r : R) : StepN P fns gb kn r (doCancel r)
  | setWaiting (r : R) (w : List String) : StepN P fns gb kn r ({ r.1 with waitingOutputs := w }, r.2)

/-- the primitive steps that precede `notifySteps` in a reaction; none of them emits `provide` or `output` -/
inductive StepPre (P : Prepared) : R → R → Prop
  | resolveOk (r : R) (id : String) (st : St) (g' : Graph String) :
      r.1.dag.resolve id st = .ok g' → StepPre P r ({ r.1 with dag := g' }, r.2)
  | pushStarting (r : R) : StepPre P r ({ r.1 with dag := r.1.dag.pushStarting }, r.2)
  | initData (r : R) (input : Val) : StepPre P r ({ r.1 with data := initData P input }, r.2)
  | stageData (r : R) (step stage out : String) (v : Val) :
      StepPre P r ({ r.1 with data := setStageData r.1.data step stage out v }, r.2)
  | setFinished (r : R) (f : List (String × String)) : StepPre P r ({ r.1 with finished := f }, r.2)
  | drain (r : R) : StepPre P r ({ r.1 with errs := 0 }, r.2)
  | die (r : R) (site : PanicSite) : StepPre P r (die r (.panic site))
  | sendErr (r : R) (k : ErrKind) : StepPre P r (sendErr P.errCap r k)
  | cancel (r : R) : StepPre P r (doCancel r)

section Steps
variable {P : Prepared} {fns : Fns} {gb : Graph String} {kn : Prop}

theorem stepN_gle {a b : R} (h : StepN P fns gb kn a b) (ha : a.1.dag.Inv) : GLe a.1.dag b.1.dag := by
  cases h
  case popReady => exact GLe.popReady ha
  case resolveItem hok => exact GLe.resolve ha hok
  all_goals try simp only [emit, die, sendErr, doCancel]
  all_goals repeat' split
  all_goals exact GLe.refl ha

theorem stepPre_gle {a b : R} (h : StepPre P a b) (ha : a.1.dag.Inv) : GLe a.1.dag b.1.dag := by
  cases h
  case pushStarting => exact GLe.pushStarting ha
  case resolveOk hok => exact GLe.resolve ha hok
  all_goals try simp only [emit, die, sendErr, doCancel]
  all_goals repeat' split
  all_goals exact GLe.refl ha

theorem starN_gle {a b : R} (h : Star (StepN P fns gb kn) a b) (ha : a.1.dag.Inv) : GLe a.1.dag b.1.dag := by
  induction h with
  | refl => exact GLe.refl ha
  | tail _ s ih => exact ih.trans (stepN_gle s ih.inv)

theorem starPre_gle {a b : R} (h : Star (StepPre P) a b) (ha : a.1.dag.Inv) : GLe a.1.dag b.1.dag := by
  induction h with
  | refl => exact GLe.refl ha
  | tail _ s ih => exact ih.trans (stepPre_gle s ih.inv)

end Steps

/-! ### every function of the loop is a sequence of refined steps -/

section ReachN
variable {P : Prepared} {fns : Fns} {gb : Graph String} {kn : Prop}

theorem starN_sendErr_cancel (r : R) (k : ErrKind) :
    Star (StepN P fns gb kn) r (doCancel (sendErr P.errCap r k)) :=
  (Star.single (.sendErr r k)).tail (.cancel _)

theorem processNode_reachN (notify : R → R)
    (hn : ∀ r : R, GLe gb r.1.dag → Star (StepN P fns gb kn) r (notify r))
    (r : R) (id : String) (st : St) (hb : GLe gb r.1.dag) (hp : kn → Popped gb r.1.dag id st) :
    Star (StepN P fns gb kn) r (processNode P fns notify r id st).1 := by
  unfold processNode
  split
  · exact .refl _
  split
  · exact .single (.die _ _)
  rename_i item hitem
  split
  · -- unresolvable node
    split
    · split
      · exact .refl _
      · dsimp only
        split
        · exact (Star.single (.setWaiting r _)).trans (starN_sendErr_cancel _ _)
        · exact .single (.setWaiting r _)
    · exact .refl _
  rename_i hst
  split
  · -- no data: dependency group
    split
    · rename_i hk
      split
      · exact .single (.die _ _)
      · rename_i g hok
        exact .head (.resolveItem r id item g hitem (.inl hk) hok) (hn _ (hb.trans (GLe.resolve hb.inv hok)))
    · exact .refl _
  rename_i inData hdata
  split
  · exact starN_sendErr_cancel _ _
  rename_i v hv
  split
  · -- stage
    rename_i hk
    split
    · exact .refl _
    split
    · exact .single (.die _ _)
    split
    · exact .single (.provide r id st item inData _ hp hst hitem hk hdata hv)
    · exact .single (.die _ _)
  · -- output
    rename_i hk
    dsimp only
    by_cases hd : r.1.outputDone = true
    · simp only [hd, ↓reduceIte]
      split
      · rename_i g hok
        exact (Star.single (.skipped r _ _)).tail (.resolveItem _ id item g hitem (.inr hk) hok)
      · exact .single (.skipped r _ _)
    · simp only [hd, Bool.false_eq_true, ↓reduceIte]
      split
      · rename_i g hok
        exact (Star.single (.output r id st item inData v hp hst hitem hk hdata hv)).tail
          (.resolveItem ({ r.1 with outputDone := true, result := some (item.output, v) },
            r.2 ++ [.output item.output v]) id item g hitem (.inr hk) hok)
      · exact .single (.output r id st item inData v hp hst hitem hk hdata hv)
  · exact .single (.die _ _)

theorem processNodes_reachN (notify : R → R)
    (hn : ∀ r : R, GLe gb r.1.dag → Star (StepN P fns gb kn) r (notify r))
    (l : List (String × St)) : ∀ r : R, GLe gb r.1.dag → (∀ x ∈ l, kn → Popped gb r.1.dag x.1 x.2) →
      Star (StepN P fns gb kn) r (processNodes P fns notify r l) := by
  induction l with
  | nil => intro r _ _; exact .refl r
  | cons x rest ih =>
    intro r hb hp
    obtain ⟨id, st⟩ := x
    unfold processNodes
    have h1 := processNode_reachN notify hn r id st hb (hp _ List.mem_cons_self)
    have hle := starN_gle h1 hb.inv
    dsimp only
    split
    · exact h1
    · exact h1.trans (ih _ (hb.trans hle) (fun x hx hw => (hp x (List.mem_cons_of_mem _ hx) hw).mono hle))

theorem notifySteps_reachN (ord : Order) (hord : kn → OrdOK ord) (f : Nat) :
    ∀ r : R, GLe gb r.1.dag → Star (StepN P fns gb kn) r (notifySteps P fns ord f r) := by
  induction f with
  | zero => intro r _; exact .refl r
  | succ f ih =>
    intro r hb
    unfold notifySteps
    split
    · exact .refl r
    · have hle := GLe.popReady hb.inv
      refine .head (.popReady r) (processNodes_reachN _ ih _ _ (hb.trans hle) ?_)
      intro x hx hw
      obtain ⟨hr, hs⟩ := Graph.mem_popReady (hord hw _ x hx)
      exact ⟨r.1.dag, hb, hle, hr, hs⟩

theorem checkDeadlock_reachN (retries : Nat) (busy : Bool) (r : R) :
    Star (StepN P fns gb kn) r (checkDeadlock P retries busy r) := by
  unfold checkDeadlock
  repeat' split
  all_goals first
    | exact .refl _
    | exact .single (.spawn _ _)
    | exact starN_sendErr_cancel _ _

end ReachN

/-! ### a reaction = preparatory steps, then `notifySteps` steps -/

section Decomp
variable {P : Prepared} {fns : Fns} {gb : Graph String} {kn : Prop}

theorem starPre_sendErr_cancel (r : R) (k : ErrKind) :
    Star (StepPre P) r (doCancel (sendErr P.errCap r k)) :=
  (Star.single (.sendErr r k)).tail (.cancel _)

theorem markOutputsUnres_reachPre (step stage : String) (skip : Option String) (r : R) :
    Star (StepPre P) r (markOutputsUnres P step stage skip r) := by
  unfold markOutputsUnres
  generalize P.outputsOf step stage = l
  induction l generalizing r with
  | nil => exact .refl r
  | cons o rest ih =>
    rw [List.foldl_cons]
    refine Star.trans ?_ (ih _)
    split
    · exact .refl _
    split
    · exact .refl _
    split
    · exact .refl _
    split
    · rename_i g hok; exact .single (.resolveOk r _ _ g hok)
    · exact .single (.die _ _)

theorem markStageUnres_reachPre (step stage : String) (r : R) :
    Star (StepPre P) r (markStageUnres step stage r) := by
  unfold markStageUnres
  split
  · exact .refl _
  split
  · exact .refl _
  split
  · rename_i g hok; exact .single (.resolveOk r _ _ g hok)
  · exact .single (.die _ _)

theorem markRemainingOne_reachPre (step : String) (r : R) (stage : String) :
    Star (StepPre P) r (markRemainingOne P step r stage) := by
  unfold markRemainingOne
  split
  · exact .refl _
  · exact (markOutputsUnres_reachPre (P := P) step stage none r).trans (markStageUnres_reachPre step stage _)

theorem markRemaining_reachPre (step : String) (r : R) : Star (StepPre P) r (markRemaining P step r) := by
  unfold markRemaining
  generalize P.stagesOf step = l
  induction l generalizing r with
  | nil => exact .refl r
  | cons x rest ih =>
    rw [List.foldl_cons]
    exact (markRemainingOne_reachPre step r x).trans (ih _)

/-- preparatory steps followed by `notifySteps` steps -/
def Decomp (P : Prepared) (fns : Fns) (gb : Graph String) (kn : Prop) (a c : R) : Prop :=
  ∃ b, Star (StepPre P) a b ∧ Star (StepN P fns gb kn) b c

theorem Decomp.pre {a c : R} (h : Star (StepPre P) a c) : Decomp P fns gb kn a c := ⟨c, h, .refl c⟩

theorem Decomp.tailN {a b c : R} (h : Decomp P fns gb kn a b) (h2 : Star (StepN P fns gb kn) b c) :
    Decomp P fns gb kn a c := by
  obtain ⟨m, h1, h3⟩ := h
  exact ⟨m, h1, h3.trans h2⟩

/-- the end of `onStageComplete` after preparatory steps `a → r`: marking (preparatory), then `notifySteps` -/
theorem finishStage_decomp (ord : Order) (hord : kn → OrdOK ord) (step : String) (complete : Bool) {a : R} (r : R)
    (h0 : Star (StepPre P) a r) (hb : GLe gb a.1.dag) :
    Decomp P fns gb kn a (finishStage P fns ord step complete r) := by
  unfold finishStage
  split
  · have h1 := h0.trans (markRemaining_reachPre (P := P) step r)
    exact ⟨_, h1, notifySteps_reachN ord hord _ _ (hb.trans (starPre_gle h1 hb.inv))⟩
  · exact ⟨_, h0, notifySteps_reachN ord hord _ _ (hb.trans (starPre_gle h0 hb.inv))⟩

theorem onStageCompleteBody_decomp (ord : Order) (hord : kn → OrdOK ord) (step prev : String)
    (out : Option (String × Val)) (complete : Bool) (r : R) (hb : GLe gb r.1.dag) :
    Decomp P fns gb kn r (onStageCompleteBody P fns ord step prev out complete r) := by
  unfold onStageCompleteBody
  dsimp only
  split
  · exact .pre (starPre_sendErr_cancel _ _)
  split
  · exact .pre (.single (.die _ _))
  · exact .pre (.single (.die _ _))
  · exact .pre (starPre_sendErr_cancel _ _)
  rename_i g hok
  have h1 : Star (StepPre P) r ({ r.1 with dag := g, finished := (step, prev) :: r.1.finished }, r.2) :=
    (Star.single (.resolveOk r _ _ g hok)).tail (.setFinished ({ r.1 with dag := g }, r.2) _)
  split
  · exact finishStage_decomp ord hord step complete _ h1 hb
  rename_i oid v
  split
  · exact .pre (h1.trans (starPre_sendErr_cancel _ _))
  split
  · exact .pre (h1.tail (.die _ _))
  · exact .pre (h1.tail (.die _ _))
  · exact .pre (h1.trans (starPre_sendErr_cancel _ _))
  rename_i g2 hok2
  have h2 : Star (StepPre P) r ({ r.1 with dag := g2, finished := (step, prev) :: r.1.finished }, r.2) :=
    h1.tail (.resolveOk ({ r.1 with dag := g, finished := (step, prev) :: r.1.finished }, r.2) _ _ g2 hok2)
  have h3 := h2.trans (markOutputsUnres_reachPre (P := P) step prev (some oid)
    ({ r.1 with dag := g2, finished := (step, prev) :: r.1.finished }, r.2))
  split
  · exact .pre h3
  · have h4 := h3.tail (.stageData _ step prev oid v)
    exact finishStage_decomp ord hord step complete _ h4 hb

theorem react_decomp (ord : Order) (hord : kn → OrdOK ord) (s : LoopState) (e : Event) (hs : s.dag.Inv) :
    Decomp P fns s.dag kn (s, []) (react P fns ord s e) := by
  have hb : GLe s.dag s.dag := GLe.refl hs
  unfold react
  split
  · exact .pre (.refl _)
  split
  · -- start
    rename_i input
    dsimp only
    have h1 : Star (StepPre P) (s, []) ({ s with data := initData P input, dag := s.dag.pushStarting }, []) :=
      (Star.single (.initData (s, []) input)).tail (.pushStarting _)
    split
    · exact .pre h1
    split
    · exact .pre h1
    · rename_i g hok
      have h2 := h1.tail (.resolveOk _ _ _ g hok)
      exact ⟨_, h2, notifySteps_reachN ord hord _ _ (starPre_gle h2 hs)⟩
  · split
    · exact .pre (.refl _)
    · exact (onStageCompleteBody_decomp ord hord _ _ _ _ _ hb).tailN (checkDeadlock_reachN _ _ _)
  · exact (onStageCompleteBody_decomp ord hord _ _ _ _ _ hb).tailN (checkDeadlock_reachN _ _ _)
  · rename_i step stage
    dsimp only
    have h1 := (markOutputsUnres_reachPre (P := P) step stage none (s, [])).trans
      (markStageUnres_reachPre step stage _)
    split
    · exact .pre h1
    · exact ⟨_, h1, notifySteps_reachN ord hord _ _ (starPre_gle h1 hs)⟩
  · split
    · exact .pre (.refl _)
    · exact ⟨_, .refl _, checkDeadlock_reachN _ _ _⟩
  · exact .pre (.single (.drain (s, [])))

theorem Decomp.gle {a c : R} (h : Decomp P fns gb kn a c) (ha : a.1.dag.Inv) : GLe a.1.dag c.1.dag := by
  obtain ⟨b, h1, h2⟩ := h
  have := starPre_gle h1 ha
  exact this.trans (starN_gle h2 this.inv)

end Decomp

/-! ### what the refined steps add to the action list -/

/-- the dependencies of node `id` are settled in `g`: `and` predecessors resolved, `cand` predecessors settled -/
def DepsSettled (P : Prepared) (g : Graph String) (id : String) : Prop :=
  (∀ ed ∈ P.dag.edges, ed.2.1 = id → ed.2.2 = Dep.and → statusIs g ed.1 St.resolved) ∧
  (∀ ed ∈ P.dag.edges, ed.2.1 = id → ed.2.2 = Dep.cand → statusIs g ed.1 St.resolved ∨ statusIs g ed.1 St.unres)

theorem DepsSettled.mono {P : Prepared} {g g' : Graph String} {id : String} (h : DepsSettled P g id)
    (hle : GLe g g') : DepsSettled P g' id := by
  refine ⟨fun ed he h1 h2 => hle.mono _ _ (by decide) (h.1 ed he h1 h2), fun ed he h1 h2 => ?_⟩
  rcases h.2 ed he h1 h2 with h3 | h3
  · exact .inl (hle.mono _ _ (by decide) h3)
  · exact .inr (hle.mono _ _ (by decide) h3)

/-- `ready_sound` at pop time, transported to any later graph of the reaction -/
theorem Popped.deps {P : Prepared} {gb cur : Graph String} {id : String} {st : St}
    (hgb : gb.edges = P.dag.edges) (h : Popped gb cur id st) (hst : st ≠ St.unres) : DepsSettled P cur id := by
  obtain ⟨g0, h1, h2, hr, n, hn, rfl⟩ := h
  have hed : g0.edges = P.dag.edges := h1.edges.trans hgb
  obtain ⟨hand, hcand, _⟩ := Graph.ready_sound g0 h1.inv id n hr hn hst
  refine DepsSettled.mono ⟨?_, ?_⟩ h2
  · intro ed he hto hty
    rw [← hed] at he
    obtain ⟨m, hm⟩ := Graph.has_iff.1 (h1.inv.edge_nodes ed he).1
    exact ⟨m, hm, (hand ed he hto hty m hm).1⟩
  · intro ed he hto hty
    rw [← hed] at he
    obtain ⟨m, hm⟩ := Graph.has_iff.1 (h1.inv.edge_nodes ed he).1
    have := hcand ed he hto hty m hm
    cases hs : m.status with
    | waiting => exact absurd hs this
    | resolved => exact .inl ⟨m, hm, hs⟩
    | unres => exact .inr ⟨m, hm, hs⟩

/-- what is known when an action is appended by a `notifySteps` step performed in state `a` -/
def NewAct (P : Prepared) (fns : Fns) (gb : Graph String) (kn : Prop) (a : R) : Action → Prop
  | .provide step stage v => ∃ id st it d, (kn → Popped gb a.1.dag id st) ∧ st ≠ St.unres ∧
      lookup id P.items = some it ∧ it.kind = Kind.stage ∧ it.step = step ∧ it.stage = stage ∧
      it.data = some d ∧ resolveIn fns a.1.dag a.1.data d = .ok v
  | .output oid v => ∃ id st it d, (kn → Popped gb a.1.dag id st) ∧ st ≠ St.unres ∧
      lookup id P.items = some it ∧ it.kind = Kind.output ∧ it.output = oid ∧
      it.data = some d ∧ resolveIn fns a.1.dag a.1.data d = .ok v
  | _ => True

def Action.isProvOut : Action → Bool
  | .provide _ _ _ => true
  | .output _ _ => true
  | _ => false

section Acts
variable {P : Prepared} {fns : Fns} {gb : Graph String} {kn : Prop}

theorem mem_snoc_cases {a : List Action} {x y : Action} (h : x ∈ a ++ [y]) : x ∈ a ∨ x = y := by
  simpa using h

theorem stepN_acts {a b : R} (h : StepN P fns gb kn a b) : ∀ x ∈ b.2, x ∈ a.2 ∨ NewAct P fns gb kn a x := by
  cases h
  case provide id st it d v hp hst hit hk hd hv =>
    intro x hx
    rcases mem_snoc_cases hx with hx | rfl
    · exact .inl hx
    · exact .inr ⟨id, st, it, d, hp, hst, hit, hk, rfl, rfl, hd, hv⟩
  case output id st it d v hp hst hit hk hd hv =>
    intro x hx
    rcases mem_snoc_cases hx with hx | rfl
    · exact .inl hx
    · exact .inr ⟨id, st, it, d, hp, hst, hit, hk, rfl, hd, hv⟩
  all_goals try simp only [emit, Arca.Model.die, Arca.Model.sendErr, doCancel]
  all_goals repeat' split
  all_goals intro x hx
  all_goals first
    | exact .inl hx
    | (rcases mem_snoc_cases hx with hx | rfl
       · exact .inl hx
       · exact .inr trivial)

theorem stepN_data {a b : R} (h : StepN P fns gb kn a b) : b.1.data = a.1.data := by
  cases h
  all_goals try simp only [emit, Arca.Model.die, Arca.Model.sendErr, doCancel]
  all_goals repeat' split
  all_goals rfl

theorem stepN_finished {a b : R} (h : StepN P fns gb kn a b) : b.1.finished = a.1.finished := by
  cases h
  all_goals try simp only [emit, Arca.Model.die, Arca.Model.sendErr, doCancel]
  all_goals repeat' split
  all_goals rfl

theorem stepPre_acts {a b : R} (h : StepPre P a b) : ∀ x ∈ b.2, x ∈ a.2 ∨ x.isProvOut = false := by
  cases h
  all_goals try simp only [emit, Arca.Model.die, Arca.Model.sendErr, doCancel]
  all_goals repeat' split
  all_goals intro x hx
  all_goals first
    | exact .inl hx
    | (rcases mem_snoc_cases hx with hx | rfl
       · exact .inl hx
       · exact .inr rfl)

theorem starPre_acts {a b : R} (h : Star (StepPre P) a b) (ha : ∀ x ∈ a.2, x.isProvOut = false) :
    ∀ x ∈ b.2, x.isProvOut = false := by
  induction h with
  | refl => exact ha
  | tail _ s ih =>
    intro x hx
    rcases stepPre_acts s x hx with h | h
    · exact ih x h
    · exact h

end Acts

/-! ### C02 / C03 / C04 invariant: emitted `provide` / `output` actions are justified in the current state -/

/-- the justification of an emitted action for node `id` (item `it`, data `d`, value `v`) in state `s` -/
def EmitOK (P : Prepared) (fns : Fns) (s : LoopState) (id : String) (it : Item) (d : InVal) (v : Val) : Prop :=
  lookup id P.items = some it ∧ it.data = some d ∧ (∃ g, resolveIn fns g s.data d = .ok v) ∧
    DepsSettled P s.dag id

theorem EmitOK.mono {P : Prepared} {fns : Fns} {s s' : LoopState} {id : String} {it : Item} {d : InVal} {v : Val}
    (h : EmitOK P fns s id it d v) (hd : s'.data = s.data) (hle : GLe s.dag s'.dag) : EmitOK P fns s' id it d v :=
  ⟨h.1, h.2.1, hd ▸ h.2.2.1, h.2.2.2.mono hle⟩

def ActsOK (P : Prepared) (fns : Fns) (r : R) : Prop :=
  ∀ x ∈ r.2, match x with
    | .provide step stage v => ∃ id it d, it.kind = Kind.stage ∧ it.step = step ∧ it.stage = stage ∧
        EmitOK P fns r.1 id it d v
    | .output oid v => ∃ id it d, it.kind = Kind.output ∧ it.output = oid ∧ EmitOK P fns r.1 id it d v
    | _ => True

theorem stepN_actsOK {P : Prepared} {fns : Fns} {gb : Graph String} (hgb : gb.edges = P.dag.edges) {a b : R}
    (h : StepN P fns gb True a b) (ha : a.1.dag.Inv ∧ ActsOK P fns a) : b.1.dag.Inv ∧ ActsOK P fns b := by
  have hle := stepN_gle h ha.1
  have hd := stepN_data h
  refine ⟨hle.inv, ?_⟩
  intro x hx
  rcases stepN_acts h x hx with hx | hnew
  · have := ha.2 x hx
    cases x <;> try trivial
    · obtain ⟨id, it, d, h1, h2, h3, h4⟩ := this
      exact ⟨id, it, d, h1, h2, h3, h4.mono hd hle⟩
    · obtain ⟨id, it, d, h1, h2, h4⟩ := this
      exact ⟨id, it, d, h1, h2, h4.mono hd hle⟩
  · cases x <;> try trivial
    · obtain ⟨id, st, it, d, hp, hst, hit, hk, h1, h2, hdat, hv⟩ := hnew
      exact ⟨id, it, d, hk, h1, h2, hit, hdat, ⟨a.1.dag, hd ▸ hv⟩, ((hp trivial).deps hgb hst).mono hle⟩
    · obtain ⟨id, st, it, d, hp, hst, hit, hk, h1, hdat, hv⟩ := hnew
      exact ⟨id, it, d, hk, h1, hit, hdat, ⟨a.1.dag, hd ▸ hv⟩, ((hp trivial).deps hgb hst).mono hle⟩

theorem react_actsOK (P : Prepared) (fns : Fns) (ord : Order) (hord : OrdOK ord) (s : LoopState) (e : Event)
    (h : LoopDagInv P s) : ActsOK P fns (react P fns ord s e) := by
  obtain ⟨b, h1, h2⟩ := react_decomp (fns := fns) (kn := True) ord (fun _ => hord) s e h.inv
  have hb : b.1.dag.Inv ∧ ActsOK P fns b := by
    refine ⟨(starPre_gle h1 h.inv).inv, ?_⟩
    intro x hx
    have := starPre_acts h1 (fun _ h => nomatch h) x hx
    cases x <;> first | trivial | cases this
  exact (Star.preserves (Q := fun r => r.1.dag.Inv ∧ ActsOK P fns r) (fun _ _ => stepN_actsOK h.edges) h2 hb).2

/-! ### the data model: `setStageData` vs. `lookupData` -/

/-- the data model is a map (it is from `LoopState.init` on; `setStageData` only works on maps) -/
def DataMap (s : LoopState) : Prop := ∃ top, s.data = Val.map top

theorem setStageData_map (top : List (String × Val)) (step stage out : String) (v : Val) :
    ∃ top', setStageData (.map top) step stage out v = .map top' := ⟨_, rfl⟩

theorem lookupData_setStageData_self (top : List (String × Val)) (step stage out : String) (v : Val) :
    lookupData (setStageData (.map top) step stage out v) step stage out = some (serializedOutput v) := by
  simp [setStageData, lookupData, lookup_insertKv_self, lookup]

theorem lookupData_setStageData_other (top : List (String × Val)) (step stage out : String) (v : Val)
    (step' stage' out' : String) (hne : ¬ (step' = step ∧ stage' = stage))
    (h : (lookupData (.map top) step' stage' out').isSome = true) :
    (lookupData (setStageData (.map top) step stage out v) step' stage' out').isSome = true := by
  unfold lookupData at h
  simp only at h
  split at h
  next steps hsteps =>
    split at h
    next sts hsts =>
      simp only [setStageData, lookupData, hsteps, lookup_insertKv_self]
      by_cases h1 : step' = step
      · subst h1
        have h2 : stage' ≠ stage := fun h2 => hne ⟨rfl, h2⟩
        simp only [hsts, lookup_insertKv_self, lookup_insertKv_other _ _ _ _ h2]
        exact h
      · simp only [lookup_insertKv_other _ _ _ _ h1, hsts]
        exact h
    next => cases h
  next => cases h

/-! ### which nodes a reaction can turn `resolved` -/

/-- no stage-output node is `resolved` in `g'` that was not already `resolved` in `g` -/
def SONoNew (P : Prepared) (g g' : Graph String) : Prop :=
  ∀ id it, lookup id P.items = some it → it.kind = Kind.stageOutput →
    statusIs g' id St.resolved → statusIs g id St.resolved

theorem SONoNew.refl (P : Prepared) (g : Graph String) : SONoNew P g g := fun _ _ _ _ h => h

theorem SONoNew.trans {P : Prepared} {a b c : Graph String} (h1 : SONoNew P a b) (h2 : SONoNew P b c) :
    SONoNew P a c := fun id it hit hk h => h1 id it hit hk (h2 id it hit hk h)

/-- no node at all is newly `resolved` -/
def NoNewRes (g g' : Graph String) : Prop := ∀ x, statusIs g' x St.resolved → statusIs g x St.resolved

theorem NoNewRes.so {P : Prepared} {g g' : Graph String} (h : NoNewRes g g') : SONoNew P g g' :=
  fun id _ _ _ hs => h id hs

theorem resolve_newRes {g g' : Graph String} {id x : String} {st : St} (hok : g.resolve id st = .ok g')
    (hx : statusIs g' x St.resolved) : (x = id ∧ st = St.resolved) ∨ statusIs g x St.resolved := by
  obtain ⟨n', hn', hs'⟩ := hx
  exact Graph.resolve_resolved_only g g' id x st n' hok hn' hs'

theorem NoNewRes.resolve_unres {g g' : Graph String} {id : String} (hok : g.resolve id St.unres = .ok g') :
    NoNewRes g g' := by
  intro x hx
  rcases resolve_newRes hok hx with ⟨_, h⟩ | h
  · cases h
  · exact h

theorem SONoNew.resolve {P : Prepared} {g g' : Graph String} {id : String} {st : St}
    (hok : g.resolve id st = .ok g')
    (hid : ∀ it, lookup id P.items = some it → it.kind ≠ Kind.stageOutput) : SONoNew P g g' := by
  intro x it hit hk hx
  rcases resolve_newRes hok hx with ⟨rfl, _⟩ | h
  · exact absurd hk (hid it hit)
  · exact h

section DataSteps
variable {P : Prepared} {fns : Fns} {gb : Graph String} {kn : Prop}

theorem stepN_sonew {a b : R} (h : StepN P fns gb kn a b) : SONoNew P a.1.dag b.1.dag := by
  cases h
  case popReady => exact fun _ _ _ _ h => h
  case resolveItem id it g' hit hk hok =>
    refine SONoNew.resolve hok ?_
    intro it' hit' hk'
    rw [hit] at hit'; cases hit'
    rcases hk with hk | hk <;> rw [hk] at hk' <;> cases hk'
  all_goals try simp only [emit, Arca.Model.die, Arca.Model.sendErr, doCancel]
  all_goals repeat' split
  all_goals exact SONoNew.refl _ _

theorem starN_sonew {a b : R} (h : Star (StepN P fns gb kn) a b) : SONoNew P a.1.dag b.1.dag := by
  induction h with
  | refl => exact SONoNew.refl _ _
  | tail _ s ih => exact ih.trans (stepN_sonew s)

theorem starN_data {a b : R} (h : Star (StepN P fns gb kn) a b) : b.1.data = a.1.data := by
  induction h with
  | refl => rfl
  | tail _ s ih => exact (stepN_data s).trans ih

theorem starN_finished {a b : R} (h : Star (StepN P fns gb kn) a b) : b.1.finished = a.1.finished := by
  induction h with
  | refl => rfl
  | tail _ s ih => exact (stepN_finished s).trans ih

theorem notifySteps_quiet (ord : Order) (f : Nat) (r : R) (hinv : r.1.dag.Inv) :
    (notifySteps P fns ord f r).1.data = r.1.data ∧ SONoNew P r.1.dag (notifySteps P fns ord f r).1.dag := by
  have h := notifySteps_reachN (P := P) (fns := fns) (gb := r.1.dag) (kn := False) ord (fun h => h.elim) f r
    (GLe.refl hinv)
  exact ⟨starN_data h, starN_sonew h⟩

theorem checkDeadlock_quiet (retries : Nat) (busy : Bool) (r : R) :
    (checkDeadlock P retries busy r).1.data = r.1.data ∧ (checkDeadlock P retries busy r).1.dag = r.1.dag ∧
      ((checkDeadlock P retries busy r).1.dead = r.1.dead) := by
  unfold checkDeadlock
  simp only [emit, Arca.Model.sendErr, doCancel]
  repeat' split
  all_goals exact ⟨rfl, rfl, rfl⟩

theorem checkDeadlock_finished (retries : Nat) (busy : Bool) (r : R) :
    (checkDeadlock P retries busy r).1.finished = r.1.finished := by
  unfold checkDeadlock
  simp only [emit, Arca.Model.sendErr, doCancel]
  repeat' split
  all_goals rfl

/-- a transformation that moves the graph forward, keeps the data, never revives and resolves nothing -/
structure Quiet (r r' : R) : Prop where
  gle : GLe r.1.dag r'.1.dag
  data : r'.1.data = r.1.data
  dead : r.1.dead = true → r'.1.dead = true
  nonew : NoNewRes r.1.dag r'.1.dag
  fin : r'.1.finished = r.1.finished

theorem Quiet.refl {r : R} (h : r.1.dag.Inv) : Quiet r r := ⟨GLe.refl h, rfl, id, fun _ h => h, rfl⟩

theorem Quiet.trans {a b c : R} (h1 : Quiet a b) (h2 : Quiet b c) : Quiet a c :=
  ⟨h1.gle.trans h2.gle, h2.data.trans h1.data, fun h => h2.dead (h1.dead h), fun x h => h1.nonew x (h2.nonew x h),
    h2.fin.trans h1.fin⟩

/-- the body of the loop of `markOutputsUnres` -/
def markOne (step stage : String) (skip : Option String) (r : R) (o : String) : R :=
  if r.1.dead then r
  else if skip = some o then r
  else if !(r.1.dag.has (outputNodeId step stage o)) then r
  else match r.1.dag.resolve (outputNodeId step stage o) .unres with
    | .ok g => ({ r.1 with dag := g }, r.2)
    | .error _ => Arca.Model.die r (.panic .markOutputsUnresolvable)

theorem markOutputsUnres_eq (P : Prepared) (step stage : String) (skip : Option String) (r : R) :
    markOutputsUnres P step stage skip r = (P.outputsOf step stage).foldl (markOne step stage skip) r := rfl

theorem not_resolved_of_unres {g : Graph String} {x : String} (h : statusIs g x St.unres) :
    ¬ statusIs g x St.resolved := fun h' => by cases statusIs_unique h h'

theorem markOne_props (step stage : String) (skip : Option String) (r : R) (o : String) (hinv : r.1.dag.Inv) :
    Quiet r (markOne step stage skip r o) ∧
    ((markOne step stage skip r o).1.dead = false → skip ≠ some o →
      ¬ statusIs (markOne step stage skip r o).1.dag (outputNodeId step stage o) St.resolved) := by
  unfold markOne
  split
  · rename_i hd
    exact ⟨Quiet.refl hinv, fun h => by rw [hd] at h; cases h⟩
  split
  · rename_i hs
    exact ⟨Quiet.refl hinv, fun _ h => absurd hs h⟩
  split
  · rename_i hh
    refine ⟨Quiet.refl hinv, fun _ _ hx => ?_⟩
    obtain ⟨n, hn, _⟩ := hx
    have : r.1.dag.has (outputNodeId step stage o) = true := Graph.has_iff.2 ⟨n, hn⟩
    simp [this] at hh
  split
  · rename_i g hok
    refine ⟨⟨GLe.resolve hinv hok, rfl, id, NoNewRes.resolve_unres hok, rfl⟩, fun _ _ => ?_⟩
    obtain ⟨n', hn', hs'⟩ := Graph.resolve_status_self _ _ _ _ (by decide) hok
    exact not_resolved_of_unres ⟨n', hn', hs'⟩
  · exact ⟨⟨GLe.refl hinv, rfl, fun _ => rfl, fun _ h => h, rfl⟩, fun h => by cases h⟩

theorem foldl_markOne_props (step stage : String) (skip : Option String) (l : List String) :
    ∀ r : R, r.1.dag.Inv →
    Quiet r (l.foldl (markOne step stage skip) r) ∧
    ((l.foldl (markOne step stage skip) r).1.dead = false → ∀ o ∈ l, skip ≠ some o →
      ¬ statusIs (l.foldl (markOne step stage skip) r).1.dag (outputNodeId step stage o) St.resolved) := by
  induction l with
  | nil => intro r hinv; exact ⟨Quiet.refl hinv, fun _ _ h => nomatch h⟩
  | cons o rest ih =>
    intro r hinv
    rw [List.foldl_cons]
    obtain ⟨q1, p1⟩ := markOne_props step stage skip r o hinv
    obtain ⟨q2, p2⟩ := ih _ q1.gle.inv
    refine ⟨q1.trans q2, fun hd o' ho' hs => ?_⟩
    rcases List.mem_cons.1 ho' with rfl | ho'
    · intro hx
      have hd1 : (markOne step stage skip r o').1.dead = false := by
        cases h : (markOne step stage skip r o').1.dead with
        | false => rfl
        | true => rw [q2.dead h] at hd; cases hd
      exact p1 hd1 hs (q2.nonew _ hx)
    · exact p2 hd o' ho' hs

theorem markOutputsUnres_props (step stage : String) (skip : Option String) (r : R) (hinv : r.1.dag.Inv) :
    Quiet r (markOutputsUnres P step stage skip r) ∧
    ((markOutputsUnres P step stage skip r).1.dead = false → ∀ o ∈ P.outputsOf step stage, skip ≠ some o →
      ¬ statusIs (markOutputsUnres P step stage skip r).1.dag (outputNodeId step stage o) St.resolved) := by
  rw [markOutputsUnres_eq]
  exact foldl_markOne_props step stage skip _ r hinv

theorem markStageUnres_quiet (step stage : String) (r : R) (hinv : r.1.dag.Inv) :
    Quiet r (markStageUnres step stage r) := by
  unfold markStageUnres
  split
  · exact Quiet.refl hinv
  split
  · exact Quiet.refl hinv
  split
  · rename_i g hok
    exact ⟨GLe.resolve hinv hok, rfl, id, NoNewRes.resolve_unres hok, rfl⟩
  · exact ⟨GLe.refl hinv, rfl, fun _ => rfl, fun _ h => h, rfl⟩

theorem markRemainingOne_quiet (step : String) (r : R) (stage : String) (hinv : r.1.dag.Inv) :
    Quiet r (markRemainingOne P step r stage) := by
  unfold markRemainingOne
  split
  · exact Quiet.refl hinv
  · have q1 := (markOutputsUnres_props (P := P) step stage none r hinv).1
    exact q1.trans (markStageUnres_quiet step stage _ q1.gle.inv)

/-- `markRemainingStagesUnresolvable` moves the graph forward, keeps the data and resolves nothing -/
theorem markRemaining_quiet (step : String) (r : R) (hinv : r.1.dag.Inv) : Quiet r (markRemaining P step r) := by
  unfold markRemaining
  generalize P.stagesOf step = l
  induction l generalizing r with
  | nil => exact Quiet.refl hinv
  | cons x rest ih =>
    rw [List.foldl_cons]
    have q1 := markRemainingOne_quiet (P := P) step r x hinv
    exact q1.trans (ih _ q1.gle.inv)

theorem finishStage_quiet (ord : Order) (step : String) (complete : Bool) (r : R) (hinv : r.1.dag.Inv) :
    (finishStage P fns ord step complete r).1.data = r.1.data ∧
      SONoNew P r.1.dag (finishStage P fns ord step complete r).1.dag := by
  unfold finishStage
  split
  · have q := markRemaining_quiet (P := P) step r hinv
    obtain ⟨h1, h2⟩ := notifySteps_quiet (P := P) (fns := fns) ord (notifyFuel P) (markRemaining P step r) q.gle.inv
    exact ⟨h1.trans q.data, q.nonew.so.trans h2⟩
  · exact notifySteps_quiet ord _ r hinv

end DataSteps


/-! ### the graph invariant is maintained -/

theorem init_dag_inv (P : Prepared) (h : P.WF) : LoopDagInv P (LoopState.init P) :=
  ⟨Graph.inv_clone _ h.inv, rfl, rfl⟩

/-- one reaction moves the graph forward in the order `GLe` -/
theorem react_gle (P : Prepared) (fns : Fns) (ord : Order) (s : LoopState) (e : Event) (hs : s.dag.Inv) :
    GLe s.dag (react P fns ord s e).1.dag :=
  (react_decomp (fns := fns) (kn := False) ord (fun h => h.elim) s e hs).gle hs

theorem runFrom_cons_eq (P : Prepared) (fns : Fns) (ord : Order) (s : LoopState) (e : Event) (es : List Event) :
    runFrom P fns ord s (e :: es) =
      ((runFrom P fns ord (react P fns ord s e).1 es).1,
       (react P fns ord s e).2 ++ (runFrom P fns ord (react P fns ord s e).1 es).2) := rfl

theorem runFrom_dag_inv (P : Prepared) (fns : Fns) (ord : Order) (h : List Event) :
    ∀ s, LoopDagInv P s → LoopDagInv P (runFrom P fns ord s h).1 := by
  induction h with
  | nil => intro s hs; exact hs
  | cons e es ih =>
    intro s hs
    rw [runFrom_cons_eq]
    have hle := react_gle P fns ord s e hs.inv
    exact ih _ ⟨hle.inv, hle.edges.trans hs.edges, hle.ids.trans hs.ids⟩

theorem react_dag_inv (P : Prepared) (fns : Fns) (ord : Order) (s : LoopState) (e : Event)
    (h : LoopDagInv P s) : LoopDagInv P (react P fns ord s e).1 := by
  have hle := react_gle P fns ord s e h.inv
  exact ⟨hle.inv, hle.edges.trans h.edges, hle.ids.trans h.ids⟩

theorem run_dag_inv (P : Prepared) (fns : Fns) (ord : Order) (hP : P.WF) (h : List Event) :
    LoopDagInv P (run P fns ord h).1 :=
  runFrom_dag_inv P fns ord h _ (init_dag_inv P hP)

/-- statuses only ever leave `waiting` during a reaction -/
theorem react_status_mono (P : Prepared) (fns : Fns) (ord : Order) (s : LoopState) (e : Event)
    (h : LoopDagInv P s) (id : String) (st : St) (hst : st ≠ St.waiting) (hs : statusIs s.dag id st) :
    statusIs (react P fns ord s e).1.dag id st :=
  (react_gle P fns ord s e h.inv).mono id st hst hs

/-! ### C02 / C04: what holds when a stage input is provided -/

/--
If a reaction hands a stage its input then, in the state after the reaction, every required (`and`) dependency of
that stage's node is resolved and every completion (`cand`) dependency is settled; the value handed over is the
item's data resolved over the reaction's data model (against some graph of the reaction).
-/
theorem provide_deps_settled (P : Prepared) (fns : Fns) (ord : Order) (hord : OrdOK ord) (s : LoopState) (e : Event)
    (hP : P.WF) (h : LoopDagInv P s) (step stage : String) (v : Val)
    (hp : Action.provide step stage v ∈ (react P fns ord s e).2) :
    ∃ id it d, lookup id P.items = some it ∧ it.kind = Kind.stage ∧ it.step = step ∧ it.stage = stage ∧
      it.data = some d ∧
      (∃ g, resolveIn fns g (react P fns ord s e).1.data d = .ok v) ∧
      (∀ ed ∈ P.dag.edges, ed.2.1 = id → ed.2.2 = Dep.and → statusIs (react P fns ord s e).1.dag ed.1 St.resolved) ∧
      (∀ ed ∈ P.dag.edges, ed.2.1 = id → ed.2.2 = Dep.cand →
          statusIs (react P fns ord s e).1.dag ed.1 St.resolved ∨ statusIs (react P fns ord s e).1.dag ed.1 St.unres) := by
  obtain ⟨id, it, d, h1, h2, h3, h4, h5, h6, h7⟩ := react_actsOK P fns ord hord s e h _ hp
  exact ⟨id, it, d, h4, h1, h2, h3, h5, h6, h7⟩

/-- the same for the workflow output that a reaction produces (C03) -/
theorem output_deps_settled (P : Prepared) (fns : Fns) (ord : Order) (hord : OrdOK ord) (s : LoopState) (e : Event)
    (hP : P.WF) (h : LoopDagInv P s) (oid : String) (v : Val)
    (hp : Action.output oid v ∈ (react P fns ord s e).2) :
    ∃ id it d, lookup id P.items = some it ∧ it.kind = Kind.output ∧ it.output = oid ∧ it.data = some d ∧
      (∃ g, resolveIn fns g (react P fns ord s e).1.data d = .ok v) ∧
      (∀ ed ∈ P.dag.edges, ed.2.1 = id → ed.2.2 = Dep.and → statusIs (react P fns ord s e).1.dag ed.1 St.resolved) ∧
      (∀ ed ∈ P.dag.edges, ed.2.1 = id → ed.2.2 = Dep.cand →
          statusIs (react P fns ord s e).1.dag ed.1 St.resolved ∨ statusIs (react P fns ord s e).1.dag ed.1 St.unres) := by
  obtain ⟨id, it, d, h1, h2, h4, h5, h6, h7⟩ := react_actsOK P fns ord hord s e h _ hp
  exact ⟨id, it, d, h4, h1, h2, h5, h6, h7⟩

/-! ### C04: an unresolvable stage node is never provided -/

theorem react_no_provide_unres (P : Prepared) (fns : Fns) (ord : Order) (hord : OrdOK ord) (hP : P.WF)
    (s : LoopState) (e : Event) (h : LoopDagInv P s) (id : String) (it : Item) (hit : lookup id P.items = some it)
    (hk : it.kind = Kind.stage) (hun : statusIs s.dag id St.unres) :
    ∀ v, Action.provide it.step it.stage v ∉ (react P fns ord s e).2 := by
  obtain ⟨b, h1, h2⟩ := react_decomp (fns := fns) (kn := True) ord (fun _ => hord) s e h.inv
  have hb : ∀ v, Action.provide it.step it.stage v ∉ b.2 := by
    intro v hv
    have := starPre_acts h1 (fun _ h => nomatch h) _ hv
    cases this
  refine Star.preserves (Q := fun r => ∀ v, Action.provide it.step it.stage v ∉ r.2) ?_ h2 hb
  intro a c hstep ha v hv
  rcases stepN_acts hstep _ hv with hv | hnew
  · exact ha v hv
  · obtain ⟨id', st, it', d, hp, hst, hit', hk', h3, h4, _, _⟩ := hnew
    have hid : id' = id := by
      rw [hP.stage_id id' it' hit' hk', hP.stage_id id it hit hk, h3, h4]
    subst hid
    obtain ⟨g0, hle, _, _, hs0⟩ := hp trivial
    exact hst (statusIs_unique hs0 (hle.mono _ _ (by decide) hun))

theorem runFrom_no_provide_unres (P : Prepared) (fns : Fns) (ord : Order) (hord : OrdOK ord) (hP : P.WF)
    (id : String) (it : Item) (hit : lookup id P.items = some it) (hk : it.kind = Kind.stage) (hist : List Event) :
    ∀ s, LoopDagInv P s → statusIs s.dag id St.unres →
      ∀ v, Action.provide it.step it.stage v ∉ (runFrom P fns ord s hist).2 := by
  induction hist with
  | nil => intro s _ _ v hv; cases hv
  | cons e es ih =>
    intro s h hun v hv
    rw [runFrom_cons_eq] at hv
    rcases List.mem_append.1 hv with hv | hv
    · exact react_no_provide_unres P fns ord hord hP s e h id it hit hk hun v hv
    · exact ih _ (react_dag_inv P fns ord s e h) (react_status_mono P fns ord s e h id _ (by decide) hun) v hv

/-- C04: a stage one of whose required dependencies is unresolvable is never provided afterwards -/
theorem failed_prereq_never_provided (P : Prepared) (fns : Fns) (ord : Order) (hord : OrdOK ord)
    (hP : P.WF) (s : LoopState) (h : LoopDagInv P s) (hist : List Event)
    (id : String) (it : Item) (hit : lookup id P.items = some it) (hk : it.kind = Kind.stage)
    (ed : String × String × Dep) (hed : ed ∈ P.dag.edges) (hto : ed.2.1 = id) (hand : ed.2.2 = Dep.and)
    (hun : statusIs s.dag ed.1 St.unres) :
    ∀ v, Action.provide it.step it.stage v ∉ (runFrom P fns ord s hist).2 := by
  refine runFrom_no_provide_unres P fns ord hord hP id it hit hk hist s h ?_
  obtain ⟨m, hm, hms⟩ := hun
  have he : ed ∈ s.dag.edges := h.edges ▸ hed
  obtain ⟨n, hn⟩ := Graph.has_iff.1 (h.inv.edge_nodes ed he).2
  exact ⟨n, hto ▸ hn, h.inv.and_unres ed he hand m n hm hn hms⟩

/-! ### the data model holds the data of every resolved stage output -/

/-! ### the data invariant -/

/-- resolved stage-output nodes have their value in the data model (while the loop is alive) -/
def DataInv (P : Prepared) (s : LoopState) : Prop :=
  s.dead = false → ∀ id it, lookup id P.items = some it → it.kind = Kind.stageOutput →
    statusIs s.dag id St.resolved → (lookupData s.data it.step it.stage it.output).isSome = true

/-- no stage-output node is resolved (true of the initial state: hypothesis of the `start` event, which resets the
data model) -/
def NoOutputResolved (P : Prepared) (s : LoopState) : Prop :=
  ∀ id it, lookup id P.items = some it → it.kind = Kind.stageOutput → ¬ statusIs s.dag id St.resolved

/-- stage-change callbacks name declared stages (the engine registers them for the stages of the prepared steps), and
an output they report is declared for that stage (what C12 guarantees of the providers) -/
def EventDeclared (P : Prepared) : Event → Prop
  | .stageChange step (some prev) out _ =>
      P.declares step prev ∧ ∀ oid v, out = some (oid, v) → oid ∈ P.outputsOf step prev
  | .stepComplete step prev out _ =>
      P.declares step prev ∧ ∀ oid v, out = some (oid, v) → oid ∈ P.outputsOf step prev
  | _ => True

/-- what the environment guarantees about an event delivered in state `s`: callbacks name declared stages
and declared outputs, and `start` (which replaces the whole data model) is delivered before any stage output is resolved -/
def EventOK (P : Prepared) (s : LoopState) (e : Event) : Prop :=
  EventDeclared P e ∧ ∀ input, e = Event.start input → NoOutputResolved P s

section DataInvLemmas
variable {P : Prepared}

theorem dataInv_of_dead {t : LoopState} (h : t.dead = true) : DataInv P t :=
  fun h' => by rw [h] at h'; cases h'

theorem dataInv_of_none {t : LoopState} (h : NoOutputResolved P t) : DataInv P t :=
  fun _ id it hit hk hs => absurd hs (h id it hit hk)

theorem dataInv_of_quiet {s t : LoopState} (hdead : s.dead = false) (hd : DataInv P s) (hdata : t.data = s.data)
    (hso : SONoNew P s.dag t.dag) : DataInv P t := by
  intro _ id it hit hk hs
  rw [hdata]
  exact hd hdead id it hit hk (hso id it hit hk hs)

theorem dataInv_congr {s t : LoopState} (hd : DataInv P s) (hdata : t.data = s.data) (hdag : t.dag = s.dag)
    (hdead : t.dead = s.dead) : DataInv P t := by
  intro h id it hit hk hs
  rw [hdata]
  rw [hdag] at hs
  exact hd (hdead ▸ h) id it hit hk hs

theorem cancel_sendErr_same (cap : Nat) (r : R) (k : ErrKind) :
    (doCancel (sendErr cap r k)).1.dag = r.1.dag ∧ (doCancel (sendErr cap r k)).1.data = r.1.data := by
  simp only [doCancel, Arca.Model.sendErr]
  repeat' split
  all_goals exact ⟨rfl, rfl⟩

theorem onStageCompleteBody_data (hP : P.WF) (fns : Fns) (ord : Order) (step prev : String)
    (out : Option (String × Val)) (complete : Bool) (s : LoopState) (acts : List Action) (hinv : s.dag.Inv)
    (hdead : s.dead = false) (hd : DataInv P s) (hm : DataMap s) (hdecl : P.declares step prev)
    (hout : ∀ oid v, out = some (oid, v) → oid ∈ P.outputsOf step prev) :
    DataInv P (onStageCompleteBody P fns ord step prev out complete (s, acts)).1 := by
  unfold onStageCompleteBody
  dsimp only
  split
  · obtain ⟨h1, h2⟩ := cancel_sendErr_same P.errCap (s, acts) .getStageNode
    exact dataInv_of_quiet hdead hd h2 (h1 ▸ SONoNew.refl _ _)
  split
  · exact dataInv_of_dead rfl
  · exact dataInv_of_dead rfl
  · obtain ⟨h1, h2⟩ := cancel_sendErr_same P.errCap (s, acts) .resolveStageNode
    exact dataInv_of_quiet hdead hd h2 (h1 ▸ SONoNew.refl _ _)
  rename_i g hok
  have hso1 : SONoNew P s.dag g := by
    refine SONoNew.resolve hok ?_
    intro it hit hk
    rw [hP.stage_kind step prev it hdecl hit] at hk
    cases hk
  have hinv1 : g.Inv := (GLe.resolve hinv hok).inv
  split
  · -- no output
    obtain ⟨h1, h2⟩ := finishStage_quiet (P := P) (fns := fns) ord step complete
      ({ s with dag := g, finished := (step, prev) :: s.finished }, acts) hinv1
    exact dataInv_of_quiet hdead hd h1 (hso1.trans h2)
  rename_i oid v
  split
  · obtain ⟨h1, h2⟩ := cancel_sendErr_same P.errCap ({ s with dag := g, finished := (step, prev) :: s.finished }, acts) .getOutputNode
    exact dataInv_of_quiet hdead hd h2 (by rw [h1]; exact hso1)
  split
  · exact dataInv_of_dead rfl
  · exact dataInv_of_dead rfl
  · obtain ⟨h1, h2⟩ := cancel_sendErr_same P.errCap ({ s with dag := g, finished := (step, prev) :: s.finished }, acts) .resolveOutputNode
    exact dataInv_of_quiet hdead hd h2 (by rw [h1]; exact hso1)
  rename_i g2 hok2
  have hinv2 : g2.Inv := (GLe.resolve hinv1 hok2).inv
  obtain ⟨q, pm⟩ := markOutputsUnres_props (P := P) step prev (some oid) ({ s with dag := g2, finished := (step, prev) :: s.finished }, acts) hinv2
  split
  · rename_i hdd
    exact dataInv_of_dead hdd
  rename_i hal
  have hal : (markOutputsUnres P step prev (some oid) ({ s with dag := g2, finished := (step, prev) :: s.finished }, acts)).1.dead = false := by
    simpa using hal
  obtain ⟨h1, h2⟩ := finishStage_quiet (P := P) (fns := fns) ord step complete
    ({ (markOutputsUnres P step prev (some oid) ({ s with dag := g2, finished := (step, prev) :: s.finished }, acts)).1 with
        data := setStageData (markOutputsUnres P step prev (some oid) ({ s with dag := g2, finished := (step, prev) :: s.finished }, acts)).1.data
          step prev oid v },
      (markOutputsUnres P step prev (some oid) ({ s with dag := g2, finished := (step, prev) :: s.finished }, acts)).2) q.gle.inv
  intro _ id it hit hk hres
  rw [h1]
  have hdat : (markOutputsUnres P step prev (some oid) ({ s with dag := g2, finished := (step, prev) :: s.finished }, acts)).1.data = s.data := q.data
  obtain ⟨top, htop⟩ := hm
  rw [hdat, htop]
  -- resolved at the end => resolved after `markOutputsUnres`
  have hres2 := h2 id it hit hk hres
  by_cases hsp : it.step = step ∧ it.stage = prev
  · obtain ⟨hs1, hs2⟩ := hsp
    by_cases ho : it.output = oid
    · rw [hs1, hs2, ho, lookupData_setStageData_self]; rfl
    · exfalso
      obtain ⟨hid, hmem⟩ := hP.output_id id it hit hk
      rw [hs1, hs2] at hid hmem
      refine pm hal it.output hmem (fun h => ho (Option.some.inj h).symm) ?_
      rw [← hid]
      exact hres2
  · have hres3 := q.nonew id hres2
    rcases resolve_newRes hok2 hres3 with ⟨rfl, _⟩ | hres4
    · exact absurd (hP.output_unamb step prev oid it hdecl (hout oid v rfl) hit hk) hsp
    · have hold := hd hdead id it hit hk (hso1 id it hit hk hres4)
      rw [htop] at hold
      exact lookupData_setStageData_other top step prev oid v _ _ _ hsp hold

end DataInvLemmas

theorem init_no_output_resolved (P : Prepared) (hP : P.WF) : NoOutputResolved P (LoopState.init P) := by
  rintro id it _ _ ⟨n, hn, hs⟩
  have := (hP.fresh n (Graph.find?_some hn).1).1
  rw [this] at hs
  cases hs

theorem init_data_inv (P : Prepared) (hP : P.WF) : DataInv P (LoopState.init P) :=
  dataInv_of_none (init_no_output_resolved P hP)

theorem init_data_map (P : Prepared) : DataMap (LoopState.init P) := ⟨[], rfl⟩

/--
CHANGED (hypotheses `hm` and `hev` added; executable counterexamples to the statement without them are in
`LoopDagCex.lean`, CE1–CE4):
* `hm`: the data model must be a map (`setStageData` silently does nothing on other values); it is one from
  `LoopState.init` on (`init_data_map`, `react_data_map`);
* `hev : EventOK P s e`: a stage-change callback names a declared stage (otherwise the "stage node" it resolves can be
  a stage-output node) and a declared output of it, and `start` — which replaces the whole data model — is delivered while no stage output is
  resolved (`init_no_output_resolved`).
-/
theorem react_data_inv (P : Prepared) (fns : Fns) (ord : Order) (hP : P.WF) (s : LoopState) (e : Event)
    (h : LoopDagInv P s) (hd : DataInv P s) (hm : DataMap s) (hev : EventOK P s e) :
    DataInv P (react P fns ord s e).1 := by
  obtain ⟨hdecl, hstart⟩ := hev
  unfold react
  split
  · exact hd
  rename_i hdead
  have hdead : s.dead = false := by simpa using hdead
  split
  · -- start
    rename_i input
    have hno := hstart input rfl
    dsimp only
    split
    · exact dataInv_of_none (P := P) (t := { s with data := initData P input, dag := s.dag.pushStarting }) hno
    split
    · exact dataInv_of_none (P := P) (t := { s with data := initData P input, dag := s.dag.pushStarting }) hno
    · rename_i g hok
      have hinv1 : g.Inv := (GLe.resolve (Graph.inv_pushStarting _ h.inv) hok).inv
      have hso1 : SONoNew P s.dag.pushStarting g := by
        refine SONoNew.resolve hok ?_
        intro it hit hk
        exact absurd (hP.output_id "input" it hit hk).1 (input_ne_outputNodeId _ _ _)
      obtain ⟨_, h2⟩ := notifySteps_quiet (P := P) (fns := fns) ord (notifyFuel P)
        ({ s with data := initData P input, dag := g }, []) hinv1
      refine dataInv_of_none ?_
      intro id it hit hk hres
      exact hno id it hit hk (hso1 id it hit hk (h2 id it hit hk hres))
  · -- stageChange
    split
    · exact hd
    · rename_i step out busy _ p
      obtain ⟨h1, h2, h3⟩ := checkDeadlock_quiet (P := P) 3 busy (onStageCompleteBody P fns ord step p out false (s, []))
      exact dataInv_congr (onStageCompleteBody_data hP fns ord step p out false s [] h.inv hdead hd hm hdecl.1 hdecl.2)
        h1 h2 h3
  · -- stepComplete
    rename_i step prev out busy
    obtain ⟨h1, h2, h3⟩ := checkDeadlock_quiet (P := P) 3 busy (onStageCompleteBody P fns ord step prev out true (s, []))
    exact dataInv_congr (onStageCompleteBody_data hP fns ord step prev out true s [] h.inv hdead hd hm hdecl.1 hdecl.2)
      h1 h2 h3
  · -- stageFail
    rename_i step stage
    dsimp only
    obtain ⟨q1, _⟩ := markOutputsUnres_props (P := P) step stage none (s, []) h.inv
    have q2 := markStageUnres_quiet step stage (markOutputsUnres P step stage none (s, [])) q1.gle.inv
    have q := q1.trans q2
    split
    · rename_i hdd
      exact dataInv_of_dead hdd
    · obtain ⟨h1, h2⟩ := notifySteps_quiet (P := P) (fns := fns) ord (notifyFuel P)
        (markStageUnres step stage (markOutputsUnres P step stage none (s, []))) q.gle.inv
      exact dataInv_of_quiet hdead hd (h1.trans q.data) (q.nonew.so.trans h2)
  · -- tick
    split
    · exact hd
    · rename_i retries busy _
      obtain ⟨h1, h2, h3⟩ := checkDeadlock_quiet (P := P) retries busy (s, [])
      exact dataInv_congr hd h1 h2 h3
  · -- drain
    exact hd

theorem stepPre_dataMap {P : Prepared} {a b : R} (h : StepPre P a b) (ha : DataMap a.1) : DataMap b.1 := by
  cases h
  case initData input => exact ⟨_, rfl⟩
  case stageData step stage out v =>
    obtain ⟨top, htop⟩ := ha
    obtain ⟨top', h'⟩ := setStageData_map top step stage out v
    exact ⟨top', by simp only [htop, h']⟩
  all_goals try simp only [emit, Arca.Model.die, Arca.Model.sendErr, doCancel]
  all_goals repeat' split
  all_goals exact ha

/-- the data model stays a map -/
theorem react_data_map (P : Prepared) (fns : Fns) (ord : Order) (s : LoopState) (e : Event)
    (h : LoopDagInv P s) (hm : DataMap s) : DataMap (react P fns ord s e).1 := by
  obtain ⟨b, h1, h2⟩ := react_decomp (P := P) (fns := fns) (kn := False) ord (fun h => h.elim) s e h.inv
  have hb : DataMap b.1 := Star.preserves (Q := fun r => DataMap r.1) (fun _ _ => stepPre_dataMap) h1 hm
  obtain ⟨top, htop⟩ := hb
  exact ⟨top, (starN_data h2).trans htop⟩

/-- C02 in one statement: when a stage gets its input, every stage output it requires is in the data model.
CHANGED: takes the two extra hypotheses of `react_data_inv`. -/
theorem provide_refs_available (P : Prepared) (fns : Fns) (ord : Order) (hord : OrdOK ord) (s : LoopState) (e : Event)
    (hP : P.WF) (h : LoopDagInv P s) (hd : DataInv P s) (hm : DataMap s) (hev : EventOK P s e)
    (step stage : String) (v : Val)
    (hp : Action.provide step stage v ∈ (react P fns ord s e).2)
    (halive : (react P fns ord s e).1.dead = false) :
    ∃ id it, lookup id P.items = some it ∧ it.kind = Kind.stage ∧ it.step = step ∧ it.stage = stage ∧
      ∀ ed ∈ P.dag.edges, ed.2.1 = id → ed.2.2 = Dep.and →
        ∀ src, lookup ed.1 P.items = some src → src.kind = Kind.stageOutput →
          (lookupData (react P fns ord s e).1.data src.step src.stage src.output).isSome = true := by
  obtain ⟨id, it, d, h1, h2, h3, h4, _, _, h7, _⟩ := provide_deps_settled P fns ord hord s e hP h step stage v hp
  refine ⟨id, it, h1, h2, h3, h4, ?_⟩
  intro ed hed hto hand src hsrc hk
  exact react_data_inv P fns ord hP s e h hd hm hev halive ed.1 src hsrc hk (h7 ed hed hto hand)

/-! ### whole histories -/

/-- the loop invariants about the data model along a history of declared callbacks without a second `start` -/
theorem runFrom_data_inv (P : Prepared) (fns : Fns) (ord : Order) (hP : P.WF) (hist : List Event)
    (hh : ∀ e ∈ hist, EventDeclared P e ∧ ∀ input, e ≠ Event.start input) :
    ∀ s, LoopDagInv P s → DataInv P s → DataMap s →
      DataInv P (runFrom P fns ord s hist).1 ∧ DataMap (runFrom P fns ord s hist).1 := by
  induction hist with
  | nil => intro s _ hd hm; exact ⟨hd, hm⟩
  | cons e es ih =>
    intro s h hd hm
    rw [runFrom_cons_eq]
    obtain ⟨h1, h2⟩ := hh e List.mem_cons_self
    exact ih (fun e' he' => hh e' (List.mem_cons_of_mem _ he')) _ (react_dag_inv P fns ord s e h)
      (react_data_inv P fns ord hP s e h hd hm ⟨h1, fun input he => absurd he (h2 input)⟩)
      (react_data_map P fns ord s e h hm)

/-- a run = `start` followed by declared callbacks: resolved stage outputs always have their data -/
theorem run_data_inv (P : Prepared) (fns : Fns) (ord : Order) (hP : P.WF) (input : Val) (hist : List Event)
    (hh : ∀ e ∈ hist, EventDeclared P e ∧ ∀ input, e ≠ Event.start input) :
    DataInv P (run P fns ord (Event.start input :: hist)).1 := by
  unfold run
  rw [runFrom_cons_eq]
  have h0 := init_dag_inv P hP
  exact (runFrom_data_inv P fns ord hP hist hh _ (react_dag_inv P fns ord _ _ h0)
    (react_data_inv P fns ord hP (LoopState.init P) (Event.start input) h0 (init_data_inv P hP) (init_data_map P)
      ⟨trivial, fun _ _ => init_no_output_resolved P hP⟩)
    (react_data_map P fns ord _ _ h0 (init_data_map P))).1

end Arca.Model
