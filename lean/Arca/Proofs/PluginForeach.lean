/-
Helper lemmas for C12, foreach provider: the inductive invariant of its synchronisation skeleton
(`Arca.Model.ForeachStep.syncStep`).
-/
import Arca.Model.PluginStep

namespace Arca.Proofs.PluginForeach
open Arca.Model.ForeachStep
open Arca.Gen

def beforeCompletion (p : Pc) : Prop :=
  p = .notStarted ∨ p = .waitingEnable ∨ p = .waitingExecute ∨ p = .executing

/-- holds in every reachable state -/
structure Inv (s : SyncState) : Prop where
  enabled0 : s.enabledAvail = false → s.enabledOcc = 0
  enabled1 : s.enabledOcc ≤ 1
  exec0 : s.execAvail = false → s.execOcc = 0
  exec1 : s.execOcc ≤ 1
  /-- a provider between its `closed` check and its send: nothing is in the channel and the channel is open -/
  pending : s.provPending = true → s.execOcc = 0 ∧ s.execAvail = true ∧ s.execChanClosed = false
  /-- exactly one completion, reported before `run()` ends -/
  compl : s.completions = (if s.pc = .notStarted ∨ s.pc = .waitingEnable ∨ s.pc = .waitingExecute ∨ s.pc = .executing then 0 else 1)
  closedCtx : s.closed = true → s.ctxDone = true
  closing : s.firstCloser = true ∨ 0 < s.closeWaiting ∨ 0 < s.closeReturned ∨ s.execChanClosed = true → s.closed = true
  /-- the wait group counts `run()`, which `Start` registered before creating the goroutine -/
  wg : s.wg = (if s.pc = .done then 0 else 1)
  returned : 0 < s.closeReturned → s.pc = .done
  late : s.lateNotif = false

theorem inv_init : Inv syncInit := by
  constructor <;> simp [syncInit]

theorem inv_step (s s' : SyncState) (a : Act) (hi : Inv s) (hs : syncStep s a = .next s') : Inv s' := by
  obtain ⟨e0, e1, x0, x1, pd, c0, cc, cl, wg, rt, lt⟩ := hi
  cases s
  cases a <;> simp only [syncStep, runMove] at hs <;> (repeat' split at hs) <;> cases hs <;>
    constructor <;> simp_all <;> (try omega)

theorem reachable_inv (s : SyncState) (hr : Reachable s) : Inv s := by
  induction hr with
  | init => exact inv_init
  | step a _ hs ih => exact inv_step _ _ a ih hs

end Arca.Proofs.PluginForeach
