/-
Helper lemmas for C12, foreach provider: invariants of its synchronisation skeleton
(`Arca.Model.ForeachStep.syncStep`), with and without the hypothesis that `run()` has registered itself in the wait
group before the first close call.
-/
import Arca.Model.PluginStep

namespace Arca.Proofs.PluginForeach
open Arca.Model.ForeachStep
open Arca.Gen

def beforeCompletion (p : Pc) : Prop :=
  p = .notStarted ∨ p = .waitingEnable ∨ p = .waitingExecute ∨ p = .executing

/-- holds in every reachable state, registered or not -/
structure Inv (s : SyncState) : Prop where
  enabled0 : s.enabledAvail = false → s.enabledOcc = 0
  enabled1 : s.enabledOcc ≤ 1
  exec0 : s.execAvail = false → s.execOcc = 0
  exec1 : s.execOcc ≤ 1
  pending : s.provPending = true → s.execOcc = 0 ∧ s.execAvail = true
  compl0 : beforeCompletion s.pc → s.completions = 0
  compl1 : s.completions ≤ 1
  closedCtx : s.closed = true → s.ctxDone = true
  closing : s.firstCloser = true ∨ 0 < s.closeWaiting ∨ 0 < s.closeReturned ∨ s.execChanClosed = true → s.closed = true

theorem inv_init : Inv syncInit := by
  constructor <;> simp [syncInit, beforeCompletion]

theorem inv_step (s s' : SyncState) (a : Act) (hi : Inv s) (hs : syncStep s a = .next s') : Inv s' := by
  obtain ⟨e0, e1, x0, x1, pd, c0, c1, cc, cl⟩ := hi
  cases s
  cases a <;> simp only [syncStep, runMove] at hs <;> (repeat' split at hs) <;> cases hs <;>
    constructor <;> simp_all [beforeCompletion] <;> (try omega)

theorem reachable_inv (s : SyncState) (hr : Reachable s) : Inv s := by
  induction hr with
  | init => exact inv_init
  | step a _ hs ih => exact inv_step _ _ a ih hs

/-- the additional invariant when no close call precedes `r.wg.Add(1)` -/
structure RegInv (s : SyncState) : Prop where
  started : s.pc ≠ .notStarted
  wg : s.wg = (if s.pc = .done then 0 else 1)
  returned : 0 < s.closeReturned → s.pc = .done
  late : s.lateNotif = false

theorem reginv_step (s s' : SyncState) (a : Act) (hi : RegInv s) (hs : syncStep s a = .next s') : RegInv s' := by
  obtain ⟨st, wg, rt, lt⟩ := hi
  cases s
  cases a <;> simp only [syncStep, runMove] at hs <;> (repeat' split at hs) <;> cases hs <;>
    constructor <;> simp_all <;> (try omega)

theorem registered_reginv (s : SyncState) (hr : ReachableRegistered s) : RegInv s := by
  induction hr with
  | init h0 =>
    simp [syncStep, runMove, syncInit] at h0
    subst h0
    constructor <;> simp
  | step a _ hs ih => exact reginv_step _ _ a ih hs

theorem registered_reachable (s : SyncState) (hr : ReachableRegistered s) : Reachable s := by
  induction hr with
  | init h0 => exact Reachable.step .runBegin Reachable.init h0
  | step a _ hs ih => exact Reachable.step a ih hs

end Arca.Proofs.PluginForeach
