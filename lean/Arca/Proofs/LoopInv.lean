/-
Action-level invariants of the run-loop model (M4): what every reaction of `react` does and does not do, for every
prepared workflow, every state, every event and every processing order.  These are the obligations of C01 (no
blocking send, at most one output, bounded error buffer, "no more outputs" reported once) and feed C03/C07.
-/
import Arca.Model.RunLoop
import Arca.Proofs.LoopLemmas

namespace Arca.Model

def Action.isOutput : Action → Bool
  | .output _ _ => true
  | _ => false

def Action.isStuck : Action → Bool
  | .stuck => true
  | _ => false

def Action.isPanic : Action → Bool
  | .panic _ => true
  | _ => false

/-- "all outputs marked as unresolvable" was reported (sent or dropped because the buffer was full) -/
def Action.isNoMoreOutputs : Action → Bool
  | .errorSent .noMoreOutputs => true
  | .errorDropped .noMoreOutputs => true
  | _ => false

def countP (p : Action → Bool) (l : List Action) : Nat := (l.filter p).length

def b2n (b : Bool) : Nat := if b then 1 else 0

/-! ### each invariant against the primitive steps (`Step`, see `LoopLemmas`) -/

section Steps
variable {P : Prepared}

theorem step_no_stuck {a b : R} (h : Step P a b) (ha : ∀ x ∈ a.2, x.isStuck = false) :
    ∀ x ∈ b.2, x.isStuck = false := by
  cases h <;> simp only [emit, die, sendErr, doCancel] <;> repeat' split
  all_goals first
    | exact ha
    | (intro x hx
       simp only [List.mem_append, List.mem_singleton] at hx
       rcases hx with hx | rfl
       · exact ha x hx
       · rfl)

theorem step_dead_panic {a b : R} (h : Step P a b)
    (ha : a.1.dead = true → ∃ x ∈ a.2, x.isPanic = true) :
    b.1.dead = true → ∃ x ∈ b.2, x.isPanic = true := by
  cases h <;> simp only [emit, die, sendErr, doCancel] <;> repeat' split
  all_goals first
    | exact ha
    | exact fun _ => ⟨.panic _, List.mem_append_right _ (List.mem_singleton_self _), rfl⟩
    | (intro hd
       obtain ⟨x, hx, hp⟩ := ha (by simpa using hd)
       exact ⟨x, by simp [hx], hp⟩)


theorem b2n_false : b2n false = 0 := rfl
theorem b2n_true : b2n true = 1 := rfl

theorem countP_nil (p : Action → Bool) : countP p [] = 0 := rfl

theorem countP_snoc (p : Action → Bool) (l : List Action) (a : Action) :
    countP p (l ++ [a]) = countP p l + b2n (p a) := by
  unfold countP b2n
  rw [List.filter_append, List.length_append]
  cases h : p a <;> simp [List.filter, h]

theorem countP_append (p : Action → Bool) (l m : List Action) :
    countP p (l ++ m) = countP p l + countP p m := by
  simp [countP, List.filter_append]

theorem step_output_count (d0 : Bool) {a b : R} (h : Step P a b)
    (ha : (d0 = true → a.1.outputDone = true) ∧
      countP Action.isOutput a.2 + b2n d0 = b2n a.1.outputDone) :
    (d0 = true → b.1.outputDone = true) ∧
      countP Action.isOutput b.2 + b2n d0 = b2n b.1.outputDone := by
  cases h <;> simp only [emit, die, sendErr, doCancel] <;> repeat' split
  all_goals try exact ha
  all_goals simp only [countP_snoc, Action.isOutput]
  all_goals try exact ha
  -- the first output
  rename_i hd
  cases d0 <;> simp_all [b2n]

theorem step_errs {a b : R} (h : Step P a b) (ha : a.1.errs ≤ P.errCap) : b.1.errs ≤ P.errCap := by
  cases h <;> simp only [emit, die, sendErr, doCancel] <;> repeat' split
  all_goals first | exact ha | exact Nat.zero_le _ | (simp only; omega)

theorem isNoMoreOutputs_errorSent {k : ErrKind} (hk : k ≠ .noMoreOutputs) :
    Action.isNoMoreOutputs (.errorSent k) = false := by
  cases k <;> first | rfl | exact absurd rfl hk

theorem isNoMoreOutputs_errorDropped {k : ErrKind} (hk : k ≠ .noMoreOutputs) :
    Action.isNoMoreOutputs (.errorDropped k) = false := by
  cases k <;> first | rfl | exact absurd rfl hk

/-- the invariant behind `react_noMoreOutputs`, relative to the waiting set `w0` at the start of the reaction -/
def NmoInv (w0 : List String) (r : R) : Prop :=
  (∀ x ∈ r.1.waitingOutputs, x ∈ w0) ∧
  (countP Action.isNoMoreOutputs r.2 = 0 ∨
    (countP Action.isNoMoreOutputs r.2 = 1 ∧ w0 ≠ [] ∧ r.1.waitingOutputs = []))

theorem step_nmo (w0 : List String) {a b : R} (h : Step P a b) (ha : NmoInv w0 a) : NmoInv w0 b := by
  unfold NmoInv at *
  cases h
  case sendErr k hk =>
    simp only [sendErr]
    repeat' split
    all_goals try simp only [countP_snoc, isNoMoreOutputs_errorSent hk, isNoMoreOutputs_errorDropped hk,
      b2n_false, Nat.add_zero]
    all_goals exact ha
  case dropWaiting id =>
    obtain ⟨h1, h2⟩ := ha
    refine ⟨fun x hx => h1 x (List.mem_filter.1 hx).1, ?_⟩
    rcases h2 with h2 | ⟨h2, h3, h4⟩
    · exact .inl h2
    · exact .inr ⟨h2, h3, by simp [h4]⟩
  case noMoreOut id hc he =>
    obtain ⟨h1, h2⟩ := ha
    have hmem : id ∈ a.1.waitingOutputs := by simpa using hc
    have hw0 : w0 ≠ [] := List.ne_nil_of_mem (h1 id hmem)
    have hne : a.1.waitingOutputs ≠ [] := List.ne_nil_of_mem hmem
    have hcount : countP Action.isNoMoreOutputs a.2 = 0 := by
      rcases h2 with h2 | ⟨_, _, h4⟩
      · exact h2
      · exact absurd h4 hne
    have hempty : a.1.waitingOutputs.filter (· ≠ id) = [] := by simpa using he
    simp only [sendErr]
    repeat' split
    all_goals simp only [countP_snoc, Action.isNoMoreOutputs, b2n_true, hcount, hempty]
    all_goals simp [hw0]
  all_goals try simp only [emit, die, doCancel]
  all_goals repeat' split
  all_goals try simp only [countP_snoc, Action.isNoMoreOutputs, b2n_false, Nat.add_zero]
  all_goals exact ha


/-- the invariant behind `react_result`, relative to the result slot `res0` at the start of the reaction -/
def ResInv (res0 : Option (String × Val)) (r : R) : Prop :=
  r.1.outputDone = r.1.result.isSome ∧
  (∀ id v, Action.output id v ∈ r.2 → r.1.result = some (id, v)) ∧
  (res0.isSome = true → r.1.result = res0) ∧
  (r.1.outputDone = false → ∀ id v, Action.output id v ∉ r.2)

theorem step_res (res0 : Option (String × Val)) {a b : R} (h : Step P a b) (ha : ResInv res0 a) :
    ResInv res0 b := by
  unfold ResInv at *
  cases h
  case output o v hd =>
    obtain ⟨h1, h2, h3, h4⟩ := ha
    have hnone : a.1.result = none := by
      have hs : a.1.result.isSome = false := by rw [← h1, hd]
      cases hr : a.1.result with
      | none => rfl
      | some x => rw [hr] at hs; cases hs
    refine ⟨rfl, ?_, ?_, ?_⟩
    · intro id w hm
      simp only [List.mem_append, List.mem_singleton] at hm
      rcases hm with hm | hm
      · exact absurd hm (h4 hd id w)
      · cases hm; rfl
    · intro hs
      have := h3 hs
      rw [hnone] at this
      rw [← this] at hs
      cases hs
    · intro hf; cases hf
  all_goals try simp only [emit, die, sendErr, doCancel]
  all_goals repeat' split
  all_goals try simp only [List.mem_append, List.mem_singleton, reduceCtorEq, or_false]
  all_goals exact ha

end Steps

/-! ### one reaction -/

/-- The loop never performs a blocking send while holding the lock: no reaction emits `Action.stuck`. -/
theorem react_no_stuck (P : Prepared) (fns : Fns) (ord : Order) (s : LoopState) (e : Event) :
    ∀ a ∈ (react P fns ord s e).2, a.isStuck = false :=
  Reach.preserves (Q := fun r => ∀ a ∈ r.2, a.isStuck = false) (fun _ _ => step_no_stuck)
    (react_reach fns ord s e) (fun _ h => nomatch h)

/-- A reaction kills the loop only by an explicit panic action. -/
theorem react_dead_only_by_panic (P : Prepared) (fns : Fns) (ord : Order) (s : LoopState) (e : Event)
    (hs : s.dead = false) (hd : (react P fns ord s e).1.dead = true) :
    ∃ a ∈ (react P fns ord s e).2, a.isPanic = true :=
  Reach.preserves (Q := fun r => r.1.dead = true → ∃ a ∈ r.2, a.isPanic = true) (fun _ _ => step_dead_panic)
    (react_reach fns ord s e) (fun h => by rw [hs] at h; cases h) hd

/-- A dead loop does nothing. -/
theorem react_dead (P : Prepared) (fns : Fns) (ord : Order) (s : LoopState) (e : Event) (hs : s.dead = true) :
    react P fns ord s e = (s, []) := by
  unfold react
  rw [if_pos hs]

/-- `outputDone` is monotone and the number of `output` actions of a reaction is exactly its increase. -/
theorem react_output_count (P : Prepared) (fns : Fns) (ord : Order) (s : LoopState) (e : Event) :
    (s.outputDone = true → (react P fns ord s e).1.outputDone = true) ∧
    countP Action.isOutput (react P fns ord s e).2 + b2n s.outputDone = b2n (react P fns ord s e).1.outputDone :=
  Reach.preserves
    (Q := fun r => (s.outputDone = true → r.1.outputDone = true) ∧
      countP Action.isOutput r.2 + b2n s.outputDone = b2n r.1.outputDone)
    (fun _ _ => step_output_count s.outputDone) (react_reach fns ord s e)
    ⟨id, by rw [countP_nil, Nat.zero_add]⟩

/-- The error buffer never exceeds its capacity. -/
theorem react_errs_le_cap (P : Prepared) (fns : Fns) (ord : Order) (s : LoopState) (e : Event)
    (h : s.errs ≤ P.errCap) : (react P fns ord s e).1.errs ≤ P.errCap :=
  Reach.preserves (Q := fun r => r.1.errs ≤ P.errCap) (fun _ _ => step_errs) (react_reach fns ord s e) h

/-- Output nodes are only ever removed from the waiting set; "no more outputs" is reported at most once per reaction,
    only when the set becomes empty in that reaction, and never again once it is empty. -/
theorem react_noMoreOutputs (P : Prepared) (fns : Fns) (ord : Order) (s : LoopState) (e : Event) :
    (∀ x ∈ (react P fns ord s e).1.waitingOutputs, x ∈ s.waitingOutputs) ∧
    countP Action.isNoMoreOutputs (react P fns ord s e).2 ≤ 1 ∧
    (countP Action.isNoMoreOutputs (react P fns ord s e).2 = 1 →
        s.waitingOutputs ≠ [] ∧ (react P fns ord s e).1.waitingOutputs = []) := by
  have h : NmoInv s.waitingOutputs (react P fns ord s e) :=
    Reach.preserves (Q := NmoInv s.waitingOutputs) (fun _ _ => step_nmo s.waitingOutputs)
      (react_reach fns ord s e) ⟨fun _ h => h, .inl rfl⟩
  obtain ⟨h1, h2⟩ := h
  refine ⟨h1, ?_, ?_⟩
  · rcases h2 with h2 | ⟨h2, _⟩ <;> omega
  · intro hc
    rcases h2 with h2 | ⟨_, h3, h4⟩
    · omega
    · exact ⟨h3, h4⟩

/-- The result slot is written exactly by the (single) `output` action. -/
theorem react_result (P : Prepared) (fns : Fns) (ord : Order) (s : LoopState) (e : Event)
    (hinv : s.outputDone = s.result.isSome) :
    (react P fns ord s e).1.outputDone = (react P fns ord s e).1.result.isSome ∧
    (∀ id v, Action.output id v ∈ (react P fns ord s e).2 → (react P fns ord s e).1.result = some (id, v)) ∧
    (s.result.isSome = true → (react P fns ord s e).1.result = s.result) := by
  have h : ResInv s.result (react P fns ord s e) :=
    Reach.preserves (Q := ResInv s.result) (fun _ _ => step_res s.result)
      (react_reach fns ord s e)
      ⟨hinv, (by intro _ _ h; cases h), fun _ => rfl, (by intro _ _ _ h; cases h)⟩
  exact ⟨h.1, h.2.1, h.2.2.1⟩

/-! ### whole histories -/

theorem runFrom_cons (P : Prepared) (fns : Fns) (ord : Order) (s : LoopState) (e : Event) (es : List Event) :
    runFrom P fns ord s (e :: es) =
      ((runFrom P fns ord (react P fns ord s e).1 es).1,
       (react P fns ord s e).2 ++ (runFrom P fns ord (react P fns ord s e).1 es).2) := rfl

theorem runFrom_no_stuck (P : Prepared) (fns : Fns) (ord : Order) (h : List Event) :
    ∀ s, ∀ a ∈ (runFrom P fns ord s h).2, a.isStuck = false := by
  induction h with
  | nil => intro s a ha; cases ha
  | cons e es ih =>
    intro s a ha
    rw [runFrom_cons] at ha
    rcases List.mem_append.1 ha with ha | ha
    · exact react_no_stuck P fns ord s e a ha
    · exact ih _ a ha

theorem run_no_stuck (P : Prepared) (fns : Fns) (ord : Order) (h : List Event) :
    ∀ a ∈ (run P fns ord h).2, a.isStuck = false :=
  runFrom_no_stuck P fns ord h _

theorem runFrom_output_count (P : Prepared) (fns : Fns) (ord : Order) (h : List Event) :
    ∀ s, countP Action.isOutput (runFrom P fns ord s h).2 + b2n s.outputDone =
      b2n (runFrom P fns ord s h).1.outputDone := by
  induction h with
  | nil => intro s; simp only [runFrom, countP_nil, Nat.zero_add]
  | cons e es ih =>
    intro s
    rw [runFrom_cons]
    have h1 := (react_output_count P fns ord s e).2
    have h2 := ih (react P fns ord s e).1
    simp only [countP_append]
    omega

theorem b2n_le_one (b : Bool) : b2n b ≤ 1 := by cases b <;> decide

/-- At most one output is ever produced, whatever the history. -/
theorem run_at_most_one_output (P : Prepared) (fns : Fns) (ord : Order) (h : List Event) :
    countP Action.isOutput (run P fns ord h).2 ≤ 1 := by
  have h1 := runFrom_output_count P fns ord h (LoopState.init P)
  have h2 := b2n_le_one (runFrom P fns ord (LoopState.init P) h).1.outputDone
  unfold run
  omega

theorem runFrom_noMoreOutputs (P : Prepared) (fns : Fns) (ord : Order) (h : List Event) :
    ∀ s, countP Action.isNoMoreOutputs (runFrom P fns ord s h).2 ≤ 1 ∧
      (s.waitingOutputs = [] → countP Action.isNoMoreOutputs (runFrom P fns ord s h).2 = 0) := by
  induction h with
  | nil => intro s; exact ⟨Nat.zero_le _, fun _ => rfl⟩
  | cons e es ih =>
    intro s
    rw [runFrom_cons]
    obtain ⟨h1, h2, h3⟩ := react_noMoreOutputs P fns ord s e
    obtain ⟨h4, h5⟩ := ih (react P fns ord s e).1
    simp only [countP_append]
    constructor
    · by_cases hc : countP Action.isNoMoreOutputs (react P fns ord s e).2 = 1
      · have := h5 (h3 hc).2
        omega
      · omega
    · intro hw
      have hc : countP Action.isNoMoreOutputs (react P fns ord s e).2 ≠ 1 := fun hc => (h3 hc).1 hw
      have hw' : (react P fns ord s e).1.waitingOutputs = [] := by
        cases hl : (react P fns ord s e).1.waitingOutputs with
        | nil => rfl
        | cons x xs =>
          have := h1 x (by rw [hl]; exact List.mem_cons_self)
          rw [hw] at this
          cases this
      have := h5 hw'
      omega

/-- "No more outputs" is reported at most once in a whole run. -/
theorem run_noMoreOutputs_once (P : Prepared) (fns : Fns) (ord : Order) (h : List Event) :
    countP Action.isNoMoreOutputs (run P fns ord h).2 ≤ 1 :=
  (runFrom_noMoreOutputs P fns ord h _).1

theorem runFrom_errs_le_cap (P : Prepared) (fns : Fns) (ord : Order) (h : List Event) :
    ∀ s, s.errs ≤ P.errCap → (runFrom P fns ord s h).1.errs ≤ P.errCap := by
  induction h with
  | nil => intro s hs; exact hs
  | cons e es ih =>
    intro s hs
    rw [runFrom_cons]
    exact ih _ (react_errs_le_cap P fns ord s e hs)

theorem run_errs_le_cap (P : Prepared) (fns : Fns) (ord : Order) (h : List Event) :
    (run P fns ord h).1.errs ≤ P.errCap :=
  runFrom_errs_le_cap P fns ord h _ (Nat.zero_le _)

theorem runFrom_result (P : Prepared) (fns : Fns) (ord : Order) (h : List Event) :
    ∀ s, s.outputDone = s.result.isSome →
      (runFrom P fns ord s h).1.outputDone = (runFrom P fns ord s h).1.result.isSome ∧
      (∀ id v, Action.output id v ∈ (runFrom P fns ord s h).2 →
        (runFrom P fns ord s h).1.result = some (id, v)) ∧
      (s.result.isSome = true → (runFrom P fns ord s h).1.result = s.result) := by
  induction h with
  | nil => intro s hs; exact ⟨hs, (by intro _ _ h; cases h), fun _ => rfl⟩
  | cons e es ih =>
    intro s hs
    rw [runFrom_cons]
    obtain ⟨h1, h2, h3⟩ := react_result P fns ord s e hs
    obtain ⟨h4, h5, h6⟩ := ih (react P fns ord s e).1 h1
    refine ⟨h4, ?_, ?_⟩
    · intro id v hm
      rcases List.mem_append.1 hm with hm | hm
      · have hr := h2 id v hm
        have := h6 (by rw [hr]; rfl)
        exact this.trans hr
      · exact h5 id v hm
    · intro hsome
      have hr := h3 hsome
      have := h6 (by rw [hr]; exact hsome)
      exact this.trans hr

/-- The returned result, if any, is the value carried by the only `output` action. -/
theorem run_result (P : Prepared) (fns : Fns) (ord : Order) (h : List Event) :
    ∀ id v, Action.output id v ∈ (run P fns ord h).2 → (run P fns ord h).1.result = some (id, v) :=
  (runFrom_result P fns ord h (LoopState.init P) rfl).2.1

end Arca.Model
