/-
Helper lemmas for C16, part 1: reordering steps and outputs.

`Wf.ops` of a reordered workflow is a permutation of `Wf.ops` of the original (given distinct step ids, which acceptance
implies); the declared node / edge sets are the same; `hasCycles` does not depend on the order of the node and edge
lists.
-/
import Arca.Model.Prepare
import Arca.Proofs.PrepareExact

set_option linter.unusedSectionVars false
set_option linter.unusedVariables false

namespace Arca.Model
open Arca.Gen (StageRow)

/-- `wf'` is `wf` with steps and outputs reordered -/
structure Wf.Reordered (wf wf' : Wf) : Prop where
  inputs : wf'.inputFields = wf.inputFields
  steps : wf.steps.Perm wf'.steps
  outputs : wf.outputs.Perm wf'.outputs

theorem Wf.Reordered.symm {wf wf' : Wf} (h : wf.Reordered wf') : wf'.Reordered wf :=
  ⟨h.inputs.symm, h.steps.symm, h.outputs.symm⟩

/-- steps with the same id are the same step -/
def Wf.UniqueIds (wf : Wf) : Prop := ∀ s ∈ wf.steps, ∀ s' ∈ wf.steps, s.id = s'.id → s = s'

theorem Wf.Reordered.uniqueIds {wf wf' : Wf} (h : wf.Reordered wf') (hu : wf.UniqueIds) : wf'.UniqueIds :=
  fun s hs s' hs' hid => hu s (h.steps.mem_iff.2 hs) s' (h.steps.mem_iff.2 hs') hid

theorem find?_perm_unique {α : Type} {p : α → Bool} {l l' : List α} (hp : l.Perm l')
    (hu : ∀ a ∈ l, ∀ b ∈ l, p a = true → p b = true → a = b) : l.find? p = l'.find? p := by
  induction hp with
  | nil => rfl
  | cons x _ ih =>
    simp only [List.find?_cons]
    cases hx : p x with
    | true => rfl
    | false =>
      exact ih (fun a ha b hb => hu a (List.mem_cons_of_mem _ ha) b (List.mem_cons_of_mem _ hb))
  | swap x y l =>
    simp only [List.find?_cons]
    cases hx : p x <;> cases hy : p y <;> try rfl
    have := hu x (by simp) y (by simp) hx hy
    rw [this]
  | trans h1 h2 ih1 ih2 =>
    rw [ih1 hu]
    exact ih2 (fun a ha b hb => hu a (h1.mem_iff.2 ha) b (h1.mem_iff.2 hb))

theorem resolve_reordered {po : List String} {wf wf' : Wf} (h : wf.Reordered wf') (hu : wf.UniqueIds) :
    wf.resolve po = wf'.resolve po := by
  funext p
  have hfind : ∀ s, wf.findStep s = wf'.findStep s := by
    intro s
    unfold Wf.findStep
    apply find?_perm_unique h.steps
    intro a ha b hb pa pb
    apply hu a ha b hb
    have ea : a.id = s := by simpa using pa
    have eb : b.id = s := by simpa using pb
    rw [ea, eb]
  unfold Wf.resolve
  cases p with
  | nil => rfl
  | cons k rest =>
    simp only [h.inputs, hfind]

theorem mem_roots_reordered {wf wf' : Wf} (h : wf.Reordered wf') {ra : NodeId × AIn} :
    ra ∈ wf.roots ↔ ra ∈ wf'.roots := by
  rw [mem_roots, mem_roots]
  constructor
  · rintro (⟨s, hs, r⟩ | ⟨o, ho, r⟩)
    · exact Or.inl ⟨s, h.steps.mem_iff.1 hs, r⟩
    · exact Or.inr ⟨o, h.outputs.mem_iff.1 ho, r⟩
  · rintro (⟨s, hs, r⟩ | ⟨o, ho, r⟩)
    · exact Or.inl ⟨s, h.steps.mem_iff.2 hs, r⟩
    · exact Or.inr ⟨o, h.outputs.mem_iff.2 ho, r⟩

theorem mem_allSites_reordered {wf wf' : Wf} (h : wf.Reordered wf') {σ : Site} :
    σ ∈ wf.allSites ↔ σ ∈ wf'.allSites := by
  rw [mem_allSites, mem_allSites]
  constructor
  · rintro ⟨ra, hra, r⟩
    exact ⟨ra, (mem_roots_reordered h).1 hra, r⟩
  · rintro ⟨ra, hra, r⟩
    exact ⟨ra, (mem_roots_reordered h).2 hra, r⟩

theorem isEmpty_perm {α : Type} {l l' : List α} (h : l.Perm l') : l.isEmpty = l'.isEmpty := by
  cases l with
  | nil => rw [h.nil_eq]
  | cons a l =>
    cases l' with
    | nil => exact absurd h.symm.nil_eq (by simp)
    | cons _ _ => rfl

/-- the operation sequence of the reordered workflow is a permutation of the original one -/
theorem ops_perm {po : List String} {wf wf' : Wf} (h : wf.Reordered wf') (hu : wf.UniqueIds) :
    (wf.ops po).Perm (wf'.ops po) := by
  unfold Wf.ops
  rw [← resolve_reordered h hu, ← isEmpty_perm h.steps, ← isEmpty_perm h.outputs]
  refine List.Perm.append (List.Perm.append (List.Perm.append (List.Perm.append (List.Perm.refl _) ?_) ?_)
    (List.Perm.refl _)) ?_
  · exact h.steps.flatMap_right _
  · exact h.steps.flatMap_right _
  · exact h.outputs.flatMap_right _

/-! ### `hasCycles` does not depend on list order -/

theorem any_perm {α : Type} {p : α → Bool} {l l' : List α} (h : l.Perm l') : l.any p = l'.any p := by
  cases hb : l'.any p with
  | true =>
    obtain ⟨x, hx, hp⟩ := List.any_eq_true.1 hb
    exact List.any_eq_true.2 ⟨x, h.mem_iff.2 hx, hp⟩
  | false =>
    cases ha : l.any p with
    | false => rfl
    | true =>
      obtain ⟨x, hx, hp⟩ := List.any_eq_true.1 ha
      have : l'.any p = true := List.any_eq_true.2 ⟨x, h.mem_iff.1 hx, hp⟩
      rw [hb] at this
      cases this

theorem filter_congr_perm {α : Type} {p q : α → Bool} {l l' : List α} (h : l.Perm l') (hpq : ∀ x ∈ l, p x = q x) :
    (l.filter p).Perm (l'.filter q) := by
  have : l.filter p = l.filter q := List.filter_congr hpq
  rw [this]
  exact h.filter q

theorem hasCyclesAux_perm (f : Nat) {r r' : List String} {E E' : List (String × String × Dep)}
    (hr : r.Perm r') (hE : E.Perm E') : Graph.hasCyclesAux f r E = Graph.hasCyclesAux f r' E' := by
  induction f generalizing r r' E E' with
  | zero =>
    simp only [Graph.hasCyclesAux]
    rw [isEmpty_perm hr]
  | succ f ih =>
    simp only [Graph.hasCyclesAux]
    have hfree : (r.filter (fun n => !(E.any (fun e => e.2.1 = n)))).Perm
        (r'.filter (fun n => !(E'.any (fun e => e.2.1 = n)))) :=
      filter_congr_perm hr (fun x _ => by rw [any_perm hE])
    rw [isEmpty_perm hfree, isEmpty_perm hr]
    split
    · rfl
    · apply ih
      · exact filter_congr_perm hr (fun x _ => by
          simp only [hfree.mem_iff, decide_not])
      · exact filter_congr_perm hE (fun x _ => by
          simp only [hfree.mem_iff])

theorem perm_of_nodup_of_mem_iff {α : Type} [DecidableEq α] {l l' : List α} (h1 : l.Nodup) (h2 : l'.Nodup)
    (h : ∀ x, x ∈ l ↔ x ∈ l') : l.Perm l' :=
  (List.perm_ext_iff_of_nodup h1 h2).2 h

/-! ### the edges of an accepted workflow, in terms of its operations / its declared edge set -/

/-- all declared edges: stage → output, lifecycle, and the dependencies the references require (structured ids) -/
def Wf.declaredS (po : List String) (wf : Wf) : List Edge := wf.stageOutS po ++ wf.lifecycleS ++ wf.impliedS po

theorem mem_declaredS {po : List String} {wf : Wf} {x : Edge} :
    x ∈ wf.declaredS po ↔ (x ∈ wf.stageOutS po ∨ x ∈ wf.lifecycleS ∨ x ∈ wf.impliedS po) := by
  unfold Wf.declaredS
  simp only [List.mem_append, or_assoc]

theorem declared_iff_ops {po : List String} {wf : Wf} (hnf : ∀ r, Op.fail r ∉ wf.ops po) {a b : NodeId} {d : Dep} :
    (a, b, d) ∈ wf.declaredS po ↔ ∃ tol, Op.edge a b d tol ∈ wf.ops po := by
  rw [mem_declaredS]
  constructor
  · exact ops_edge_complete hnf
  · rintro ⟨tol, h⟩
    exact ops_edge_sound h

/-- the edges of the graph are the rendered edge operations -/
theorem edges_iff_ops {po : List String} {wf : Wf} {g : Graph String} (hrun : runOps Graph.empty (wf.ops po) = .ok g)
    {e : String × String × Dep} :
    e ∈ g.edges ↔ ∃ a b d tol, Op.edge a b d tol ∈ wf.ops po ∧ e = (a.render, b.render, d) := by
  constructor
  · intro he
    rcases runOps_edges_sound hrun e he with h0 | h
    · simp [Graph.empty] at h0
    · exact h
  · rintro ⟨a, b, d, tol, hop, rfl⟩
    obtain ⟨d', hd', htol⟩ := runOps_edges_complete hrun a b d tol hop
    cases tol with
    | false => rw [htol rfl] at hd'; exact hd'
    | true =>
      have h1 : d' = .and := tol_edge_type hrun hop hd'
      have h2 : d = .and := (tol_edge_target hop).1
      rw [h1, ← h2] at hd'
      exact hd'

/-- ... i.e. the rendered declared edges -/
theorem edges_iff_declared {po : List String} {wf : Wf} {g : Graph String}
    (hrun : runOps Graph.empty (wf.ops po) = .ok g) {e : String × String × Dep} :
    e ∈ g.edges ↔ ∃ x ∈ wf.declaredS po, e = renderEdge x := by
  rw [edges_iff_ops hrun]
  constructor
  · rintro ⟨a, b, d, tol, hop, rfl⟩
    exact ⟨(a, b, d), (declared_iff_ops (runOps_nofail hrun)).2 ⟨tol, hop⟩, rfl⟩
  · rintro ⟨⟨a, b, d⟩, hx, rfl⟩
    obtain ⟨tol, hop⟩ := (declared_iff_ops (runOps_nofail hrun)).1 hx
    exact ⟨a, b, d, tol, hop, rfl⟩

theorem edges_nodup_of_run {g : Graph String} {os : List Op} (hrun : runOps Graph.empty os = .ok g) : g.edges.Nodup :=
  nodup_of_nodup_map (runOps_fresh fresh_empty hrun).inv.edges_nodup

theorem nodeIds_perm {os os' : List Op} (h : os.Perm os') : (nodeIds os).Perm (nodeIds os') := by
  unfold nodeIds
  exact h.filterMap _

end Arca.Model
