/-
Every hypothesis of the completeness theorems (C01 `quiescent_run_has_verdict`, C03 `producible_output_is_returned`,
`no_producible_output_gives_error`) is needed: for each one a THEOREM refuting the statement without it.  The
statements are given as schemes (`QuiescentStmt`, `ProducibleStmt`, `NoOutputStmt`, `ReadyEmptyStmt`) parametrised by
the well-formedness condition, the condition on the processing order and the condition on the history; the theorems are
instances of the schemes (`Arca.Props.C01.quiescent_stmt`, `Arca.Props.C03.producible_stmt`, `no_output_stmt`,
`ready_empty_stmt`), and each counterexample is the instance with one condition dropped.

The well-formedness condition is the decidable one the driver evaluates on every real prepared workflow
(`Prepared.wf3Clauses`, proved to imply `Prepared.WF3`); `AllBut c P` = every clause except the one named `c` holds.
The workflows are tiny; reactions, legality and well-formedness are evaluated by the kernel (`decide +kernel`).

  clause / hypothesis            counterexample (statement refuted)
  acyclic                        `quiescent_needs_acyclic`        two dependency groups waiting for each other
  has_input                      `quiescent_needs_has_input`      `Execute` cannot obtain the input node
  input_id                       `quiescent_needs_input_id`       a second node of kind `input` is never resolved
  stage_declared                 `quiescent_needs_stage_declared` a stage node no callback will ever settle
  items_nodup                    `quiescent_needs_items_nodup`    the output node is looked up as a dependency group
  has_output                     `quiescent_needs_has_output`     nothing to produce, nothing to fail
  output_is_node                 `quiescent_needs_output_is_node` an output that is no node never leaves the waiting set
  output_data                    `quiescent_needs_output_data`    an output node without data is skipped
  OrdAll                         `quiescent_needs_OrdAll`         the order drops the popped nodes
  history starts with `start`    `quiescent_needs_start`          the empty history
  every step completed           `quiescent_needs_completion`     the step the output needs never ends
  no evaluation failure (C03)    `producible_needs_no_eval_failure`, `no_output_needs_no_eval_failure`
                                 (the failing node is processed first; `notifySteps` returns, the rest is dropped)
  every step completed (C03)     `producible_needs_completion`    a completion (`cand`) dependency is still waiting
  output_sink                    `ready_empty_needs_output_sink`: refutes the INVARIANT (`run_core`: the ready set is empty
                                 after every reaction), not the final statements — no run is known in which a non-sink
                                 output makes a finished workflow end silently; the clause holds of every real prepared
                                 workflow and keeps the invariant simple
-/
import Arca.Proofs.LoopCheckSound

set_option linter.unusedVariables false

namespace Arca.Model.CompleteCex

/-! ### the statements as schemes -/

/-- the history starts with `start` and every step that declares a stage has completed afterwards -/
def StartComplete (P : Prepared) (h : List Event) : Prop :=
  ∃ input rest, h = .start input :: rest ∧
    ∀ step stage, P.declares step stage → ∃ prev out busy, Event.stepComplete step prev out busy ∈ rest

def StartsWithStart (_ : Prepared) (h : List Event) : Prop := ∃ input rest, h = Event.start input :: rest

def AllComplete (P : Prepared) (h : List Event) : Prop :=
  ∀ step stage, P.declares step stage → ∃ prev out busy, Event.stepComplete step prev out busy ∈ h

def OrdPerm (ord : Order) : Prop := OrdOK ord ∧ OrdNodup ord ∧ OrdAll ord

def NoEF (P : Prepared) (fns : Fns) (ord : Order) (h : List Event) : Prop :=
  ∀ a ∈ (run P fns ord h).2, a.isEvalFailed = false

/-- C01 `quiescent_run_has_verdict` -/
def QuiescentStmt (W : Prepared → Prop) (O : Order → Prop) (H : Prepared → List Event → Prop) : Prop :=
  ∀ (P : Prepared) (fns : Fns) (ord : Order) (h : List Event), O ord → W P →
    LegalHistory P fns ord (LoopState.init P) h → (∀ e ∈ h, EventReports P e) → H P h → Verdict (run P fns ord h)

/-- C03 `producible_output_is_returned` (first part) -/
def ProducibleStmt (H : Prepared → List Event → Prop) (E : Prepared → Fns → Order → List Event → Prop) : Prop :=
  ∀ (P : Prepared) (fns : Fns) (ord : Order) (h : List Event), OrdPerm ord → P.WF3OK →
    LegalHistory P fns ord (LoopState.init P) h → (∀ e ∈ h, EventReports P e) → H P h → E P fns ord h →
    ∀ o, isOutputNode P o → Producible P (run P fns ord h).1.dag o → (run P fns ord h).1.result.isSome = true

/-- C03 `no_producible_output_gives_error` -/
def NoOutputStmt (E : Prepared → Fns → Order → List Event → Prop) : Prop :=
  ∀ (P : Prepared) (fns : Fns) (ord : Order) (h : List Event), OrdPerm ord → P.WF3OK →
    LegalHistory P fns ord (LoopState.init P) h → StartsWithStart P h → E P fns ord h →
    (∀ x, isOutputNode P x → statusIs (run P fns ord h).1.dag x St.unres) →
    countP Action.isNoMoreOutputs (run P fns ord h).2 = 1 ∧ (run P fns ord h).1.result = none

/-- the invariant (`run_core`): after every reaction the ready set is empty, unless an evaluation failed -/
def ReadyEmptyStmt (W : Prepared → Prop) : Prop :=
  ∀ (P : Prepared) (fns : Fns) (ord : Order) (h : List Event), OrdPerm ord → W P →
    LegalHistory P fns ord (LoopState.init P) h → StartsWithStart P h →
    hasEF (run P fns ord h).2 ∨ (run P fns ord h).1.dag.ready = []

/-- every clause of `wf3Clauses` except the one named `c` -/
def AllBut (c : String) (P : Prepared) : Prop := ∀ x ∈ P.wf3Clauses, x.1 ≠ c → x.2 = true

instance (c : String) (P : Prepared) : Decidable (AllBut c P) := by unfold AllBut; infer_instance

/-! ### common material -/

def fns0 : Fns := fun _ _ => .error (.unknownFn "")
def nd (id : String) (out : List (String × Dep)) : Node String := ⟨id, .waiting, out, []⟩
def outIt (name : String) : Item := { kind := .output, output := name, data := some (.lit (.str "v")) }
def inIt : Item := { kind := .input }
def ordNone : Order := fun _ => []

theorem ordPerm_id : OrdPerm id := ⟨fun _ _ h => h, fun _ h => h, fun _ _ h => h⟩
theorem ordNone_ok : OrdOK ordNone ∧ OrdNodup ordNone := ⟨(fun _ _ h => nomatch h), fun _ _ => List.nodup_nil⟩

theorem legal_of {P : Prepared} {ord : Order} {h : List Event}
    (hb : legalHistoryB P fns0 ord (LoopState.init P) h = true) : LegalHistory P fns0 ord (LoopState.init P) h :=
  legalHistoryB_sound h _ hb

theorem not_verdict {r : LoopState × List Action} (h : verdictB r = false) : ¬ Verdict r :=
  fun hv => by rw [hv.verdictB] at h; cases h

def isOutputNodeB (P : Prepared) (o : String) : Bool :=
  match lookup o P.items with
  | some it => decide (it.kind = Kind.output)
  | none => false

theorem isOutputNode_of_b {P : Prepared} {o : String} (h : isOutputNodeB P o = true) : isOutputNode P o := by
  unfold isOutputNodeB at h
  cases hl : lookup o P.items with
  | none => rw [hl] at h; cases h
  | some it =>
    rw [hl] at h
    exact ⟨it, hl, of_decide_eq_true h⟩

/-- executable `StartComplete` -/
theorem startComplete_of {P : Prepared} {input : Val} {rest : List Event} (h : allCompleteB P rest = true) :
    StartComplete P (.start input :: rest) := ⟨input, rest, rfl, allCompleteB_sound h⟩

/-! ### the workflow of the positive examples: step `a` with the stages `s` (output `ok`) and `t`; the workflow output
needs `steps.a.s.ok` -/

def PX : Prepared :=
  { dag := { nodes := [nd "input" [], nd "steps.a.s" [("input", .and)], nd "steps.a.s.ok" [("steps.a.s", .and)],
                       nd "steps.a.t" [("input", .and)], nd "outputs.o" [("steps.a.s.ok", .and)]],
             edges := [("input", "steps.a.s", .and), ("steps.a.s", "steps.a.s.ok", .and), ("input", "steps.a.t", .and),
                       ("steps.a.s.ok", "outputs.o", .and)],
             ready := [] }
    items := [("input", inIt), ("steps.a.s", { kind := .stage, step := "a", stage := "s" }),
              ("steps.a.s.ok", { kind := .stageOutput, step := "a", stage := "s", output := "ok" }),
              ("steps.a.t", { kind := .stage, step := "a", stage := "t" }), ("outputs.o", outIt "o")]
    stages := [("a", [("s", ["ok"]), ("t", [])])]
    errCap := 2 }

/-- the step ends through `s` with the output `ok`: the workflow output is produced -/
def HXgood : List Event := [.stepComplete "a" "s" (some ("ok", .map [])) false]
/-- the step ends through `t`: `s` can no longer happen, the workflow output is impossible -/
def HXbad : List Event := [.stepComplete "a" "t" none false]

theorem PX_wf : PX.WF3OK := by decide +kernel
theorem PX_good_legal : LegalHistory PX fns0 id (LoopState.init PX) (.start .null :: HXgood) :=
  legal_of (by decide +kernel)
theorem PX_bad_legal : LegalHistory PX fns0 id (LoopState.init PX) (.start .null :: HXbad) :=
  legal_of (by decide +kernel)

/-! ### well-formedness clauses -/

def Pcyc : Prepared :=
  { dag := { nodes := [nd "input" [], nd "g1" [("g2", .and)], nd "g2" [("g1", .and)], nd "outputs.o" [("g1", .and)]],
             edges := [("g2", "g1", .and), ("g1", "g2", .and), ("g1", "outputs.o", .and)], ready := [] }
    items := [("input", inIt), ("g1", { kind := .group }), ("g2", { kind := .group }), ("outputs.o", outIt "o")]
    stages := [], errCap := 2 }

theorem quiescent_needs_acyclic : ¬ QuiescentStmt (AllBut "acyclic") OrdPerm StartComplete := by
  intro H
  have := H Pcyc fns0 id [.start .null] ordPerm_id (by decide +kernel) (legal_of (by decide +kernel))
    (all_eventReportsB (by decide +kernel)) (startComplete_of (by decide +kernel))
  exact not_verdict (by decide +kernel) this

def Pnoinput : Prepared :=
  { dag := { nodes := [nd "outputs.o" []], edges := [], ready := [] }
    items := [("outputs.o", outIt "o")], stages := [], errCap := 2 }

theorem quiescent_needs_has_input : ¬ QuiescentStmt (AllBut "has_input") OrdPerm StartComplete := by
  intro H
  have := H Pnoinput fns0 id [.start .null] ordPerm_id (by decide +kernel) (legal_of (by decide +kernel))
    (all_eventReportsB (by decide +kernel)) (startComplete_of (by decide +kernel))
  exact not_verdict (by decide +kernel) this

def Pinput2 : Prepared :=
  { dag := { nodes := [nd "input" [], nd "in2" [], nd "outputs.o" [("in2", .and)]],
             edges := [("in2", "outputs.o", .and)], ready := [] }
    items := [("input", inIt), ("in2", inIt), ("outputs.o", outIt "o")], stages := [], errCap := 2 }

theorem quiescent_needs_input_id : ¬ QuiescentStmt (AllBut "input_id") OrdPerm StartComplete := by
  intro H
  have := H Pinput2 fns0 id [.start .null] ordPerm_id (by decide +kernel) (legal_of (by decide +kernel))
    (all_eventReportsB (by decide +kernel)) (startComplete_of (by decide +kernel))
  exact not_verdict (by decide +kernel) this

def Pundecl : Prepared :=
  { dag := { nodes := [nd "input" [], nd "steps.a.s" [("input", .and)], nd "outputs.o" [("steps.a.s", .and)]],
             edges := [("input", "steps.a.s", .and), ("steps.a.s", "outputs.o", .and)], ready := [] }
    items := [("input", inIt), ("steps.a.s", { kind := .stage, step := "a", stage := "s" }), ("outputs.o", outIt "o")]
    stages := [], errCap := 2 }

theorem quiescent_needs_stage_declared : ¬ QuiescentStmt (AllBut "stage_declared") OrdPerm StartComplete := by
  intro H
  have := H Pundecl fns0 id [.start .null] ordPerm_id (by decide +kernel) (legal_of (by decide +kernel))
    (all_eventReportsB (by decide +kernel)) (startComplete_of (by decide +kernel))
  exact not_verdict (by decide +kernel) this

def Pdup : Prepared :=
  { dag := { nodes := [nd "input" [], nd "outputs.o" [("input", .and)]],
             edges := [("input", "outputs.o", .and)], ready := [] }
    items := [("input", inIt), ("outputs.o", { kind := .group }), ("outputs.o", outIt "o")], stages := [], errCap := 2 }

theorem quiescent_needs_items_nodup : ¬ QuiescentStmt (AllBut "items_nodup") OrdPerm StartComplete := by
  intro H
  have := H Pdup fns0 id [.start .null] ordPerm_id (by decide +kernel) (legal_of (by decide +kernel))
    (all_eventReportsB (by decide +kernel)) (startComplete_of (by decide +kernel))
  exact not_verdict (by decide +kernel) this

def Pnoout : Prepared :=
  { dag := { nodes := [nd "input" []], edges := [], ready := [] }
    items := [("input", inIt)], stages := [], errCap := 2 }

theorem quiescent_needs_has_output : ¬ QuiescentStmt (AllBut "has_output") OrdPerm StartComplete := by
  intro H
  have := H Pnoout fns0 id [.start .null] ordPerm_id (by decide +kernel) (legal_of (by decide +kernel))
    (all_eventReportsB (by decide +kernel)) (startComplete_of (by decide +kernel))
  exact not_verdict (by decide +kernel) this

def Pnotnode : Prepared :=
  { dag := { nodes := [nd "input" []], edges := [], ready := [] }
    items := [("input", inIt), ("outputs.o", outIt "o")], stages := [], errCap := 2 }

theorem quiescent_needs_output_is_node : ¬ QuiescentStmt (AllBut "output_is_node") OrdPerm StartComplete := by
  intro H
  have := H Pnotnode fns0 id [.start .null] ordPerm_id (by decide +kernel) (legal_of (by decide +kernel))
    (all_eventReportsB (by decide +kernel)) (startComplete_of (by decide +kernel))
  exact not_verdict (by decide +kernel) this

def Pnodata : Prepared :=
  { dag := { nodes := [nd "input" [], nd "outputs.o" [("input", .and)]],
             edges := [("input", "outputs.o", .and)], ready := [] }
    items := [("input", inIt), ("outputs.o", { kind := .output, output := "o" })], stages := [], errCap := 2 }

theorem quiescent_needs_output_data : ¬ QuiescentStmt (AllBut "output_data") OrdPerm StartComplete := by
  intro H
  have := H Pnodata fns0 id [.start .null] ordPerm_id (by decide +kernel) (legal_of (by decide +kernel))
    (all_eventReportsB (by decide +kernel)) (startComplete_of (by decide +kernel))
  exact not_verdict (by decide +kernel) this

/-- each of these workflows violates exactly the clause it is the counterexample for -/
theorem violated_clauses :
    Pcyc.wf3Violated = ["acyclic"] ∧ Pnoinput.wf3Violated = ["has_input"] ∧ Pinput2.wf3Violated = ["input_id"] ∧
    Pundecl.wf3Violated = ["stage_declared"] ∧ Pdup.wf3Violated = ["items_nodup"] ∧
    Pnoout.wf3Violated = ["has_output"] ∧ Pnotnode.wf3Violated = ["output_is_node"] ∧
    Pnodata.wf3Violated = ["output_data"] := by decide +kernel

/-! ### the processing order -/

theorem quiescent_needs_OrdAll : ¬ QuiescentStmt Prepared.WF3OK (fun ord => OrdOK ord ∧ OrdNodup ord) StartComplete := by
  intro H
  have := H PX fns0 ordNone (.start .null :: HXgood) ordNone_ok PX_wf (legal_of (by decide +kernel))
    (all_eventReportsB (by decide +kernel)) (startComplete_of (by decide +kernel))
  exact not_verdict (by decide +kernel) this

/-! ### the history -/

def Pmin : Prepared :=
  { dag := { nodes := [nd "input" [], nd "outputs.o" [("input", .and)]],
             edges := [("input", "outputs.o", .and)], ready := [] }
    items := [("input", inIt), ("outputs.o", outIt "o")], stages := [], errCap := 2 }

theorem Pmin_wf : Pmin.WF3OK := by decide +kernel

/-- without `start` nothing happens -/
theorem quiescent_needs_start : ¬ QuiescentStmt Prepared.WF3OK OrdPerm AllComplete := by
  intro H
  have := H Pmin fns0 id [] ordPerm_id Pmin_wf trivial (fun _ h => nomatch h) (allCompleteB_sound (by decide +kernel))
  exact not_verdict (by decide +kernel) this

/-- while the step the output needs has not completed there is no verdict (and there must not be one) -/
theorem quiescent_needs_completion : ¬ QuiescentStmt Prepared.WF3OK OrdPerm StartsWithStart := by
  intro H
  have := H PX fns0 id [.start .null] ordPerm_id PX_wf (legal_of (by decide +kernel))
    (all_eventReportsB (by decide +kernel)) ⟨_, _, rfl⟩
  exact not_verdict (by decide +kernel) this

/-! ### C03: evaluation failures, completion -/

/-- the stage node of `a` (input cannot be evaluated) and the output node become ready together; the stage node is
processed first -/
def Pef2 : Prepared :=
  { dag := { nodes := [nd "input" [], nd "steps.a.s" [("input", .and)], nd "outputs.o" [("input", .and)]],
             edges := [("input", "steps.a.s", .and), ("input", "outputs.o", .and)], ready := [] }
    items := [("input", inIt),
              ("steps.a.s", { kind := .stage, step := "a", stage := "s", data := some (.map [("x", .expr (.call "f" []))]) }),
              ("outputs.o", outIt "o")]
    stages := [("a", [("s", [])])], errCap := 2 }

def Hef2 : List Event := [.start .null, .stepComplete "a" "s" none false]

theorem producible_iff_b (P : Prepared) (g : Graph String) (o : String)
    (h1 : ∀ ed ∈ P.dag.edges, ed.2.1 = o → ed.2.2 = Dep.and → stIs g ed.1 .resolved = true)
    (h2 : ∀ ed ∈ P.dag.edges, ed.2.1 = o → ed.2.2 ≠ Dep.or) : Producible P g o :=
  ⟨fun ed he a b => stIs_iff.1 (h1 ed he a b), fun ⟨ed, he, a, b⟩ => absurd b (h2 ed he a)⟩

theorem producible_needs_no_eval_failure : ¬ ProducibleStmt StartComplete (fun _ _ _ _ => True) := by
  intro H
  have := H Pef2 fns0 id Hef2 ordPerm_id (by decide +kernel) (legal_of (by decide +kernel))
    (all_eventReportsB (by decide +kernel)) (startComplete_of (by decide +kernel)) trivial "outputs.o"
    (isOutputNode_of_b (by decide +kernel))
    (producible_iff_b _ _ _ (by decide +kernel) (by decide +kernel))
  revert this
  decide +kernel

/-- `o` needs the input and waits for the end (`cand`) of the stage `s` of `a` -/
def Pcand : Prepared :=
  { dag := { nodes := [nd "input" [], nd "steps.a.s" [("input", .and)],
                       nd "outputs.o" [("input", .and), ("steps.a.s", .cand)]],
             edges := [("input", "steps.a.s", .and), ("input", "outputs.o", .and), ("steps.a.s", "outputs.o", .cand)],
             ready := [] }
    items := [("input", inIt), ("steps.a.s", { kind := .stage, step := "a", stage := "s" }), ("outputs.o", outIt "o")]
    stages := [("a", [("s", [])])], errCap := 2 }

theorem producible_needs_completion : ¬ ProducibleStmt StartsWithStart NoEF := by
  intro H
  have := H Pcand fns0 id [.start .null] ordPerm_id (by decide +kernel) (legal_of (by decide +kernel))
    (all_eventReportsB (by decide +kernel)) ⟨_, _, rfl⟩ (by unfold NoEF; decide +kernel) "outputs.o"
    (isOutputNode_of_b (by decide +kernel))
    (producible_iff_b _ _ _ (by decide +kernel) (by decide +kernel))
  revert this
  decide +kernel

/-- when the stage `t` of `b` fails, the stage node of `a` (which waits for the end of `t`, and whose input cannot be
evaluated) and the failed output node become ready together; the stage node is processed first -/
def Pef3 : Prepared :=
  { dag := { nodes := [nd "input" [], nd "steps.b.t" [("input", .and)],
                       nd "steps.a.s" [("input", .and), ("steps.b.t", .cand)], nd "outputs.o" [("steps.b.t", .and)]],
             edges := [("input", "steps.b.t", .and), ("input", "steps.a.s", .and), ("steps.b.t", "steps.a.s", .cand),
                       ("steps.b.t", "outputs.o", .and)],
             ready := [] }
    items := [("input", inIt), ("steps.b.t", { kind := .stage, step := "b", stage := "t" }),
              ("steps.a.s", { kind := .stage, step := "a", stage := "s", data := some (.map [("x", .expr (.call "f" []))]) }),
              ("outputs.o", outIt "o")]
    stages := [("a", [("s", [])]), ("b", [("t", [])])], errCap := 2 }

def Hef3 : List Event := [.start .null, .stageFail "b" "t"]

theorem no_output_needs_no_eval_failure : ¬ NoOutputStmt (fun _ _ _ _ => True) := by
  intro H
  have := H Pef3 fns0 id Hef3 ordPerm_id (by decide +kernel) (legal_of (by decide +kernel)) ⟨_, _, rfl⟩ trivial (by
    rintro x ⟨it, hit, hk⟩
    have hx : x = "outputs.o" := by
      have hm := lookup_mem_items hit
      simp only [Pef3, List.mem_cons, Prod.mk.injEq, List.not_mem_nil, or_false] at hm
      rcases hm with ⟨_, rfl⟩ | ⟨_, rfl⟩ | ⟨_, rfl⟩ | ⟨h, _⟩
      · cases hk
      · cases hk
      · cases hk
      · exact h
    subst hx
    exact stIs_iff.1 (by decide +kernel))
  have h1 := this.1
  revert h1
  decide +kernel

/-! ### `output_sink`: the invariant, not the final statements -/

/-- the output `p` depends on the output `o` -/
def Psink : Prepared :=
  { dag := { nodes := [nd "input" [], nd "outputs.o" [("input", .and)], nd "outputs.p" [("outputs.o", .and)]],
             edges := [("input", "outputs.o", .and), ("outputs.o", "outputs.p", .and)], ready := [] }
    items := [("input", inIt), ("outputs.o", outIt "o"), ("outputs.p", outIt "p")], stages := [], errCap := 2 }

theorem Psink_violates : Psink.wf3Violated = ["output_sink"] := by decide +kernel

/-- resolving `o` makes `p` ready after `notifySteps` has taken the ready nodes: `p` stays in the ready set -/
theorem ready_empty_needs_output_sink : ¬ ReadyEmptyStmt (AllBut "output_sink") := by
  intro H
  have := H Psink fns0 id [.start .null] ordPerm_id (by decide +kernel) (legal_of (by decide +kernel)) ⟨_, _, rfl⟩
  rcases this with ⟨a, ha, hef⟩ | h
  · revert a
    decide +kernel
  · revert h
    decide +kernel

end Arca.Model.CompleteCex
