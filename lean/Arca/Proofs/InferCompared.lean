/-
The differential `arcadrv infer` compares the acceptance verdict of model and code only when `leafConsistent` holds.
This file shows that the comparison is never skipped where the soundness theorem speaks: whatever an inferred type
accepts is leaf-consistent with it, hence every homogeneous literal is compared.
-/
import Arca.Proofs.InferSound

namespace Arca.Proofs.InferCompared
open Arca.Model.Infer Arca.Proofs.InferSound

mutual
  theorem lc_of_accepts : (t : ITy) → (v : Lit) → accepts t v = true → leafConsistent t v = true
    | .str, v, h => by cases v <;> simp [accepts] at h; simp [leafConsistent, infer, ITy.tid]
    | .int lo hi, v, h => by cases v <;> simp [accepts] at h; simp [leafConsistent, infer, ITy.tid]
    | .float, v, h => by cases v <;> simp [accepts] at h; simp [leafConsistent, infer, ITy.tid]
    | .bool, v, h => by cases v <;> simp [accepts] at h; simp [leafConsistent, infer, ITy.tid]
    | .list t, v, h => by
      cases v with
      | list xs => simp only [accepts] at h; simp only [leafConsistent]; exact lc_all t xs h
      | _ => simp [accepts] at h
    | .obj ps, v, h => by
      cases v with
      | obj fs => simp only [accepts] at h; simp only [leafConsistent]; exact lc_obj ps fs h
      | _ => simp [accepts] at h
  theorem lc_all (t : ITy) : (xs : Lits) → acceptsAll t xs = true → leafConsistentAll t xs = true
    | .nil, _ => by simp [leafConsistentAll]
    | .cons x rest, h => by
      simp only [acceptsAll, Bool.and_eq_true] at h
      simp only [leafConsistentAll, Bool.and_eq_true]
      exact ⟨lc_of_accepts t x h.1, lc_all t rest h.2⟩
  theorem lc_obj : (ps : IProps) → (fs : Fields) → acceptsObj ps fs = true → leafConsistentObj ps fs = true
    | .nil, .nil, _ => by simp [leafConsistentObj]
    | .nil, .cons _ _ _, h => by simp [acceptsObj] at h
    | .cons _ _ _, .nil, h => by simp [acceptsObj] at h
    | .cons n t ps, .cons k v fs, h => by
      simp only [acceptsObj, Bool.and_eq_true, decide_eq_true_eq] at h
      simp only [leafConsistentObj, h.1.1, if_true, Bool.and_eq_true]
      exact ⟨lc_of_accepts t v h.1.2, lc_obj ps fs h.2⟩
end

/-- every well-formed homogeneous literal is inside the compared part of the differential -/
theorem homog_is_compared (v : Lit) (t : ITy) (hi : infer v = some t) (hw : wf v = true) (hh : homog v = true) :
    leafConsistent t v = true :=
  lc_of_accepts t v (sound_lit v t hi hw hh)

end Arca.Proofs.InferCompared
