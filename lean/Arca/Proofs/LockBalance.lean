/-
Soundness of the lock-balance checker of `Arca.Model.LockBalance` with respect to the path semantics of the token
language: whatever `postB` computes contains, for every syntactic path (`pathsB n`, any unrolling bound `n`), the way the
path ends together with the lock state after the lock events of the path.  Hence a body that `okBody` accepts has only
well-balanced paths (`okBody_sound`), and a token list that `balanced` accepts parses and has only well-balanced paths,
in the function body and in every function literal that runs elsewhere (`balanced_sound`).
-/
import Arca.Model.LockBalance

namespace Arca.Proofs.LockBalance
open Arca.Model.LockBalance

/-! ### small facts -/

theorem run_append (σ : St) (a b : List Ev) : σ.run (a ++ b) = (σ.run a).run b := by
  simp [St.run, List.foldl_append]

theorem run_nil (σ : St) : σ.run [] = σ := rfl

theorem run_single (σ : St) (e : Ev) : σ.run [e] = σ.step e := rfl

theorem mem_top (o : Out) (s : St) : (o, s) ∈ top := by
  obtain ⟨h, b⟩ := s
  cases o <;> cases h <;> cases b <;> decide

theorem subset_addNew (S xs : List St) : ∀ s ∈ S, s ∈ addNew S xs := by
  induction xs generalizing S with
  | nil => intro s hs; simpa [addNew] using hs
  | cons x xs ih =>
    intro s hs
    simp only [addNew, List.foldl_cons]
    by_cases hc : S.contains x = true
    · simp only [hc, if_true]
      exact ih S s hs
    · simp only [hc]
      exact ih (S ++ [x]) s (by simp [hs])

theorem mem_heads (f : St → Res) (n : Nat) : ∀ (S : List St) (s : St), s ∈ S → s ∈ heads f n S := by
  induction n with
  | zero => intro S s hs; simpa [heads] using hs
  | succ n ih =>
    intro S s hs
    simp only [heads]
    exact ih _ s (subset_addNew S _ s hs)

theorem closed_mem (f : St → Res) (S : List St) (hc : closed f S = true) (s s' : St) (o : Out)
    (hs : s ∈ S) (hr : (o, s') ∈ f s) (ho : o = .fall ∨ o = .cont) : s' ∈ S := by
  have hn : s' ∈ nextHeads f S := by
    simp only [nextHeads, List.mem_filterMap, List.mem_flatMap]
    refine ⟨(o, s'), ⟨s, hs, hr⟩, ?_⟩
    simp [ho]
  have := (List.all_eq_true.mp hc) s' hn
  simpa using this

/-! ### the loop -/

theorem loop_sound (f : St → Res) (body : List Path)
    (hbody : ∀ (σ : St) (p : Path), p ∈ body → (p.2, σ.run p.1) ∈ f σ)
    (S : List St) (hc : closed f S = true) :
    ∀ (k : Nat) (σ : St), σ ∈ S → ∀ p ∈ loopP body k, (p.2, σ.run p.1) ∈ loopExits f S := by
  intro k
  induction k with
  | zero =>
    intro σ hσ p hp
    simp only [loopP, List.mem_singleton] at hp
    subst hp
    simp only [loopExits, List.mem_append, List.mem_map]
    exact Or.inl ⟨σ, hσ, rfl⟩
  | succ k ih =>
    intro σ hσ p hp
    simp only [loopP, List.mem_cons, List.mem_flatMap] at hp
    rcases hp with rfl | ⟨q, hq, hp⟩
    · simp only [loopExits, List.mem_append, List.mem_map]
      exact Or.inl ⟨σ, hσ, rfl⟩
    · have hq' := hbody σ q hq
      obtain ⟨qe, qo⟩ := q
      cases qo with
      | fall =>
        simp only [List.mem_map] at hp
        obtain ⟨r, hr, rfl⟩ := hp
        have hS : σ.run qe ∈ S := closed_mem f S hc σ (σ.run qe) .fall hσ hq' (Or.inl rfl)
        simpa [run_append] using ih (σ.run qe) hS r hr
      | cont =>
        simp only [List.mem_map] at hp
        obtain ⟨r, hr, rfl⟩ := hp
        have hS : σ.run qe ∈ S := closed_mem f S hc σ (σ.run qe) .cont hσ hq' (Or.inr rfl)
        simpa [run_append] using ih (σ.run qe) hS r hr
      | brk =>
        simp only [List.mem_singleton] at hp
        subst hp
        simp only [loopExits, List.mem_append, List.mem_filterMap, List.mem_flatMap]
        exact Or.inr ⟨(.brk, σ.run qe), ⟨σ, hσ, hq'⟩, rfl⟩
      | ret =>
        simp only [List.mem_singleton] at hp
        subst hp
        simp only [loopExits, List.mem_append, List.mem_filterMap, List.mem_flatMap]
        exact Or.inr ⟨(.ret, σ.run qe), ⟨σ, hσ, hq'⟩, rfl⟩
      | panic =>
        simp only [List.mem_singleton] at hp
        subst hp
        simp only [loopExits, List.mem_append, List.mem_filterMap, List.mem_flatMap]
        exact Or.inr ⟨(.panic, σ.run qe), ⟨σ, hσ, hq'⟩, rfl⟩

theorem loopR_sound (f : St → Res) (body : List Path)
    (hbody : ∀ (σ : St) (p : Path), p ∈ body → (p.2, σ.run p.1) ∈ f σ)
    (k : Nat) (σ : St) (p : Path) (hp : p ∈ loopP body k) : (p.2, σ.run p.1) ∈ loopR f σ := by
  simp only [loopR]
  split
  · rename_i hc
    exact loop_sound f body hbody _ hc k σ (mem_heads f 4 [σ] σ (by simp)) p hp
  · exact mem_top _ _

/-! ### every path is covered by the checker -/

def SoundS (s : Stmt) : Prop := ∀ (n : Nat) (σ : St) (p : Path), p ∈ pathsS n s → (p.2, σ.run p.1) ∈ postS s σ
def SoundB (b : Block) : Prop := ∀ (n : Nat) (σ : St) (p : Path), p ∈ pathsB n b → (p.2, σ.run p.1) ∈ postB b σ
def SoundA (a : Arms) : Prop := ∀ (n : Nat) (σ : St) (p : Path), p ∈ pathsA n a → (p.2, σ.run p.1) ∈ postA a σ

theorem sound_ite (t e : Block) (ht : SoundB t) (he : SoundB e) : SoundS (.ite t e) := by
  intro n σ p hp
  simp only [pathsS, List.mem_append] at hp
  simp only [postS, List.mem_append]
  exact hp.imp (ht n σ p) (he n σ p)

theorem sound_loop (b : Block) (hb : SoundB b) : SoundS (.loop b) := by
  intro n σ p hp
  simp only [pathsS] at hp
  simp only [postS]
  exact loopR_sound (fun s => postB b s) (pathsB n b) (fun σ' q hq => hb n σ' q hq) n σ p hp

theorem sound_branch (arms : Arms) (exh : Bool) (ha : SoundA arms) : SoundS (.branch arms exh) := by
  intro n σ p hp
  simp only [pathsS, List.mem_append] at hp
  simp only [postS, List.mem_append]
  rcases hp with hp | hp
  · left
    cases exh with
    | true => simp at hp
    | false =>
      simp only [Bool.false_eq_true, if_false, List.mem_singleton] at hp ⊢
      subst hp
      rfl
  · right
    simp only [armP, List.mem_map] at hp
    obtain ⟨q, hq, rfl⟩ := hp
    simp only [armR, List.mem_map]
    exact ⟨(q.2, σ.run q.1), ha n σ q hq, rfl⟩

theorem sound_call (b : Block) (hb : SoundB b) : SoundS (.call b) := by
  intro n σ p hp
  simp only [pathsS, callP, List.mem_map] at hp
  obtain ⟨q, hq, rfl⟩ := hp
  simp only [postS, callR, List.mem_map]
  exact ⟨(q.2, σ.run q.1), hb n σ q hq, rfl⟩

theorem sound_cons (s : Stmt) (rest : Block) (hs : SoundS s) (hr : SoundB rest) : SoundB (.cons s rest) := by
  intro n σ p hp
  simp only [pathsB, seqP, List.mem_flatMap] at hp
  obtain ⟨q, hq, hp⟩ := hp
  have hq' := hs n σ q hq
  simp only [postB, seqR, List.mem_flatMap]
  refine ⟨(q.2, σ.run q.1), hq', ?_⟩
  by_cases hf : q.2 = .fall
  · simp only [hf, if_true, List.mem_map] at hp ⊢
    obtain ⟨r, hr', rfl⟩ := hp
    simpa [run_append] using hr n (σ.run q.1) r hr'
  · simp only [hf, if_false, List.mem_singleton] at hp ⊢
    subst hp
    rfl

theorem sound_dfr (d rest : Block) (hd : SoundB d) (hr : SoundB rest) : SoundB (.dfr d rest) := by
  intro n σ p hp
  simp only [pathsB, dfrP, List.mem_flatMap] at hp
  obtain ⟨q, hq, hp⟩ := hp
  have hq' := hr n σ q hq
  simp only [postB, dfrR, List.mem_flatMap]
  refine ⟨(q.2, σ.run q.1), hq', ?_⟩
  by_cases hx : q.2.exits = true
  · simp only [hx, if_true, List.mem_map] at hp ⊢
    obtain ⟨r, hr', rfl⟩ := hp
    exact ⟨(r.2, (σ.run q.1).run r.1), hd n (σ.run q.1) r hr', by simp [run_append]⟩
  · have hx' : q.2.exits = false := by simpa using hx
    simp only [hx', Bool.false_eq_true, if_false, List.mem_singleton] at hp ⊢
    subst hp
    rfl

theorem sound_all : (∀ s, SoundS s) ∧ (∀ b, SoundB b) ∧ (∀ a, SoundA a) := by
  have hacq : SoundS .acq := by intro n σ p hp; simp only [pathsS, List.mem_singleton] at hp; subst hp; simp [postS, run_single]
  have hrel : SoundS .rel := by intro n σ p hp; simp only [pathsS, List.mem_singleton] at hp; subst hp; simp [postS, run_single]
  have hret : SoundS .ret := by intro n σ p hp; simp only [pathsS, List.mem_singleton] at hp; subst hp; simp [postS, run_nil]
  have hpanic : SoundS .panic := by intro n σ p hp; simp only [pathsS, List.mem_singleton] at hp; subst hp; simp [postS, run_nil]
  have hbrk : SoundS .brk := by intro n σ p hp; simp only [pathsS, List.mem_singleton] at hp; subst hp; simp [postS, run_nil]
  have hcont : SoundS .cont := by intro n σ p hp; simp only [pathsS, List.mem_singleton] at hp; subst hp; simp [postS, run_nil]
  have hfn : ∀ b, SoundB b → SoundS (.fn b) := by
    intro b _ n σ p hp; simp only [pathsS, List.mem_singleton] at hp; subst hp; simp [postS, run_nil]
  have hnil : SoundB .nil := by intro n σ p hp; simp only [pathsB, List.mem_singleton] at hp; subst hp; simp [postB, run_nil]
  have hanil : SoundA .nil := by intro n σ p hp; simp [pathsA] at hp
  have hacons : ∀ b rest, SoundB b → SoundA rest → SoundA (.cons b rest) := by
    intro b rest hb hr n σ p hp
    simp only [pathsA, List.mem_append] at hp
    simp only [postA, List.mem_append]
    exact hp.imp (hb n σ p) (hr n σ p)
  refine ⟨fun s => ?_, fun b => ?_, fun a => ?_⟩
  · exact Stmt.rec (motive_1 := SoundS) (motive_2 := SoundB) (motive_3 := SoundA) hacq hrel hret hpanic hbrk hcont
      sound_ite sound_loop sound_branch hfn sound_call hnil sound_cons sound_dfr hanil hacons s
  · exact Block.rec (motive_1 := SoundS) (motive_2 := SoundB) (motive_3 := SoundA) hacq hrel hret hpanic hbrk hcont
      sound_ite sound_loop sound_branch hfn sound_call hnil sound_cons sound_dfr hanil hacons b
  · exact Arms.rec (motive_1 := SoundS) (motive_2 := SoundB) (motive_3 := SoundA) hacq hrel hret hpanic hbrk hcont
      sound_ite sound_loop sound_branch hfn sound_call hnil sound_cons sound_dfr hanil hacons a

/-- the abstract interpreter covers every path: the way a path ends and the lock state after its events are among the
    results computed for the entry state -/
theorem post_sound (b : Block) (n : Nat) (σ : St) (p : Path) (hp : p ∈ pathsB n b) : (p.2, σ.run p.1) ∈ postB b σ :=
  sound_all.2.1 b n σ p hp

/-! ### verdicts -/

/-- a body accepted by the checker: every path that does not end in a panic leaves the body by `return` or by falling off
    its end, and the lock events it passed are well balanced -/
theorem okBody_sound (held₀ : Bool) (b : Block) (hok : okBody held₀ b = true) (n : Nat) (p : Path)
    (hp : p ∈ pathsB n b) (hx : p.2 ≠ .panic) : p.2.exits = true ∧ wellBalanced held₀ p.1 := by
  have hm := post_sound b n ⟨held₀, false⟩ p hp
  have hall := (List.all_eq_true.mp hok) _ hm
  obtain ⟨evs, o⟩ := p
  cases o with
  | panic => exact absurd rfl hx
  | brk => simp at hall
  | cont => simp at hall
  | fall =>
    simp only [Bool.and_eq_true, Bool.not_eq_true', beq_iff_eq] at hall
    exact ⟨rfl, hall.1, hall.2⟩
  | ret =>
    simp only [Bool.and_eq_true, Bool.not_eq_true', beq_iff_eq] at hall
    exact ⟨rfl, hall.1, hall.2⟩

/-- SOUNDNESS of `balanced`: the token list is followed (it parses), and on every path through the function body — and
    through the body of every function literal of it that runs elsewhere — that does not end in a panic, the mutex is
    never locked while this path holds it, never unlocked while it does not, and is free when the path returns -/
theorem balanced_sound (m : String) (toks : List SplitTok) (h : balanced m toks = true) :
    ∃ b, parse m toks = some b ∧
      (∀ n p, p ∈ pathsB n b → p.2 ≠ .panic → p.2.exits = true ∧ wellBalanced false p.1) ∧
      (∀ l ∈ litsB b, ∀ n p, p ∈ pathsB n l → p.2 ≠ .panic → p.2.exits = true ∧ wellBalanced false p.1) := by
  unfold balanced at h
  cases hp : parse m toks with
  | none => simp [hp] at h
  | some b =>
    simp only [hp, okFunction, Bool.and_eq_true] at h
    refine ⟨b, rfl, fun n p hp' hx => okBody_sound false b h.1 n p hp' hx, ?_⟩
    intro l hl n p hp' hx
    exact okBody_sound false l ((List.all_eq_true.mp h.2) l hl) n p hp' hx

/-- the same for a function entered and left with the mutex held -/
theorem balancedHeld_sound (m : String) (toks : List SplitTok) (h : balancedHeld m toks = true) :
    ∃ b, parse m toks = some b ∧
      (∀ n p, p ∈ pathsB n b → p.2 ≠ .panic → p.2.exits = true ∧ wellBalanced true p.1) := by
  unfold balancedHeld at h
  cases hp : parse m toks with
  | none => simp [hp] at h
  | some b =>
    simp only [hp, okFunction, Bool.and_eq_true] at h
    exact ⟨b, rfl, fun n p hp' hx => okBody_sound true b h.1 n p hp' hx⟩

/-! ### the checker is not vacuous: it rejects what it must -/

/-- `Lock(); if c { return }; Unlock()` — the shape of the error path that forgets the unlock -/
example : okBody false (.cons .acq (.cons (.ite (.cons .ret .nil) .nil) (.cons .rel .nil))) = false := by decide
/-- the same with the unlock on the error path -/
example : okBody false (.cons .acq (.cons (.ite (.cons .rel (.cons .ret .nil)) .nil) (.cons .rel .nil))) = true := by decide
/-- `Lock(); if c { return }; defer Unlock()` — the defer is registered after the early return -/
example : okBody false (.cons .acq (.cons (.ite (.cons .ret .nil) .nil) (.dfr (.cons .rel .nil) .nil))) = false := by decide
/-- `Lock(); defer Unlock(); if c { return }` -/
example : okBody false (.cons .acq (.dfr (.cons .rel .nil) (.cons (.ite (.cons .ret .nil) .nil) .nil))) = true := by decide
/-- unlocking twice, locking in a loop without unlocking -/
example : okBody false (.cons .acq (.cons .rel (.cons .rel .nil))) = false := by decide
example : okBody false (.cons (.loop (.cons .acq .nil)) .nil) = false := by decide
example : okBody false (.cons (.loop (.cons .acq (.cons (.ite (.cons .rel (.cons .cont .nil)) .nil) (.cons .rel .nil)))) .nil) = true := by decide

end Arca.Proofs.LockBalance
