/-
Helper lemmas for C11 about `Arca.Model.SubWf`: what a successful `subworkflowCache` guarantees about every file
that is transitively referenced by foreach steps (it is in the returned cache, it exists, it converts, it is not on a
reference cycle).
-/
import Arca.Model.SubWf

namespace Arca.Model.SubWf

/-! ## StepWorkflowPaths -/

theorem mem_insertNew {p q : String} {acc : List String} : q ∈ insertNew p acc ↔ q ∈ acc ∨ q = p := by
  unfold insertNew
  split
  · constructor
    · intro h; exact Or.inl h
    · intro h
      rcases h with h | h
      · exact h
      · subst h; assumption
  · simp

theorem mem_foldl_paths (steps : List Step) (acc : List String) (q : String) :
    q ∈ steps.foldl addStepPath acc ↔ q ∈ acc ∨ ∃ s ∈ steps, stepPath s = some q := by
  induction steps generalizing acc with
  | nil => simp
  | cons s rest ih =>
    simp only [List.foldl_cons]
    rw [ih]
    unfold addStepPath
    cases hs : stepPath s with
    | none =>
      simp only [List.mem_cons]
      constructor
      · rintro (h | ⟨s', hs', hq⟩)
        · exact Or.inl h
        · exact Or.inr ⟨s', Or.inr hs', hq⟩
      · rintro (h | ⟨s', hs' | hs', hq⟩)
        · exact Or.inl h
        · subst hs'; rw [hs] at hq; cases hq
        · exact Or.inr ⟨s', hs', hq⟩
    | some p =>
      simp only [mem_insertNew, List.mem_cons]
      constructor
      · rintro ((h | h) | ⟨s', hs', hq⟩)
        · exact Or.inl h
        · subst h; exact Or.inr ⟨s, Or.inl rfl, hs⟩
        · exact Or.inr ⟨s', Or.inr hs', hq⟩
      · rintro (h | ⟨s', hs' | hs', hq⟩)
        · exact Or.inl (Or.inl h)
        · subst hs'; rw [hs] at hq; cases hq; exact Or.inl (Or.inr rfl)
        · exact Or.inr ⟨s', hs', hq⟩

/-- a path is collected exactly when some step is a map whose `kind` is the string "foreach" and whose `workflow` is
    that string -/
theorem mem_stepWorkflowPaths {steps : List Step} {q : String} :
    q ∈ stepWorkflowPaths steps ↔ ∃ s ∈ steps, stepPath s = some q := by
  unfold stepWorkflowPaths
  rw [mem_foldl_paths]
  simp

/-! ## transitive references -/

/-- the content a referenced key denotes: the caller's file under that key, else the file on disk -/
def denot (norm : String → String) (fs : FS) (sup : Supplied) (p : String) : Option FileContent :=
  match supLookup sup p with
  | some c => some c
  | none => lookup fs (norm p)

/-- what the chain holds for a referenced key: the key of a supplied file, the (absolute) name of a file on disk -/
def entry (norm : String → String) (sup : Supplied) (p : String) : String :=
  if (supLookup sup p).isSome then p else norm p

theorem denot_supplied {norm : String → String} {fs : FS} {sup : Supplied} {p : String} {c : FileContent}
    (h : supLookup sup p = some c) : denot norm fs sup p = some c := by simp [denot, h]

theorem denot_disk {norm : String → String} {fs : FS} {sup : Supplied} {p : String}
    (h : supLookup sup p = none) : denot norm fs sup p = lookup fs (norm p) := by simp [denot, h]

theorem entry_supplied {norm : String → String} {sup : Supplied} {p : String} {c : FileContent}
    (h : supLookup sup p = some c) : entry norm sup p = p := by simp [entry, h]

theorem entry_disk {norm : String → String} {sup : Supplied} {p : String}
    (h : supLookup sup p = none) : entry norm sup p = norm p := by simp [entry, h]

/-- `Reach norm fs sup steps q`: key `q` is referenced by a foreach step of `steps`, or of a file so referenced, … -/
inductive Reach (norm : String → String) (fs : FS) (sup : Supplied) : List Step → String → Prop where
  | direct {steps : List Step} {p : String} : p ∈ stepWorkflowPaths steps → Reach norm fs sup steps p
  | trans {steps sub : List Step} {p q : String} : p ∈ stepWorkflowPaths steps → denot norm fs sup p = some (.wf sub) →
      Reach norm fs sup sub q → Reach norm fs sup steps q

/-- the file `q` denotes is a workflow that transitively references itself (under some spelling) -/
def OnCycle (norm : String → String) (fs : FS) (sup : Supplied) (q : String) : Prop :=
  ∃ st, denot norm fs sup q = some (.wf st) ∧ ∃ q', Reach norm fs sup st q' ∧ entry norm sup q' = entry norm sup q

/-- what a successful discovery guarantees about a transitively referenced file: it is in the returned cache (or the
    caller supplied it: `Parse` merges the caller's cache over the returned one), it is not in the chain, it converts, it
    is not on a reference cycle -/
def Good (norm : String → String) (fs : FS) (sup : Supplied) (chain files : List String) (q : String) : Prop :=
  ((supLookup sup q).isSome ∨ q ∈ files) ∧ ¬ entry norm sup q ∈ chain ∧
    (∃ st, denot norm fs sup q = some (.wf st)) ∧ ¬ OnCycle norm fs sup q

theorem Good.mono {norm : String → String} {fs : FS} {sup : Supplied} {chain chain' files files' : List String} {q : String}
    (hf : ∀ x ∈ files, x ∈ files') (hc : ∀ x ∈ chain', x ∈ chain) (h : Good norm fs sup chain files q) :
    Good norm fs sup chain' files' q :=
  ⟨h.1.imp id (hf q), fun hq => h.2.1 (hc _ hq), h.2.2.1, h.2.2.2⟩

/-- a chain entry the measure accounts for: a file of the file system or a supplied key -/
def Visitable (fs : FS) (sup : Supplied) (e : String) : Prop :=
  (∃ c, lookup fs e = some c) ∨ (∃ c, supLookup sup e = some c)

theorem measure_lt {fs : FS} {sup : Supplied} {chain : List String} {e : String} (hv : Visitable fs sup e)
    (hn : ¬ e ∈ chain) : measure fs sup (chain ++ [e]) < measure fs sup chain := by
  rcases hv with ⟨c, h⟩ | ⟨c, h⟩
  · exact measure_lt_disk h hn
  · exact measure_lt_supplied h hn

/-- the hypothesis the loop lemmas need about the recursive calls -/
def CallsGood (norm : String → String) (fs : FS) (sup : Supplied) (chain : List String) : Prop :=
  ∀ (e : String) (sub : List Step) (acc : List (List String)) (files : List String),
    ¬ e ∈ chain → Visitable fs sup e → subworkflowCache norm fs sup sub acc (chain ++ [e]) = .ok files →
    ∀ q, Reach norm fs sup sub q → Good norm fs sup (chain ++ [e]) files q

theorem loopSupplied_inv (norm : String → String) (fs : FS) (sup : Supplied) (chain : List String)
    (hcalls : CallsGood norm fs sup chain) :
    ∀ (paths : List String) (acc caches : List (List String)), loopSupplied norm fs sup chain paths acc = .ok caches →
      (∀ c ∈ acc, c ∈ caches) ∧
      ∀ p ∈ paths, ∀ c, supLookup sup p = some c → ¬ p ∈ chain ∧ ∃ sub, c = .wf sub ∧
        ∀ q, Reach norm fs sup sub q → Good norm fs sup (chain ++ [p]) caches.flatten q := by
  intro paths
  induction paths with
  | nil =>
    intro acc caches h
    rw [loopSupplied] at h
    injection h with h
    subst h
    exact ⟨fun c hc => hc, fun p hp => by simp at hp⟩
  | cons p rest ih =>
    intro acc caches h
    rw [loopSupplied] at h
    split at h
    · rename_i hs
      obtain ⟨hacc, hrest⟩ := ih acc caches h
      refine ⟨hacc, ?_⟩
      intro p' hp' c hc
      rcases List.mem_cons.mp hp' with rfl | hp'
      · rw [hs] at hc; cases hc
      · exact hrest p' hp' c hc
    · split at h <;> cases h
    · rename_i sub hs
      split at h
      · cases h
      · rename_i hc
        simp only at h
        split at h
        · cases h
        · cases h
        · rename_i flowCache hsub
          obtain ⟨hacc, hrest⟩ := ih (acc ++ [flowCache]) caches h
          refine ⟨fun c hcm => hacc c (by simp [hcm]), ?_⟩
          intro p' hp' c hc'
          rcases List.mem_cons.mp hp' with rfl | hp'
          · rw [hs] at hc'
            cases hc'
            refine ⟨hc, sub, rfl, ?_⟩
            intro q hq
            have hg := hcalls p' sub acc flowCache hc (Or.inr ⟨_, hs⟩) hsub q hq
            have hfc : flowCache ∈ caches := hacc flowCache (by simp)
            exact hg.mono (fun x hx => List.mem_flatten.mpr ⟨flowCache, hfc, hx⟩) (fun x hx => hx)
          · exact hrest p' hp' c hc'

theorem loop_inv (norm : String → String) (fs : FS) (sup : Supplied) (chain : List String)
    (hcalls : CallsGood norm fs sup chain) :
    ∀ (paths : List String) (acc caches : List (List String)), loopFiles norm fs sup chain paths acc = .ok caches →
      (∀ c ∈ acc, c ∈ caches) ∧
      ∀ p ∈ paths, ¬ norm p ∈ chain ∧ ∃ sub, lookup fs (norm p) = some (.wf sub) ∧
        ∀ q, Reach norm fs sup sub q → Good norm fs sup (chain ++ [norm p]) caches.flatten q := by
  intro paths
  induction paths with
  | nil =>
    intro acc caches h
    rw [loopFiles] at h
    injection h with h
    subst h
    exact ⟨fun c hc => hc, fun p hp => by simp at hp⟩
  | cons p rest ih =>
    intro acc caches h
    rw [loopFiles] at h
    split at h
    · cases h
    · rename_i hc
      split at h
      · cases h
      · cases h
      · rename_i sub hl
        simp only at h
        split at h
        · cases h
        · cases h
        · rename_i flowCache hsub
          obtain ⟨hacc, hrest⟩ := ih (acc ++ [flowCache]) caches h
          refine ⟨fun c hcm => hacc c (by simp [hcm]), ?_⟩
          intro p' hp'
          rcases List.mem_cons.mp hp' with rfl | hp'
          · refine ⟨hc, sub, hl, ?_⟩
            intro q hq
            have hg := hcalls (norm p') sub acc flowCache hc (Or.inl ⟨_, hl⟩) hsub q hq
            have hfc : flowCache ∈ caches := hacc flowCache (by simp)
            exact hg.mono (fun x hx => List.mem_flatten.mpr ⟨flowCache, hfc, hx⟩) (fun x hx => hx)
          · exact hrest p' hp'

theorem lookup_wf_inj {fs : FS} {p : String} {a b : List Step} (ha : lookup fs p = some (.wf a))
    (hb : lookup fs p = some (.wf b)) : a = b := by
  rw [ha] at hb
  injection hb with hb
  injection hb

theorem wf_inj {x : Option FileContent} {a b : List Step} (ha : x = some (.wf a)) (hb : x = some (.wf b)) : a = b := by
  rw [ha] at hb
  injection hb with hb
  injection hb

/-- the invariant of `subworkflowCache`, by strong induction on the termination measure -/
theorem cache_inv (norm : String → String) (fs : FS) (sup : Supplied) : ∀ (n : Nat) (chain : List String),
    measure fs sup chain = n →
    ∀ (steps : List Step) (acc : List (List String)) (files : List String),
      subworkflowCache norm fs sup steps acc chain = .ok files →
      ∀ q, Reach norm fs sup steps q → Good norm fs sup chain files q := by
  intro n
  induction n using Nat.strongRecOn with
  | ind n ihn =>
    intro chain hn steps acc files h q hq
    have hcalls : CallsGood norm fs sup chain := by
      intro e sub acc' files' hc hv hsub q' hq'
      have hlt := measure_lt hv hc
      exact ihn (measure fs sup (chain ++ [e])) (by omega) (chain ++ [e]) rfl sub acc' files' hsub q' hq'
    rw [subworkflowCache] at h
    simp only at h
    split at h
    · cases h
    · cases h
    · rename_i caches₁ hsup
      obtain ⟨_, hsupp⟩ := loopSupplied_inv norm fs sup chain hcalls _ _ _ hsup
      -- what the two loops give for a referenced path `p` of `steps`, in terms of the final key list
      have key : ∀ p ∈ stepWorkflowPaths steps, ¬ entry norm sup p ∈ chain ∧ ((supLookup sup p).isSome ∨ p ∈ files) ∧
          ∃ sub, denot norm fs sup p = some (.wf sub) ∧
            ∀ q, Reach norm fs sup sub q → Good norm fs sup (chain ++ [entry norm sup p]) files q := by
        intro p hp
        cases hs : supLookup sup p with
        | some c =>
          obtain ⟨hnc, sub, hc, hreach⟩ := hsupp p hp c hs
          subst hc
          rw [entry_supplied hs]
          refine ⟨hnc, Or.inl (by simp), sub, denot_supplied hs, fun q hq => ?_⟩
          refine (hreach q hq).mono (fun x hx => ?_) (fun x hx => hx)
          split at h
          · injection h with h; subst h; exact hx
          · split at h
            · split at h
              · cases h
              · cases h
              · rename_i caches hloop
                injection h with h
                subst h
                obtain ⟨hacc, _⟩ := loop_inv norm fs sup chain hcalls _ _ _ hloop
                obtain ⟨c, hc, hxc⟩ := List.mem_flatten.mp hx
                exact List.mem_flatten.mpr ⟨c, by simp [hacc c hc], hxc⟩
            · cases h
        | none =>
          have hrest : p ∈ (stepWorkflowPaths steps).filter (fun p => (supLookup sup p).isNone) := by
            simp [List.mem_filter, hp, hs]
          split at h
          · rename_i hempty
            simp only [List.isEmpty_iff] at hempty
            rw [hempty] at hrest
            cases hrest
          · split at h
            · split at h
              · cases h
              · cases h
              · rename_i caches hloop
                injection h with h
                subst h
                obtain ⟨_, hpaths⟩ := loop_inv norm fs sup chain hcalls _ _ _ hloop
                obtain ⟨hnc, sub, hl, hreach⟩ := hpaths p hrest
                rw [entry_disk hs]
                refine ⟨hnc, Or.inr ?_, sub, (denot_disk hs).trans hl, fun q hq => ?_⟩
                · exact List.mem_flatten.mpr ⟨_, by simp, hrest⟩
                · exact (hreach q hq).mono (fun x hx => by
                    obtain ⟨c, hc, hxc⟩ := List.mem_flatten.mp hx
                    exact List.mem_flatten.mpr ⟨c, by simp [hc], hxc⟩) (fun x hx => hx)
            · cases h
      cases hq with
      | direct hp =>
        obtain ⟨hnc, hin, sub, hden, hreach⟩ := key q hp
        refine ⟨hin, hnc, ⟨sub, hden⟩, ?_⟩
        rintro ⟨st, hst, q', hcyc, hq'⟩
        have := wf_inj hden hst
        subst this
        exact (hreach q' hcyc).2.1 (by simp [hq'])
      | trans hp hden' hq' =>
        obtain ⟨_, _, sub, hden, hreach⟩ := key _ hp
        have := wf_inj hden hden'
        subst this
        exact (hreach q hq').mono (fun x hx => hx) (fun x hx => by simp [hx])

/-! ## no panic -/

/-- the hypothesis about the recursive calls -/
def CallsNoPanic (norm : String → String) (fs : FS) (sup : Supplied) (chain : List String) : Prop :=
  ∀ (e : String) (sub : List Step) (acc : List (List String)) (s : String), ¬ e ∈ chain → Visitable fs sup e →
    subworkflowCache norm fs sup sub acc (chain ++ [e]) ≠ .panic s

theorem loopSupplied_no_panic (norm : String → String) (fs : FS) (sup : Supplied) (chain : List String)
    (hcalls : CallsNoPanic norm fs sup chain) :
    ∀ (paths : List String) (acc : List (List String)) (s : String), loopSupplied norm fs sup chain paths acc ≠ .panic s := by
  intro paths
  induction paths with
  | nil =>
    intro acc s h
    rw [loopSupplied] at h
    cases h
  | cons p rest ih =>
    intro acc s h
    rw [loopSupplied] at h
    split at h
    · exact ih _ s h
    · split at h <;> cases h
    · rename_i sub hs
      split at h
      · cases h
      · rename_i hc
        simp only at h
        split at h
        · cases h
        · rename_i s' hsub
          exact hcalls _ sub acc s' hc (Or.inr ⟨_, hs⟩) hsub
        · exact ih _ s h

theorem loop_no_panic (norm : String → String) (fs : FS) (sup : Supplied) (chain : List String)
    (hcalls : CallsNoPanic norm fs sup chain) :
    ∀ (paths : List String) (acc : List (List String)) (s : String), loopFiles norm fs sup chain paths acc ≠ .panic s := by
  intro paths
  induction paths with
  | nil =>
    intro acc s h
    rw [loopFiles] at h
    cases h
  | cons p rest ih =>
    intro acc s h
    rw [loopFiles] at h
    split at h
    · cases h
    · rename_i hc
      split at h
      · cases h
      · cases h
      · rename_i sub hl
        simp only at h
        split at h
        · cases h
        · rename_i s' hsub
          exact hcalls _ sub acc s' hc (Or.inl ⟨_, hl⟩) hsub
        · exact ih _ s h

/-- no statement of the sub-workflow discovery panics -/
theorem cache_no_panic (norm : String → String) (fs : FS) (sup : Supplied) : ∀ (n : Nat) (chain : List String),
    measure fs sup chain = n → ∀ (steps : List Step) (acc : List (List String)) (s : String),
      subworkflowCache norm fs sup steps acc chain ≠ .panic s := by
  intro n
  induction n using Nat.strongRecOn with
  | ind n ihn =>
    intro chain hn steps acc s h
    have hcalls : CallsNoPanic norm fs sup chain := by
      intro e sub acc' s' hc hv
      have hlt := measure_lt hv hc
      exact ihn (measure fs sup (chain ++ [e])) (by omega) (chain ++ [e]) rfl sub acc' s'
    rw [subworkflowCache] at h
    simp only at h
    split at h
    · cases h
    · rename_i s' hsup
      exact loopSupplied_no_panic norm fs sup chain hcalls _ _ s' hsup
    · split at h
      · cases h
      · split at h
        · split at h
          · cases h
          · rename_i s' hloop
            exact loop_no_panic norm fs sup chain hcalls _ _ s' hloop
          · cases h
        · cases h

/-! ## completeness: an error is reported only when there is a problem -/

theorem allPresent_of (norm : String → String) (fs : FS) (paths : List String)
    (h : ∀ p ∈ paths, ∃ c, lookup fs (norm p) = some c) : allPresent norm fs paths = true := by
  unfold allPresent
  rw [List.all_eq_true]
  intro p hp
  obtain ⟨c, hc⟩ := h p hp
  simp [hc]

theorem loopSupplied_complete (norm : String → String) (fs : FS) (sup : Supplied) (chain : List String) :
    ∀ (paths : List String) (acc : List (List String)),
      (∀ p ∈ paths, ∀ c, supLookup sup p = some c → ¬ p ∈ chain ∧ ∃ sub, c = .wf sub ∧
        ∀ acc', ∃ files, subworkflowCache norm fs sup sub acc' (chain ++ [p]) = .ok files) →
      ∃ caches, loopSupplied norm fs sup chain paths acc = .ok caches := by
  intro paths
  induction paths with
  | nil => intro acc _; exact ⟨acc, by rw [loopSupplied]⟩
  | cons p rest ih =>
    intro acc h
    have hrest : ∀ acc', ∃ caches, loopSupplied norm fs sup chain rest acc' = .ok caches :=
      fun acc' => ih acc' (fun p' hp' => h p' (by simp [hp']))
    rw [loopSupplied]
    split
    · exact hrest acc
    · rename_i hs
      obtain ⟨_, sub, hc, _⟩ := h p (by simp) _ hs
      cases hc
    · rename_i sub hs
      obtain ⟨hc, sub', hsub, hcall⟩ := h p (by simp) _ hs
      injection hsub with hsub
      subst hsub
      rw [dif_neg hc]
      obtain ⟨files, hfiles⟩ := hcall acc
      simp only [hfiles]
      exact hrest _

theorem loop_complete (norm : String → String) (fs : FS) (sup : Supplied) (chain : List String) :
    ∀ (paths : List String) (acc : List (List String)),
      (∀ p ∈ paths, ¬ norm p ∈ chain ∧ ∃ sub, lookup fs (norm p) = some (.wf sub) ∧
        ∀ acc', ∃ files, subworkflowCache norm fs sup sub acc' (chain ++ [norm p]) = .ok files) →
      ∃ caches, loopFiles norm fs sup chain paths acc = .ok caches := by
  intro paths
  induction paths with
  | nil => intro acc _; exact ⟨acc, by rw [loopFiles]⟩
  | cons p rest ih =>
    intro acc h
    obtain ⟨hc, sub, hl, hcall⟩ := h p (by simp)
    obtain ⟨files, hfiles⟩ := hcall acc
    obtain ⟨caches, hcaches⟩ := ih (acc ++ [files]) (fun p' hp' => h p' (by simp [hp']))
    refine ⟨caches, ?_⟩
    rw [loopFiles]
    split
    · rename_i hc'; exact absurd hc' hc
    · split
      · rename_i h'; rw [hl] at h'; cases h'
      · rename_i h'; rw [hl] at h'; cases h'
      · rename_i sub' h'
        have : sub' = sub := by rw [hl] at h'; injection h' with h'; injection h' with h'; exact h'.symm
        subst this
        simp only [hfiles]
        exact hcaches

/-- if every transitively referenced file exists, converts, is not in the chain and not on a cycle, the discovery
    succeeds -/
theorem cache_complete (norm : String → String) (fs : FS) (sup : Supplied) : ∀ (n : Nat) (chain : List String),
    measure fs sup chain = n →
    ∀ (steps : List Step) (acc : List (List String)),
      (∀ q, Reach norm fs sup steps q →
        (∃ st, denot norm fs sup q = some (.wf st)) ∧ ¬ entry norm sup q ∈ chain ∧ ¬ OnCycle norm fs sup q) →
      ∃ files, subworkflowCache norm fs sup steps acc chain = .ok files := by
  intro n
  induction n using Nat.strongRecOn with
  | ind n ihn =>
    intro chain hn steps acc hgood
    -- the recursive call for a referenced path `p` succeeds
    have hcall : ∀ p ∈ stepWorkflowPaths steps, ∀ sub, denot norm fs sup p = some (.wf sub) →
        Visitable fs sup (entry norm sup p) →
        ∀ acc', ∃ files, subworkflowCache norm fs sup sub acc' (chain ++ [entry norm sup p]) = .ok files := by
      intro p hp sub hsub hvis acc'
      obtain ⟨_, hnc, hncyc⟩ := hgood p (.direct hp)
      have hlt := measure_lt hvis hnc
      apply ihn (measure fs sup (chain ++ [entry norm sup p])) (by omega) (chain ++ [entry norm sup p]) rfl sub acc'
      intro q hq
      obtain ⟨hv, hqc, hqcyc⟩ := hgood q (.trans hp hsub hq)
      refine ⟨hv, ?_, hqcyc⟩
      intro hmem
      rcases List.mem_append.mp hmem with h1 | h1
      · exact hqc h1
      · simp at h1
        exact hncyc ⟨sub, hsub, q, hq, h1⟩
    have hsupl : ∃ caches₁, loopSupplied norm fs sup chain (stepWorkflowPaths steps) acc = .ok caches₁ := by
      apply loopSupplied_complete
      intro p hp c hs
      obtain ⟨⟨sub, hsub⟩, hnc, _⟩ := hgood p (.direct hp)
      rw [denot_supplied hs] at hsub
      injection hsub with hsub
      rw [entry_supplied hs] at hnc
      refine ⟨hnc, sub, hsub, ?_⟩
      have := hcall p hp sub (by rw [denot_supplied hs, hsub]) (by rw [entry_supplied hs]; exact Or.inr ⟨_, hs⟩)
      rw [entry_supplied hs] at this
      exact this
    obtain ⟨caches₁, hc₁⟩ := hsupl
    rw [subworkflowCache]
    simp only [hc₁]
    split
    · exact ⟨_, rfl⟩
    · have hmemrest : ∀ p, p ∈ (stepWorkflowPaths steps).filter (fun p => (supLookup sup p).isNone) →
          p ∈ stepWorkflowPaths steps ∧ supLookup sup p = none := by
        intro p hp
        have := List.mem_filter.mp hp
        exact ⟨this.1, by simpa using this.2⟩
      have hpres : allPresent norm fs ((stepWorkflowPaths steps).filter (fun p => (supLookup sup p).isNone)) = true := by
        apply allPresent_of
        intro p hp
        obtain ⟨hp, hs⟩ := hmemrest p hp
        obtain ⟨⟨st, hst⟩, _, _⟩ := hgood p (.direct hp)
        rw [denot_disk hs] at hst
        exact ⟨_, hst⟩
      simp only [hpres, if_true]
      have hloop : ∃ caches, loopFiles norm fs sup chain
          ((stepWorkflowPaths steps).filter (fun p => (supLookup sup p).isNone)) caches₁ = .ok caches := by
        apply loop_complete
        intro p hp
        obtain ⟨hp, hs⟩ := hmemrest p hp
        obtain ⟨⟨sub, hsub⟩, hnc, _⟩ := hgood p (.direct hp)
        have hl : lookup fs (norm p) = some (.wf sub) := by rw [← denot_disk hs]; exact hsub
        rw [entry_disk hs] at hnc
        refine ⟨hnc, sub, hl, ?_⟩
        have := hcall p hp sub hsub (by rw [entry_disk hs]; exact Or.inl ⟨_, hl⟩)
        rw [entry_disk hs] at this
        exact this
      obtain ⟨caches, hcaches⟩ := hloop
      simp only [hcaches]
      exact ⟨_, rfl⟩

/-! ## `checkSubworkflowCycles` -/

/-- key `q` is referenced, by key, from `steps` through the contents `ctx` (a key without content is not followed) -/
inductive KeyReach (ctx : FS) : List Step → String → Prop where
  | direct {steps : List Step} {p : String} : p ∈ stepWorkflowPaths steps → KeyReach ctx steps p
  | trans {steps sub : List Step} {p q : String} : p ∈ stepWorkflowPaths steps → lookup ctx p = some (.wf sub) →
      KeyReach ctx sub q → KeyReach ctx steps q

/-- the content of key `q` is a workflow that references key `q` again, directly or through other contents -/
def KeyOnCycle (ctx : FS) (q : String) : Prop := ∃ st, lookup ctx q = some (.wf st) ∧ KeyReach ctx st q

theorem loopCheck_ok (ctx : FS) (chain : List String) : ∀ (paths : List String), loopCheck ctx chain paths = .ok () →
    ∀ p ∈ paths, ¬ p ∈ chain ∧ (lookup ctx p = none ∨
      ∃ sub, lookup ctx p = some (.wf sub) ∧ checkCycles ctx sub (chain ++ [p]) = .ok ()) := by
  intro paths
  induction paths with
  | nil => intro _ p hp; simp at hp
  | cons x rest ih =>
    intro h p hp
    rw [loopCheck] at h
    split at h
    · cases h
    · rename_i hc
      split at h
      · rename_i hl
        rcases List.mem_cons.mp hp with rfl | hp
        · exact ⟨hc, Or.inl hl⟩
        · exact ih h p hp
      · cases h
      · rename_i sub hl
        simp only at h
        split at h
        · cases h
        · cases h
        · rename_i hsub
          rcases List.mem_cons.mp hp with rfl | hp
          · exact ⟨hc, Or.inr ⟨sub, hl, hsub⟩⟩
          · exact ih h p hp

/-- Soundness of the check, by strong induction on the number of keys not yet in the chain: no key referenced from
    `steps` is in the chain or on a reference cycle. -/
theorem checkCycles_sound (ctx : FS) : ∀ (n : Nat) (chain : List String), unvisited ctx chain = n →
    ∀ (steps : List Step), checkCycles ctx steps chain = .ok () →
      ∀ q, KeyReach ctx steps q → ¬ q ∈ chain ∧ ¬ KeyOnCycle ctx q := by
  intro n
  induction n using Nat.strongRecOn with
  | ind n ihn =>
    intro chain hn steps h q hq
    rw [checkCycles] at h
    have hall := loopCheck_ok ctx chain _ h
    have hrec : ∀ p sub, ¬ p ∈ chain → lookup ctx p = some (.wf sub) → checkCycles ctx sub (chain ++ [p]) = .ok () →
        ∀ q, KeyReach ctx sub q → ¬ q ∈ chain ++ [p] ∧ ¬ KeyOnCycle ctx q := by
      intro p sub hc hl hsub
      have hlt := unvisited_lt hl hc
      exact ihn (unvisited ctx (chain ++ [p])) (by omega) (chain ++ [p]) rfl sub hsub
    cases hq with
    | direct hp =>
      obtain ⟨hnc, hrest⟩ := hall q hp
      refine ⟨hnc, ?_⟩
      rintro ⟨st, hst, hreach⟩
      rcases hrest with hnone | ⟨sub, hl, hsub⟩
      · rw [hnone] at hst; cases hst
      · have := lookup_wf_inj hl hst
        subst this
        exact (hrec q sub hnc hl hsub q hreach).1 (by simp)
    | trans hp hl' hq' =>
      rename_i sub' p
      obtain ⟨hnc, hrest⟩ := hall p hp
      rcases hrest with hnone | ⟨sub, hl, hsub⟩
      · rw [hnone] at hl'; cases hl'
      · have := lookup_wf_inj hl hl'
        subst this
        obtain ⟨h₁, h₂⟩ := hrec p sub hnc hl hsub q hq'
        exact ⟨fun hm => h₁ (by simp [hm]), h₂⟩

theorem loopCheck_no_panic (ctx : FS) (chain : List String)
    (hcalls : ∀ p sub s, ¬ p ∈ chain → lookup ctx p = some (.wf sub) → checkCycles ctx sub (chain ++ [p]) ≠ .panic s) :
    ∀ (paths : List String) (s : String), loopCheck ctx chain paths ≠ .panic s := by
  intro paths
  induction paths with
  | nil => intro s h; rw [loopCheck] at h; cases h
  | cons x rest ih =>
    intro s h
    rw [loopCheck] at h
    split at h
    · cases h
    · rename_i hc
      split at h
      · exact ih s h
      · cases h
      · rename_i sub hl
        simp only at h
        split at h
        · cases h
        · rename_i s' hsub
          exact hcalls x sub s' hc hl hsub
        · exact ih s h

/-- no statement of the check panics -/
theorem checkCycles_no_panic (ctx : FS) : ∀ (n : Nat) (chain : List String), unvisited ctx chain = n →
    ∀ (steps : List Step) (s : String), checkCycles ctx steps chain ≠ .panic s := by
  intro n
  induction n using Nat.strongRecOn with
  | ind n ihn =>
    intro chain hn steps s h
    rw [checkCycles] at h
    refine loopCheck_no_panic ctx chain ?_ _ s h
    intro p sub s' hc hl
    have hlt := unvisited_lt hl hc
    exact ihn (unvisited ctx (chain ++ [p])) (by omega) (chain ++ [p]) rfl sub s'

theorem loopCheck_complete (ctx : FS) (chain : List String) : ∀ (paths : List String),
    (∀ p ∈ paths, ¬ p ∈ chain ∧ (lookup ctx p = none ∨
      ∃ sub, lookup ctx p = some (.wf sub) ∧ checkCycles ctx sub (chain ++ [p]) = .ok ())) →
    loopCheck ctx chain paths = .ok () := by
  intro paths
  induction paths with
  | nil => intro _; rw [loopCheck]
  | cons x rest ih =>
    intro h
    obtain ⟨hc, hx⟩ := h x (by simp)
    have hrest := ih (fun p hp => h p (by simp [hp]))
    rw [loopCheck, dif_neg hc]
    rcases hx with hnone | ⟨sub, hl, hsub⟩
    · split
      · exact hrest
      · rename_i h'; rw [hnone] at h'; cases h'
      · rename_i h'; rw [hnone] at h'; cases h'
    · split
      · rename_i h'; rw [hl] at h'; cases h'
      · rename_i h'; rw [hl] at h'; cases h'
      · rename_i sub' h'
        have : sub' = sub := (lookup_wf_inj hl h').symm
        subst this
        simp only [hsub]
        exact hrest

/-- Completeness of the check: it returns no error when no key referenced from `steps` is in the chain, has a content
    that does not convert, or is on a reference cycle. -/
theorem checkCycles_complete (ctx : FS) : ∀ (n : Nat) (chain : List String), unvisited ctx chain = n →
    ∀ (steps : List Step),
      (∀ q, KeyReach ctx steps q → ¬ q ∈ chain ∧ lookup ctx q ≠ some .invalid ∧ ¬ KeyOnCycle ctx q) →
      checkCycles ctx steps chain = .ok () := by
  intro n
  induction n using Nat.strongRecOn with
  | ind n ihn =>
    intro chain hn steps hgood
    rw [checkCycles]
    apply loopCheck_complete
    intro p hp
    obtain ⟨hnc, hninv, hncyc⟩ := hgood p (.direct hp)
    refine ⟨hnc, ?_⟩
    cases hl : lookup ctx p with
    | none => exact Or.inl rfl
    | some c =>
      cases c with
      | invalid => exact absurd hl hninv
      | wf sub =>
        refine Or.inr ⟨sub, rfl, ?_⟩
        have hlt := unvisited_lt hl hnc
        apply ihn (unvisited ctx (chain ++ [p])) (by omega) (chain ++ [p]) rfl sub
        intro q hq
        obtain ⟨hqc, hqi, hqcyc⟩ := hgood q (.trans hp hl hq)
        refine ⟨?_, hqi, hqcyc⟩
        intro hmem
        rcases List.mem_append.mp hmem with h1 | h1
        · exact hqc h1
        · simp at h1
          subst h1
          exact hncyc ⟨sub, hl, hq⟩

/-! ## the merged contents -/

theorem lookup_append (a b : FS) (p : String) :
    lookup (a ++ b) p = match lookup a p with
      | some c => some c
      | none => lookup b p := by
  induction a with
  | nil => rfl
  | cons x xs ih =>
    obtain ⟨n, c⟩ := x
    simp only [List.cons_append, lookup]
    split
    · rfl
    · exact ih

theorem lookup_filterMap_some (norm : String → String) (fs : FS) (keys : List String) (p : String) (c : FileContent)
    (h : lookup (keys.filterMap (fun k => (lookup fs (norm k)).map (fun c => (k, c)))) p = some c) :
    lookup fs (norm p) = some c := by
  induction keys with
  | nil => simp [lookup] at h
  | cons k ks ih =>
    simp only [List.filterMap_cons] at h
    cases hk : lookup fs (norm k) with
    | none =>
      simp only [hk, Option.map_none] at h
      exact ih h
    | some c' =>
      simp only [hk, Option.map_some, lookup] at h
      split at h
      · rename_i hkp
        subst hkp
        rw [← h]
        exact hk
      · exact ih h

/-- a content of the merged cache is the content the key denotes: the caller's, else the file's -/
theorem merged_denot (norm : String → String) (fs files : FS) (keys : List String) (p : String) (c : FileContent)
    (h : lookup (mergedContents norm fs files keys) p = some c) : denot norm fs (some files) p = some c := by
  unfold mergedContents at h
  rw [lookup_append] at h
  unfold denot supLookup
  cases hf : lookup files p with
  | some c' =>
    simp only [hf] at h ⊢
    exact h
  | none =>
    simp only [hf] at h ⊢
    exact lookup_filterMap_some norm fs keys p c h

/-- what is reachable by key in the merged contents is reachable in the sense of the discovery -/
theorem keyReach_reach (norm : String → String) (fs files : FS) (keys : List String) {steps : List Step} {q : String}
    (h : KeyReach (mergedContents norm fs files keys) steps q) : Reach norm fs (some files) steps q := by
  induction h with
  | direct hp => exact .direct hp
  | trans hp hl _ ih => exact .trans hp (merged_denot norm fs files keys _ _ hl) ih

end Arca.Model.SubWf
