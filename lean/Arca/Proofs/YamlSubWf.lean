/-
Helper lemmas for C11 about `Arca.Model.SubWf`: what a successful `subworkflowCache` guarantees about every file
that is transitively referenced by foreach steps (it is in the returned cache, it exists, it converts, it is not on a
reference cycle).
-/
import Arca.Model.SubWf

namespace Arca.Model.SubWf

/-! ## StepWorkflowPaths -/

theorem mem_insertNew {p q : String} {acc : List String} : q ∈ insertNew p acc ↔ q ∈ acc ∨ q = p := by
  unfold insertNew
  split
  · constructor
    · intro h; exact Or.inl h
    · intro h
      rcases h with h | h
      · exact h
      · subst h; assumption
  · simp

theorem mem_foldl_paths (steps : List Step) (acc : List String) (q : String) :
    q ∈ steps.foldl addStepPath acc ↔ q ∈ acc ∨ ∃ s ∈ steps, stepPath s = some q := by
  induction steps generalizing acc with
  | nil => simp
  | cons s rest ih =>
    simp only [List.foldl_cons]
    rw [ih]
    unfold addStepPath
    cases hs : stepPath s with
    | none =>
      simp only [List.mem_cons]
      constructor
      · rintro (h | ⟨s', hs', hq⟩)
        · exact Or.inl h
        · exact Or.inr ⟨s', Or.inr hs', hq⟩
      · rintro (h | ⟨s', hs' | hs', hq⟩)
        · exact Or.inl h
        · subst hs'; rw [hs] at hq; cases hq
        · exact Or.inr ⟨s', hs', hq⟩
    | some p =>
      simp only [mem_insertNew, List.mem_cons]
      constructor
      · rintro ((h | h) | ⟨s', hs', hq⟩)
        · exact Or.inl h
        · subst h; exact Or.inr ⟨s, Or.inl rfl, hs⟩
        · exact Or.inr ⟨s', Or.inr hs', hq⟩
      · rintro (h | ⟨s', hs' | hs', hq⟩)
        · exact Or.inl (Or.inl h)
        · subst hs'; rw [hs] at hq; cases hq; exact Or.inl (Or.inr rfl)
        · exact Or.inr ⟨s', hs', hq⟩

/-- a path is collected exactly when some step is a map whose `kind` is the string "foreach" and whose `workflow` is
    that string -/
theorem mem_stepWorkflowPaths {steps : List Step} {q : String} :
    q ∈ stepWorkflowPaths steps ↔ ∃ s ∈ steps, stepPath s = some q := by
  unfold stepWorkflowPaths
  rw [mem_foldl_paths]
  simp

/-! ## transitive references -/

/-- `Reach norm fs steps q`: key `q` is referenced by a foreach step of `steps`, or of a file so referenced, … -/
inductive Reach (norm : String → String) (fs : FS) : List Step → String → Prop where
  | direct {steps : List Step} {p : String} : p ∈ stepWorkflowPaths steps → Reach norm fs steps p
  | trans {steps sub : List Step} {p q : String} : p ∈ stepWorkflowPaths steps → lookup fs (norm p) = some (.wf sub) →
      Reach norm fs sub q → Reach norm fs steps q

/-- the file `q` denotes is a workflow that transitively references itself (under some spelling) -/
def OnCycle (norm : String → String) (fs : FS) (q : String) : Prop :=
  ∃ st, lookup fs (norm q) = some (.wf st) ∧ ∃ q', Reach norm fs st q' ∧ norm q' = norm q

/-- what a successful discovery guarantees about a transitively referenced file -/
def Good (norm : String → String) (fs : FS) (chain files : List String) (q : String) : Prop :=
  q ∈ files ∧ ¬ norm q ∈ chain ∧ (∃ st, lookup fs (norm q) = some (.wf st)) ∧ ¬ OnCycle norm fs q

theorem Good.mono {norm : String → String} {fs : FS} {chain chain' files files' : List String} {q : String}
    (hf : ∀ x ∈ files, x ∈ files') (hc : ∀ x ∈ chain', x ∈ chain) (h : Good norm fs chain files q) :
    Good norm fs chain' files' q :=
  ⟨hf q h.1, fun hq => h.2.1 (hc _ hq), h.2.2.1, h.2.2.2⟩

/-- the hypothesis the loop lemma needs about the recursive calls -/
def CallsGood (norm : String → String) (fs : FS) (chain : List String) : Prop :=
  ∀ (p : String) (sub : List Step) (acc : List (List String)) (files : List String),
    ¬ p ∈ chain → lookup fs p = some (.wf sub) → subworkflowCache norm fs sub acc (chain ++ [p]) = .ok files →
    ∀ q, Reach norm fs sub q → Good norm fs (chain ++ [p]) files q

theorem loop_inv (norm : String → String) (fs : FS) (chain : List String) (hcalls : CallsGood norm fs chain) :
    ∀ (paths : List String) (acc caches : List (List String)), loopFiles norm fs chain paths acc = .ok caches →
      (∀ c ∈ acc, c ∈ caches) ∧
      ∀ p ∈ paths, ¬ norm p ∈ chain ∧ ∃ sub, lookup fs (norm p) = some (.wf sub) ∧
        ∀ q, Reach norm fs sub q → Good norm fs (chain ++ [norm p]) caches.flatten q := by
  intro paths
  induction paths with
  | nil =>
    intro acc caches h
    rw [loopFiles] at h
    injection h with h
    subst h
    exact ⟨fun c hc => hc, fun p hp => by simp at hp⟩
  | cons p rest ih =>
    intro acc caches h
    rw [loopFiles] at h
    split at h
    · cases h
    · rename_i hc
      split at h
      · cases h
      · cases h
      · rename_i sub hl
        simp only at h
        split at h
        · cases h
        · cases h
        · rename_i flowCache hsub
          obtain ⟨hacc, hrest⟩ := ih (acc ++ [flowCache]) caches h
          refine ⟨fun c hcm => hacc c (by simp [hcm]), ?_⟩
          intro p' hp'
          rcases List.mem_cons.mp hp' with rfl | hp'
          · refine ⟨hc, sub, hl, ?_⟩
            intro q hq
            have hg := hcalls (norm p') sub acc flowCache hc hl hsub q hq
            have hfc : flowCache ∈ caches := hacc flowCache (by simp)
            exact hg.mono (fun x hx => List.mem_flatten.mpr ⟨flowCache, hfc, hx⟩) (fun x hx => hx)
          · exact hrest p' hp'

theorem lookup_wf_inj {fs : FS} {p : String} {a b : List Step} (ha : lookup fs p = some (.wf a))
    (hb : lookup fs p = some (.wf b)) : a = b := by
  rw [ha] at hb
  injection hb with hb
  injection hb

/-- the invariant of `subworkflowCache`, by strong induction on the number of files not yet in the chain -/
theorem cache_inv (norm : String → String) (fs : FS) : ∀ (n : Nat) (chain : List String), unvisited fs chain = n →
    ∀ (steps : List Step) (acc : List (List String)) (files : List String),
      subworkflowCache norm fs steps acc chain = .ok files → ∀ q, Reach norm fs steps q → Good norm fs chain files q := by
  intro n
  induction n using Nat.strongRecOn with
  | ind n ihn =>
    intro chain hn steps acc files h q hq
    have hcalls : CallsGood norm fs chain := by
      intro p sub acc' files' hc hl hsub q' hq'
      have hlt := unvisited_lt hl hc
      exact ihn (unvisited fs (chain ++ [p])) (by omega) (chain ++ [p]) rfl sub acc' files' hsub q' hq'
    rw [subworkflowCache] at h
    split at h
    · -- no foreach step: nothing is reachable
      rename_i hempty
      have hnil : stepWorkflowPaths steps = [] := by simpa using hempty
      cases hq with
      | direct hp => rw [hnil] at hp; simp at hp
      | trans hp _ _ => rw [hnil] at hp; simp at hp
    · split at h
      · split at h
        · cases h
        · cases h
        · rename_i caches hloop
          injection h with h
          subst h
          obtain ⟨_, hpaths⟩ := loop_inv norm fs chain hcalls _ _ _ hloop
          have hsub : ∀ x ∈ caches.flatten, x ∈ (caches ++ [stepWorkflowPaths steps]).flatten := by
            intro x hx; simp [List.flatten_append]; exact Or.inl (by simpa using hx)
          cases hq with
          | direct hp =>
            obtain ⟨hnc, sub, hl, hreach⟩ := hpaths q hp
            refine ⟨by simp [List.flatten_append, hp], hnc, ⟨sub, hl⟩, ?_⟩
            rintro ⟨st, hst, q', hcyc, hq'⟩
            have := lookup_wf_inj hl hst
            subst this
            exact (hreach q' hcyc).2.1 (by simp [hq'])
          | trans hp hl' hq' =>
            obtain ⟨_, sub, hl, hreach⟩ := hpaths _ hp
            have := lookup_wf_inj hl hl'
            subst this
            exact (hreach q hq').mono hsub (fun x hx => by simp [hx])
      · cases h

/-! ## no panic -/

theorem loop_no_panic (norm : String → String) (fs : FS) (chain : List String)
    (hcalls : ∀ (p : String) (sub : List Step) (acc : List (List String)) (s : String), ¬ p ∈ chain →
      lookup fs p = some (.wf sub) → subworkflowCache norm fs sub acc (chain ++ [p]) ≠ .panic s) :
    ∀ (paths : List String) (acc : List (List String)) (s : String), loopFiles norm fs chain paths acc ≠ .panic s := by
  intro paths
  induction paths with
  | nil =>
    intro acc s h
    rw [loopFiles] at h
    cases h
  | cons p rest ih =>
    intro acc s h
    rw [loopFiles] at h
    split at h
    · cases h
    · rename_i hc
      split at h
      · cases h
      · cases h
      · rename_i sub hl
        simp only at h
        split at h
        · cases h
        · rename_i s' hsub
          exact hcalls _ sub acc s' hc hl hsub
        · exact ih _ s h

/-- no statement of the sub-workflow discovery panics -/
theorem cache_no_panic (norm : String → String) (fs : FS) : ∀ (n : Nat) (chain : List String),
    unvisited fs chain = n → ∀ (steps : List Step) (acc : List (List String)) (s : String),
      subworkflowCache norm fs steps acc chain ≠ .panic s := by
  intro n
  induction n using Nat.strongRecOn with
  | ind n ihn =>
    intro chain hn steps acc s h
    have hcalls : ∀ (p : String) (sub : List Step) (acc : List (List String)) (s : String), ¬ p ∈ chain →
        lookup fs p = some (.wf sub) → subworkflowCache norm fs sub acc (chain ++ [p]) ≠ .panic s := by
      intro p sub acc' s' hc hl
      have hlt := unvisited_lt hl hc
      exact ihn (unvisited fs (chain ++ [p])) (by omega) (chain ++ [p]) rfl sub acc' s'
    rw [subworkflowCache] at h
    split at h
    · cases h
    · split at h
      · split at h
        · cases h
        · rename_i s' hloop
          exact loop_no_panic norm fs chain hcalls _ _ s' hloop
        · cases h
      · cases h

/-! ## completeness: an error is reported only when there is a problem -/

theorem allPresent_of (norm : String → String) (fs : FS) (paths : List String)
    (h : ∀ p ∈ paths, ∃ c, lookup fs (norm p) = some c) : allPresent norm fs paths = true := by
  unfold allPresent
  rw [List.all_eq_true]
  intro p hp
  obtain ⟨c, hc⟩ := h p hp
  simp [hc]

theorem loop_complete (norm : String → String) (fs : FS) (chain : List String) :
    ∀ (paths : List String) (acc : List (List String)),
      (∀ p ∈ paths, ¬ norm p ∈ chain ∧ ∃ sub, lookup fs (norm p) = some (.wf sub) ∧
        ∀ acc', ∃ files, subworkflowCache norm fs sub acc' (chain ++ [norm p]) = .ok files) →
      ∃ caches, loopFiles norm fs chain paths acc = .ok caches := by
  intro paths
  induction paths with
  | nil => intro acc _; exact ⟨acc, by rw [loopFiles]⟩
  | cons p rest ih =>
    intro acc h
    obtain ⟨hc, sub, hl, hcall⟩ := h p (by simp)
    obtain ⟨files, hfiles⟩ := hcall acc
    obtain ⟨caches, hcaches⟩ := ih (acc ++ [files]) (fun p' hp' => h p' (by simp [hp']))
    refine ⟨caches, ?_⟩
    rw [loopFiles]
    split
    · rename_i hc'; exact absurd hc' hc
    · split
      · rename_i h'; rw [hl] at h'; cases h'
      · rename_i h'; rw [hl] at h'; cases h'
      · rename_i sub' h'
        have : sub' = sub := by rw [hl] at h'; injection h' with h'; injection h' with h'; exact h'.symm
        subst this
        simp only [hfiles]
        exact hcaches

/-- if every transitively referenced file exists, converts, is not in the chain and not on a cycle, the discovery
    succeeds -/
theorem cache_complete (norm : String → String) (fs : FS) : ∀ (n : Nat) (chain : List String), unvisited fs chain = n →
    ∀ (steps : List Step) (acc : List (List String)),
      (∀ q, Reach norm fs steps q →
        (∃ st, lookup fs (norm q) = some (.wf st)) ∧ ¬ norm q ∈ chain ∧ ¬ OnCycle norm fs q) →
      ∃ files, subworkflowCache norm fs steps acc chain = .ok files := by
  intro n
  induction n using Nat.strongRecOn with
  | ind n ihn =>
    intro chain hn steps acc hgood
    rw [subworkflowCache]
    split
    · exact ⟨[], rfl⟩
    · have hpres : allPresent norm fs (stepWorkflowPaths steps) = true := by
        apply allPresent_of
        intro p hp
        obtain ⟨⟨st, hst⟩, _, _⟩ := hgood p (.direct hp)
        exact ⟨_, hst⟩
      simp only [hpres, if_true]
      have hloop : ∃ caches, loopFiles norm fs chain (stepWorkflowPaths steps) acc = .ok caches := by
        apply loop_complete
        intro p hp
        obtain ⟨⟨sub, hsub⟩, hnc, hncyc⟩ := hgood p (.direct hp)
        refine ⟨hnc, sub, hsub, ?_⟩
        intro acc'
        have hlt := unvisited_lt hsub hnc
        apply ihn (unvisited fs (chain ++ [norm p])) (by omega) (chain ++ [norm p]) rfl sub acc'
        intro q hq
        obtain ⟨hv, hqc, hqcyc⟩ := hgood q (.trans hp hsub hq)
        refine ⟨hv, ?_, hqcyc⟩
        intro hmem
        rcases List.mem_append.mp hmem with h1 | h1
        · exact hqc h1
        · simp at h1
          exact hncyc ⟨sub, hsub, q, hq, h1⟩
      obtain ⟨caches, hcaches⟩ := hloop
      exact ⟨(caches ++ [stepWorkflowPaths steps]).flatten, by simp only [hcaches]⟩

end Arca.Model.SubWf
