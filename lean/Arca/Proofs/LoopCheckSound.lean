/-
Soundness of the decidable checks of `Arca/Model/LoopCheck.lean`: what the driver evaluates on every real prepared
workflow and history implies the hypotheses of the run-loop theorems as they are stated.
-/
import Arca.Model.LoopCheck
import Arca.Proofs.LoopComplete

set_option linter.unusedVariables false
set_option linter.unusedSimpArgs false

namespace Arca.Model

theorem declaresB_iff {P : Prepared} {step stage : String} : declaresB P step stage = true ↔ P.declares step stage := by
  unfold declaresB Prepared.declares
  cases h1 : lookup step P.stages with
  | none => simp
  | some sts =>
    cases h2 : lookup stage sts with
    | none => simp [h2]
    | some outs => simp [h2]

/-- a declared (step, stage) is an entry of the stage table -/
theorem declares_mem {P : Prepared} {step stage : String} (h : P.declares step stage) :
    ∃ p ∈ P.stages, p.1 = step ∧ ∃ q ∈ p.2, q.1 = stage := by
  obtain ⟨sts, outs, h1, h2⟩ := h
  exact ⟨(step, sts), lookup_mem_items h1, rfl, (stage, outs), lookup_mem_items h2, rfl⟩

/-- a fresh graph satisfies the graph invariant -/
theorem FreshOK.inv {g : Graph String} (h : FreshOK g) : g.Inv := by
  obtain ⟨h1, h2, h3, h4, h5, h6, h7, h8⟩ := h
  have hw : ∀ x m, g.find? x = some m → m.status = St.waiting ∧ m.res = [] :=
    fun x m hm => h4 m (Graph.find?_some hm).1
  constructor
  · exact h1
  · exact h2
  · exact h3
  · intro n hn p hp
    exact ⟨p.2, h6 n hn p hp, Or.inl rfl⟩
  · intro n hn p hp
    rw [(h4 n hn).2] at hp; cases hp
  · exact h7
  · intro e he m n hm hn _
    obtain ⟨hnm, hnid⟩ := Graph.find?_some hn
    refine ⟨h8 e he n hnm hnid, ?_⟩
    rw [(h4 n hnm).2]; simp [keys]
  · intro e he m n hm _ hs
    rw [(hw _ m hm).1] at hs; cases hs
  · intro e he m n hm _ hs
    rw [(hw _ m hm).1] at hs; cases hs
  · intro e he _ m n hm _ hs
    rw [(hw _ m hm).1] at hs; cases hs
  · intro n hn hex hall
    obtain ⟨e, he, he2, hor⟩ := hex
    obtain ⟨m, hm⟩ := Graph.has_iff.1 (h3 e he).1
    have := hall e he he2 hor m hm
    rw [(hw _ m hm).1] at this; cases this
  · intro n hn p hp hobv hex
    exfalso
    rw [(h4 n hn).2, List.append_nil] at hp
    obtain ⟨d, hd, rfl⟩ := hex
    have := edge_type_unique h2 (h6 n hn p hp) hd
    rw [hobv] at this
    cases this
  · intro n hn
    rw [(h4 n hn).2]; simp
  · intro n hn hex
    obtain ⟨q, hq, _⟩ := hex
    rw [(h4 n hn).2] at hq; cases hq
  · intro id hid
    rw [h5] at hid; cases hid

theorem Prepared.WF3OK.sound {P : Prepared} (h : P.WF3OK) : P.WF3 := by
  unfold Prepared.WF3OK Prepared.wf3Clauses at h
  simp only [List.forall_mem_cons, decide_eq_true_eq, List.not_mem_nil, false_imp_iff, implies_true, and_true] at h
  obtain ⟨c1, c2, c3, c4, c5, c6, c7a, c8, c9, c10, c11, c12, c13, c14, c7b, c15, c16a, c16b, c16c⟩ := h
  have c7 : ∀ p ∈ P.items, p.2.kind = Kind.stage →
      stageDataB p.2 = true ∧ p.2.step ≠ "" ∧ p.2.stage ≠ "" ∧ declaresB P p.2.step p.2.stage = true :=
    fun p hp hk => ⟨(c7a p hp hk).1, (c7a p hp hk).2.1, (c7a p hp hk).2.2, c7b p hp hk⟩
  have c16 : ∀ p ∈ P.items, p.2.kind = Kind.output →
      P.dag.has p.1 = true ∧ p.2.data.isSome = true ∧ ∀ ed ∈ P.dag.edges, ed.1 ≠ p.1 :=
    fun p hp hk => ⟨c16a p hp hk, c16b p hp hk, c16c p hp hk⟩
  have hitem : ∀ {id : String} {it : Item}, lookup id P.items = some it → (id, it) ∈ P.items :=
    fun h => lookup_mem_items h
  -- declared stages / outputs as entries of the stage table
  have hstage : ∀ step stage, P.declares step stage → stageItemB P step stage = true := by
    intro step stage hd
    obtain ⟨p, hp, rfl, q, hq, rfl⟩ := declares_mem hd
    exact c5 p hp q hq
  have hout : ∀ step stage o, P.declares step stage → o ∈ P.outputsOf step stage → outItemB P step stage o = true := by
    intro step stage o hd ho
    obtain ⟨p, hp, rfl, q, hq, rfl⟩ := declares_mem hd
    exact c6 p hp q hq o ho
  have hwf : P.WF := by
    refine ⟨c1.inv, c1.2.2.2.1, c1.2.2.2.2.1, c2, ?_, ?_, ?_, ?_, ?_⟩
    · intro id it hit hk
      exact c3 (id, it) (hitem hit) hk
    · intro id it hit hk
      exact c4 (id, it) (hitem hit) hk
    · intro step stage it hd hit
      have := hstage step stage hd
      unfold stageItemB at this
      rw [hit] at this
      exact (of_decide_eq_true this).1
    · intro step stage o it hd ho hit
      have := hout step stage o hd ho
      unfold outItemB at this
      rw [hit] at this
      simp only [Bool.and_eq_true] at this
      exact (of_decide_eq_true this.1).1
    · intro step stage o it hd ho hit _
      have := hout step stage o hd ho
      unfold outItemB at this
      rw [hit] at this
      simp only [Bool.and_eq_true] at this
      exact (of_decide_eq_true this.1).2
  have hwf2 : P.WF2 := by
    refine ⟨hwf, ?_, ?_, ?_, ?_, c9, ?_, ?_⟩
    · intro step stage o hd ho
      have := hout step stage o hd ho
      unfold outItemB at this
      simp only [Bool.and_eq_true, List.all_eq_true, decide_eq_true_eq] at this
      refine ⟨?_, fun ed he h1 => this.2 ed he h1⟩
      cases hl : lookup (outputNodeId step stage o) P.items with
      | none => rw [hl] at this; exact absurd this.1 (by simp)
      | some it => rfl
    · intro id it d hit hk hd
      have := (c7 (id, it) (hitem hit) hk).1
      unfold stageDataB at this
      simp only at this
      rw [hd] at this
      cases d with
      | map kvs => exact ⟨kvs, rfl⟩
      | _ => cases this
    · intro id it hit hk
      exact ⟨(c7 (id, it) (hitem hit) hk).2.1, (c7 (id, it) (hitem hit) hk).2.2.1⟩
    · intro id it hit hd
      exact c8 (id, it) (hitem hit) hd
    · intro it hit
      unfold inputItemB at c10
      rw [hit] at c10
      exact of_decide_eq_true c10
    · intro step stage it hd hit
      have := hstage step stage hd
      unfold stageItemB at this
      rw [hit] at this
      exact (of_decide_eq_true this).2
  refine ⟨hwf2, c11, c12, ?_, ?_, c13, ?_, ?_, ?_, ?_⟩
  · intro id it hit hk
    exact c14 (id, it) (hitem hit) hk
  · intro id it hit hk
    exact declaresB_iff.1 (c7 (id, it) (hitem hit) hk).2.2.2
  · obtain ⟨p, hp, hk⟩ := c15
    exact ⟨p.1, p.2, lookup_of_mem_nodup c13 hp, hk⟩
  · intro id it hit hk
    exact (c16 (id, it) (hitem hit) hk).1
  · intro id it hit hk
    exact (c16 (id, it) (hitem hit) hk).2.1
  · intro id it hit hk
    exact (c16 (id, it) (hitem hit) hk).2.2

theorem Prepared.wf3B_sound {P : Prepared} (h : P.wf3B = true) : P.WF3 :=
  Prepared.WF3OK.sound (of_decide_eq_true h)

/-! ### the provider contract -/

theorem stIs_iff {g : Graph String} {id : String} {st : St} : stIs g id st = true ↔ statusIs g id st := by
  unfold stIs
  rw [decide_eq_true_eq]
  exact statusOf_eq_iff g id st

theorem stageEndB_sound {P : Prepared} {s : LoopState} {step prev : String} {out : Option (String × Val)}
    (h : stageEndB P s step prev out = true) :
    P.declares step prev ∧
    statusIs s.dag (stageNodeId step prev) St.waiting ∧
    (∀ ed ∈ P.dag.edges, ed.2.1 = stageNodeId step prev → ed.2.2 = Dep.and → statusIs s.dag ed.1 St.resolved) ∧
    (∀ ed ∈ P.dag.edges, ed.2.1 = stageNodeId step prev → ed.2.2 ≠ Dep.or) ∧
    (∀ oid v, out = some (oid, v) → oid ∈ P.outputsOf step prev ∧
        ∀ o ∈ P.outputsOf step prev, statusIs s.dag (outputNodeId step prev o) St.waiting) := by
  unfold stageEndB at h
  simp only [Bool.and_eq_true, List.all_eq_true, decide_eq_true_eq] at h
  obtain ⟨⟨⟨h1, h2⟩, h3⟩, h4⟩ := h
  refine ⟨declaresB_iff.1 h1, stIs_iff.1 h2, ?_, ?_, ?_⟩
  · intro ed he hto hand
    exact stIs_iff.1 ((h3 ed he hto).1 hand)
  · intro ed he hto
    exact (h3 ed he hto).2
  · intro oid v ho
    subst ho
    simp only [Bool.and_eq_true, List.all_eq_true, decide_eq_true_eq] at h4
    exact ⟨h4.1, fun o ho => stIs_iff.1 (h4.2 o ho)⟩

theorem legalEventB_sound {P : Prepared} {s : LoopState} {e : Event} (h : legalEventB P s e = true) :
    LegalEvent P s e := by
  cases e with
  | start input =>
    unfold legalEventB at h
    simp only [Bool.and_eq_true, List.all_eq_true, decide_eq_true_eq] at h
    refine ⟨?_, h.2⟩
    intro id it hit hk hres
    have := h.1 (id, it) (lookup_mem_items hit) hk
    rw [stIs_iff.2 hres] at this
    cases this
  | stageChange step prev out busy =>
    cases prev with
    | none => trivial
    | some p => exact stageEndB_sound h
  | stepComplete step prev out busy => exact stageEndB_sound h
  | stageFail step stage =>
    unfold legalEventB at h
    simp only [Bool.and_eq_true, List.all_eq_true, Bool.not_eq_true'] at h
    obtain ⟨⟨h1, h2⟩, h3⟩ := h
    refine ⟨declaresB_iff.1 h1, ?_, ?_⟩
    · intro hx
      rw [stIs_iff.2 hx] at h2; cases h2
    · intro o ho hx
      have := h3 o ho
      rw [stIs_iff.2 hx] at this; cases this
  | tick _ _ => trivial
  | drain => trivial

theorem eventReportsB_sound {P : Prepared} {e : Event} (h : eventReportsB P e = true) : EventReports P e := by
  cases e with
  | stageChange step prev out busy =>
    cases prev with
    | none => trivial
    | some p =>
      intro hn
      unfold eventReportsB at h
      rw [hn] at h
      simpa using h
  | stepComplete step prev out busy =>
    intro hn
    unfold eventReportsB at h
    rw [hn] at h
    simpa using h
  | _ => trivial

theorem legalHistoryB_sound {P : Prepared} {fns : Fns} {ord : Order} (h : List Event) :
    ∀ s, legalHistoryB P fns ord s h = true → LegalHistory P fns ord s h := by
  induction h with
  | nil => intro s _; trivial
  | cons e es ih =>
    intro s hb
    unfold legalHistoryB at hb
    simp only [Bool.and_eq_true] at hb
    exact ⟨legalEventB_sound hb.1, ih _ hb.2⟩

theorem allCompleteB_sound {P : Prepared} {h : List Event} (hb : allCompleteB P h = true) :
    ∀ step stage, P.declares step stage → ∃ prev out busy, Event.stepComplete step prev out busy ∈ h := by
  intro step stage hd
  obtain ⟨sts, outs, h1, h2⟩ := hd
  unfold allCompleteB at hb
  rw [List.all_eq_true] at hb
  have := hb (step, sts) (lookup_mem_items h1)
  simp only [Bool.or_eq_true, List.isEmpty_iff, List.any_eq_true] at this
  rcases this with h3 | ⟨e, he, h3⟩
  · rw [h3] at h2; cases h2
  · cases e with
    | stepComplete st prev out busy =>
      simp only [beq_iff_eq] at h3
      subst h3
      exact ⟨prev, out, busy, he⟩
    | _ => cases h3

theorem all_eventReportsB {P : Prepared} {h : List Event} (hb : h.all (eventReportsB P) = true) :
    ∀ e ∈ h, EventReports P e := by
  intro e he
  exact eventReportsB_sound (List.all_eq_true.1 hb e he)

end Arca.Model
