/-
Helper lemmas for C16, part 2: consistently renaming steps.

`Wf.rename ρ` renames the step ids and the step segment of every reference (`$.steps.S...`).  For an injective `ρ` the
operation sequence of the renamed workflow is the renamed operation sequence (`ops_rename`).
-/
import Arca.Model.Prepare
import Arca.Proofs.PrepareExact

set_option linter.unusedSectionVars false
set_option linter.unusedVariables false

namespace Arca.Model
open Arca.Gen (StageRow)

/-! ### renaming -/

/-- the step segment of a dependency path -/
def renamePath (ρ : String → String) : List String → List String
  | k :: s :: rest => if k = "steps" then k :: ρ s :: rest else k :: s :: rest
  | p => p

mutual
  def Expr.rename (ρ : String → String) : Expr → Expr
    | .root => .root
    | .dot e k => if Expr.path? e = some ["steps"] then .dot e (ρ k) else .dot (Expr.rename ρ e) k
    | .idx e i => .idx (Expr.rename ρ e) i
    | .lit v => .lit v
    | .call f args => .call f (Expr.renameArgs ρ args)
  def Expr.renameArgs (ρ : String → String) : List Expr → List Expr
    | [] => []
    | e :: es => Expr.rename ρ e :: Expr.renameArgs ρ es
end

mutual
  def AIn.rename (ρ : String → String) : AIn → AIn
    | .lit v => .lit v
    | .expr e => .expr (e.rename ρ)
    | .list xs => .list (AIn.renameList ρ xs)
    | .map kvs => .map (AIn.renameKvs ρ kvs)
    | .oneof d opts => .oneof d (AIn.renameKvs ρ opts)
    | .optional w e => .optional w (e.rename ρ)
    | .ordisabled e => .ordisabled (e.rename ρ)
  def AIn.renameList (ρ : String → String) : List AIn → List AIn
    | [] => []
    | x :: xs => AIn.rename ρ x :: AIn.renameList ρ xs
  def AIn.renameKvs (ρ : String → String) : List (String × AIn) → List (String × AIn)
    | [] => []
    | (k, x) :: rest => (k, AIn.rename ρ x) :: AIn.renameKvs ρ rest
end

def Step.rename (ρ : String → String) (s : Step) : Step :=
  { id := ρ s.id, kind := s.kind, fields := AIn.renameKvs ρ s.fields }

def Wf.rename (ρ : String → String) (wf : Wf) : Wf :=
  { inputFields := wf.inputFields, steps := wf.steps.map (Step.rename ρ), outputs := AIn.renameKvs ρ wf.outputs }

def NodeId.rename (ρ : String → String) : NodeId → NodeId
  | .input => .input
  | .stage s g => .stage (ρ s) g
  | .out s g o => .out (ρ s) g o
  | .wfout x => .wfout x
  | .group p path => .group (p.rename ρ) path
  | .option g k => .option (g.rename ρ) k

def Op.rename (ρ : String → String) : Op → Op
  | .node n => .node (n.rename ρ)
  | .edge a b d t => .edge (a.rename ρ) (b.rename ρ) d t
  | .fail r => .fail r

def Edge.rename (ρ : String → String) (e : Edge) : Edge := (e.1.rename ρ, e.2.1.rename ρ, e.2.2)

/-! ### expressions -/

theorem renamePath_snoc (ρ : String → String) (p : List String) (k : String) (h : p ≠ ["steps"]) :
    renamePath ρ (p ++ [k]) = renamePath ρ p ++ [k] := by
  cases p with
  | nil => simp [renamePath]
  | cons a rest =>
    cases rest with
    | nil =>
      have ha : a ≠ "steps" := fun e => h (by rw [e])
      simp [renamePath, ha]
    | cons b rest' =>
      simp only [List.cons_append, renamePath]
      split <;> simp

theorem path?_rename (ρ : String → String) : ∀ e : Expr, Expr.path? (e.rename ρ) = (Expr.path? e).map (renamePath ρ)
  | .root => by simp [Expr.rename, Expr.path?, renamePath]
  | .lit _ => by simp [Expr.rename, Expr.path?]
  | .call _ _ => by simp [Expr.rename, Expr.path?]
  | .idx e i => by
    simp only [Expr.rename, Expr.path?]
    exact path?_rename ρ e
  | .dot e k => by
    simp only [Expr.rename]
    split
    · rename_i h
      simp [Expr.path?, h, renamePath]
    · rename_i h
      simp only [Expr.path?, path?_rename ρ e]
      cases hp : Expr.path? e with
      | none => simp
      | some p =>
        have : p ≠ ["steps"] := fun e' => h (by rw [hp, e'])
        simp [renamePath_snoc ρ p k this]

mutual
  theorem deps_rename (ρ : String → String) : ∀ e : Expr, Expr.deps (e.rename ρ) = (Expr.deps e).map (renamePath ρ)
    | .root => by simp [Expr.rename, Expr.deps, renamePath]
    | .lit _ => by simp [Expr.rename, Expr.deps]
    | .call f args => by
      simp only [Expr.rename, Expr.deps]
      exact depsArgs_rename ρ args
    | .idx e i => by
      have hp := path?_rename ρ (.idx e i)
      have ih := deps_rename ρ e
      simp only [Expr.rename] at hp ⊢
      simp only [Expr.deps, hp]
      cases h : Expr.path? (.idx e i) with
      | none => simpa using ih
      | some p => simp
    | .dot e k => by
      have hp := path?_rename ρ (.dot e k)
      have ih := deps_rename ρ e
      cases h : Expr.path? (.dot e k) with
      | some p =>
        rw [h] at hp
        simp only [Expr.rename] at hp ⊢
        split
        · rename_i h1
          simp only [h1, if_true] at hp
          simp only [Expr.deps, hp, h]
          simp
        · rename_i h1
          simp only [h1, if_false] at hp
          simp only [Expr.deps, hp, h]
          simp
      | none =>
        rw [h] at hp
        have hne : Expr.path? e ≠ some ["steps"] := by
          intro h1
          simp [Expr.path?, h1] at h
        simp only [Expr.rename, hne, if_false] at hp ⊢
        simp only [Expr.deps, hp, h]
        simpa using ih
  theorem depsArgs_rename (ρ : String → String) :
      ∀ es : List Expr, Expr.depsArgs (Expr.renameArgs ρ es) = (Expr.depsArgs es).map (renamePath ρ)
    | [] => by simp [Expr.renameArgs, Expr.depsArgs]
    | e :: es => by
      simp only [Expr.renameArgs, Expr.depsArgs, List.map_append]
      rw [deps_rename ρ e, depsArgs_rename ρ es]
end

theorem orDisabledStep_rename (ρ : String → String) (e : Expr) :
    orDisabledStep (e.rename ρ) = (orDisabledStep e).map ρ := by
  unfold orDisabledStep
  rw [path?_rename]
  cases h : Expr.path? e with
  | none => simp
  | some p =>
    match p with
    | [] => simp [renamePath]
    | [a] => simp [renamePath]
    | [a, b] => by_cases ha : a = "steps" <;> simp [renamePath, ha]
    | a :: b :: c :: rest =>
      simp only [Option.map_some, renamePath]
      by_cases ha : a = "steps" <;> simp [ha]

theorem disabledExpr_rename (ρ : String → String) (s : String) : (disabledExpr s).rename ρ = disabledExpr (ρ s) := by
  simp [disabledExpr, Expr.rename, Expr.path?]

/-! ### reference resolution -/

def mapOk (f : NodeId → NodeId) : Except Reject NodeId → Except Reject NodeId
  | .ok a => .ok (f a)
  | .error r => .error r

theorem findStep_rename {ρ : String → String} (hρ : ∀ a b, ρ a = ρ b → a = b) (wf : Wf) (s : String) :
    (wf.rename ρ).findStep (ρ s) = (wf.findStep s).map (Step.rename ρ) := by
  unfold Wf.findStep Wf.rename
  simp only
  induction wf.steps with
  | nil => rfl
  | cons st rest ih =>
    simp only [List.map_cons, List.find?_cons]
    by_cases h : st.id = s
    · have : (Step.rename ρ st).id = ρ s := by simp [Step.rename, h]
      simp [h, this]
    · have : (Step.rename ρ st).id ≠ ρ s := by
        intro e
        exact h (hρ _ _ (by simpa [Step.rename] using e))
      simp [h, this, ih]

theorem steps_ne_input : ("steps" : String) ≠ "input" := by decide

theorem resolve_rename {ρ : String → String} (hρ : ∀ a b, ρ a = ρ b → a = b) (po : List String) (wf : Wf)
    (p : List String) :
    (wf.rename ρ).resolve po (renamePath ρ p) = mapOk (NodeId.rename ρ) (wf.resolve po p) := by
  match p with
  | [] => simp [renamePath, Wf.resolve, mapOk]
  | [k] =>
    simp only [renamePath, Wf.resolve]
    by_cases h1 : k = "input"
    · simp [h1, mapOk, NodeId.rename]
    · by_cases h2 : k = "steps"
      · simp [h2, steps_ne_input, mapOk]
      · simp [h1, h2, mapOk]
  | k :: s :: rest =>
    by_cases h2 : k = "steps"
    · subst h2
      simp only [renamePath, if_true, Wf.resolve, steps_ne_input, if_false]
      rw [findStep_rename hρ]
      cases hf : wf.findStep s with
      | none => simp [mapOk]
      | some st =>
        simp only [Option.map_some]
        have hk : (Step.rename ρ st).kind = st.kind := rfl
        cases rest with
        | nil => simp [mapOk]
        | cons g rest'' =>
          simp only [hk]
          cases hr : findRow st.kind g with
          | none => simp [mapOk]
          | some row =>
            simp only
            split
            · simp [mapOk]
            · cases rest'' with
              | nil => simp [mapOk, NodeId.rename]
              | cons o _ =>
                simp only
                split <;> simp [mapOk, NodeId.rename]
    · simp only [renamePath, h2, if_false, Wf.resolve]
      by_cases h1 : k = "input"
      · simp only [h1, if_true]
        have : (wf.rename ρ).inputFields = wf.inputFields := rfl
        rw [this]
        split <;> simp [mapOk, NodeId.rename]
      · simp [h1, mapOk]

/-! ### operations -/

theorem opsRefs_rename {ρ : String → String} {R R' : Resolver}
    (hR : ∀ p, R' (renamePath ρ p) = mapOk (NodeId.rename ρ) (R p)) (c : NodeId) (e : Expr) :
    opsRefs R' (c.rename ρ) (e.rename ρ) = (opsRefs R c e).map (Op.rename ρ) := by
  unfold opsRefs
  rw [deps_rename, List.map_map, List.map_map]
  apply List.map_congr_left
  intro p _
  simp only [Function.comp, hR]
  cases R p <;> simp [mapOk, Op.rename]

theorem renameKvs_isEmpty (ρ : String → String) (l : List (String × AIn)) :
    (AIn.renameKvs ρ l).isEmpty = l.isEmpty := by
  cases l with
  | nil => rfl
  | cons a _ => obtain ⟨k, x⟩ := a; rfl

mutual
  theorem opsIn_rename {ρ : String → String} {R R' : Resolver}
      (hR : ∀ p, R' (renamePath ρ p) = mapOk (NodeId.rename ρ) (R p)) (cur : NodeId) (path : List String) :
      ∀ a, opsIn R' (cur.rename ρ) path (a.rename ρ) = (opsIn R cur path a).map (Op.rename ρ)
    | .lit _ => by simp [AIn.rename, opsIn]
    | .expr e => by simp only [AIn.rename, opsIn]; exact opsRefs_rename hR cur e
    | .optional w e => by
      simp only [AIn.rename, opsIn, List.map_append, List.map_cons, List.map_nil, Op.rename]
      rw [← opsRefs_rename hR (.group cur path) e]
      rfl
    | .ordisabled e => by
      simp only [AIn.rename, opsIn, orDisabledStep_rename]
      cases h : orDisabledStep e with
      | none => simp [Op.rename]
      | some s =>
        simp only [Option.map_some, List.map_append, optionHead, List.map_cons, List.map_nil, Op.rename]
        rw [← opsRefs_rename hR (.option (.group cur path) "disabled") (disabledExpr s),
          ← opsRefs_rename hR (.option (.group cur path) "enabled") e, disabledExpr_rename]
        rfl
    | .list xs => by simp only [AIn.rename, opsIn]; exact opsList_rename hR cur path 0 xs
    | .map kvs => by simp only [AIn.rename, opsIn]; exact opsKvs_rename hR cur path kvs
    | .oneof d opts => by
      simp only [AIn.rename, opsIn, renameKvs_isEmpty]
      split
      · simp [Op.rename]
      · simp only [List.map_append, List.map_cons, List.map_nil, Op.rename]
        rw [← opsOpts_rename hR (.group cur path) opts]
        rfl
  theorem opsList_rename {ρ : String → String} {R R' : Resolver}
      (hR : ∀ p, R' (renamePath ρ p) = mapOk (NodeId.rename ρ) (R p)) (cur : NodeId) (path : List String) (i : Nat) :
      ∀ xs, opsList R' (cur.rename ρ) path i (AIn.renameList ρ xs) = (opsList R cur path i xs).map (Op.rename ρ)
    | [] => by simp [AIn.renameList, opsList]
    | x :: xs => by
      simp only [AIn.renameList, opsList, List.map_append]
      rw [opsIn_rename hR cur (path ++ [toString i]) x, opsList_rename hR cur path (i + 1) xs]
  theorem opsKvs_rename {ρ : String → String} {R R' : Resolver}
      (hR : ∀ p, R' (renamePath ρ p) = mapOk (NodeId.rename ρ) (R p)) (cur : NodeId) (path : List String) :
      ∀ kvs, opsKvs R' (cur.rename ρ) path (AIn.renameKvs ρ kvs) = (opsKvs R cur path kvs).map (Op.rename ρ)
    | [] => by simp [AIn.renameKvs, opsKvs]
    | (k, x) :: rest => by
      simp only [AIn.renameKvs, opsKvs, List.map_append]
      rw [opsIn_rename hR cur (path ++ [k]) x, opsKvs_rename hR cur path rest]
  theorem opsOpts_rename {ρ : String → String} {R R' : Resolver}
      (hR : ∀ p, R' (renamePath ρ p) = mapOk (NodeId.rename ρ) (R p)) (g : NodeId) :
      ∀ opts, opsOpts R' (g.rename ρ) (AIn.renameKvs ρ opts) = (opsOpts R g opts).map (Op.rename ρ)
    | [] => by simp [AIn.renameKvs, opsOpts]
    | (k, x) :: rest => by
      simp only [AIn.renameKvs, opsOpts, List.map_append, optionHead, List.map_cons, List.map_nil, Op.rename]
      rw [← opsIn_rename hR (.option g k) [] x, ← opsOpts_rename hR g rest]
      rfl
end

theorem flatMap_congr' {α β : Type} {f g : α → List β} {l : List α} (h : ∀ x ∈ l, f x = g x) :
    l.flatMap f = l.flatMap g := by
  induction l with
  | nil => rfl
  | cons a rest ih =>
    simp only [List.flatMap_cons]
    rw [h a (by simp), ih (fun x hx => h x (List.mem_cons_of_mem _ hx))]

theorem lookup_renameKvs (ρ : String → String) (f : String) (l : List (String × AIn)) :
    lookup f (AIn.renameKvs ρ l) = (lookup f l).map (AIn.rename ρ) := by
  induction l with
  | nil => rfl
  | cons a rest ih =>
    obtain ⟨k, x⟩ := a
    simp only [AIn.renameKvs, lookup]
    split
    · rfl
    · exact ih

theorem flatMap_renameKvs {β : Type} (ρ : String → String) (F : String × AIn → List β) (l : List (String × AIn)) :
    (AIn.renameKvs ρ l).flatMap F = l.flatMap (fun o => F (o.1, o.2.rename ρ)) := by
  induction l with
  | nil => rfl
  | cons a rest ih =>
    obtain ⟨k, x⟩ := a
    simp only [AIn.renameKvs, List.flatMap_cons, ih]

/-- The operation sequence of the consistently renamed workflow is the renamed operation sequence. -/
theorem ops_rename {ρ : String → String} (hρ : ∀ a b, ρ a = ρ b → a = b) (po : List String) (wf : Wf) :
    (wf.rename ρ).ops po = (wf.ops po).map (Op.rename ρ) := by
  have hR := resolve_rename hρ po wf
  unfold Wf.ops
  simp only [List.map_append]
  have e1 : (wf.rename ρ).steps = wf.steps.map (Step.rename ρ) := rfl
  have e2 : (wf.rename ρ).outputs = AIn.renameKvs ρ wf.outputs := rfl
  rw [e1, e2, renameKvs_isEmpty]
  have hfail : ∀ b r, failIf b r = (failIf b r).map (Op.rename ρ) := by
    intro b r; unfold failIf; split <;> simp [Op.rename]
  have hnodes : ∀ s : Step, stepNodeOps po (Step.rename ρ s) = (stepNodeOps po s).map (Op.rename ρ) := by
    intro s
    unfold stepNodeOps rowNodeOps
    simp only [Step.rename, List.map_flatMap, List.map_cons, Op.rename, NodeId.rename, List.map_nil]
  have hedges : ∀ s : Step, stepEdgeOps ((wf.rename ρ).resolve po) (Step.rename ρ s)
      = (stepEdgeOps (wf.resolve po) s).map (Op.rename ρ) := by
    intro s
    unfold stepEdgeOps rowEdgeOps
    simp only [List.map_flatMap, List.map_append, List.map_map]
    apply flatMap_congr'
    intro row _
    congr 1
    apply flatMap_congr'
    intro f _
    unfold fieldOps
    have : (Step.rename ρ s).fields = AIn.renameKvs ρ s.fields := rfl
    rw [this, lookup_renameKvs]
    cases lookup f s.fields with
    | none => rfl
    | some a =>
      simp only [Option.map_some]
      exact opsIn_rename hR (.stage s.id row.id) [] a
  have houts : ∀ o : String × AIn, outputOps ((wf.rename ρ).resolve po) (o.1, o.2.rename ρ)
      = (outputOps (wf.resolve po) o).map (Op.rename ρ) := by
    intro o
    unfold outputOps
    simp only [List.map_cons, Op.rename, NodeId.rename]
    congr 1
    exact opsIn_rename hR (.wfout o.1) [] o.2
  rw [List.isEmpty_map, flatMap_renameKvs, List.flatMap_map, List.flatMap_map]
  simp only [List.map_flatMap, List.map_cons, List.map_nil, Op.rename, NodeId.rename]
  rw [← hfail, ← hfail]
  congr 1
  · congr 1
    · congr 1
      · congr 1
        apply flatMap_congr'
        intro s _
        exact hnodes s
      · apply flatMap_congr'
        intro s _
        exact hedges s
  · apply flatMap_congr'
    intro o _
    exact houts o

end Arca.Model
