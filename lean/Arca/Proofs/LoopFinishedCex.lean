/-
Counterexamples that justify the two hypotheses the repair of finding F11 (`markRemainingStagesUnresolvable`, called
when a step reports its completion) added to the panic-freedom statements of `LoopSafe.lean`.  Each is a THEOREM
refuting the statement without the hypothesis; the reactions are evaluated by the kernel (`decide +kernel`).

* `react_needs_finished_inv` : `react_legal_no_panic` with the state invariant as it was before the repair
  (`ResolvedClosed` + duplicate-free ready set + the two dependency-group clauses) is false now: from a state in which
  the stage node of stage `s` of step `a` is resolved but `s` is not recorded in `finishedStages`, the legal completion
  callback of `a` (last stage `t`) marks `s` unresolvable, which the graph library refuses:
  `panic markStageNodeUnresolvable`.  Hence the new clause `LoopSafeInv.finished`.
* `hist_needs_stage_unamb` : `legal_history_never_panics` with `WF2` as it was before the repair (`WF2Prev`, without
  `stage_unamb`) is false now: with steps `a` (stages `b.c`, `x`) and `a.b` (stage `c`) the node `steps.a.b.c` is the
  stage node of both (`a`, `b.c`) and (`a.b`, `c`); `a.b` legally finishes `c`, then `a` legally completes with `x`, and
  the loop marks "its" never-finished stage `b.c` — the resolved node of `a.b` — unresolvable: panic.
* `PG_wf2`, `PG_run_fine` : the corrected hypotheses are satisfiable, and a normal run on `PG` is fine.
-/
import Arca.Proofs.LoopSafe
import Arca.Proofs.LoopSafeCex

set_option linter.unusedVariables false

namespace Arca.Model.SafeCex

/-- `Prepared.WF2` as it was before the repair of finding F11 (without `stage_unamb`) -/
structure WF2Prev (P : Prepared) : Prop where
  wf : P.WF
  output_nodes : ∀ step stage o, P.declares step stage → o ∈ P.outputsOf step stage →
      (lookup (outputNodeId step stage o) P.items).isSome = true ∧
      (∀ ed ∈ P.dag.edges, ed.2.1 = outputNodeId step stage o → ed.1 = stageNodeId step stage ∧ ed.2.2 = Dep.and)
  stage_data_map : ∀ id it d, lookup id P.items = some it → it.kind = Kind.stage → it.data = some d →
      ∃ kvs, d = InVal.map kvs
  stage_ids_nonempty : ∀ id it, lookup id P.items = some it → it.kind = Kind.stage → it.step ≠ "" ∧ it.stage ≠ ""
  kinds_handled : ∀ id it, lookup id P.items = some it → it.data.isSome = true → it.kind = Kind.stage ∨ it.kind = Kind.output
  input_no_deps : ∀ ed ∈ P.dag.edges, ed.2.1 ≠ "input"
  input_kind : ∀ it, lookup "input" P.items = some it → it.kind = Kind.input

/-! ### a family of small workflows: stages without outputs, items without data -/

structure Plain (P : Prepared) : Prop where
  inv : P.dag.Inv
  fresh : ∀ n ∈ P.dag.nodes, n.status = St.waiting ∧ n.res = []
  no_ready : P.dag.ready = []
  items_nodes : ∀ n ∈ P.dag.nodes, (lookup n.id P.items).isSome = true
  no_outputs : ∀ step stage, P.outputsOf step stage = []
  items : ∀ id it, lookup id P.items = some it → it.kind ≠ Kind.stageOutput ∧ it.data = none ∧
      (it.kind = Kind.stage → id = stageNodeId it.step it.stage ∧ it.step ≠ "" ∧ it.stage ≠ "")
  stage_item : ∀ step stage it, P.declares step stage → lookup (stageNodeId step stage) P.items = some it →
      it.kind = Kind.stage
  input_no_deps : ∀ ed ∈ P.dag.edges, ed.2.1 ≠ "input"
  input_kind : ∀ it, lookup "input" P.items = some it → it.kind = Kind.input

theorem Plain.wf {P : Prepared} (h : Plain P) : P.WF := by
  refine ⟨h.inv, h.fresh, h.no_ready, h.items_nodes, ?_, ?_, h.stage_item, ?_, ?_⟩
  · intro id it hit hk
    exact ((h.items id it hit).2.2 hk).1
  · intro id it hit hk
    exact absurd hk (h.items id it hit).1
  · intro step stage out it _ hm
    rw [h.no_outputs] at hm; cases hm
  · intro step stage out it _ hm
    rw [h.no_outputs] at hm; cases hm

theorem Plain.wf2prev {P : Prepared} (h : Plain P) : WF2Prev P := by
  refine ⟨h.wf, ?_, ?_, ?_, ?_, h.input_no_deps, h.input_kind⟩
  · intro step stage o _ hm
    rw [h.no_outputs] at hm; cases hm
  · intro id it d hit _ hd
    rw [(h.items id it hit).2.1] at hd; cases hd
  · intro id it hit hk
    exact ((h.items id it hit).2.2 hk).2
  · intro id it hit hd
    rw [(h.items id it hit).2.1] at hd; cases hd

theorem Plain.wf2 {P : Prepared} (h : Plain P) (hun : P.StageUnamb) : P.WF2 :=
  ⟨h.wf, h.wf2prev.output_nodes, h.wf2prev.stage_data_map, h.wf2prev.stage_ids_nonempty, h.wf2prev.kinds_handled,
    h.input_no_deps, h.input_kind, hun⟩

theorem Plain.noOutputResolved {P : Prepared} (h : Plain P) (s : LoopState) : NoOutputResolved P s :=
  fun id it hit hk => absurd hk (h.items id it hit).1

theorem lookup_mem {α : Type} {k : String} {v : α} : ∀ {l : List (String × α)}, lookup k l = some v → (k, v) ∈ l
  | [], h => by cases h
  | (k', v') :: rest, h => by
    simp only [lookup] at h
    split at h
    · cases h
      rename_i hk
      rw [hk]; exact List.mem_cons_self
    · exact List.mem_cons_of_mem _ (lookup_mem h)

theorem outputsOf_nil_of (P : Prepared) (h : ∀ p ∈ P.stages, ∀ q ∈ p.2, q.2 = []) (step stage : String) :
    P.outputsOf step stage = [] := by
  unfold Prepared.outputsOf
  split
  · rfl
  · rename_i sts hsts
    cases ho : lookup stage sts with
    | none => rfl
    | some outs => exact h _ (lookup_mem hsts) _ (lookup_mem ho)

/-! ### `PG`: step `a` with the stages `s` and `t`, both depending on the input -/

def itT : Item := { kind := .stage, step := "a", stage := "t" }

def PG : Prepared :=
  { dag := ⟨[nd "input" [], nd "steps.a.s" [("input", .and)], nd "steps.a.t" [("input", .and)]],
            [("input", "steps.a.s", .and), ("input", "steps.a.t", .and)], []⟩,
    items := [("input", { kind := .input }), ("steps.a.s", itS), ("steps.a.t", itT)],
    stages := [("a", [("s", []), ("t", [])])],
    errCap := 5 }

theorem PG_items {id : String} {it : Item} (h : lookup id PG.items = some it) :
    (id = "input" ∧ it = { kind := .input }) ∨ (id = "steps.a.s" ∧ it = itS) ∨ (id = "steps.a.t" ∧ it = itT) := by
  simp only [PG, lookup] at h
  split at h
  · cases h; exact .inl ⟨‹_›, rfl⟩
  split at h
  · cases h; exact .inr (.inl ⟨‹_›, rfl⟩)
  split at h
  · cases h; exact .inr (.inr ⟨‹_›, rfl⟩)
  · cases h

theorem PG_declares {step stage : String} (h : PG.declares step stage) :
    step = "a" ∧ (stage = "s" ∨ stage = "t") := by
  obtain ⟨sts, outs, h1, h2⟩ := h
  simp only [PG, lookup] at h1
  split at h1
  · cases h1
    simp only [lookup] at h2
    split at h2
    · exact ⟨‹_›, .inl ‹_›⟩
    split at h2
    · exact ⟨‹_›, .inr ‹_›⟩
    · cases h2
  · cases h1

theorem PG_declares_at : PG.declares "a" "t" := ⟨[("s", []), ("t", [])], [], by decide, by decide⟩

theorem PG_outputsOf (step stage : String) : PG.outputsOf step stage = [] :=
  outputsOf_nil_of PG (by simp [PG]; rintro a b (⟨_, rfl⟩ | ⟨_, rfl⟩) <;> rfl) step stage

theorem sn_at : stageNodeId "a" "t" = "steps.a.t" := by decide

theorem PG_plain : Plain PG := by
  refine ⟨?_, ?_, rfl, ?_, PG_outputsOf, ?_, ?_, ?_, ?_⟩
  · constructor <;> simp [PG, nd, Graph.find?, Graph.has, keys, entryOk]
  · simp [PG, nd]
  · simp [PG, nd, lookup]
  · intro id it hit
    rcases PG_items hit with ⟨rfl, rfl⟩ | ⟨rfl, rfl⟩ | ⟨rfl, rfl⟩
    · exact ⟨by decide, rfl, fun h => by cases h⟩
    · exact ⟨by decide, rfl, fun _ => ⟨by decide, by decide, by decide⟩⟩
    · exact ⟨by decide, rfl, fun _ => ⟨by decide, by decide, by decide⟩⟩
  · intro step stage it hd hit
    obtain ⟨rfl, rfl | rfl⟩ := PG_declares hd
    · rw [sn_as] at hit
      rcases PG_items hit with ⟨h, rfl⟩ | ⟨h, rfl⟩ | ⟨h, rfl⟩
      · exact absurd h (by decide)
      · rfl
      · rfl
    · rw [sn_at] at hit
      rcases PG_items hit with ⟨h, rfl⟩ | ⟨h, rfl⟩ | ⟨h, rfl⟩
      · exact absurd h (by decide)
      · rfl
      · rfl
  · simp [PG]
  · intro it hit
    rcases PG_items hit with ⟨h, rfl⟩ | ⟨h, rfl⟩ | ⟨h, rfl⟩
    · rfl
    · exact absurd h (by decide)
    · exact absurd h (by decide)

theorem PG_unamb : PG.StageUnamb := by
  intro step stage it hd hit
  obtain ⟨rfl, rfl | rfl⟩ := PG_declares hd
  · rw [sn_as] at hit
    rcases PG_items hit with ⟨h, rfl⟩ | ⟨h, rfl⟩ | ⟨h, rfl⟩
    · exact absurd h (by decide)
    · exact ⟨rfl, rfl⟩
    · exact absurd h (by decide)
  · rw [sn_at] at hit
    rcases PG_items hit with ⟨h, rfl⟩ | ⟨h, rfl⟩ | ⟨h, rfl⟩
    · exact absurd h (by decide)
    · exact absurd h (by decide)
    · exact ⟨rfl, rfl⟩

/-- the corrected `WF2` (with `stage_unamb`) is satisfiable by a step with two stages -/
theorem PG_wf2 : PG.WF2 := PG_plain.wf2 PG_unamb

/-! #### CE-G: stages not recorded as finished must not have resolved nodes (`LoopSafeInv.finished`) -/

/-- `input` and the stage node of `s` resolved, the stage node of `t` waiting and ready to be reported; nothing is
recorded in `finished` -/
def sG : LoopState :=
  { LoopState.init PG with
    dag := ⟨[⟨"input", .resolved, [], []⟩, ⟨"steps.a.s", .resolved, [], [("input", .and)]⟩,
             ⟨"steps.a.t", .waiting, [], [("input", .and)]⟩],
            [("input", "steps.a.s", .and), ("input", "steps.a.t", .and)], []⟩ }

theorem sG_inv : LoopDagInv PG sG := by
  refine ⟨?_, rfl, rfl⟩
  constructor <;> simp [sG, PG, nd, Graph.find?, Graph.has, keys, entryOk, Dep.hard]

theorem sG_closed : ResolvedClosed sG.dag := by
  intro n hn hs
  refine ⟨?_, ?_⟩
  · intro ed he h1 h2
    simp [sG] at he hn
    have hin : statusIs sG.dag "input" St.resolved := by rw [statusIs_iff]; decide +kernel
    rcases he with rfl | rfl <;> exact hin
  · rintro ⟨ed, he, _, h2⟩
    simp [sG] at he
    rcases he with rfl | rfl <;> cases h2

theorem sG_no_group (id : String) : ¬ isGroup PG id := by
  rintro ⟨it, hit, hk⟩
  rcases PG_items hit with ⟨_, rfl⟩ | ⟨_, rfl⟩ | ⟨_, rfl⟩ <;> cases hk

def completeT : Event := .stepComplete "a" "t" none false

theorem sG_legal : LegalEvent PG sG completeT := by
  refine ⟨PG_declares_at, ?_, ?_, ?_, ?_⟩
  · rw [statusIs_iff]; decide +kernel
  · intro ed he h1 _
    have hin : statusIs sG.dag "input" St.resolved := by rw [statusIs_iff]; decide +kernel
    simp [PG] at he
    rcases he with rfl | rfl <;> exact hin
  · intro ed he _ h2
    simp [PG] at he
    rcases he with rfl | rfl <;> cases h2
  · intro oid v h; cases h

theorem ceG_panics : hasPanic (react PG fns0 id sG completeT).2 = true := by decide +kernel

/-- the state invariant of `react_legal_no_panic` as it was before the repair does not keep the loop from panicking
any more: the completion callback marks the stages it does not find in `finishedStages` -/
theorem react_needs_finished_inv :
    ¬ (∀ (P : Prepared) (fns : Fns) (ord : Order), OrdOK ord → OrdNodup ord → P.WF2 → ∀ (s : LoopState) (e : Event),
        LoopDagInv P s → ResolvedClosed s.dag → s.dag.ready.Nodup →
        (∀ id ∈ s.dag.ready, isGroup P id → ¬ statusIs s.dag id St.resolved) →
        (∀ n ∈ s.dag.nodes, n.status = St.resolved → isGroup P n.id → ∀ p ∈ n.out, p.2.hard = false) →
        LegalEvent P s e →
        (∀ a ∈ (react P fns ord s e).2, a.isPanic = false) ∧ ResolvedClosed (react P fns ord s e).1.dag) := by
  intro H
  exact not_nopanic ceG_panics
    (H PG fns0 id ordId_ok ordId_nodup PG_wf2 sG completeT sG_inv sG_closed (by simp [sG])
      (by intro id hid; simp [sG] at hid) (fun n _ _ hg => absurd hg (sG_no_group _)) sG_legal).1

/-- with the stage recorded, the same callback is fine -/
theorem ceG_recorded_fine :
    hasPanic (react PG fns0 id { sG with finished := [("a", "s")] } completeT).2 = false := by decide +kernel

/-! #### CE-H: stage node ids must be unambiguous (`WF2.stage_unamb`)

`PH`: step `a` with the stages `b.c` and `x`, step `a.b` with the stage `c`.  The stage node of (`a.b`, `c`) has the id
`steps.a.b.c`, which is also the id the loop computes for (`a`, `b.c`). -/

def itBC : Item := { kind := .stage, step := "a.b", stage := "c" }
def itX : Item := { kind := .stage, step := "a", stage := "x" }

def PH : Prepared :=
  { dag := ⟨[nd "input" [], nd "steps.a.b.c" [("input", .and)], nd "steps.a.x" [("input", .and)]],
            [("input", "steps.a.b.c", .and), ("input", "steps.a.x", .and)], []⟩,
    items := [("input", { kind := .input }), ("steps.a.b.c", itBC), ("steps.a.x", itX)],
    stages := [("a", [("b.c", []), ("x", [])]), ("a.b", [("c", [])])],
    errCap := 5 }

theorem PH_items {id : String} {it : Item} (h : lookup id PH.items = some it) :
    (id = "input" ∧ it = { kind := .input }) ∨ (id = "steps.a.b.c" ∧ it = itBC) ∨ (id = "steps.a.x" ∧ it = itX) := by
  simp only [PH, lookup] at h
  split at h
  · cases h; exact .inl ⟨‹_›, rfl⟩
  split at h
  · cases h; exact .inr (.inl ⟨‹_›, rfl⟩)
  split at h
  · cases h; exact .inr (.inr ⟨‹_›, rfl⟩)
  · cases h

theorem PH_declares {step stage : String} (h : PH.declares step stage) :
    (step = "a" ∧ stage = "b.c") ∨ (step = "a" ∧ stage = "x") ∨ (step = "a.b" ∧ stage = "c") := by
  obtain ⟨sts, outs, h1, h2⟩ := h
  simp only [PH, lookup] at h1
  split at h1
  · cases h1
    simp only [lookup] at h2
    split at h2
    · exact .inl ⟨‹_›, ‹_›⟩
    split at h2
    · exact .inr (.inl ⟨‹_›, ‹_›⟩)
    · cases h2
  split at h1
  · cases h1
    simp only [lookup] at h2
    split at h2
    · exact .inr (.inr ⟨‹_›, ‹_›⟩)
    · cases h2
  · cases h1

theorem PH_outputsOf (step stage : String) : PH.outputsOf step stage = [] :=
  outputsOf_nil_of PH (by simp [PH]; rintro a b (⟨_, rfl⟩ | ⟨_, rfl⟩) <;> rfl) step stage

theorem sn_abc : stageNodeId "a" "b.c" = "steps.a.b.c" := by decide
theorem sn_ab_c : stageNodeId "a.b" "c" = "steps.a.b.c" := by decide
theorem sn_ax : stageNodeId "a" "x" = "steps.a.x" := by decide

theorem PH_plain : Plain PH := by
  refine ⟨?_, ?_, rfl, ?_, PH_outputsOf, ?_, ?_, ?_, ?_⟩
  · constructor <;> simp [PH, nd, Graph.find?, Graph.has, keys, entryOk]
  · simp [PH, nd]
  · simp [PH, nd, lookup]
  · intro id it hit
    rcases PH_items hit with ⟨rfl, rfl⟩ | ⟨rfl, rfl⟩ | ⟨rfl, rfl⟩
    · exact ⟨by decide, rfl, fun h => by cases h⟩
    · exact ⟨by decide, rfl, fun _ => ⟨by decide, by decide, by decide⟩⟩
    · exact ⟨by decide, rfl, fun _ => ⟨by decide, by decide, by decide⟩⟩
  · intro step stage it hd hit
    rcases PH_declares hd with ⟨rfl, rfl⟩ | ⟨rfl, rfl⟩ | ⟨rfl, rfl⟩
    · rw [sn_abc] at hit
      rcases PH_items hit with ⟨h, rfl⟩ | ⟨h, rfl⟩ | ⟨h, rfl⟩
      · exact absurd h (by decide)
      · rfl
      · rfl
    · rw [sn_ax] at hit
      rcases PH_items hit with ⟨h, rfl⟩ | ⟨h, rfl⟩ | ⟨h, rfl⟩
      · exact absurd h (by decide)
      · rfl
      · rfl
    · rw [sn_ab_c] at hit
      rcases PH_items hit with ⟨h, rfl⟩ | ⟨h, rfl⟩ | ⟨h, rfl⟩
      · exact absurd h (by decide)
      · rfl
      · rfl
  · simp [PH]
  · intro it hit
    rcases PH_items hit with ⟨h, rfl⟩ | ⟨h, rfl⟩ | ⟨h, rfl⟩
    · rfl
    · exact absurd h (by decide)
    · exact absurd h (by decide)

/-- `PH` is well-formed in the sense of `WF2` as it was before the repair … -/
theorem PH_wf2prev : WF2Prev PH := PH_plain.wf2prev

/-- … but its stage node ids are ambiguous -/
theorem PH_not_unamb : ¬ PH.StageUnamb := by
  intro h
  have hd : PH.declares "a" "b.c" := ⟨[("b.c", []), ("x", [])], [], by decide, by decide⟩
  have hl : lookup (stageNodeId "a" "b.c") PH.items = some itBC := by
    rw [sn_abc]; simp [PH, lookup]
  have := (h "a" "b.c" itBC hd hl).1
  revert this
  decide

def histH : List Event :=
  [.start .null, .stageChange "a.b" (some "c") none false, .stepComplete "a" "x" none false]

theorem PH_init_waiting : ∀ n ∈ (LoopState.init PH).dag.nodes, n.status = St.waiting :=
  fun n hn => (PH_plain.fresh n hn).1

theorem PH_edges_and {s : LoopState} {x : String} (hin : statusIs s.dag "input" St.resolved) :
    (∀ ed ∈ PH.dag.edges, ed.2.1 = x → ed.2.2 = Dep.and → statusIs s.dag ed.1 St.resolved) ∧
    (∀ ed ∈ PH.dag.edges, ed.2.1 = x → ed.2.2 ≠ Dep.or) := by
  refine ⟨?_, ?_⟩
  · intro ed he _ _
    simp [PH] at he
    rcases he with rfl | rfl <;> exact hin
  · intro ed he _ h2
    simp [PH] at he
    rcases he with rfl | rfl <;> cases h2

theorem ceH_legal : LegalHistory PH fns0 id (LoopState.init PH) histH := by
  refine ⟨⟨PH_plain.noOutputResolved _, PH_init_waiting⟩, ?_, ?_, trivial⟩
  · -- `a.b` reports the end of its stage `c`
    have hin : statusIs (react PH fns0 id (LoopState.init PH) (.start .null)).1.dag "input" St.resolved := by
      rw [statusIs_iff]; decide +kernel
    refine ⟨⟨[("c", [])], [], by decide, by decide⟩, ?_, (PH_edges_and hin).1, (PH_edges_and hin).2, ?_⟩
    · rw [statusIs_iff]; decide +kernel
    · intro oid v h; cases h
  · -- `a` reports its completion with the last stage `x`
    have hin : statusIs (react PH fns0 id (react PH fns0 id (LoopState.init PH) (.start .null)).1
        (.stageChange "a.b" (some "c") none false)).1.dag "input" St.resolved := by
      rw [statusIs_iff]; decide +kernel
    refine ⟨⟨[("b.c", []), ("x", [])], [], by decide, by decide⟩, ?_, (PH_edges_and hin).1, (PH_edges_and hin).2, ?_⟩
    · rw [statusIs_iff]; decide +kernel
    · intro oid v h; cases h

theorem ceH_panics : hasPanic (run PH fns0 id histH).2 = true := by decide +kernel

/-- `legal_history_never_panics` with `WF2` as it was before the repair is false now -/
theorem hist_needs_stage_unamb :
    ¬ (∀ (P : Prepared) (fns : Fns) (ord : Order), OrdOK ord → OrdNodup ord → WF2Prev P → ∀ h : List Event,
        LegalHistory P fns ord (LoopState.init P) h →
        (∀ a ∈ (run P fns ord h).2, a.isPanic = false) ∧ (run P fns ord h).1.dead = false) := by
  intro H
  exact not_nopanic ceH_panics (H PH fns0 id ordId_ok ordId_nodup PH_wf2prev _ ceH_legal).1

/-! ### the corrected statements applied: a normal run of `PG` (both stages gone through, then completion) -/

theorem PG_run_fine :
    hasPanic (run PG fns0 id [.start .null, .stageChange "a" (some "s") none false,
      .stepComplete "a" "t" none false]).2 = false := by decide +kernel

end Arca.Model.SafeCex
