/-
Helper lemmas for `Arca.Props.C08Infer`: `infer.Type` refuses exactly the literals that are not `typable`.
-/
import Arca.Model.Infer

namespace Arca.Proofs.InferComplete
open Arca.Model.Infer

/-- the TypeID of an inferred type can be read off the value's head constructor -/
theorem litTid_of_infer (v : Lit) (t : ITy) (h : infer v = some t) : litTid v = some t.tid := by
  cases v <;> simp only [infer] at h
  all_goals (try split at h)
  all_goals (try cases h)
  all_goals (try simp [litTid, ITy.tid])

mutual
  theorem infer_isSome : (v : Lit) → (infer v).isSome = typable v
    | .null => by simp [infer, typable]
    | .str _ => by simp [infer, typable]
    | .int _ _ _ => by simp [infer, typable]
    | .float => by simp [infer, typable]
    | .bool _ => by simp [infer, typable]
    | .list xs => by
      have h := inferItems_isSome xs none
      simp only [Option.map_none] at h
      simp only [infer, typable]
      rw [← h]
      cases inferItems xs none with
      | none => rfl
      | some r => cases r <;> rfl
    | .obj fs => by
      have h := inferFields_isSome fs
      simp only [infer, typable]
      rw [← h]
      cases inferFields fs <;> rfl
  theorem inferItems_isSome : (xs : Lits) → (found : Option ITy) →
      (inferItems xs found).isSome = typableItems xs (found.map ITy.tid)
    | .nil, found => by simp [inferItems, typableItems]
    | .cons x rest, found => by
      have hx := infer_isSome x
      cases hi : infer x with
      | none =>
        rw [hi] at hx
        simp only [Option.isSome_none] at hx
        simp [inferItems, typableItems, hi, ← hx]
      | some t =>
        rw [hi] at hx
        simp only [Option.isSome_some] at hx
        have ht := litTid_of_infer x t hi
        cases found with
        | none =>
          have hr := inferItems_isSome rest (some t)
          simp only [Option.map_some] at hr
          simp [inferItems, typableItems, hi, ← hx, ht, hr]
        | some f =>
          have hr := inferItems_isSome rest (some f)
          simp only [Option.map_some] at hr
          simp only [inferItems, typableItems, hi, ← hx, ht, Option.map_some, Bool.true_and]
          by_cases hft : f.tid = t.tid
          · simp [hft, hr]
          · have : (some t.tid == some f.tid) = false := by
              simp only [beq_eq_false_iff_ne, ne_eq, Option.some.injEq]
              exact fun h => hft h.symm
            simp [hft, this]
  theorem inferFields_isSome : (fs : Fields) → (inferFields fs).isSome = typableFields fs
    | .nil => by simp [inferFields, typableFields]
    | .cons k v rest => by
      have hv := infer_isSome v
      have hr := inferFields_isSome rest
      simp only [inferFields, typableFields]
      cases hi : infer v with
      | none => rw [hi] at hv; simp only [Option.isSome_none] at hv; simp [← hv]
      | some t =>
        rw [hi] at hv; simp only [Option.isSome_some] at hv
        cases hf : inferFields rest with
        | none => rw [hf] at hr; simp only [Option.isSome_none] at hr; simp [← hv, ← hr]
        | some ps => rw [hf] at hr; simp only [Option.isSome_some] at hr; simp [← hv, ← hr]
end

end Arca.Proofs.InferComplete
