/-
COMPLETENESS of the run loop (C01 / C03): a finished workflow never ends silently.

The safety theorems (`LoopInv`, `LoopDag`, `LoopSafe`, `LoopSettle`) say what the loop does NOT do.  Here: what it DOES.
The invariant `CoreOK` connects the ready set of the dependency graph with what `notifySteps` has processed:

* `proc`   : a dependency-group or workflow-output node that is `waiting` and has no outstanding hard dependency is in
             the ready set, or is one of the popped nodes that `notifySteps` still has to process (`pend`);
* `failed` : an unresolvable workflow-output node is in the ready set, or pending, or was already removed from
             `waitingOutputs`;
* `out`    : a resolved output node means an output was produced (`outputDone`), the stored result belongs to a
             resolved output node, and an empty `waitingOutputs` means an output was produced or "no more outputs" was
             reported;
* `uj`     : an unresolvable output node has a failed required dependency (`Graph.UJ`).

`notifySteps_core`: with enough fuel (`notifyFuel`, more than the number of waiting nodes: every recursion level resolves
a waiting dependency-group node) `notifySteps` keeps `CoreOK` and leaves the ready set EMPTY — unless an evaluation
failed (`hasEF`, then the rest of the popped nodes is dropped: `Esc`) or the loop died.
`react_core`: every callback keeps it.  `run_core`: so does every history that starts with `start`.
-/
import Arca.Proofs.LoopSettle
import Arca.Proofs.DgraphReady

set_option linter.unusedSimpArgs false
set_option linter.unusedVariables false

namespace Arca.Model

/-! ### definitions -/

/-- an expression of a popped node could not be evaluated (sent, or dropped because the buffer was full) -/
def Action.isEvalFailed : Action → Bool
  | .errorSent .evalFailed => true
  | .errorDropped .evalFailed => true
  | _ => false

def hasEF (l : List Action) : Prop := ∃ a ∈ l, a.isEvalFailed = true
def hasNMO (l : List Action) : Prop := ∃ a ∈ l, a.isNoMoreOutputs = true

theorem hasEF_append {l m : List Action} : hasEF (l ++ m) ↔ hasEF l ∨ hasEF m := by
  unfold hasEF
  constructor
  · rintro ⟨a, ha, h⟩
    rcases List.mem_append.1 ha with ha | ha
    · exact Or.inl ⟨a, ha, h⟩
    · exact Or.inr ⟨a, ha, h⟩
  · rintro (⟨a, ha, h⟩ | ⟨a, ha, h⟩)
    · exact ⟨a, List.mem_append_left _ ha, h⟩
    · exact ⟨a, List.mem_append_right _ ha, h⟩

theorem hasNMO_append {l m : List Action} : hasNMO (l ++ m) ↔ hasNMO l ∨ hasNMO m := by
  unfold hasNMO
  constructor
  · rintro ⟨a, ha, h⟩
    rcases List.mem_append.1 ha with ha | ha
    · exact Or.inl ⟨a, ha, h⟩
    · exact Or.inr ⟨a, ha, h⟩
  · rintro (⟨a, ha, h⟩ | ⟨a, ha, h⟩)
    · exact ⟨a, List.mem_append_left _ ha, h⟩
    · exact ⟨a, List.mem_append_right _ ha, h⟩

theorem hasNMO_nil : ¬ hasNMO [] := fun ⟨_, h, _⟩ => nomatch h
theorem hasEF_nil : ¬ hasEF [] := fun ⟨_, h, _⟩ => nomatch h

/-- a run has a verdict: an output was produced (stored as the result, its `output` action occurred), or "no more
outputs" was reported, or an evaluation failure was reported -/
def Verdict (r : LoopState × List Action) : Prop :=
  (∃ oid v, r.1.result = some (oid, v) ∧ Action.output oid v ∈ r.2) ∨ hasNMO r.2 ∨ hasEF r.2

/-- executable necessary condition of `Verdict` -/
def verdictB (r : LoopState × List Action) : Bool :=
  r.1.result.isSome || r.2.any Action.isNoMoreOutputs || r.2.any Action.isEvalFailed

theorem Verdict.verdictB {r : LoopState × List Action} (h : Verdict r) : verdictB r = true := by
  unfold Arca.Model.verdictB
  rcases h with ⟨oid, v, h1, _⟩ | ⟨a, ha, h1⟩ | ⟨a, ha, h1⟩
  · simp [h1]
  · have : r.2.any Action.isNoMoreOutputs = true := List.any_eq_true.2 ⟨a, ha, h1⟩
    simp [this]
  · have : r.2.any Action.isEvalFailed = true := List.any_eq_true.2 ⟨a, ha, h1⟩
    simp [this]

/-- the invariant is given up: the loop died, or an evaluation failed (the popped nodes not yet processed are dropped) -/
def Esc (r : R) : Prop := r.1.dead = true ∨ hasEF r.2

def isOutputNode (P : Prepared) (id : String) : Prop := ∃ it, lookup id P.items = some it ∧ it.kind = Kind.output

/-- the nodes the loop resolves itself when they become ready -/
def isProc (P : Prepared) (id : String) : Prop := isGroup P id ∨ isOutputNode P id

/-- the processing order drops none of the popped nodes (Go iterates over the whole map) -/
def OrdAll (ord : Order) : Prop := ∀ l, ∀ x ∈ l, x ∈ ord l

theorem ordAll_of_perm (ord : Order) (h : ∀ l, (ord l).Perm l) : OrdAll ord :=
  fun l x hx => (h l).mem_iff.2 hx

/-- what the completeness argument additionally assumes of a prepared workflow (checked by the driver on every real
prepared workflow, `wfViolations`; each clause is needed: `LoopCompleteCex.lean`) -/
structure Prepared.WF3 (P : Prepared) : Prop where
  wf2 : P.WF2
  /-- the dependency graph has no cycle (`HasCycles` of the graph library) -/
  acyclic : P.dag.hasCycles = false
  /-- the input node exists, and it is the only node of kind `input` -/
  has_input : P.dag.has "input" = true
  input_id : ∀ id it, lookup id P.items = some it → it.kind = Kind.input → id = "input"
  /-- every stage node belongs to a declared stage of its step (so some callback will settle it) -/
  stage_declared : ∀ id it, lookup id P.items = some it → it.kind = Kind.stage → P.declares it.step it.stage
  items_nodup : (P.items.map (·.1)).Nodup
  /-- the workflow outputs: at least one, each one a node of the graph, with data, and a sink -/
  has_output : ∃ id it, lookup id P.items = some it ∧ it.kind = Kind.output
  output_is_node : ∀ id it, lookup id P.items = some it → it.kind = Kind.output → P.dag.has id = true
  output_data : ∀ id it, lookup id P.items = some it → it.kind = Kind.output → it.data.isSome = true
  output_sink : ∀ id it, lookup id P.items = some it → it.kind = Kind.output → ∀ ed ∈ P.dag.edges, ed.1 ≠ id

/-- number of nodes that are still waiting -/
def waitCount (P : Prepared) (g : Graph String) : Nat :=
  ((P.dag.nodes.map (·.id)).filter (fun x => decide (g.statusOf x = some St.waiting))).length

theorem waitCount_le_nodes (P : Prepared) (g : Graph String) : waitCount P g ≤ P.dag.nodes.length := by
  unfold waitCount
  have := List.length_filter_le (fun x => decide (g.statusOf x = some St.waiting)) (P.dag.nodes.map (·.id))
  simpa using this

theorem statusOf_eq_iff (g : Graph String) (id : String) (st : St) : g.statusOf id = some st ↔ statusIs g id st := by
  unfold statusIs Graph.statusOf
  cases g.find? id with
  | none => simp
  | some n => simp

theorem waiting_back {g g' : Graph String} (hle : GLe g g') {x : String} (h : statusIs g' x St.waiting) :
    statusIs g x St.waiting := by
  obtain ⟨n', hn', hs'⟩ := h
  obtain ⟨n, hn⟩ := Graph.find?_of_ids' hle.ids hn'
  cases hst : n.status with
  | waiting => exact ⟨n, hn, hst⟩
  | resolved =>
    have := statusIs_unique (hle.mono x _ (by decide) ⟨n, hn, hst⟩) ⟨n', hn', hs'⟩
    cases this
  | unres =>
    have := statusIs_unique (hle.mono x _ (by decide) ⟨n, hn, hst⟩) ⟨n', hn', hs'⟩
    cases this

theorem waitCount_mono (P : Prepared) {g g' : Graph String} (hle : GLe g g') : waitCount P g' ≤ waitCount P g := by
  unfold waitCount
  apply filter_length_le
  intro x _ hx
  simp only [decide_eq_true_eq] at hx ⊢
  exact (statusOf_eq_iff _ _ _).2 (waiting_back hle ((statusOf_eq_iff _ _ _).1 hx))

theorem waitCount_lt (P : Prepared) {g g' : Graph String} (hle : GLe g g') {x : String}
    (hx : x ∈ P.dag.nodes.map (·.id)) (hw : statusIs g x St.waiting) (hnw : ¬ statusIs g' x St.waiting) :
    waitCount P g' < waitCount P g := by
  unfold waitCount
  apply filter_length_lt
  · intro y _ hy
    simp only [decide_eq_true_eq] at hy ⊢
    exact (statusOf_eq_iff _ _ _).2 (waiting_back hle ((statusOf_eq_iff _ _ _).1 hy))
  · refine ⟨x, hx, ?_, ?_⟩
    · simp only [decide_eq_true_eq]
      exact (statusOf_eq_iff _ _ _).2 hw
    · simp only [decide_eq_false_iff_not]
      exact fun h => hnw ((statusOf_eq_iff _ _ _).1 h)

/-! ### the invariant -/

variable {fns : Fns}

/-- the part of the invariant about the produced output and the waiting set -/
structure OutOK (P : Prepared) (fns : Fns) (N : Prop) (s : LoopState) : Prop where
  resolved_done : ∀ x, isOutputNode P x → statusIs s.dag x St.resolved → s.outputDone = true
  res_node : ∀ oid v, s.result = some (oid, v) → ∃ x it d, lookup x P.items = some it ∧ it.kind = Kind.output ∧
      it.output = oid ∧ it.data = some d ∧ statusIs s.dag x St.resolved ∧ ∃ g data, resolveIn fns g data d = .ok v
  done_res : s.outputDone = s.result.isSome
  wsub : ∀ x ∈ s.waitingOutputs, x ∈ (LoopState.init P).waitingOutputs
  nmo : s.waitingOutputs = [] → s.outputDone = true ∨ N ∨ (LoopState.init P).waitingOutputs = []

/-- the part of the invariant about the graph and the ready set -/
structure GrOK (P : Prepared) (s : LoopState) (pend : List (String × St)) : Prop where
  dinv : LoopDagInv P s
  proc : ∀ x n, s.dag.find? x = some n → isProc P x → n.status = St.waiting → allSoft n.out →
      x ∈ s.dag.ready ∨ (x, St.waiting) ∈ pend
  failed : ∀ x n, s.dag.find? x = some n → isOutputNode P x → n.status = St.unres →
      x ∈ s.dag.ready ∨ (x, St.unres) ∈ pend ∨ x ∉ s.waitingOutputs
  pend_ok : ∀ y st, (y, st) ∈ pend → ∃ n, s.dag.find? y = some n ∧ (n.status = St.unres → st = St.unres)
  input_done : statusIs s.dag "input" St.resolved
  uj : s.dag.UJ (fun x => ¬ isOutputNode P x)

structure CoreOK (P : Prepared) (fns : Fns) (N : Prop) (s : LoopState) (pend : List (String × St)) : Prop where
  gr : GrOK P s pend
  out : OutOK P fns N s

theorem OutOK.mono {P : Prepared} {N N' : Prop} {s : LoopState} (h : OutOK P fns N s) (hN : N → N') : OutOK P fns N' s :=
  ⟨h.resolved_done, h.res_node, h.done_res, h.wsub, fun hw => by
    rcases h.nmo hw with h1 | h1 | h1
    · exact Or.inl h1
    · exact Or.inr (Or.inl (hN h1))
    · exact Or.inr (Or.inr h1)⟩

/-- nothing the invariant speaks about changed -/
theorem OutOK.congr {P : Prepared} {N N' : Prop} {s s' : LoopState} (h : OutOK P fns N s) (hdag : s'.dag = s.dag)
    (hw : s'.waitingOutputs = s.waitingOutputs) (hd : s'.outputDone = s.outputDone) (hr : s'.result = s.result)
    (hN : N → N') : OutOK P fns N' s' := by
  obtain ⟨h1, h2, h3, h4, h5⟩ := h.mono hN
  constructor
  · rw [hdag, hd]; exact h1
  · rw [hdag, hr]; exact h2
  · rw [hd, hr]; exact h3
  · rw [hw]; exact h4
  · rw [hw, hd]; exact h5

theorem GrOK.congr {P : Prepared} {s s' : LoopState} {pend : List (String × St)} (h : GrOK P s pend)
    (hdag : s'.dag = s.dag) (hw : s'.waitingOutputs = s.waitingOutputs) : GrOK P s' pend := by
  obtain ⟨h1, h2, h3, h4, h5, h6⟩ := h
  constructor
  · exact ⟨hdag ▸ h1.inv, hdag ▸ h1.edges, hdag ▸ h1.ids⟩
  · rw [hdag]; exact h2
  · rw [hdag, hw]; exact h3
  · rw [hdag]; exact h4
  · rw [hdag]; exact h5
  · rw [hdag]; exact h6

theorem CoreOK.congr {P : Prepared} {N N' : Prop} {s s' : LoopState} {pend : List (String × St)}
    (h : CoreOK P fns N s pend) (hdag : s'.dag = s.dag)
    (hw : s'.waitingOutputs = s.waitingOutputs) (hd : s'.outputDone = s.outputDone) (hr : s'.result = s.result)
    (hN : N → N') : CoreOK P fns N' s' pend :=
  ⟨h.gr.congr hdag hw, h.out.congr hdag hw hd hr hN⟩

theorem lookup_kind_unique {P : Prepared} {id : String} {it it' : Item} (h : lookup id P.items = some it)
    (h' : lookup id P.items = some it') : it = it' := by
  rw [h] at h'; exact Option.some.inj h'

/-- the head of the to-do list is done with: it is no dependency-group / output node that still waits to be
processed, and if it is a failed output node it has left the waiting set -/
theorem GrOK.drop {P : Prepared} {s : LoopState} {id : String} {st : St} {rest : List (String × St)}
    (h : GrOK P s ((id, st) :: rest))
    (hp : st = St.waiting → ∀ n, s.dag.find? id = some n → isProc P id → n.status = St.waiting → allSoft n.out →
      id ∈ s.dag.ready)
    (hf : st = St.unres → ∀ n, s.dag.find? id = some n → isOutputNode P id → n.status = St.unres →
      id ∈ s.dag.ready ∨ id ∉ s.waitingOutputs) : GrOK P s rest := by
  refine ⟨h.dinv, ?_, ?_, fun y st' hm => h.pend_ok y st' (List.mem_cons_of_mem _ hm), h.input_done, h.uj⟩
  · intro x n hn hx hw hs
    rcases h.proc x n hn hx hw hs with h1 | h1
    · exact Or.inl h1
    · rcases List.mem_cons.1 h1 with h1 | h1
      · cases h1
        exact Or.inl (hp rfl n hn hx hw hs)
      · exact Or.inr h1
  · intro x n hn hx hu
    rcases h.failed x n hn hx hu with h1 | h1 | h1
    · exact Or.inl h1
    · rcases List.mem_cons.1 h1 with h1 | h1
      · cases h1
        rcases hf rfl n hn hx hu with h2 | h2
        · exact Or.inl h2
        · exact Or.inr (Or.inr h2)
      · exact Or.inr (Or.inl h1)
    · exact Or.inr (Or.inr h1)

/-! ### explicit resolutions -/

/-- a successful `ResolveNode(Resolved)` was performed on a waiting node -/
theorem Graph.resolve_ok_waiting {g g' : Graph String} {id : String} (hok : g.resolve id St.resolved = .ok g') :
    statusIs g id St.waiting := by
  unfold Graph.resolve at hok
  split at hok
  · cases hok
  rename_i m hm
  split at hok
  · cases hok
  · split at hok
    · rename_i h; cases h
    · cases hok
  · rename_i hmw
    exact ⟨m, hm, hmw⟩

theorem GrOK.resolve {P : Prepared} {s s' : LoopState} {pend0 pend1 : List (String × St)} {id : String} {st : St}
    {g : Graph String} (h : GrOK P s pend0) (hok : s.dag.resolve id st = .ok g) (hst : st ≠ St.waiting)
    (hdag : s'.dag = g) (hw : s'.waitingOutputs = s.waitingOutputs)
    (hcarry : ∀ y st', (y, st') ∈ pend0 → y ≠ id → (y, st') ∈ pend1)
    (hsub : ∀ p ∈ pend1, p ∈ pend0)
    (hres : st = St.resolved ∨ pend1 = [])
    (hex : st = St.unres → ¬ isOutputNode P id) : GrOK P s' pend1 := by
  have hinv := h.dinv.inv
  have hle := GLe.resolve hinv hok
  obtain ⟨hrd, hnode⟩ := Graph.resolve_adv hinv hok
  obtain ⟨nid, hnid, hsid⟩ := Graph.resolve_status_self _ _ id st hst hok
  subst hdag
  refine ⟨⟨hle.inv, hle.edges.trans h.dinv.edges, hle.ids.trans h.dinv.ids⟩, ?_, ?_, ?_,
    hle.mono _ _ (by decide) h.input_done, Graph.resolve_uj hinv h.uj hok hex⟩
  · intro x n' hn' hx hwait hsoft
    by_cases hxi : x = id
    · subst hxi
      rw [hnid] at hn'; cases hn'
      exact absurd (hsid.symm.trans hwait) hst
    · obtain ⟨n, hn, h1, _⟩ := hnode x n' hn' hxi
      rcases h1 hwait hsoft with h2 | ⟨h2, h3⟩
      · exact Or.inl h2
      · rcases h.proc x n hn hx h2 h3 with h4 | h4
        · exact Or.inl (hrd x h4)
        · exact Or.inr (hcarry _ _ h4 hxi)
  · intro x n' hn' hx hu
    rw [hw]
    by_cases hxi : x = id
    · subst hxi
      rw [hnid] at hn'; cases hn'
      exact absurd hx (hex (hsid.symm.trans hu))
    · obtain ⟨n, hn, _, h1⟩ := hnode x n' hn' hxi
      rcases h1 hu with h2 | h2
      · exact Or.inl h2
      · rcases h.failed x n hn hx h2 with h4 | h4 | h4
        · exact Or.inl (hrd x h4)
        · exact Or.inr (Or.inl (hcarry _ _ h4 hxi))
        · exact Or.inr (Or.inr h4)
  · intro y st' hm
    obtain ⟨n, hn, hnu⟩ := h.pend_ok y st' (hsub _ hm)
    obtain ⟨n', hn'⟩ := hle.find hn
    refine ⟨n', hn', fun hu => ?_⟩
    rcases hres with rfl | hnil
    · by_cases hyi : y = id
      · subst hyi
        rw [hnid] at hn'; cases hn'
        rw [hsid] at hu; cases hu
      · obtain ⟨n'', hn'', hs''⟩ := Graph.resolve_resolved_status hok hn hyi
        rw [hn'] at hn''; cases hn''
        exact hnu (hs''.symm.trans hu)
    · rw [hnil] at hm; cases hm

theorem OutOK.resolve {P : Prepared} {N : Prop} {s s' : LoopState} {id : String} {st : St} {g : Graph String}
    (h : OutOK P fns N s) (hinv : s.dag.Inv) (hok : s.dag.resolve id st = .ok g)
    (hdag : s'.dag = g) (hw : s'.waitingOutputs = s.waitingOutputs) (hd : s'.outputDone = s.outputDone)
    (hr : s'.result = s.result)
    (hdone : st = St.resolved → isOutputNode P id → s.outputDone = true) : OutOK P fns N s' := by
  have hle := GLe.resolve hinv hok
  subst hdag
  refine ⟨?_, ?_, by rw [hd, hr]; exact h.done_res, by rw [hw]; exact h.wsub, by rw [hw, hd]; exact h.nmo⟩
  · rintro x hx ⟨n', hn', hs'⟩
    rw [hd]
    rcases Graph.resolve_resolved_only _ _ id x st n' hok hn' hs' with ⟨rfl, hst⟩ | ⟨n, hn, hs⟩
    · exact hdone hst hx
    · exact h.resolved_done x hx ⟨n, hn, hs⟩
  · intro oid v hres
    rw [hr] at hres
    obtain ⟨x, it, d, h1, h2, h3, h4, h5, h6⟩ := h.res_node oid v hres
    exact ⟨x, it, d, h1, h2, h3, h4, hle.mono _ _ (by decide) h5, h6⟩

/-- a failed output node leaves the waiting set -/
theorem GrOK.dropWaiting {P : Prepared} {s s' : LoopState} {id : String} {rest : List (String × St)}
    (h : GrOK P s ((id, St.unres) :: rest)) (hdag : s'.dag = s.dag)
    (hw : s'.waitingOutputs = s.waitingOutputs.filter (· ≠ id)) : GrOK P s' rest := by
  refine ⟨⟨hdag ▸ h.dinv.inv, hdag ▸ h.dinv.edges, hdag ▸ h.dinv.ids⟩, ?_, ?_, ?_, hdag ▸ h.input_done, hdag ▸ h.uj⟩
  · intro x n hn hx hwt hs
    rw [hdag] at hn ⊢
    rcases h.proc x n hn hx hwt hs with h1 | h1
    · exact Or.inl h1
    · rcases List.mem_cons.1 h1 with h1 | h1
      · cases h1
      · exact Or.inr h1
  · intro x n hn hx hu
    rw [hdag] at hn ⊢
    rw [hw]
    rcases h.failed x n hn hx hu with h1 | h1 | h1
    · exact Or.inl h1
    · rcases List.mem_cons.1 h1 with h1 | h1
      · cases h1
        exact Or.inr (Or.inr (by simp))
      · exact Or.inr (Or.inl h1)
    · exact Or.inr (Or.inr (fun hm => h1 (List.mem_filter.1 hm).1))
  · intro y st' hm
    rw [hdag]
    exact h.pend_ok y st' (List.mem_cons_of_mem _ hm)

theorem OutOK.dropWaiting {P : Prepared} {N N' : Prop} {s s' : LoopState} {id : String}
    (h : OutOK P fns N s) (hdag : s'.dag = s.dag)
    (hw : s'.waitingOutputs = s.waitingOutputs.filter (· ≠ id)) (hd : s'.outputDone = s.outputDone)
    (hr : s'.result = s.result) (hN : N → N')
    (hnmo : s.waitingOutputs.filter (· ≠ id) = [] → s.outputDone = true ∨ N') : OutOK P fns N' s' := by
  refine ⟨by rw [hdag, hd]; exact h.resolved_done, by rw [hdag, hr]; exact h.res_node,
    by rw [hd, hr]; exact h.done_res, ?_, ?_⟩
  · intro x hx
    rw [hw] at hx
    exact h.wsub x (List.mem_filter.1 hx).1
  · intro he
    rw [hw] at he
    rw [hd]
    rcases hnmo he with h1 | h1
    · exact Or.inl h1
    · exact Or.inr (Or.inl h1)

/-- the first (or a further) output node was processed and is resolved now -/
theorem OutOK.output {P : Prepared} {N N' : Prop} {s s' : LoopState} {id : String} {item : Item} {v : Val}
    (h : OutOK P fns N s) (hmono : ∀ x, statusIs s.dag x St.resolved → statusIs s'.dag x St.resolved)
    (hw : s'.waitingOutputs = s.waitingOutputs) (hd : s'.outputDone = true)
    (hr1 : s.outputDone = true → s'.result = s.result)
    (hr2 : s.outputDone = false → s'.result = some (item.output, v))
    (hitem : lookup id P.items = some item) (hk : item.kind = Kind.output) {d : InVal} (hdata : item.data = some d)
    {g0 : Graph String} {data0 : Val} (hv : resolveIn fns g0 data0 d = .ok v)
    (hres : statusIs s'.dag id St.resolved) : OutOK P fns N' s' := by
  refine ⟨fun _ _ _ => hd, ?_, ?_, by rw [hw]; exact h.wsub, fun _ => Or.inl hd⟩
  · intro oid w hres'
    cases hdo : s.outputDone with
    | true =>
      rw [hr1 hdo] at hres'
      obtain ⟨x, it, d', h1, h2, h3, h4, h5, h6⟩ := h.res_node oid w hres'
      exact ⟨x, it, d', h1, h2, h3, h4, hmono x h5, h6⟩
    | false =>
      rw [hr2 hdo] at hres'
      cases hres'
      exact ⟨id, item, d, hitem, hk, rfl, hdata, hres, _, _, hv⟩
  · rw [hd]
    cases hdo : s.outputDone with
    | true =>
      rw [hr1 hdo, ← h.done_res, hdo]
    | false =>
      rw [hr2 hdo]; rfl

/-- what `ResolveNode(Resolved)` does on a workflow-output node that is not unresolvable: outputs are sinks -/
theorem output_node_resolve {P : Prepared} (hP : P.WF3) {s : LoopState} (hd : LoopDagInv P s) {id : String}
    (hid : isOutputNode P id) {n : Node String} (hn : s.dag.find? id = some n) (hnu : n.status ≠ St.unres) :
    (n.status = St.waiting ∧
      s.dag.resolve id St.resolved = .ok (s.dag.setNode { n with status := St.resolved })) ∨
    (n.status = St.resolved ∧ ∃ e, s.dag.resolve id St.resolved = .error e) := by
  cases hs : n.status with
  | waiting =>
    left
    refine ⟨rfl, Graph.resolve_sink hn hs (by decide) ?_⟩
    obtain ⟨it, hit, hk⟩ := hid
    unfold Graph.succs
    rw [hd.edges]
    have : P.dag.edges.filter (fun e => decide (e.1 = id)) = [] := by
      rw [List.filter_eq_nil_iff]
      intro e he
      simp only [decide_eq_true_eq]
      exact hP.output_sink id it hit hk e he
    rw [this]; rfl
  | resolved =>
    right
    refine ⟨rfl, ?_⟩
    unfold Graph.resolve
    rw [hn]
    simp only [hs]
    exact ⟨_, rfl⟩
  | unres => exact absurd hs hnu

/-! ### the accumulated actions only grow; `Esc` is never left -/

theorem step_acts_prefix {P : Prepared} {a b : R} (h : Step P a b) : ∃ l, b.2 = a.2 ++ l := by
  cases h <;> simp only [emit, die, sendErr, doCancel] <;> repeat' split
  all_goals first
    | exact ⟨[], (List.append_nil _).symm⟩
    | exact ⟨_, rfl⟩

theorem reach_acts_prefix {P : Prepared} {a b : R} (h : Reach P a b) : ∃ l, b.2 = a.2 ++ l := by
  induction h with
  | refl => exact ⟨[], (List.append_nil _).symm⟩
  | tail _ s ih =>
    obtain ⟨l1, h1⟩ := ih
    obtain ⟨l2, h2⟩ := step_acts_prefix s
    exact ⟨l1 ++ l2, by rw [h2, h1, List.append_assoc]⟩

theorem esc_mono {P : Prepared} {a b : R} (h : Reach P a b) (ha : Esc a) : Esc b := by
  rcases ha with ha | ha
  · exact Or.inl (reach_dead_mono h ha)
  · obtain ⟨l, hl⟩ := reach_acts_prefix h
    exact Or.inr (by rw [hl]; exact hasEF_append.2 (Or.inl ha))

theorem nmo_mono {P : Prepared} {a b : R} (h : Reach P a b) (ha : hasNMO a.2) : hasNMO b.2 := by
  obtain ⟨l, hl⟩ := reach_acts_prefix h
  rw [hl]; exact hasNMO_append.2 (Or.inl ha)

/-! ### `sendErr` / `doCancel` touch nothing the invariant speaks about -/

theorem sendErr_wo (cap : Nat) (r : R) (k : ErrKind) : (sendErr cap r k).1.waitingOutputs = r.1.waitingOutputs := by
  unfold sendErr; split; · rfl
  split <;> rfl
theorem sendErr_od (cap : Nat) (r : R) (k : ErrKind) : (sendErr cap r k).1.outputDone = r.1.outputDone := by
  unfold sendErr; split; · rfl
  split <;> rfl
theorem sendErr_res (cap : Nat) (r : R) (k : ErrKind) : (sendErr cap r k).1.result = r.1.result := by
  unfold sendErr; split; · rfl
  split <;> rfl
theorem sendErr_dead (cap : Nat) (r : R) (k : ErrKind) : (sendErr cap r k).1.dead = r.1.dead := by
  unfold sendErr; split; · rfl
  split <;> rfl
theorem doCancel_wo (r : R) : (doCancel r).1.waitingOutputs = r.1.waitingOutputs := by
  unfold doCancel; split <;> rfl
theorem doCancel_od (r : R) : (doCancel r).1.outputDone = r.1.outputDone := by
  unfold doCancel; split <;> rfl
theorem doCancel_res (r : R) : (doCancel r).1.result = r.1.result := by
  unfold doCancel; split <;> rfl
theorem doCancel_dead (r : R) : (doCancel r).1.dead = r.1.dead := by
  unfold doCancel; split <;> rfl

theorem sendErr_acts_alive (cap : Nat) (r : R) (k : ErrKind) (hd : r.1.dead = false) :
    ∃ a, (sendErr cap r k).2 = r.2 ++ [a] ∧ (a = .errorSent k ∨ a = .errorDropped k) := by
  unfold sendErr
  rw [hd]
  simp only [Bool.false_eq_true, ↓reduceIte]
  split
  · exact ⟨_, rfl, Or.inl rfl⟩
  · exact ⟨_, rfl, Or.inr rfl⟩

theorem doCancel_acts (r : R) : ∃ l, (doCancel r).2 = r.2 ++ l := by
  unfold doCancel
  split
  · exact ⟨[], (List.append_nil _).symm⟩
  · exact ⟨_, rfl⟩

theorem hasNMO_cancel_sendErr (cap : Nat) (r : R) (hd : r.1.dead = false) :
    hasNMO (doCancel (sendErr cap r .noMoreOutputs)).2 := by
  obtain ⟨a, ha, hk⟩ := sendErr_acts_alive cap r .noMoreOutputs hd
  obtain ⟨l, hl⟩ := doCancel_acts (sendErr cap r .noMoreOutputs)
  rw [hl, ha]
  refine hasNMO_append.2 (Or.inl (hasNMO_append.2 (Or.inr ⟨a, List.mem_singleton.2 rfl, ?_⟩)))
  rcases hk with rfl | rfl <;> rfl

theorem hasEF_cancel_sendErr (cap : Nat) (r : R) (hd : r.1.dead = false) :
    hasEF (doCancel (sendErr cap r .evalFailed)).2 := by
  obtain ⟨a, ha, hk⟩ := sendErr_acts_alive cap r .evalFailed hd
  obtain ⟨l, hl⟩ := doCancel_acts (sendErr cap r .evalFailed)
  rw [hl, ha]
  refine hasEF_append.2 (Or.inl (hasEF_append.2 (Or.inr ⟨a, List.mem_singleton.2 rfl, ?_⟩)))
  rcases hk with rfl | rfl <;> rfl

theorem acts_cancel_sendErr (cap : Nat) (r : R) (k : ErrKind) : ∃ l, (doCancel (sendErr cap r k)).2 = r.2 ++ l := by
  obtain ⟨l, hl⟩ := doCancel_acts (sendErr cap r k)
  have : ∃ l', (sendErr cap r k).2 = r.2 ++ l' := by
    unfold sendErr
    split
    · exact ⟨[], (List.append_nil _).symm⟩
    split <;> exact ⟨_, rfl⟩
  obtain ⟨l', hl'⟩ := this
  exact ⟨l' ++ l, by rw [hl, hl', List.append_assoc]⟩

/-- `doCancel (sendErr …)` keeps the invariant (whatever is sent) -/
theorem CoreOK.cancel_sendErr {P : Prepared} {N0 : Prop} {r : R} {pend : List (String × St)} (k : ErrKind)
    (h : CoreOK P fns (N0 ∨ hasNMO r.2) r.1 pend) :
    CoreOK P fns (N0 ∨ hasNMO (doCancel (sendErr P.errCap r k)).2) (doCancel (sendErr P.errCap r k)).1 pend := by
  refine h.congr (by rw [doCancel_dag, sendErr_dag]) (by rw [doCancel_wo, sendErr_wo]) (by rw [doCancel_od, sendErr_od])
    (by rw [doCancel_res, sendErr_res]) ?_
  rintro (h1 | h1)
  · exact Or.inl h1
  · obtain ⟨l, hl⟩ := acts_cancel_sendErr P.errCap r k
    exact Or.inr (by rw [hl]; exact hasNMO_append.2 (Or.inl h1))

/-! ### `notifySteps` -/

/-- what `notifySteps` with fuel `f` achieves from a state with fewer than `f` waiting nodes: the invariant is kept for
the nodes pending further out (`pend`), and the ready set is empty at the end -/
def NotifySpec (P : Prepared) (fns : Fns) (ord : Order) (f : Nat) : Prop :=
  ∀ (N0 : Prop) (r : R) (pend : List (String × St)), r.1.dead = false →
    CoreOK P fns (N0 ∨ hasNMO r.2) r.1 pend → waitCount P r.1.dag < f →
    Esc (notifySteps P fns ord f r) ∨
      (CoreOK P fns (N0 ∨ hasNMO (notifySteps P fns ord f r).2) (notifySteps P fns ord f r).1 pend ∧
       (notifySteps P fns ord f r).1.dag.ready = [] ∧ GLe r.1.dag (notifySteps P fns ord f r).1.dag)

theorem mem_ids_of_find {P : Prepared} {s : LoopState} (hd : LoopDagInv P s) {x : String} {n : Node String}
    (hn : s.dag.find? x = some n) : x ∈ P.dag.nodes.map (·.id) := by
  obtain ⟨h1, h2⟩ := Graph.find?_some hn
  rw [← hd.ids]
  exact List.mem_map.2 ⟨n, h1, h2⟩

theorem processNode_core {P : Prepared} (hP : P.WF3) (fns : Fns) (ord : Order) (f : Nat)
    (hN : NotifySpec P fns ord f) (N0 : Prop) (r : R) (id : String) (st : St) (rest : List (String × St))
    (hd : r.1.dead = false) (hc : CoreOK P fns (N0 ∨ hasNMO r.2) r.1 ((id, st) :: rest)) (hr : r.1.dag.ready = [])
    (hf : waitCount P r.1.dag ≤ f) (out : R × Bool)
    (ho : processNode P fns (notifySteps P fns ord f) r id st = out) :
    (out.2 = true → Esc out.1) ∧
    (Esc out.1 ∨ (CoreOK P fns (N0 ∨ hasNMO out.1.2) out.1.1 rest ∧ out.1.1.dag.ready = [] ∧ GLe r.1.dag out.1.1.dag)) := by
  have hinv := hc.gr.dinv.inv
  have hrefl : GLe r.1.dag r.1.dag := GLe.refl hinv
  unfold processNode at ho
  split at ho
  · rename_i hdd; rw [hd] at hdd; cases hdd
  split at ho
  · subst ho
    exact ⟨fun _ => Or.inl rfl, Or.inl (Or.inl rfl)⟩
  rename_i item hitem
  split at ho
  · -- an unresolvable node
    rename_i hst
    subst hst
    split at ho
    · rename_i hk
      split at ho
      · -- not (any more) in the waiting set
        rename_i hnc
        subst ho
        have hnm : id ∉ r.1.waitingOutputs := by
          intro hm
          have : r.1.waitingOutputs.contains id = true := List.contains_iff_mem.2 hm
          rw [this] at hnc; cases hnc
        exact ⟨(fun h => nomatch h), Or.inr ⟨⟨hc.gr.drop (fun h => nomatch h) (fun _ _ _ _ _ => Or.inr hnm), hc.out⟩,
          hr, hrefl⟩⟩
      · dsimp only at ho
        split at ho
        · -- the last waiting output failed: "no more outputs"
          subst ho
          have hd1 : (({ r.1 with waitingOutputs := r.1.waitingOutputs.filter (· ≠ id) }, r.2) : R).1.dead = false := hd
          have hnmo := hasNMO_cancel_sendErr P.errCap
            ({ r.1 with waitingOutputs := r.1.waitingOutputs.filter (· ≠ id) }, r.2) hd1
          have hdead : (doCancel (sendErr P.errCap
              ({ r.1 with waitingOutputs := r.1.waitingOutputs.filter (· ≠ id) }, r.2) .noMoreOutputs)).1.dead = false := by
            rw [doCancel_dead, sendErr_dead]; exact hd
          refine ⟨fun h => ?_, Or.inr ⟨⟨?_, ?_⟩, ?_, ?_⟩⟩
          · simp only at h
            rw [hdead] at h; cases h
          · exact hc.gr.dropWaiting (by rw [doCancel_dag, sendErr_dag]) (by rw [doCancel_wo, sendErr_wo])
          · exact hc.out.dropWaiting (by rw [doCancel_dag, sendErr_dag]) (by rw [doCancel_wo, sendErr_wo])
              (by rw [doCancel_od, sendErr_od]) (by rw [doCancel_res, sendErr_res])
              (fun _ => Or.inr hnmo) (fun _ => Or.inr (Or.inr hnmo))
          · simp only [doCancel_dag, sendErr_dag]; exact hr
          · simp only [doCancel_dag, sendErr_dag]; exact hrefl
        · rename_i hne
          subst ho
          refine ⟨(fun h => nomatch h), Or.inr ⟨⟨hc.gr.dropWaiting rfl rfl, ?_⟩, hr, hrefl⟩⟩
          refine hc.out.dropWaiting rfl rfl rfl rfl (fun h => h) ?_
          intro he
          left
          cases hdo : r.1.outputDone with
          | true => rfl
          | false =>
            exfalso
            apply hne
            simp only [he, List.isEmpty_nil, hdo, Bool.not_false, and_self]
    · -- not an output node: nothing to do
      rename_i hk
      subst ho
      refine ⟨(fun h => nomatch h), Or.inr ⟨⟨hc.gr.drop (fun h => nomatch h) ?_, hc.out⟩, hr, hrefl⟩⟩
      rintro _ n hn ⟨it, hit, hko⟩ _
      rw [hitem] at hit; cases hit
      exact absurd hko hk
  rename_i hst
  have hdropf : St.unres = st → ∀ n, r.1.dag.find? id = some n → isOutputNode P id → n.status = St.unres →
      id ∈ r.1.dag.ready ∨ id ∉ r.1.waitingOutputs := fun h => absurd h.symm hst
  split at ho
  · -- no data
    rename_i hdata
    split at ho
    · -- a dependency group: resolve it, look again
      rename_i hk
      split at ho
      · subst ho
        exact ⟨fun _ => Or.inl rfl, Or.inl (Or.inl rfl)⟩
      · rename_i g hok
        subst ho
        have hle := GLe.resolve hinv hok
        have hgr : GrOK P ({ r.1 with dag := g }) rest :=
          hc.gr.resolve hok (by decide) rfl rfl
            (fun y st' hm hy => by
              rcases List.mem_cons.1 hm with h1 | h1
              · cases h1; exact absurd rfl hy
              · exact h1)
            (fun p hp => List.mem_cons_of_mem _ hp) (Or.inl rfl) (fun h => by cases h)
        have hout : OutOK P fns (N0 ∨ hasNMO r.2) ({ r.1 with dag := g }) :=
          hc.out.resolve hinv hok rfl rfl rfl rfl (by
            rintro _ ⟨it, hit, hko⟩
            rw [hitem] at hit; cases hit
            rw [hk] at hko; cases hko)
        have hw := Graph.resolve_ok_waiting hok
        obtain ⟨nid, hnid, hsid⟩ := Graph.resolve_status_self _ _ id _ (by decide) hok
        have hlt : waitCount P g < waitCount P r.1.dag := by
          obtain ⟨n0, hn0, hs0⟩ := hw
          refine waitCount_lt P hle (mem_ids_of_find hc.gr.dinv hn0) ⟨n0, hn0, hs0⟩ ?_
          rintro ⟨n', hn', hs'⟩
          rw [hnid] at hn'; cases hn'
          rw [hsid] at hs'; cases hs'
        have := hN N0 ({ r.1 with dag := g }, r.2) rest hd ⟨hgr, hout⟩ (by
          show waitCount P g < f
          omega)
        rcases this with h1 | ⟨h1, h2, h3⟩
        · exact ⟨fun _ => h1, Or.inl h1⟩
        · exact ⟨fun h => Or.inl h, Or.inr ⟨h1, h2, hle.trans h3⟩⟩
    · -- nothing to do (stage outputs, the input node)
      rename_i hk
      subst ho
      refine ⟨(fun h => nomatch h), Or.inr ⟨⟨hc.gr.drop ?_ (fun h => absurd h hst), hc.out⟩, hr, hrefl⟩⟩
      rintro _ n hn (⟨it, hit, hkg⟩ | ⟨it, hit, hko⟩) _ _
      · rw [hitem] at hit; cases hit
        exact absurd hkg hk
      · rw [hitem] at hit; cases hit
        have := hP.output_data id _ hitem hko
        rw [hdata] at this; cases this
  rename_i inData hdata
  split at ho
  · -- the expressions cannot be evaluated
    subst ho
    have := hasEF_cancel_sendErr P.errCap r hd
    exact ⟨fun _ => Or.inr this, Or.inl (Or.inr this)⟩
  rename_i v hv
  split at ho
  · -- a stage node
    rename_i hk
    have hgr : GrOK P r.1 rest := by
      refine hc.gr.drop ?_ (fun h => absurd h hst)
      rintro _ n hn (⟨it, hit, hkg⟩ | ⟨it, hit, hko⟩) _ _
      · rw [hitem] at hit; cases hit
        rw [hk] at hkg; cases hkg
      · rw [hitem] at hit; cases hit
        rw [hk] at hko; cases hko
    split at ho
    · subst ho
      exact ⟨(fun h => nomatch h), Or.inr ⟨⟨hgr, hc.out⟩, hr, hrefl⟩⟩
    split at ho
    · subst ho
      exact ⟨fun _ => Or.inl rfl, Or.inl (Or.inl rfl)⟩
    split at ho
    · subst ho
      refine ⟨(fun h => nomatch h), Or.inr ⟨⟨hgr, hc.out.mono ?_⟩, hr, hrefl⟩⟩
      rintro (h1 | h1)
      · exact Or.inl h1
      · exact Or.inr (hasNMO_append.2 (Or.inl h1))
    · subst ho
      exact ⟨fun _ => Or.inl rfl, Or.inl (Or.inl rfl)⟩
  · -- a workflow output node
    rename_i hk
    have hidout : isOutputNode P id := ⟨item, hitem, hk⟩
    obtain ⟨n, hn, hnst⟩ := hc.gr.pend_ok id st List.mem_cons_self
    have hnu : n.status ≠ St.unres := fun h => hst (hnst h)
    have hcases := output_node_resolve hP hc.gr.dinv hidout hn hnu
    dsimp only at ho
    -- the state after the output / skip step, with the graph `g'` the node is resolved in
    have hfin : ∀ (g' : Graph String) (s' : LoopState) (acts : List Action),
        GLe r.1.dag g' → g'.ready = [] → statusIs g' id St.resolved →
        (GrOK P ({ r.1 with dag := g' }) rest) →
        s'.dag = g' → s'.waitingOutputs = r.1.waitingOutputs → s'.outputDone = true →
        (r.1.outputDone = true → s'.result = r.1.result) →
        (r.1.outputDone = false → s'.result = some (item.output, v)) →
        (∃ l, acts = r.2 ++ l) →
        CoreOK P fns (N0 ∨ hasNMO acts) s' rest ∧ s'.dag.ready = [] ∧ GLe r.1.dag s'.dag := by
      intro g' s' acts hle hrd hres hgr hdag hw hdone hr1 hr2 hacts
      refine ⟨⟨hgr.congr hdag hw, ?_⟩, hdag ▸ hrd, hdag ▸ hle⟩
      exact hc.out.output (fun x hx => hdag ▸ hle.mono x _ (by decide) hx) hw hdone hr1 hr2 hitem hk hdata hv (hdag ▸ hres)
    -- the two possible outcomes of `ResolveNode(Resolved)`
    have hok_case : ∀ g, r.1.dag.resolve id St.resolved = .ok g →
        GLe r.1.dag g ∧ g.ready = [] ∧ statusIs g id St.resolved ∧ GrOK P ({ r.1 with dag := g }) rest := by
      intro g hok
      have hle := GLe.resolve hinv hok
      obtain ⟨nid, hnid, hsid⟩ := Graph.resolve_status_self _ _ id _ (by decide) hok
      refine ⟨hle, ?_, ⟨nid, hnid, hsid⟩, ?_⟩
      · rcases hcases with ⟨_, h2⟩ | ⟨_, e, h2⟩
        · rw [hok] at h2
          cases h2
          exact hr
        · rw [hok] at h2; cases h2
      · exact hc.gr.resolve hok (by decide) rfl rfl
          (fun y st' hm hy => by
            rcases List.mem_cons.1 hm with h1 | h1
            · cases h1; exact absurd rfl hy
            · exact h1)
          (fun p hp => List.mem_cons_of_mem _ hp) (Or.inl rfl) (fun h => by cases h)
    have herr_case : ∀ e, r.1.dag.resolve id St.resolved = .error e →
        statusIs r.1.dag id St.resolved ∧ GrOK P r.1 rest := by
      intro e herr
      rcases hcases with ⟨_, h2⟩ | ⟨h1, _⟩
      · rw [herr] at h2; cases h2
      · refine ⟨⟨n, hn, h1⟩, hc.gr.drop ?_ (fun h => absurd h hst)⟩
        intro _ n' hn' _ hw' _
        rw [hn] at hn'; cases hn'
        rw [h1] at hw'; cases hw'
    by_cases hdone : r.1.outputDone = true
    · simp only [hdone, ↓reduceIte] at ho
      split at ho
      · rename_i g hok
        subst ho
        obtain ⟨h1, h2, h3, h4⟩ := hok_case g hok
        exact ⟨(fun h => nomatch h), Or.inr (hfin g _ _ h1 h2 h3 h4 rfl rfl hdone (fun _ => rfl)
          (fun h => by rw [hdone] at h; cases h) ⟨_, rfl⟩)⟩
      · rename_i e herr
        subst ho
        obtain ⟨h3, h4⟩ := herr_case e herr
        exact ⟨(fun h => nomatch h), Or.inr (hfin r.1.dag _ _ hrefl hr h3 h4 rfl rfl hdone (fun _ => rfl)
          (fun h => by rw [hdone] at h; cases h) ⟨_, rfl⟩)⟩
    · have hdone' : r.1.outputDone = false := by simpa using hdone
      simp only [hdone', Bool.false_eq_true, ↓reduceIte] at ho
      split at ho
      · rename_i g hok
        subst ho
        obtain ⟨h1, h2, h3, h4⟩ := hok_case g hok
        exact ⟨(fun h => nomatch h), Or.inr (hfin g _ _ h1 h2 h3 h4 rfl rfl rfl
          (fun h => by rw [hdone'] at h; cases h) (fun _ => rfl) ⟨_, rfl⟩)⟩
      · rename_i e herr
        subst ho
        obtain ⟨h3, h4⟩ := herr_case e herr
        exact ⟨(fun h => nomatch h), Or.inr (hfin r.1.dag _ _ hrefl hr h3 h4 rfl rfl rfl
          (fun h => by rw [hdone'] at h; cases h) (fun _ => rfl) ⟨_, rfl⟩)⟩
  · subst ho
    exact ⟨fun _ => Or.inl rfl, Or.inl (Or.inl rfl)⟩

theorem processNodes_core {P : Prepared} (hP : P.WF3) (fns : Fns) (ord : Order) (f : Nat)
    (hN : NotifySpec P fns ord f) (N0 : Prop) (l : List (String × St)) :
    ∀ (r : R) (pend : List (String × St)), r.1.dead = false →
      CoreOK P fns (N0 ∨ hasNMO r.2) r.1 (l ++ pend) → r.1.dag.ready = [] → waitCount P r.1.dag ≤ f →
      Esc (processNodes P fns (notifySteps P fns ord f) r l) ∨
        (CoreOK P fns (N0 ∨ hasNMO (processNodes P fns (notifySteps P fns ord f) r l).2)
            (processNodes P fns (notifySteps P fns ord f) r l).1 pend ∧
         (processNodes P fns (notifySteps P fns ord f) r l).1.dag.ready = [] ∧
         GLe r.1.dag (processNodes P fns (notifySteps P fns ord f) r l).1.dag) := by
  induction l with
  | nil =>
    intro r pend _ hc hr _
    exact Or.inr ⟨hc, hr, GLe.refl hc.gr.dinv.inv⟩
  | cons x rest ih =>
    intro r pend hd hc hr hf
    obtain ⟨id, st⟩ := x
    obtain ⟨hstop, hres⟩ := processNode_core hP fns ord f hN N0 r id st (rest ++ pend) hd hc hr hf _ rfl
    have hreach : Reach P (processNode P fns (notifySteps P fns ord f) r id st).1
        (processNodes P fns (notifySteps P fns ord f) (processNode P fns (notifySteps P fns ord f) r id st).1 rest) :=
      processNodes_reach fns _ (notifySteps_reach fns ord f) rest _
    unfold processNodes
    dsimp only
    split
    · rename_i hs
      exact Or.inl (hstop hs)
    · rcases hres with h1 | ⟨h1, h2, h3⟩
      · exact Or.inl (esc_mono hreach h1)
      · cases hdd : (processNode P fns (notifySteps P fns ord f) r id st).1.1.dead with
        | true => exact Or.inl (esc_mono hreach (Or.inl hdd))
        | false =>
          rcases ih _ pend hdd h1 h2 (Nat.le_trans (waitCount_mono P h3) hf) with h4 | ⟨h4, h5, h6⟩
          · exact Or.inl h4
          · exact Or.inr ⟨h4, h5, h3.trans h6⟩

theorem Graph.mem_popReady_of {g : Graph String} {x : String} {n : Node String} (hx : x ∈ g.ready)
    (hn : g.find? x = some n) : (x, n.status) ∈ g.popReady.1 := by
  simp only [Graph.popReady, List.mem_filterMap, Graph.statusOf, Option.map_eq_some_iff]
  exact ⟨x, hx, n.status, ⟨n, hn, rfl⟩, rfl⟩

/-- `notifySteps` with more fuel than waiting nodes processes everything that is ready -/
theorem notifySteps_core {P : Prepared} (hP : P.WF3) (fns : Fns) (ord : Order) (hord : OrdOK ord) (hall : OrdAll ord)
    (f : Nat) : NotifySpec P fns ord f := by
  induction f with
  | zero => intro N0 r pend _ _ h; omega
  | succ f ih =>
    intro N0 r pend hd hc hlt
    unfold notifySteps
    rw [hd]
    simp only [Bool.false_eq_true, ↓reduceIte]
    have hpop : GLe r.1.dag r.1.dag.popReady.2 := GLe.popReady hc.gr.dinv.inv
    have hc0 : CoreOK P fns (N0 ∨ hasNMO r.2) ({ r.1 with dag := r.1.dag.popReady.2 })
        (ord r.1.dag.popReady.1 ++ pend) := by
      refine ⟨⟨⟨hpop.inv, hc.gr.dinv.edges, hc.gr.dinv.ids⟩, ?_, ?_, ?_, hc.gr.input_done, hc.gr.uj⟩,
        ⟨hc.out.resolved_done, hc.out.res_node, hc.out.done_res, hc.out.wsub, hc.out.nmo⟩⟩
      · intro x n hn hx hw hs
        right
        rcases hc.gr.proc x n hn hx hw hs with h1 | h1
        · have := Graph.mem_popReady_of h1 hn
          rw [hw] at this
          exact List.mem_append_left _ (hall _ _ this)
        · exact List.mem_append_right _ h1
      · intro x n hn hx hu
        rcases hc.gr.failed x n hn hx hu with h1 | h1 | h1
        · have := Graph.mem_popReady_of h1 hn
          rw [hu] at this
          exact Or.inr (Or.inl (List.mem_append_left _ (hall _ _ this)))
        · exact Or.inr (Or.inl (List.mem_append_right _ h1))
        · exact Or.inr (Or.inr h1)
      · intro y st hm
        rcases List.mem_append.1 hm with hm | hm
        · obtain ⟨_, n, hn, hs⟩ := Graph.mem_popReady (hord _ _ hm)
          exact ⟨n, hn, fun h => hs ▸ h⟩
        · exact hc.gr.pend_ok y st hm
    have := processNodes_core hP fns ord f ih N0 (ord r.1.dag.popReady.1)
      ({ r.1 with dag := r.1.dag.popReady.2 }, r.2) pend hd hc0 rfl (by
        show waitCount P r.1.dag ≤ f
        omega)
    rcases this with h1 | ⟨h1, h2, h3⟩
    · exact Or.inl h1
    · exact Or.inr ⟨h1, h2, hpop.trans h3⟩

/-! ### the steps of a reaction that precede `notifySteps` -/

theorem declares_of_mem_outputsOf {P : Prepared} {step stage o : String} (h : o ∈ P.outputsOf step stage) :
    P.declares step stage := by
  unfold Prepared.outputsOf at h
  split at h
  · cases h
  · rename_i sts hsts
    cases hl : lookup stage sts with
    | none => rw [hl] at h; cases h
    | some outs => exact ⟨sts, outs, hsts, hl⟩

theorem stage_not_output {P : Prepared} (hP : P.WF) {step stage : String} (hd : P.declares step stage) :
    ¬ isOutputNode P (stageNodeId step stage) := by
  rintro ⟨it, hit, hk⟩
  rw [hP.stage_kind step stage it hd hit] at hk
  cases hk

theorem stageOutput_not_output {P : Prepared} (hP : P.WF) {step stage o : String} (ho : o ∈ P.outputsOf step stage) :
    ¬ isOutputNode P (outputNodeId step stage o) := by
  rintro ⟨it, hit, hk⟩
  rw [hP.output_kind step stage o it (declares_of_mem_outputsOf ho) ho hit] at hk
  cases hk

theorem input_not_output {P : Prepared} (hP : P.WF2) : ¬ isOutputNode P "input" := by
  rintro ⟨it, hit, hk⟩
  rw [hP.input_kind it hit] at hk
  cases hk

theorem CoreOK.setDag_resolve {P : Prepared} {N : Prop} {s : LoopState} {id : String} {st : St} {g : Graph String}
    (h : CoreOK P fns N s []) (hok : s.dag.resolve id st = .ok g) (hst : st ≠ St.waiting) (hno : ¬ isOutputNode P id) :
    CoreOK P fns N { s with dag := g } [] :=
  ⟨h.gr.resolve hok hst rfl rfl (fun _ _ hm _ => hm) (fun _ hp => hp) (Or.inr rfl) (fun _ => hno),
   h.out.resolve h.gr.dinv.inv hok rfl rfl rfl rfl (fun _ ho => absurd ho hno)⟩

theorem CoreOK.die {P : Prepared} {N0 : Prop} {r : R} {pend : List (String × St)} (a : Action)
    (h : CoreOK P fns (N0 ∨ hasNMO r.2) r.1 pend) : CoreOK P fns (N0 ∨ hasNMO (die r a).2) (die r a).1 pend := by
  refine h.congr rfl rfl rfl rfl ?_
  rintro (h1 | h1)
  · exact Or.inl h1
  · exact Or.inr (hasNMO_append.2 (Or.inl h1))

theorem CoreOK.emit {P : Prepared} {N0 : Prop} {r : R} {pend : List (String × St)} (a : Action)
    (h : CoreOK P fns (N0 ∨ hasNMO r.2) r.1 pend) : CoreOK P fns (N0 ∨ hasNMO (emit r a).2) (emit r a).1 pend := by
  refine h.congr rfl rfl rfl rfl ?_
  rintro (h1 | h1)
  · exact Or.inl h1
  · exact Or.inr (hasNMO_append.2 (Or.inl h1))

section PreSteps
variable {P : Prepared}

theorem markOne_core (hP : P.WF) (step stage : String) (skip : Option String) (r : R) (o : String)
    (ho : o ∈ P.outputsOf step stage) (N0 : Prop) (h : CoreOK P fns (N0 ∨ hasNMO r.2) r.1 []) :
    CoreOK P fns (N0 ∨ hasNMO (markOne step stage skip r o).2) (markOne step stage skip r o).1 [] := by
  unfold markOne
  split
  · exact h
  split
  · exact h
  split
  · exact h
  split
  · rename_i g hok
    exact h.setDag_resolve hok (by decide) (stageOutput_not_output hP ho)
  · exact h.die _

theorem foldl_markOne_core (hP : P.WF) (step stage : String) (skip : Option String) (N0 : Prop) (l : List String) :
    ∀ r : R, (∀ o ∈ l, o ∈ P.outputsOf step stage) → CoreOK P fns (N0 ∨ hasNMO r.2) r.1 [] →
      CoreOK P fns (N0 ∨ hasNMO (l.foldl (markOne step stage skip) r).2) (l.foldl (markOne step stage skip) r).1 [] := by
  induction l with
  | nil => intro r _ h; exact h
  | cons o rest ih =>
    intro r hl h
    rw [List.foldl_cons]
    exact ih _ (fun o' ho' => hl o' (List.mem_cons_of_mem _ ho'))
      (markOne_core hP step stage skip r o (hl o List.mem_cons_self) N0 h)

theorem markOutputsUnres_core (hP : P.WF) (step stage : String) (skip : Option String) (r : R) (N0 : Prop)
    (h : CoreOK P fns (N0 ∨ hasNMO r.2) r.1 []) :
    CoreOK P fns (N0 ∨ hasNMO (markOutputsUnres P step stage skip r).2) (markOutputsUnres P step stage skip r).1 [] := by
  rw [markOutputsUnres_eq]
  exact foldl_markOne_core hP step stage skip N0 _ r (fun _ ho => ho) h

theorem markStageUnres_core (hP : P.WF) (step stage : String) (hd : P.declares step stage) (r : R) (N0 : Prop)
    (h : CoreOK P fns (N0 ∨ hasNMO r.2) r.1 []) :
    CoreOK P fns (N0 ∨ hasNMO (markStageUnres step stage r).2) (markStageUnres step stage r).1 [] := by
  unfold markStageUnres
  split
  · exact h
  split
  · exact h
  split
  · rename_i g hok
    exact h.setDag_resolve hok (by decide) (stage_not_output hP hd)
  · exact h.die _

theorem markRemainingOne_core (hP : P.WF) (step : String) (r : R) (stage : String) (hd : P.declares step stage)
    (N0 : Prop) (h : CoreOK P fns (N0 ∨ hasNMO r.2) r.1 []) :
    CoreOK P fns (N0 ∨ hasNMO (markRemainingOne P step r stage).2) (markRemainingOne P step r stage).1 [] := by
  unfold markRemainingOne
  split
  · exact h
  · exact markStageUnres_core hP step stage hd _ N0 (markOutputsUnres_core hP step stage none r N0 h)

theorem markRemaining_core (hP : P.WF) (step : String) (r : R) (N0 : Prop)
    (h : CoreOK P fns (N0 ∨ hasNMO r.2) r.1 []) :
    CoreOK P fns (N0 ∨ hasNMO (markRemaining P step r).2) (markRemaining P step r).1 [] := by
  unfold markRemaining
  have hall : ∀ x ∈ P.stagesOf step, P.declares step x := fun x hx => declares_of_mem_stagesOf hx
  revert hall
  generalize P.stagesOf step = l
  intro hall
  induction l generalizing r with
  | nil => exact h
  | cons x rest ih =>
    rw [List.foldl_cons]
    exact ih _ (markRemainingOne_core hP step r x (hall x List.mem_cons_self) N0 h)
      (fun y hy => hall y (List.mem_cons_of_mem _ hy))

theorem checkDeadlock_core (retries : Nat) (busy : Bool) (r : R) (N0 : Prop) (pend : List (String × St))
    (h : CoreOK P fns (N0 ∨ hasNMO r.2) r.1 pend) :
    CoreOK P fns (N0 ∨ hasNMO (checkDeadlock P retries busy r).2) (checkDeadlock P retries busy r).1 pend ∧
      (checkDeadlock P retries busy r).1.dag = r.1.dag := by
  unfold checkDeadlock
  split
  · exact ⟨h, rfl⟩
  split
  · split
    · exact ⟨h.cancel_sendErr _, by rw [doCancel_dag, sendErr_dag]⟩
    · exact ⟨h.emit _, rfl⟩
  · exact ⟨h, rfl⟩

/-- `notifySteps` with the fuel the loop gives it -/
theorem notify_core (hP : P.WF3) (fns : Fns) (ord : Order) (hord : OrdOK ord) (hall : OrdAll ord) (r : R) (N0 : Prop)
    (h : CoreOK P fns (N0 ∨ hasNMO r.2) r.1 []) :
    Esc (notifySteps P fns ord (notifyFuel P) r) ∨
      (CoreOK P fns (N0 ∨ hasNMO (notifySteps P fns ord (notifyFuel P) r).2) (notifySteps P fns ord (notifyFuel P) r).1 [] ∧
        (notifySteps P fns ord (notifyFuel P) r).1.dag.ready = []) := by
  cases hd : r.1.dead with
  | true => exact Or.inl (esc_mono (notifySteps_reach fns ord _ r) (Or.inl hd))
  | false =>
    have hlt : waitCount P r.1.dag < notifyFuel P := by
      have := waitCount_le_nodes P r.1.dag
      unfold notifyFuel
      omega
    rcases notifySteps_core hP fns ord hord hall (notifyFuel P) N0 r [] hd h hlt with h1 | ⟨h1, h2, _⟩
    · exact Or.inl h1
    · exact Or.inr ⟨h1, h2⟩

theorem finishStage_core (hP : P.WF3) (fns : Fns) (ord : Order) (hord : OrdOK ord) (hall : OrdAll ord) (step : String)
    (complete : Bool) (r : R) (N0 : Prop) (h : CoreOK P fns (N0 ∨ hasNMO r.2) r.1 []) :
    Esc (finishStage P fns ord step complete r) ∨
      (CoreOK P fns (N0 ∨ hasNMO (finishStage P fns ord step complete r).2) (finishStage P fns ord step complete r).1 [] ∧
        (finishStage P fns ord step complete r).1.dag.ready = []) := by
  unfold finishStage
  split
  · exact notify_core hP fns ord hord hall _ N0 (markRemaining_core hP.wf2.wf step r N0 h)
  · exact notify_core hP fns ord hord hall _ N0 h

end PreSteps

/-! ### one legal callback -/

section Callback
variable {P : Prepared}

theorem onStageCompleteBody_core (hP : P.WF3) (fns : Fns) (ord : Order) (hord : OrdOK ord) (hnd : OrdNodup ord)
    (hall : OrdAll ord) (step prev : String) (out : Option (String × Val)) (complete : Bool) (r : R) (hg : Good P r)
    (hd : r.1.dead = false) (hdecl : P.declares step prev)
    (hw : statusIs r.1.dag (stageNodeId step prev) St.waiting)
    (hand : ∀ ed ∈ P.dag.edges, ed.2.1 = stageNodeId step prev → ed.2.2 = Dep.and → statusIs r.1.dag ed.1 St.resolved)
    (hnor : ∀ ed ∈ P.dag.edges, ed.2.1 = stageNodeId step prev → ed.2.2 ≠ Dep.or)
    (hout : ∀ oid v, out = some (oid, v) → oid ∈ P.outputsOf step prev ∧
      ∀ o ∈ P.outputsOf step prev, statusIs r.1.dag (outputNodeId step prev o) St.waiting)
    (N0 : Prop) (h : CoreOK P fns (N0 ∨ hasNMO r.2) r.1 []) :
    Esc (onStageCompleteBody P fns ord step prev out complete r) ∨
      (CoreOK P fns (N0 ∨ hasNMO (onStageCompleteBody P fns ord step prev out complete r).2)
          (onStageCompleteBody P fns ord step prev out complete r).1 [] ∧
        (onStageCompleteBody P fns ord step prev out complete r).1.dag.ready = []) := by
  have hW := hP.wf2.wf
  obtain ⟨g, hhas, hok, hg1⟩ := legal_stage_resolve hP.wf2 step prev ((step, prev) :: r.1.finished) r hg hdecl hw hand hnor
  have hc1 : CoreOK P fns (N0 ∨ hasNMO r.2) ({ r.1 with dag := g, finished := (step, prev) :: r.1.finished }) [] :=
    (h.setDag_resolve hok (by decide) (stage_not_output hW hdecl)).congr rfl rfl rfl rfl (fun x => x)
  cases out with
  | none =>
    rw [onStageCompleteBody_none fns ord step prev complete r hhas hok]
    exact finishStage_core hP fns ord hord hall step complete _ N0 hc1
  | some ov =>
    obtain ⟨oid, v⟩ := ov
    obtain ⟨hoid, hallw⟩ := hout oid v rfl
    obtain ⟨g2, hhas2, hok2, hg2, hg3⟩ :=
      legal_output_resolve hP.wf2 step prev oid ((step, prev) :: r.1.finished) r hg hdecl hok hg1 hoid hallw
    have hal3 : (markOutputsUnres P step prev (some oid)
        ({ r.1 with dag := g2, finished := (step, prev) :: r.1.finished }, r.2)).1.dead = false :=
      reach_alive (markOutputsUnres_reach (P := P) step prev (some oid) _) hd hg3.nopanic
    rw [onStageCompleteBody_some fns ord step prev oid v complete r hhas hok hhas2 hok2 hal3]
    have hc2 : CoreOK P fns (N0 ∨ hasNMO r.2) ({ r.1 with dag := g2, finished := (step, prev) :: r.1.finished }) [] :=
      (hc1.setDag_resolve (s := { r.1 with dag := g, finished := (step, prev) :: r.1.finished }) hok2 (by decide)
        (stageOutput_not_output hW hoid)).congr rfl rfl rfl rfl (fun x => x)
    have hc3 := markOutputsUnres_core hW step prev (some oid)
      ({ r.1 with dag := g2, finished := (step, prev) :: r.1.finished }, r.2) N0 hc2
    refine finishStage_core hP fns ord hord hall step complete _ N0 ?_
    exact hc3.congr rfl rfl rfl rfl (fun x => x)

theorem react_start_eq (fns : Fns) (ord : Order) (s : LoopState) (input : Val) (hd : s.dead = false)
    {g : Graph String} (hhas : s.dag.pushStarting.has "input" = true)
    (hok : s.dag.pushStarting.resolve "input" St.resolved = .ok g) :
    react P fns ord s (.start input) =
      notifySteps P fns ord (notifyFuel P) ({ s with data := initData P input, dag := g }, []) := by
  simp [react, hd, hhas, hok]

/-- every legal callback keeps the completeness invariant; `start` establishes its graph part -/
theorem react_core (hP : P.WF3) (fns : Fns) (ord : Order) (hord : OrdOK ord) (hnd : OrdNodup ord) (hall : OrdAll ord)
    (s : LoopState) (e : Event) (hi : LoopDagInv P s) (hs : LoopSafeInv P s) (hd : s.dead = false)
    (hl : LegalEvent P s e) (N : Prop) (hout : OutOK P fns N s)
    (hgr : (∃ input, e = Event.start input) ∨ (GrOK P s [] ∧ s.dag.ready = [])) :
    Esc (react P fns ord s e) ∨
      (CoreOK P fns (N ∨ hasNMO (react P fns ord s e).2) (react P fns ord s e).1 [] ∧
        (react P fns ord s e).1.dag.ready = []) := by
  have hW := hP.wf2.wf
  have hg0 : Good P (s, []) := ⟨GSafe.of_inv hi hs, fun _ h => nomatch h⟩
  have hN0 : ∀ {s' : LoopState} {pend : List (String × St)}, CoreOK P fns N s' pend →
      CoreOK P fns (N ∨ hasNMO (([] : List Action))) s' pend :=
    fun h => ⟨h.gr, h.out.mono Or.inl⟩
  cases e with
  | start input =>
    obtain ⟨_, hallw⟩ := hl
    -- the input node exists and can be resolved
    obtain ⟨n0, hn0⟩ := Graph.has_iff.1 hP.has_input
    obtain ⟨n, hn⟩ := Graph.find?_of_ids hi.ids hn0
    have hinv0 : s.dag.pushStarting.Inv := Graph.inv_pushStarting _ hi.inv
    have hnw : n.status = St.waiting := hallw n (Graph.find?_some hn).1
    have hcl : s.dag.pushStarting.RClosed := by
      intro x m hm hms
      rw [hallw m (Graph.find?_some hm).1] at hms; cases hms
    obtain ⟨g, hok, _⟩ := Graph.resolve_ok s.dag.pushStarting hinv0 hcl "input" n .resolved hn hnw (by decide)
      (fun _ => ⟨fun ed he h1 _ => absurd h1 (hP.wf2.input_no_deps ed (hi.edges ▸ he)),
        fun ⟨ed, he, h1, _⟩ => absurd h1 (hP.wf2.input_no_deps ed (hi.edges ▸ he))⟩)
    rw [react_start_eq fns ord s input hd (Graph.has_iff.2 ⟨n, hn⟩) hok]
    have hle := GLe.resolve hinv0 hok
    obtain ⟨hrd, hnode⟩ := Graph.resolve_adv hinv0 hok
    obtain ⟨nid, hnid, hsid⟩ := Graph.resolve_status_self _ _ "input" _ (by decide) hok
    have hgrok : GrOK P ({ s with data := initData P input, dag := g }) [] := by
      refine ⟨⟨hle.inv, hle.edges.trans hi.edges, hle.ids.trans hi.ids⟩, ?_, ?_, (fun _ _ hm => nomatch hm),
        ⟨nid, hnid, hsid⟩, ?_⟩
      · intro x n' hn' _ hwt hsoft
        left
        have hxi : x ≠ "input" := by
          rintro rfl
          rw [hnid] at hn'; cases hn'
          rw [hsid] at hwt; cases hwt
        obtain ⟨m, hm, h1, _⟩ := hnode x n' hn' hxi
        rcases h1 hwt hsoft with h2 | ⟨_, h3⟩
        · exact h2
        · obtain ⟨hmm, hmid⟩ := Graph.find?_some hm
          have := Graph.mem_pushStarting (g := s.dag) hmm h3
          rw [hmid] at this
          exact hrd x this
      · intro x n' hn' hx hu
        left
        have hxi : x ≠ "input" := by
          rintro rfl
          rw [hnid] at hn'; cases hn'
          rw [hsid] at hu; cases hu
        obtain ⟨m, hm, _, h1⟩ := hnode x n' hn' hxi
        rcases h1 hu with h2 | h2
        · exact h2
        · rw [hallw m (Graph.find?_some hm).1] at h2; cases h2
      · refine Graph.resolve_uj hinv0 ?_ hok (fun h => by cases h)
        intro x m hm _ hu
        rw [hallw m (Graph.find?_some hm).1] at hu; cases hu
    have hout0 : OutOK P fns N ({ s with data := initData P input, dag := s.dag.pushStarting }) :=
      ⟨hout.resolved_done, hout.res_node, hout.done_res, hout.wsub, hout.nmo⟩
    have houtok : OutOK P fns N ({ s with data := initData P input, dag := g }) :=
      hout0.resolve hinv0 hok rfl rfl rfl rfl (fun _ ho => absurd ho (input_not_output hP.wf2))
    exact notify_core hP fns ord hord hall _ N (hN0 ⟨hgrok, houtok⟩)
  | stageChange step prev out busy =>
    have hgr2 : GrOK P s [] ∧ s.dag.ready = [] := by
      rcases hgr with ⟨_, h⟩ | h
      · cases h
      · exact h
    clear hgr
    have hc : CoreOK P fns (N ∨ hasNMO (([] : List Action))) s [] := hN0 ⟨hgr2.1, hout⟩
    cases prev with
    | none =>
      have : react P fns ord s (.stageChange step none out busy) = (s, []) := by
        simp [react, hd]
      rw [this]
      exact Or.inr ⟨hc, hgr2.2⟩
    | some p =>
      obtain ⟨hdecl, hw, hand, hnor, hout'⟩ := hl
      rcases onStageCompleteBody_core hP fns ord hord hnd hall step p out false (s, []) hg0 hd hdecl hw hand hnor hout'
          N hc with h1 | ⟨h1, h2⟩
      · left
        have : react P fns ord s (.stageChange step (some p) out busy) =
            checkDeadlock P 3 busy (onStageCompleteBody P fns ord step p out false (s, [])) := by
          simp [react, hd]
        rw [this]
        exact esc_mono (checkDeadlock_reach _ _ _) h1
      · right
        have : react P fns ord s (.stageChange step (some p) out busy) =
            checkDeadlock P 3 busy (onStageCompleteBody P fns ord step p out false (s, [])) := by
          simp [react, hd]
        rw [this]
        obtain ⟨h3, h4⟩ := checkDeadlock_core (P := P) 3 busy _ N [] h1
        exact ⟨h3, by rw [h4]; exact h2⟩
  | stepComplete step prev out busy =>
    have hgr2 : GrOK P s [] ∧ s.dag.ready = [] := by
      rcases hgr with ⟨_, h⟩ | h
      · cases h
      · exact h
    clear hgr
    have hc : CoreOK P fns (N ∨ hasNMO (([] : List Action))) s [] := hN0 ⟨hgr2.1, hout⟩
    obtain ⟨hdecl, hw, hand, hnor, hout'⟩ := hl
    have : react P fns ord s (.stepComplete step prev out busy) =
        checkDeadlock P 3 busy (onStageCompleteBody P fns ord step prev out true (s, [])) := by
      simp [react, hd]
    rw [this]
    rcases onStageCompleteBody_core hP fns ord hord hnd hall step prev out true (s, []) hg0 hd hdecl hw hand hnor hout'
        N hc with h1 | ⟨h1, h2⟩
    · exact Or.inl (esc_mono (checkDeadlock_reach _ _ _) h1)
    · right
      obtain ⟨h3, h4⟩ := checkDeadlock_core (P := P) 3 busy _ N [] h1
      exact ⟨h3, by rw [h4]; exact h2⟩
  | stageFail step stage =>
    have hgr2 : GrOK P s [] ∧ s.dag.ready = [] := by
      rcases hgr with ⟨_, h⟩ | h
      · cases h
      · exact h
    clear hgr
    have hc : CoreOK P fns (N ∨ hasNMO (([] : List Action))) s [] := hN0 ⟨hgr2.1, hout⟩
    obtain ⟨hdecl, _, _⟩ := hl
    have hc2 := markStageUnres_core hW step stage hdecl _ N (markOutputsUnres_core hW step stage none (s, []) N hc)
    have : react P fns ord s (.stageFail step stage) =
        (if (markStageUnres step stage (markOutputsUnres P step stage none (s, []))).1.dead then
          markStageUnres step stage (markOutputsUnres P step stage none (s, []))
         else notifySteps P fns ord (notifyFuel P) (markStageUnres step stage (markOutputsUnres P step stage none (s, [])))) := by
      simp [react, hd]
    rw [this]
    split
    · rename_i hdd
      exact Or.inl (Or.inl hdd)
    · exact notify_core hP fns ord hord hall _ N hc2
  | tick retries busy =>
    have hgr2 : GrOK P s [] ∧ s.dag.ready = [] := by
      rcases hgr with ⟨_, h⟩ | h
      · cases h
      · exact h
    clear hgr
    have hc : CoreOK P fns (N ∨ hasNMO (([] : List Action))) s [] := hN0 ⟨hgr2.1, hout⟩
    have : react P fns ord s (.tick retries busy) =
        (if s.cancelled then (s, []) else checkDeadlock P retries busy (s, [])) := by
      simp [react, hd]
    rw [this]
    split
    · exact Or.inr ⟨hc, hgr2.2⟩
    · obtain ⟨h3, h4⟩ := checkDeadlock_core (P := P) retries busy (s, []) N [] hc
      exact Or.inr ⟨h3, by rw [h4]; exact hgr2.2⟩
  | drain =>
    have hgr2 : GrOK P s [] ∧ s.dag.ready = [] := by
      rcases hgr with ⟨_, h⟩ | h
      · cases h
      · exact h
    clear hgr
    have hc : CoreOK P fns (N ∨ hasNMO (([] : List Action))) s [] := hN0 ⟨hgr2.1, hout⟩
    have : react P fns ord s .drain = ({ s with errs := 0 }, []) := by
      simp [react, hd]
    rw [this]
    exact Or.inr ⟨hc.congr rfl rfl rfl rfl (fun x => x), hgr2.2⟩

end Callback

/-! ### whole histories -/

theorem lookup_mem_items {α : Type} {k : String} {v : α} : ∀ {l : List (String × α)}, lookup k l = some v → (k, v) ∈ l
  | [], h => by cases h
  | (k', v') :: rest, h => by
    simp only [lookup] at h
    split at h
    · rename_i hk
      cases h
      rw [hk]; exact List.mem_cons_self
    · exact List.mem_cons_of_mem _ (lookup_mem_items h)

theorem lookup_of_mem_nodup {α : Type} {k : String} {v : α} : ∀ {l : List (String × α)}, (l.map (·.1)).Nodup →
    (k, v) ∈ l → lookup k l = some v
  | [], _, h => by cases h
  | (k', v') :: rest, hnd, h => by
    simp only [List.map_cons, List.nodup_cons] at hnd
    simp only [lookup]
    rcases List.mem_cons.1 h with h | h
    · cases h
      simp
    · split
      · rename_i hk
        exfalso
        apply hnd.1
        rw [← hk]
        exact List.mem_map.2 ⟨(k, v), h, rfl⟩
      · exact lookup_of_mem_nodup hnd.2 h

theorem mem_initW {P : Prepared} (hP : P.WF3) {x : String} :
    x ∈ (LoopState.init P).waitingOutputs ↔ isOutputNode P x := by
  show x ∈ (P.items.filter (fun p => p.2.kind = .output)).map (·.1) ↔ _
  constructor
  · intro h
    obtain ⟨p, hp, rfl⟩ := List.mem_map.1 h
    rw [List.mem_filter] at hp
    exact ⟨p.2, lookup_of_mem_nodup hP.items_nodup hp.1, by simpa using hp.2⟩
  · rintro ⟨it, hit, hk⟩
    refine List.mem_map.2 ⟨(x, it), ?_, rfl⟩
    rw [List.mem_filter]
    exact ⟨lookup_mem_items hit, by simpa using hk⟩

theorem init_outOK {P : Prepared} (hP : P.WF) (N : Prop) : OutOK P fns N (LoopState.init P) := by
  refine ⟨?_, (fun _ _ h => nomatch h), rfl, fun _ h => h, fun h => Or.inr (Or.inr h)⟩
  rintro x _ ⟨n, hn, hs⟩
  have hn' : P.dag.find? x = some n := hn
  rw [(hP.fresh n (Graph.find?_some hn').1).1] at hs
  cases hs

/-- the invariant of a history, with the actions produced so far -/
def RunOK (P : Prepared) (fns : Fns) (s : LoopState) (acts : List Action) : Prop :=
  hasEF acts ∨ (CoreOK P fns (hasNMO acts) s [] ∧ s.dag.ready = [])

theorem runFrom_core {P : Prepared} (hP : P.WF3) (fns : Fns) (ord : Order) (hord : OrdOK ord) (hnd : OrdNodup ord)
    (hall : OrdAll ord) (h : List Event) :
    ∀ (s : LoopState) (acts0 : List Action), LoopDagInv P s → LoopSafeInv P s → s.dead = false →
      LegalHistory P fns ord s h → RunOK P fns s acts0 →
      RunOK P fns (runFrom P fns ord s h).1 (acts0 ++ (runFrom P fns ord s h).2) := by
  induction h with
  | nil =>
    intro s acts0 _ _ _ _ h0
    simp only [runFrom, List.append_nil]
    exact h0
  | cons e es ih =>
    intro s acts0 hi hs hd hl h0
    obtain ⟨hl1, hl2⟩ := hl
    rw [runFrom_cons_eq]
    obtain ⟨hnp, hs'⟩ := react_legal_no_panic P fns ord hord hnd hP.wf2 s e hi hs hl1
    have hd' : (react P fns ord s e).1.dead = false := by
      cases hdd : (react P fns ord s e).1.dead with
      | false => rfl
      | true =>
        obtain ⟨a, ha, hp⟩ := react_dead_only_by_panic P fns ord s e hd hdd
        rw [hnp a ha] at hp; cases hp
    have hi' := react_dag_inv P fns ord s e hi
    have h1 : RunOK P fns (react P fns ord s e).1 (acts0 ++ (react P fns ord s e).2) := by
      rcases h0 with h0 | ⟨h0, hr0⟩
      · exact Or.inl (hasEF_append.2 (Or.inl h0))
      · rcases react_core hP fns ord hord hnd hall s e hi hs hd hl1 (hasNMO acts0) h0.out (Or.inr ⟨h0.gr, hr0⟩)
          with (h2 | h2) | ⟨h2, h3⟩
        · rw [hd'] at h2; cases h2
        · exact Or.inl (hasEF_append.2 (Or.inr h2))
        · exact Or.inr ⟨⟨h2.gr, h2.out.mono (fun h => hasNMO_append.2 h)⟩, h3⟩
    have := ih _ (acts0 ++ (react P fns ord s e).2) hi' hs' hd' hl2 h1
    simp only [List.append_assoc] at this
    exact this

/-- a legal history that starts with `start` keeps the completeness invariant (and the loop alive) -/
theorem run_core {P : Prepared} (hP : P.WF3) (fns : Fns) (ord : Order) (hord : OrdOK ord) (hnd : OrdNodup ord)
    (hall : OrdAll ord) (input : Val) (rest : List Event)
    (hl : LegalHistory P fns ord (LoopState.init P) (.start input :: rest)) :
    RunOK P fns (run P fns ord (.start input :: rest)).1 (run P fns ord (.start input :: rest)).2 := by
  have hW := hP.wf2.wf
  have hi := init_dag_inv P hW
  have hs := init_safe_inv P hW
  obtain ⟨hl1, hl2⟩ := hl
  show RunOK P fns (runFrom P fns ord (LoopState.init P) (.start input :: rest)).1
    (runFrom P fns ord (LoopState.init P) (.start input :: rest)).2
  rw [runFrom_cons_eq]
  obtain ⟨hnp, hs'⟩ := react_legal_no_panic P fns ord hord hnd hP.wf2 _ _ hi hs hl1
  have hd' : (react P fns ord (LoopState.init P) (.start input)).1.dead = false := by
    cases hdd : (react P fns ord (LoopState.init P) (.start input)).1.dead with
    | false => rfl
    | true =>
      obtain ⟨a, ha, hp⟩ := react_dead_only_by_panic P fns ord _ _ rfl hdd
      rw [hnp a ha] at hp; cases hp
  have hi' := react_dag_inv P fns ord _ (.start input) hi
  have h1 : RunOK P fns (react P fns ord (LoopState.init P) (.start input)).1
      (react P fns ord (LoopState.init P) (.start input)).2 := by
    rcases react_core hP fns ord hord hnd hall _ (.start input) hi hs rfl hl1 False (init_outOK hW False)
        (Or.inl ⟨input, rfl⟩) with (h2 | h2) | ⟨h2, h3⟩
    · rw [hd'] at h2; cases h2
    · exact Or.inl h2
    · exact Or.inr ⟨⟨h2.gr, h2.out.mono (fun h => h.elim False.elim (fun x => x))⟩, h3⟩
  exact runFrom_core hP fns ord hord hnd hall rest _ _ hi' hs' hd' hl2 h1

/-! ### what the invariant says about a finished run -/

/-- with the steps' nodes settled, the ready set empty and nothing pending, every node of the graph is settled -/
theorem all_nodes_settled {P : Prepared} (hP : P.WF3) {N : Prop} {s : LoopState} (hc : CoreOK P fns N s [])
    (hr : s.dag.ready = []) (hstep : ∀ id, IsStepNode P id → Settled s.dag id) : ∀ x, Settled s.dag x := by
  have hW := hP.wf2.wf
  refine Graph.dag_induction hW.inv.edge_nodes hP.acyclic (fun x => Settled s.dag x) ?_
  intro x hpred
  rintro ⟨n, hn, hw⟩
  have hxid := mem_ids_of_find hc.gr.dinv hn
  obtain ⟨n0, hn0, hid0⟩ := List.mem_map.1 hxid
  have hsome := hW.items_nodes n0 hn0
  rw [hid0] at hsome
  obtain ⟨it, hit⟩ := Option.isSome_iff_exists.1 hsome
  have hproc : isProc P x → False := by
    intro hp
    have hout : n.out = [] := by
      refine no_outstanding_of_settled hc.gr.dinv.inv hn ?_
      intro ed he hto
      rw [hc.gr.dinv.edges] at he
      exact hpred ed he hto
    rcases hc.gr.proc x n hn hp hw (by rw [hout]; intro p hp; cases hp) with h1 | h1
    · rw [hr] at h1; cases h1
    · cases h1
  cases hk : it.kind with
  | input =>
    have := hP.input_id x it hit hk
    subst this
    have := statusIs_unique hc.gr.input_done ⟨n, hn, hw⟩
    cases this
  | stage =>
    have hx := hW.stage_id x it hit hk
    exact hstep x ⟨it.step, it.stage, hP.stage_declared x it hit hk, Or.inl hx⟩ ⟨n, hn, hw⟩
  | stageOutput =>
    obtain ⟨hx, ho⟩ := hW.output_id x it hit hk
    exact hstep x ⟨it.step, it.stage, declares_of_mem_outputsOf ho, Or.inr ⟨it.output, ho, hx⟩⟩ ⟨n, hn, hw⟩
  | output => exact hproc (Or.inr ⟨it, hit, hk⟩)
  | group => exact hproc (Or.inl ⟨it, hit, hk⟩)

/-- an output node of a finished run is a node of the graph -/
theorem output_node_find {P : Prepared} (hP : P.WF3) {s : LoopState} (hd : LoopDagInv P s) {x : String}
    (hx : isOutputNode P x) : ∃ n, s.dag.find? x = some n := by
  obtain ⟨it, hit, hk⟩ := hx
  obtain ⟨n0, hn0⟩ := Graph.has_iff.1 (hP.output_is_node x it hit hk)
  exact Graph.find?_of_ids hd.ids hn0

/-- if no output node is resolved and none is waiting, "no more outputs" was reported -/
theorem core_all_failed {P : Prepared} (hP : P.WF3) {N : Prop} {s : LoopState} (hc : CoreOK P fns N s [])
    (hr : s.dag.ready = []) (hall : ∀ x, isOutputNode P x → statusIs s.dag x St.unres) :
    s.result = none ∧ N := by
  have hres : s.result = none := by
    cases hres : s.result with
    | none => rfl
    | some p =>
      obtain ⟨oid, v⟩ := p
      obtain ⟨x, it, d, h1, h2, _, _, h5, _⟩ := hc.out.res_node oid v hres
      have := statusIs_unique h5 (hall x ⟨it, h1, h2⟩)
      cases this
  refine ⟨hres, ?_⟩
  have hw : s.waitingOutputs = [] := by
    rw [List.eq_nil_iff_forall_not_mem]
    intro x hx
    have hxo := (mem_initW hP).1 (hc.out.wsub x hx)
    obtain ⟨n, hn, hs⟩ := hall x hxo
    rcases hc.gr.failed x n hn hxo hs with h1 | h1 | h1
    · rw [hr] at h1; cases h1
    · cases h1
    · exact h1 hx
  rcases hc.out.nmo hw with h1 | h1 | h1
  · rw [hc.out.done_res, hres] at h1; cases h1
  · exact h1
  · exfalso
    obtain ⟨o, it, hit, hk⟩ := hP.has_output
    have := (mem_initW hP).2 ⟨it, hit, hk⟩
    rw [h1] at this; cases this

/-- a finished run has a verdict: an output was produced, or "no more outputs" was reported -/
theorem core_verdict {P : Prepared} (hP : P.WF3) {N : Prop} {s : LoopState} (hc : CoreOK P fns N s [])
    (hr : s.dag.ready = []) (hstep : ∀ id, IsStepNode P id → Settled s.dag id) :
    s.result.isSome = true ∨ N := by
  have hset := all_nodes_settled hP hc hr hstep
  by_cases hex : ∃ x, isOutputNode P x ∧ statusIs s.dag x St.resolved
  · obtain ⟨x, hx, hs⟩ := hex
    left
    rw [← hc.out.done_res]
    exact hc.out.resolved_done x hx hs
  · right
    refine (core_all_failed hP hc hr ?_).2
    intro x hx
    obtain ⟨n, hn⟩ := output_node_find hP hc.gr.dinv hx
    cases hs : n.status with
    | waiting => exact absurd ⟨n, hn, hs⟩ (hset x)
    | resolved => exact absurd ⟨x, hx, n, hn, hs⟩ hex
    | unres => exact ⟨n, hn, hs⟩

/-- `o` can be produced in `g`: its required dependencies are resolved and, if it has alternatives (`or`), one of them is -/
def Producible (P : Prepared) (g : Graph String) (o : String) : Prop :=
  (∀ ed ∈ P.dag.edges, ed.2.1 = o → ed.2.2 = Dep.and → statusIs g ed.1 St.resolved) ∧
  ((∃ ed ∈ P.dag.edges, ed.2.1 = o ∧ ed.2.2 = Dep.or) →
    ∃ ed ∈ P.dag.edges, ed.2.1 = o ∧ ed.2.2 = Dep.or ∧ statusIs g ed.1 St.resolved)

/-- a producible node has no failed required dependency -/
theorem Producible.not_just {P : Prepared} {s : LoopState} (hd : LoopDagInv P s) {o : String}
    (hp : Producible P s.dag o) : ¬ s.dag.Just o := by
  rintro (⟨e, he, h1, h2, m, hm, hs⟩ | ⟨⟨e, he, h1, h2⟩, hall⟩)
  · rw [hd.edges] at he
    have := statusIs_unique (hp.1 e he h1 h2) ⟨m, hm, hs⟩
    cases this
  · rw [hd.edges] at he
    obtain ⟨e', he', h1', h2', hs'⟩ := hp.2 ⟨e, he, h1, h2⟩
    obtain ⟨m, hm, hs⟩ := hall e' (hd.edges ▸ he') h1' h2'
    have := statusIs_unique hs' ⟨m, hm, hs⟩
    cases this

/-- a resolved node is producible (resolved nodes are closed under their required dependencies) -/
theorem producible_of_resolved {P : Prepared} {s : LoopState} (hd : LoopDagInv P s) (hc : ResolvedClosed s.dag)
    {x : String} (hx : statusIs s.dag x St.resolved) : Producible P s.dag x := by
  obtain ⟨n, hn, hs⟩ := hx
  obtain ⟨hnm, hnid⟩ := Graph.find?_some hn
  obtain ⟨hand, hor⟩ := hc n hnm hs
  refine ⟨?_, ?_⟩
  · intro ed he h1 h2
    exact hand ed (hd.edges ▸ he) (h1.trans hnid.symm) h2
  · rintro ⟨ed, he, h1, h2⟩
    obtain ⟨q, hq, hq2⟩ := hor ⟨ed, hd.edges ▸ he, h1.trans hnid.symm, h2⟩
    obtain ⟨d, hde, hok⟩ := hd.inv.res_edge n hnm q hq
    rw [hq2] at hok
    have := entryOk_or_left hok
    subst this
    obtain ⟨m, hm, hms⟩ := hd.inv.res_src_resolved hnm hq
    refine ⟨_, hd.edges ▸ hde, hnid, rfl, m, hm, hms⟩

theorem runFrom_safe {P : Prepared} (hP : P.WF2) (fns : Fns) (ord : Order) (hord : OrdOK ord) (hnd : OrdNodup ord)
    (h : List Event) : ∀ s, LoopDagInv P s → LoopSafeInv P s → s.dead = false → LegalHistory P fns ord s h →
      LoopDagInv P (runFrom P fns ord s h).1 ∧ LoopSafeInv P (runFrom P fns ord s h).1 := by
  induction h with
  | nil => intro s hi hs _ _; exact ⟨hi, hs⟩
  | cons e es ih =>
    intro s hi hs hd hl
    obtain ⟨hl1, hl2⟩ := hl
    rw [runFrom_cons_eq]
    obtain ⟨hnp, hs'⟩ := react_legal_no_panic P fns ord hord hnd hP s e hi hs hl1
    have hd' : (react P fns ord s e).1.dead = false := by
      cases hdd : (react P fns ord s e).1.dead with
      | false => rfl
      | true =>
        obtain ⟨a, ha, hp⟩ := react_dead_only_by_panic P fns ord s e hd hdd
        rw [hnp a ha] at hp; cases hp
    exact ih _ (react_dag_inv P fns ord s e hi) hs' hd' hl2

/-- the stored result is the value of the `output` action of the history -/
theorem run_result_has_action (P : Prepared) (fns : Fns) (ord : Order) (h : List Event) (oid : String) (v : Val)
    (hres : (run P fns ord h).1.result = some (oid, v)) : Action.output oid v ∈ (run P fns ord h).2 := by
  have h1 := (runFrom_result P fns ord h (LoopState.init P) rfl).1
  have h2 := runFrom_output_count P fns ord h (LoopState.init P)
  have hdone : (run P fns ord h).1.outputDone = true := by
    show (runFrom P fns ord (LoopState.init P) h).1.outputDone = true
    rw [h1]
    show (run P fns ord h).1.result.isSome = true
    rw [hres]; rfl
  have hcnt : countP Action.isOutput (run P fns ord h).2 = 1 := by
    have : (runFrom P fns ord (LoopState.init P) h).1.outputDone = true := hdone
    rw [this] at h2
    have h3 : b2n (LoopState.init P).outputDone = 0 := rfl
    rw [h3] at h2
    exact h2
  unfold countP at hcnt
  have : ∃ a, a ∈ (run P fns ord h).2.filter Action.isOutput := by
    cases hf : (run P fns ord h).2.filter Action.isOutput with
    | nil => rw [hf] at hcnt; cases hcnt
    | cons a _ => exact ⟨a, List.mem_cons_self⟩
  obtain ⟨a, ha⟩ := this
  rw [List.mem_filter] at ha
  obtain ⟨ham, hao⟩ := ha
  cases a with
  | output id' v' =>
    have := run_result P fns ord h id' v' ham
    rw [hres] at this
    cases this
    exact ham
  | _ => cases hao

end Arca.Model
