/-
Helper lemmas for C13: termination measure, progress (no reachable state is stuck before every item goroutine has
finished) and the existence of a completing schedule from every reachable state.
-/
import Arca.Proofs.ForeachInv

namespace Arca.Model.ForeachPool

variable {α β : Type}

/-! ### enabled transitions fire -/

theorem step_acquire_some {P : Pool α β} {s : PoolState α β} {i : Nat} {a : α} (ha : P.xs[i]? = some a)
    (hok : acquireOk P s i) :
    step P s (.acquire i) =
      some { s with phase := s.phase.set i .running, sem := s.sem + 1, started := s.started ++ [(i, a)] } := by
  simp [step, ha, hok]

theorem step_finish_some {P : Pool α β} {s : PoolState α β} {i : Nat} {a : α} (ha : P.xs[i]? = some a)
    (hok : finishOk s i) : ∃ s', step P s (.finish i) = some s' := by
  simp [step, ha, hok]

theorem step_abort_some {P : Pool α β} {s : PoolState α β} {i : Nat} (hok : abortOk s i) :
    ∃ s', step P s (.abort i) = some s' := by
  simp [step, hok]

/-! ### every transition decreases the measure -/

theorem measure_step {P : Pool α β} {s s' : PoolState α β} {t : Tr} (h : step P s t = some s') :
    measure s' < measure s := by
  cases t with
  | acquire i =>
    simp only [step] at h
    split at h
    · cases h
    · split at h
      · rename_i hok
        cases h
        have h1 := countP_set_of_getElem? (p := isRunning) (b := .running) hok.1
        have h2 := countP_set_of_getElem? (p := isPending) (b := .running) hok.1
        simp [isRunning, isPending] at h1 h2
        simp only [measure, running, pendingCount]
        omega
      · cases h
  | finish i =>
    simp only [step] at h
    split at h
    · cases h
    · split at h
      · rename_i hok
        cases h
        have h1 := countP_set_of_getElem? (p := isRunning) (b := .done) hok.1
        have h2 := countP_set_of_getElem? (p := isPending) (b := .done) hok.1
        simp [isRunning, isPending] at h1 h2
        simp only [measure, running, pendingCount, store_phase, store_cancelled]
        omega
      · cases h
  | cancel =>
    simp only [step] at h
    split at h
    · cases h
    · rename_i hc
      cases h
      simp only [measure, running, pendingCount]
      simp [hc]
  | abort i =>
    simp only [step] at h
    split at h
    · rename_i hok
      cases h
      have h1 := countP_set_of_getElem? (p := isRunning) (b := .aborted) hok.1
      have h2 := countP_set_of_getElem? (p := isPending) (b := .aborted) hok.1
      simp [isRunning, isPending] at h1 h2
      simp only [measure, running, pendingCount]
      omega
    · cases h

theorem measure_runSched {P : Pool α β} {s s' : PoolState α β} {sched : List Tr}
    (h : runSched P s sched = some s') : sched.length + measure s' ≤ measure s := by
  induction sched generalizing s with
  | nil => simp [runSched] at h; subst h; simp
  | cons t ts ih =>
    simp only [runSched] at h
    split at h
    · cases h
    · rename_i s1 h1
      have := ih h
      have := measure_step h1
      simp only [List.length_cons]; omega

theorem measure_init (P : Pool α β) : measure (init P) = 2 * P.n + 1 := by
  simp [measure, init, pendingCount, running, List.countP_replicate, isPending, isRunning]

/-! ### progress -/

theorem not_final_cases {ph : Phase} (h : isFinal ph = false) : ph = .pending ∨ ph = .running := by
  cases ph <;> simp [isFinal] at h <;> simp

/-- In a reachable state in which some goroutine has not finished, some goroutine can move (the pool cannot deadlock):
    a running item can always finish (it holds a token, so its `<-sem` never blocks), and if nothing is running a pending
    item can take a slot (or leave, if cancelled). -/
theorem progress {P : Pool α β} {s : PoolState α β} (hp : 1 ≤ P.p) (hI : Inv P s) (hnd : allDone s = false) :
    ∃ t s', t ≠ Tr.cancel ∧ step P s t = some s' := by
  have hx : ∀ {i : Nat} {ph : Phase}, s.phase[i]? = some ph → ∃ a, P.xs[i]? = some a := by
    intro i ph h
    have hi := lt_of_phase hI h
    exact ⟨P.xs[i]'hi, List.getElem?_eq_getElem hi⟩
  by_cases hr : 0 < running s
  · obtain ⟨i, ph, hph, hrun⟩ := exists_index_of_countP_pos hr
    have : ph = .running := by cases ph <;> simp [isRunning] at hrun; rfl
    subst this
    obtain ⟨a, ha⟩ := hx hph
    have hrs := hI.semRunning
    have hok : finishOk s i := ⟨hph, by omega⟩
    obtain ⟨s', hs'⟩ := step_finish_some (P := P) ha hok
    exact ⟨_, s', by simp, hs'⟩
  · have hr0 : running s = 0 := by omega
    -- some item is not final, and it is not running: it is pending
    have : ∃ ph ∈ s.phase, isFinal ph = false := by
      simp only [allDone] at hnd
      have := List.all_eq_false.mp hnd
      obtain ⟨x, hx1, hx2⟩ := this
      exact ⟨x, hx1, by simpa using hx2⟩
    obtain ⟨ph, hm, hf⟩ := this
    obtain ⟨i, hph⟩ := List.getElem?_of_mem hm
    have hpend : ph = .pending := by
      rcases not_final_cases hf with h | h
      · exact h
      · subst h
        have : 0 < running s := List.countP_pos_iff.mpr ⟨.running, hm, rfl⟩
        omega
    subst hpend
    obtain ⟨a, ha⟩ := hx hph
    cases hc : s.cancelled
    · have hrs := hI.semRunning
      have hok : acquireOk P s i := ⟨hph, by omega⟩
      exact ⟨_, _, by simp, step_acquire_some ha hok⟩
    · have hok : abortOk s i := ⟨hph, hc⟩
      obtain ⟨s', hs'⟩ := step_abort_some (P := P) hok
      exact ⟨_, s', by simp, hs'⟩

/-- From every state satisfying the invariant there is a schedule without `cancel` after which `wg.Wait()` returns. -/
theorem exists_completion {P : Pool α β} (hp : 1 ≤ P.p) :
    ∀ (m : Nat) (s : PoolState α β), measure s ≤ m → Inv P s →
      ∃ sched s', (∀ t ∈ sched, t ≠ Tr.cancel) ∧ runSched P s sched = some s' ∧ allDone s' = true := by
  intro m
  induction m with
  | zero =>
    intro s hm hI
    cases hd : allDone s
    · obtain ⟨t, s1, _, h1⟩ := progress hp hI hd
      have := measure_step h1
      omega
    · exact ⟨[], s, by simp, rfl, hd⟩
  | succ m ih =>
    intro s hm hI
    cases hd : allDone s
    · obtain ⟨t, s1, hne, h1⟩ := progress hp hI hd
      have hlt := measure_step h1
      obtain ⟨sched, s', hnc, hrun, hdone⟩ := ih s1 (by omega) (inv_step hI h1)
      refine ⟨t :: sched, s', ?_, ?_, hdone⟩
      · intro t' ht'
        rcases List.mem_cons.mp ht' with h | h
        · subst h; exact hne
        · exact hnc t' h
      · simp [runSched, h1, hrun]
    · exact ⟨[], s, by simp, rfl, hd⟩

/-- a schedule without `cancel` started in an uncancelled state ends in an uncancelled state -/
theorem uncancelled_runSched {P : Pool α β} {s s' : PoolState α β} {sched : List Tr}
    (h : runSched P s sched = some s') (hc : s.cancelled = false) (hn : ∀ t ∈ sched, t ≠ Tr.cancel) :
    s'.cancelled = false := by
  induction sched generalizing s with
  | nil => simp [runSched] at h; subst h; exact hc
  | cons t ts ih =>
    simp only [runSched] at h
    split at h
    · cases h
    · rename_i s1 h1
      refine ih h ?_ (fun t' ht' => hn t' (List.mem_cons_of_mem _ ht'))
      have hne := hn t (List.mem_cons_self)
      cases t with
      | cancel => exact absurd rfl hne
      | acquire i =>
        simp only [step] at h1
        split at h1
        · cases h1
        · split at h1
          · cases h1; exact hc
          · cases h1
      | finish i =>
        simp only [step] at h1
        split at h1
        · cases h1
        · split at h1
          · cases h1; simp [hc]
          · cases h1
      | abort i =>
        simp only [step] at h1
        split at h1
        · cases h1; exact hc
        · cases h1

theorem runSched_append {P : Pool α β} {s s1 : PoolState α β} {a b : List Tr} (h : runSched P s a = some s1) :
    runSched P s (a ++ b) = runSched P s1 b := by
  induction a generalizing s with
  | nil => simp [runSched] at h; subst h; rfl
  | cons t ts ih =>
    simp only [runSched, List.cons_append] at h ⊢
    split at h
    · cases h
    · rename_i s2 h2
      exact ih h

end Arca.Model.ForeachPool
