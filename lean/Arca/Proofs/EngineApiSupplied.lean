/-
Helper lemmas for C20 (Arca/Props/C20.lean): references followed by key — `checkSubworkflowCycles` and the part of
`subworkflowCache` that follows the files the caller supplied.
-/
import Arca.Proofs.EngineApiParse

namespace Arca.Proofs.EngineApi
open Arca.Model.EngineApi

/-! ### references by key -/

/-- `Contents()` of a cache, read by key -/
theorem lookup_contents (k : String) (fs : Files) :
    lookup k (fs.map (fun kv => (kv.1, kv.2.content))) = (getFile k fs).map (·.content) := by
  induction fs with
  | nil => rfl
  | cons hd tl ih =>
    obtain ⟨a, b⟩ := hd
    simp only [List.map_cons, lookup, getFile]
    by_cases h : a = k
    · simp [h]
    · simp only [h, if_false]
      exact ih

/-- key `q` is referenced from `wf`: by one of its foreach steps, or by one of a file so referenced that is among the
    contents `look` and converts, … (a key without content is not followed) -/
inductive KeyReach (fromYAML : String → Option Wf) (look : String → Option String) : Wf → String → Prop where
  | direct {wf : Wf} {q : String} : q ∈ wf.refs → KeyReach fromYAML look wf q
  | trans {wf w : Wf} {p q c : String} : p ∈ wf.refs → look p = some c → fromYAML c = some w →
      KeyReach fromYAML look w q → KeyReach fromYAML look wf q

/-- the content of key `q` is a workflow that references key `q` again, directly or through other files -/
def OnCycle (fromYAML : String → Option Wf) (look : String → Option String) (q : String) : Prop :=
  ∃ c w, look q = some c ∧ fromYAML c = some w ∧ KeyReach fromYAML look w q

/-- the errors of following references: a cycle, a file that does not convert, or the fuel of the model -/
def FollowErr (e : Err) : Prop := e = .selfReference ∨ e = .yaml ∨ e = .tooDeep

/-! ### folds over `Except` accumulators -/

theorem foldl_error {α ε β : Type} (F : Except ε β → α → Except ε β) (hF : ∀ e a, F (.error e) a = .error e)
    (l : List α) (e : ε) : l.foldl F (.error e) = .error e := by
  induction l with
  | nil => rfl
  | cons x r ih => simp only [List.foldl_cons, hF, ih]

theorem visitRef_error (fromYAML : String → Option Wf) (contents : List (String × String))
    (recur : Wf → List String → Except Err Unit) (parents : List String) (e : Err) (p : String) :
    visitRef fromYAML contents recur parents (.error e) p = .error e := rfl

/-- the loop of `checkSubworkflowCycles` ends without error exactly when every iteration does -/
theorem foldl_visitRef_ok (fromYAML : String → Option Wf) (contents : List (String × String))
    (recur : Wf → List String → Except Err Unit) (parents : List String) (l : List String) :
    l.foldl (visitRef fromYAML contents recur parents) (.ok ()) = .ok () ↔
      ∀ p ∈ l, visitRef fromYAML contents recur parents (.ok ()) p = .ok () := by
  induction l with
  | nil => simp
  | cons x r ih =>
    simp only [List.foldl_cons, List.mem_cons, forall_eq_or_imp]
    cases hx : visitRef fromYAML contents recur parents (.ok ()) x with
    | error e =>
      rw [foldl_error _ (visitRef_error fromYAML contents recur parents)]
      simp
    | ok u =>
      cases u
      rw [ih]
      simp

/-- an error of the loop is the error of one of its iterations -/
theorem foldl_visitRef_error (fromYAML : String → Option Wf) (contents : List (String × String))
    (recur : Wf → List String → Except Err Unit) (parents : List String) (l : List String) (e : Err)
    (h : l.foldl (visitRef fromYAML contents recur parents) (.ok ()) = .error e) :
    ∃ p ∈ l, visitRef fromYAML contents recur parents (.ok ()) p = .error e := by
  induction l with
  | nil => cases h
  | cons x r ih =>
    simp only [List.foldl_cons] at h
    cases hx : visitRef fromYAML contents recur parents (.ok ()) x with
    | error e' =>
      rw [hx, foldl_error _ (visitRef_error fromYAML contents recur parents)] at h
      cases h
      exact ⟨x, List.mem_cons_self, hx⟩
    | ok u =>
      cases u
      rw [hx] at h
      obtain ⟨p, hp, hv⟩ := ih h
      exact ⟨p, List.mem_cons_of_mem _ hp, hv⟩

/-- one iteration without error: the key is not in the chain, and either has no content or converts and the recursive
    call returns no error -/
theorem visitRef_ok {fromYAML : String → Option Wf} {contents : List (String × String)}
    {recur : Wf → List String → Except Err Unit} {parents : List String} {p : String}
    (h : visitRef fromYAML contents recur parents (.ok ()) p = .ok ()) :
    ¬ p ∈ parents ∧ (lookup p contents = none ∨
      ∃ c w, lookup p contents = some c ∧ fromYAML c = some w ∧ recur w (parents ++ [p]) = .ok ()) := by
  simp only [visitRef] at h
  split at h
  · cases h
  · rename_i hc
    refine ⟨by simpa using hc, ?_⟩
    split at h
    · exact Or.inl (by assumption)
    · rename_i c hl
      split at h
      · cases h
      · rename_i w hw
        exact Or.inr ⟨c, w, hl, hw, h⟩

/-! ### `checkSubworkflowCycles` -/

/-- Soundness: when the check returns no error, no key referenced from `wf` is in the chain or on a reference cycle. -/
theorem checkCycles_sound (fromYAML : String → Option Wf) (contents : List (String × String)) (fuel : Nat) :
    ∀ (wf : Wf) (parents : List String), checkCycles fromYAML fuel wf contents parents = .ok () →
      ∀ q, KeyReach fromYAML (fun k => lookup k contents) wf q →
        ¬ q ∈ parents ∧ ¬ OnCycle fromYAML (fun k => lookup k contents) q := by
  induction fuel with
  | zero => intro wf parents h; simp [checkCycles] at h
  | succ n ih =>
    intro wf parents h q hq
    simp only [checkCycles] at h
    have hall := (foldl_visitRef_ok _ _ _ _ _).mp h
    cases hq with
    | direct hmem =>
      obtain ⟨hnp, hrest⟩ := visitRef_ok (hall q hmem)
      refine ⟨hnp, ?_⟩
      rintro ⟨c, w, hl, hw, hreach⟩
      rcases hrest with hnone | ⟨c', w', hl', hw', hrec⟩
      · simp only [hnone] at hl
        cases hl
      · simp only [hl'] at hl
        cases hl
        rw [hw'] at hw
        cases hw
        exact (ih _ _ hrec q hreach).1 (by simp)
    | trans hmem hl hw hreach =>
      rename_i w p c
      obtain ⟨_, hrest⟩ := visitRef_ok (hall p hmem)
      rcases hrest with hnone | ⟨c', w', hl', hw', hrec⟩
      · simp only [hnone] at hl
        cases hl
      · simp only [hl'] at hl
        cases hl
        rw [hw'] at hw
        cases hw
        obtain ⟨h₁, h₂⟩ := ih _ _ hrec q hreach
        exact ⟨fun hm => h₁ (by simp [hm]), h₂⟩

/-- the check returns nothing but a cycle, a file that does not convert, or the model's fuel -/
theorem checkCycles_error_kind (fromYAML : String → Option Wf) (contents : List (String × String)) (fuel : Nat) :
    ∀ (wf : Wf) (parents : List String) (e : Err), checkCycles fromYAML fuel wf contents parents = .error e →
      FollowErr e := by
  induction fuel with
  | zero =>
    intro wf parents e h
    simp only [checkCycles, Except.error.injEq] at h
    exact Or.inr (Or.inr h.symm)
  | succ n ih =>
    intro wf parents e h
    simp only [checkCycles] at h
    obtain ⟨p, _, hv⟩ := foldl_visitRef_error _ _ _ _ _ _ h
    simp only [visitRef] at hv
    split at hv
    · cases hv
      exact Or.inl rfl
    · split at hv
      · cases hv
      · split at hv
        · cases hv
          exact Or.inr (Or.inl rfl)
        · exact ih _ _ _ hv

/-- the files reachable from `wf` convert, and `rank` decreases along every reference between them: no cycle -/
def Ranked (fromYAML : String → Option Wf) (look : String → Option String) (rank : String → Nat) (wf : Wf) : Prop :=
  ∀ q c, KeyReach fromYAML look wf q → look q = some c →
    ∃ w, fromYAML c = some w ∧ ∀ r ∈ w.refs, rank r < rank q

theorem Ranked.sub {fromYAML : String → Option Wf} {look : String → Option String} {rank : String → Nat} {wf w : Wf}
    {p c : String} (h : Ranked fromYAML look rank wf) (hp : p ∈ wf.refs) (hl : look p = some c)
    (hw : fromYAML c = some w) : Ranked fromYAML look rank w :=
  fun q c' hq hl' => h q c' (.trans hp hl hw hq) hl'

/-- Completeness: the check returns no error when the reachable files convert, `rank` decreases along the references
    and the fuel exceeds the ranks (every key of the chain ranks at least as high as the bound `n` of the references
    of `wf`, as the ancestors of a file do). -/
theorem checkCycles_complete (fromYAML : String → Option Wf) (contents : List (String × String)) (rank : String → Nat)
    (fuel : Nat) : ∀ (wf : Wf) (parents : List String) (n : Nat),
      Ranked fromYAML (fun k => lookup k contents) rank wf → (∀ r ∈ wf.refs, rank r < n) → n < fuel →
      (∀ p ∈ parents, n ≤ rank p) → checkCycles fromYAML fuel wf contents parents = .ok () := by
  induction fuel with
  | zero => intro wf parents n _ _ h; omega
  | succ f ih =>
    intro wf parents n hr hn hf hp
    simp only [checkCycles]
    rw [foldl_visitRef_ok]
    intro p hmem
    have hnp : ¬ p ∈ parents := fun hm => by
      have := hp p hm
      have := hn p hmem
      omega
    simp only [visitRef]
    rw [if_neg (by simpa using hnp)]
    cases hl : lookup p contents with
    | none => rfl
    | some c =>
      obtain ⟨w, hw, hrank⟩ := hr p c (.direct hmem) hl
      simp only [hw]
      apply ih w (parents ++ [p]) (rank p) (hr.sub hmem hl hw) hrank
      · have := hn p hmem
        omega
      · intro p' hp'
        rcases List.mem_append.mp hp' with h | h
        · have := hp p' h
          have := hn p hmem
          omega
        · simp only [List.mem_singleton] at h
          subst h
          exact Nat.le_refl _

/-! ### discovery when the caller supplies the files -/

section
variable {P I D : Type}

/-- the caller's cache has an entry for every key referenced from `wf` through the files it supplies -/
def SuppliesAll (fromYAML : String → Option Wf) (files : FileCache) (wf : Wf) : Prop :=
  ∀ q, KeyReach fromYAML (fun k => lookup k files.contents) wf q → ∃ v, getFile q files.files = some v

theorem SuppliesAll.sub {fromYAML : String → Option Wf} {files : FileCache} {wf w : Wf} {p : String} {v : CtxFile}
    (h : SuppliesAll fromYAML files wf) (hp : p ∈ wf.refs) (hg : getFile p files.files = some v)
    (hw : fromYAML v.content = some w) : SuppliesAll fromYAML files w :=
  fun q hq => h q (.trans hp (by
    show lookup p files.contents = some v.content
    rw [FileCache.contents, lookup_contents, hg]
    rfl) hw hq)

/-- two folds over the same list whose accumulators stay related -/
theorem foldl_rel {α β γ : Type} (F : β → α → β) (G : γ → α → γ) (R : β → γ → Prop) (l : List α)
    (h : ∀ a ∈ l, ∀ b c, R b c → R (F b a) (G c a)) : ∀ b c, R b c → R (l.foldl F b) (l.foldl G c) := by
  induction l with
  | nil => intro b c hbc; exact hbc
  | cons x r ih =>
    intro b c hbc
    simp only [List.foldl_cons]
    exact ih (fun a ha => h a (List.mem_cons_of_mem _ ha)) _ _ (h x List.mem_cons_self b c hbc)

/-- the discovery collected nothing and reports what the cycle check reports -/
def SameOutcome (a : Except Err (List (Option FileCache))) (b : Except Err Unit) : Prop :=
  (a = .ok [] ∧ b = .ok ()) ∨ ∃ e, a = .error e ∧ b = .error e

/-- For a cache that supplies every (transitively) referenced file, sub-workflow discovery is the cycle check on the
    contents of that cache: it loads nothing (the right-hand side mentions neither the file system nor `filepath.Abs`),
    collects nothing, and returns the error of the check if there is one. -/
theorem supplied_discovery_is_cycle_check (env : Env P I D) (files : FileCache) (rootDir : String) (fuel : Nat) :
    ∀ (wf : Wf) (parents : List String), SuppliesAll env.fromYAML files wf →
      subworkflowCache env fuel wf rootDir [] parents (some files) =
        match checkCycles env.fromYAML fuel wf files.contents parents with
        | .ok () => .ok none
        | .error e => .error e := by
  induction fuel with
  | zero => intro wf parents _; rfl
  | succ n ih =>
    intro wf parents hsup
    have hrel := foldl_rel
      (visitSupplied env files (fun w c p => subworkflowCache env n w rootDir c p (some files)) parents)
      (visitRef env.fromYAML files.contents (fun w p => checkCycles env.fromYAML n w files.contents p) parents)
      SameOutcome wf.refs
      (by
        intro path hmem b c hbc
        rcases hbc with ⟨hb, hc⟩ | ⟨e, hb, hc⟩
        · subst hb hc
          obtain ⟨v, hv⟩ := hsup path (.direct hmem)
          have hl : lookup path files.contents = some v.content := by
            rw [FileCache.contents, lookup_contents, hv]
            rfl
          simp only [visitSupplied, visitRef, hv, hl]
          split
          · exact Or.inr ⟨_, rfl, rfl⟩
          · cases hw : env.fromYAML v.content with
            | none => exact Or.inr ⟨_, rfl, rfl⟩
            | some w =>
              simp only []
              rw [ih w (parents ++ [path]) (hsup.sub hmem hv hw)]
              cases checkCycles env.fromYAML n w files.contents (parents ++ [path]) with
              | error e => exact Or.inr ⟨e, rfl, rfl⟩
              | ok u =>
                cases u
                exact Or.inl ⟨rfl, rfl⟩
        · subst hb hc
          exact Or.inr ⟨e, rfl, rfl⟩)
      (.ok []) (.ok ()) (Or.inl ⟨rfl, rfl⟩)
    have hrem : remaining (some files) wf.refs = [] := by
      simp only [remaining, List.filter_eq_nil_iff]
      intro p hp
      obtain ⟨v, hv⟩ := hsup p (.direct hp)
      simp [hv]
    simp only [subworkflowCache, suppliedLoop, checkCycles, hrem]
    rcases hrel with ⟨ha, hb⟩ | ⟨e, ha, hb⟩
    · rw [ha, hb]
      rfl
    · rw [ha, hb]

/-- the exported `SubworkflowCache` (no supplied files) loads every referenced file: without the files on disk it fails -/
theorem subworkflowCache_without_supplied_reads_disk (env : Env P I D) (fuel : Nat) (wf : Wf) (rootDir : String)
    (caches : List (Option FileCache)) (parents : List String) (hrefs : wf.refs ≠ [])
    (hdisk : ∀ p, env.readFile p = none) :
    subworkflowCache env (fuel + 1) wf rootDir caches parents none = .error .readError := by
  have hload : loadCache env rootDir wf.refs = .error .readError := by
    cases hr : wf.refs with
    | nil => exact absurd hr hrefs
    | cons f r =>
      have hstep : loadCache env rootDir (f :: r) =
          (match loadCache env rootDir r with
            | .error e => .error e
            | .ok fc =>
              match env.readFile (resolve env (env.abs rootDir) f) with
              | none => .error .readError
              | some c =>
                .ok { fc with files := putFile f { id := f, absPath := resolve env (env.abs rootDir) f, content := c } fc.files }) := rfl
      rw [hstep, hdisk]
      have : ∀ l, loadCache env rootDir l = .error .readError ∨ ∃ fc, loadCache env rootDir l = .ok fc := by
        intro l
        induction l with
        | nil => exact Or.inr ⟨_, rfl⟩
        | cons x xs ihx =>
          have hx : loadCache env rootDir (x :: xs) =
              (match loadCache env rootDir xs with
                | .error e => .error e
                | .ok fc =>
                  match env.readFile (resolve env (env.abs rootDir) x) with
                  | none => .error .readError
                  | some c =>
                    .ok { fc with files := putFile x { id := x, absPath := resolve env (env.abs rootDir) x, content := c } fc.files }) := rfl
          rw [hx, hdisk]
          rcases ihx with h | ⟨fc, h⟩ <;> simp [h]
      rcases this r with h | ⟨fc, h⟩ <;> simp [h]
  have hne : wf.refs.isEmpty = false := by
    cases hr : wf.refs with
    | nil => exact absurd hr hrefs
    | cons f r => rfl
  simp [subworkflowCache, suppliedLoop, remaining, hne, hload]

end

end Arca.Proofs.EngineApi
