/-
Helper lemmas for C16, part 4: the operation sequence of a reordered workflow runs through iff the original one does.

`Wf.ops` consists of three phases of blocks (one block of node operations per step, one block of edge / field operations
per step, one block per workflow output).  The blocks satisfy the hypotheses of `phase_perm`: their edges connect nodes
created in an earlier phase or in the same block, and edges of different blocks have different targets.
-/
import Arca.Model.Prepare
import Arca.Proofs.PrepareOrder

set_option linter.unusedSectionVars false
set_option linter.unusedVariables false

namespace Arca.Model
open Arca.Gen (StageRow)

/-! ### closure of the blocks -/

/-- the edges made while walking one root value connect resolved references or nodes created during the same walk to
the root's node or nodes created during the same walk -/
theorem opsIn_closed {R : Resolver} {c : NodeId} {a0 : AIn} {x y : NodeId} {d : Dep} {t : Bool}
    (h : Op.edge x y d t ∈ opsIn R c [] a0) :
    ((∃ p, R p = .ok x) ∨ Op.node x ∈ opsIn R c [] a0) ∧ (y = c ∨ Op.node y ∈ opsIn R c [] a0) := by
  rw [opsIn_eq] at h ⊢
  obtain ⟨σ, hσ, hs⟩ := List.mem_flatMap.1 h
  have lift : ∀ {n τ}, τ ∈ sites c [] a0 → Op.node n ∈ siteOps R τ →
      Op.node n ∈ (sites c [] a0).flatMap (siteOps R) := fun hτ hn => List.mem_flatMap.2 ⟨_, hτ, hn⟩
  constructor
  · rcases siteOps_edge_class hs with ⟨_, _, hp⟩ | ⟨_, _, hn⟩
    · exact Or.inl hp
    · exact Or.inr (lift hσ hn)
  · have hc := sites_coord c [] a0 σ hσ
    rcases siteOps_edge_target hs with ht | ⟨_, hn⟩
    · cases σ with
      | val cur path v =>
        simp only at ht
        subst ht
        rcases hc with hc | ⟨g, k, hc, hopt⟩
        · exact Or.inl hc
        · subst hc
          exact Or.inr (lift hopt (by simp [siteOps, optionHead]))
      | opt g k =>
        simp only at ht
        subst ht
        obtain ⟨c', p', d', opts, hg, hone, hne⟩ := hc
        subst hg
        have : opts.isEmpty = false := by
          cases opts with
          | nil => exact absurd rfl hne
          | cons _ _ => rfl
        exact Or.inr (lift hone (by simp [siteOps, this]))
    · exact Or.inr (lift hσ hn)

/-- nodes a reference can resolve to are created before the second phase -/
theorem resolve_node_phase1 {po : List String} {wf : Wf} {p : List String} {a : NodeId}
    (h : wf.resolve po p = .ok a) :
    Op.node a ∈ [Op.node .input] ++ wf.steps.flatMap (stepNodeOps po) := by
  simp only [List.mem_append, List.mem_singleton, List.mem_flatMap, stepNodeOps]
  rcases resolve_ok h with rfl | ⟨s, hs, row, hrow, rfl⟩ | ⟨s, hs, row, hrow, o, ho, rfl⟩
  · exact Or.inl rfl
  · exact Or.inr ⟨s, hs, row, hrow, mem_rowNodeOps.2 (Or.inl rfl)⟩
  · exact Or.inr ⟨s, hs, row, hrow, mem_rowNodeOps.2 (Or.inr ⟨o, ho, Or.inl rfl⟩)⟩

theorem stepNodeOps_closed {po : List String} {s : Step} {a b : NodeId} {d : Dep} {t : Bool}
    (h : Op.edge a b d t ∈ stepNodeOps po s) : Op.node a ∈ stepNodeOps po s ∧ Op.node b ∈ stepNodeOps po s := by
  unfold stepNodeOps at h ⊢
  obtain ⟨row, hrow, h1⟩ := List.mem_flatMap.1 h
  rcases mem_rowNodeOps.1 h1 with h2 | ⟨o, ho, h2 | h2⟩
  · cases h2
  · cases h2
  · cases h2
    exact ⟨List.mem_flatMap.2 ⟨row, hrow, mem_rowNodeOps.2 (Or.inl rfl)⟩,
      List.mem_flatMap.2 ⟨row, hrow, mem_rowNodeOps.2 (Or.inr ⟨o, ho, Or.inl rfl⟩)⟩⟩

/-- second phase: sources are phase-1 nodes or nodes of the same block; targets are nodes of the SAME step -/
theorem stepEdgeOps_closed {po : List String} {wf : Wf} {s : Step} (hs : s ∈ wf.steps) {a b : NodeId} {d : Dep}
    {t : Bool} (h : Op.edge a b d t ∈ stepEdgeOps (wf.resolve po) s) :
    (Op.node a ∈ [Op.node .input] ++ wf.steps.flatMap (stepNodeOps po) ∨ Op.node a ∈ stepEdgeOps (wf.resolve po) s) ∧
    (Op.node b ∈ stepNodeOps po s ∨ Op.node b ∈ stepEdgeOps (wf.resolve po) s) := by
  have inN : ∀ row ∈ rowsOf s.kind, Op.node (.stage s.id row.id) ∈ stepNodeOps po s := by
    intro row hrow
    unfold stepNodeOps
    exact List.mem_flatMap.2 ⟨row, hrow, mem_rowNodeOps.2 (Or.inl rfl)⟩
  have inP : ∀ n, Op.node n ∈ stepNodeOps po s →
      Op.node n ∈ [Op.node .input] ++ wf.steps.flatMap (stepNodeOps po) :=
    fun n hn => List.mem_append_right _ (List.mem_flatMap.2 ⟨s, hs, hn⟩)
  rcases mem_stepEdgeOps.1 h with ⟨row, hrow, nd, hnd, h1⟩ | ⟨row, hrow, f, hf, a0, ha0, hop⟩
  · cases h1
    obtain ⟨row', hrow', hid⟩ := next_is_row s.kind row hrow nd hnd
    exact ⟨Or.inl (inP _ (inN row hrow)), Or.inl (by rw [← hid]; exact inN row' hrow')⟩
  · have lift : ∀ n, Op.node n ∈ opsIn (wf.resolve po) (.stage s.id row.id) [] a0 →
        Op.node n ∈ stepEdgeOps (wf.resolve po) s :=
      fun n hn => mem_stepEdgeOps.2 (Or.inr ⟨row, hrow, f, hf, a0, ha0, hn⟩)
    obtain ⟨hx, hy⟩ := opsIn_closed hop
    constructor
    · rcases hx with ⟨p, hp⟩ | hn
      · exact Or.inl (resolve_node_phase1 hp)
      · exact Or.inr (lift _ hn)
    · rcases hy with rfl | hn
      · exact Or.inl (inN row hrow)
      · exact Or.inr (lift _ hn)

/-- third phase: sources are phase-1 nodes or nodes of the same block; targets are nodes of the same block -/
theorem outputOps_closed {po : List String} {wf : Wf} {o : String × AIn} {a b : NodeId} {d : Dep} {t : Bool}
    (h : Op.edge a b d t ∈ outputOps (wf.resolve po) o) :
    (Op.node a ∈ [Op.node .input] ++ wf.steps.flatMap (stepNodeOps po) ∨ Op.node a ∈ outputOps (wf.resolve po) o) ∧
    Op.node b ∈ outputOps (wf.resolve po) o := by
  unfold outputOps at h ⊢
  rcases List.mem_cons.1 h with h | h
  · cases h
  obtain ⟨hx, hy⟩ := opsIn_closed h
  constructor
  · rcases hx with ⟨p, hp⟩ | hn
    · exact Or.inl (resolve_node_phase1 hp)
    · exact Or.inr (List.mem_cons_of_mem _ hn)
  · rcases hy with rfl | hn
    · exact List.mem_cons_self
    · exact List.mem_cons_of_mem _ hn

/-! ### the shape of `Wf.ops` when nothing fails -/

theorem ops_shape {po : List String} {wf : Wf} (hnf : ∀ r, Op.fail r ∉ wf.ops po) :
    wf.ops po = (([Op.node .input] ++ wf.steps.flatMap (stepNodeOps po))
      ++ wf.steps.flatMap (stepEdgeOps (wf.resolve po))) ++ wf.outputs.flatMap (outputOps (wf.resolve po)) := by
  have h1 : wf.steps.isEmpty = false := by
    cases h : wf.steps.isEmpty with
    | false => rfl
    | true => exact absurd (by unfold Wf.ops failIf; simp [h]) (hnf .noSteps)
  have h2 : wf.outputs.isEmpty = false := by
    cases h : wf.outputs.isEmpty with
    | false => rfl
    | true => exact absurd (by unfold Wf.ops failIf; simp [h]) (hnf .noOutputs)
  unfold Wf.ops failIf
  simp [h1, h2]

theorem nodup_prefix {α : Type} {A B : List α} (h : (A ++ B).Nodup) : A.Nodup := (List.nodup_append.1 h).1

theorem node_rid {os : List Op} {n : NodeId} (h : Op.node n ∈ os) : n.render ∈ ridsOf os := mem_ridsOf.2 ⟨n, h, rfl⟩

/-- If the operation sequence of a workflow runs through, so does the operation sequence of every reordering. -/
theorem build_reordered {po : List String} {wf wf' : Wf} (h : wf.Reordered wf') {g : Graph String}
    (hb : build po wf = .ok g) : ∃ g', build po wf' = .ok g' := by
  have hrun : runOps Graph.empty (wf.ops po) = .ok g := hb
  have hu : wf.UniqueIds := fun _ hs _ hs' hid => steps_id_inj hrun hs hs' hid
  have hnf := runOps_nofail hrun
  have hperm := ops_perm (po := po) h hu
  have hnf' : ∀ r, Op.fail r ∉ wf'.ops po := fun r hr => hnf r (hperm.mem_iff.2 hr)
  have hR := resolve_reordered (po := po) h hu
  have hnd : (ridsOf (wf.ops po)).Nodup := runOps_nodup hrun
  have hall := (run_iff_allPre rep_empty).1 ⟨g, hrun⟩
  unfold build
  apply (run_iff_allPre rep_empty).2
  rw [ops_shape hnf] at hall hnd
  rw [ops_shape hnf', ← hR]
  -- abbreviations
  generalize hN : stepNodeOps po = N at *
  generalize hE : stepEdgeOps (wf.resolve po) = E at *
  generalize hO : outputOps (wf.resolve po) = O at *
  obtain ⟨hall12, hall3⟩ := allPre_append.1 hall
  obtain ⟨hall1, hall2⟩ := allPre_append.1 hall12
  obtain ⟨hall0, hall1⟩ := allPre_append.1 hall1
  simp only [List.nil_append] at hall1 hall2 hall3
  have hnd2 : (ridsOf (([Op.node .input] ++ wf.steps.flatMap N) ++ wf.steps.flatMap E)).Nodup := by
    rw [ridsOf_append] at hnd
    exact nodup_prefix hnd
  have hnd1 : (ridsOf ([Op.node .input] ++ wf.steps.flatMap N)).Nodup := by
    rw [ridsOf_append] at hnd2
    exact nodup_prefix hnd2
  -- phase 1
  have p1 : AllPre [Op.node .input] (wf'.steps.flatMap N) := by
    apply phase_perm h.steps (List.Perm.refl _) (fun _ => Iff.rfl) hnd1 hall1
    · intro x hx a b d t hop
      subst hN
      obtain ⟨ha, hb'⟩ := stepNodeOps_closed hop
      exact ⟨Or.inr (node_rid ha), Or.inr (node_rid hb')⟩
    · intro l1 x l2 y el hy p hpx hpy
      subst hN
      obtain ⟨a, b, d, t, hop, rfl⟩ := mem_pairsOf.1 hpx
      obtain ⟨a', b', d', t', hop', heq⟩ := mem_pairsOf.1 hpy
      simp only [Prod.mk.injEq] at heq
      have hb1 := (stepNodeOps_closed hop).2
      have hb2 := (stepNodeOps_closed hop').2
      exact rids_blocks_disjoint hnd1 el hy (node_rid hb1) (by rw [heq.2]; exact node_rid hb2)
  -- phase 2
  have hids1 : (ridsOf ([Op.node .input] ++ wf.steps.flatMap N)).Perm
      (ridsOf ([Op.node .input] ++ wf'.steps.flatMap N)) :=
    ridsOf_perm ((List.Perm.refl _).append (h.steps.flatMap_right N))
  have hpairs1 : ∀ p, p ∈ pairsOf ([Op.node .input] ++ wf.steps.flatMap N) ↔
      p ∈ pairsOf ([Op.node .input] ++ wf'.steps.flatMap N) :=
    fun p => (pairsOf_perm ((List.Perm.refl _).append (h.steps.flatMap_right N))).mem_iff
  have p2 : AllPre ([Op.node .input] ++ wf'.steps.flatMap N) (wf'.steps.flatMap E) := by
    apply phase_perm h.steps hids1 hpairs1 hnd2 hall2
    · intro x hx a b d t hop
      subst hN; subst hE
      obtain ⟨ha, hb'⟩ := stepEdgeOps_closed hx hop
      constructor
      · rcases ha with ha | ha
        · exact Or.inl (node_rid ha)
        · exact Or.inr (node_rid ha)
      · rcases hb' with hb' | hb'
        · exact Or.inl (node_rid (List.mem_append_right _ (List.mem_flatMap.2 ⟨x, hx, hb'⟩)))
        · exact Or.inr (node_rid hb')
    · intro l1 x l2 y el hy p hpx hpy
      subst hN; subst hE
      have hxm : x ∈ wf.steps := by rw [el]; simp
      have hym : y ∈ wf.steps := by
        rw [el]
        rcases List.mem_append.1 hy with hy | hy
        · exact List.mem_append_left _ hy
        · exact List.mem_append_right _ (List.mem_cons_of_mem _ hy)
      obtain ⟨a, b, d, t, hop, rfl⟩ := mem_pairsOf.1 hpx
      obtain ⟨a', b', d', t', hop', heq⟩ := mem_pairsOf.1 hpy
      simp only [Prod.mk.injEq] at heq
      have hb1 := (stepEdgeOps_closed hxm hop).2
      have hb2 := (stepEdgeOps_closed hym hop').2
      -- where the two targets (same rendered id) were created
      have cross : ∀ {z : String} {s : Step}, s ∈ wf.steps → z ∈ ridsOf (stepNodeOps po s) →
          ∀ {s' : Step}, s' ∈ wf.steps → z ∈ ridsOf (stepEdgeOps (wf.resolve po) s') → False := by
        intro z s hs hz s' hs' hz'
        rw [ridsOf_append] at hnd2
        have hdis := (List.nodup_append.1 hnd2).2.2
        refine hdis z ?_ z (mem_ridsOf_flatMap.2 ⟨s', hs', hz'⟩) rfl
        rw [ridsOf_append]
        exact List.mem_append_right _ (mem_ridsOf_flatMap.2 ⟨s, hs, hz⟩)
      rcases hb1 with hb1 | hb1 <;> rcases hb2 with hb2 | hb2
      · exact rids_blocks_disjoint hnd1 el hy (node_rid hb1) (by rw [heq.2]; exact node_rid hb2)
      · exact cross hxm (node_rid hb1) hym (by rw [heq.2]; exact node_rid hb2)
      · exact cross hym (node_rid hb2) hxm (by rw [← heq.2]; exact node_rid hb1)
      · exact rids_blocks_disjoint hnd2 el hy (node_rid hb1) (by rw [heq.2]; exact node_rid hb2)
  -- phase 3
  have hperm12 : (([Op.node .input] ++ wf.steps.flatMap N) ++ wf.steps.flatMap E).Perm
      (([Op.node .input] ++ wf'.steps.flatMap N) ++ wf'.steps.flatMap E) :=
    ((List.Perm.refl _).append (h.steps.flatMap_right N)).append (h.steps.flatMap_right E)
  have p3 : AllPre (([Op.node .input] ++ wf'.steps.flatMap N) ++ wf'.steps.flatMap E) (wf'.outputs.flatMap O) := by
    apply phase_perm h.outputs (ridsOf_perm hperm12) (fun p => (pairsOf_perm hperm12).mem_iff) hnd hall3
    · intro x hx a b d t hop
      subst hN; subst hO
      obtain ⟨ha, hb'⟩ := outputOps_closed hop
      constructor
      · rcases ha with ha | ha
        · exact Or.inl (node_rid (List.mem_append_left _ ha))
        · exact Or.inr (node_rid ha)
      · exact Or.inr (node_rid hb')
    · intro l1 x l2 y el hy p hpx hpy
      subst hN; subst hO
      obtain ⟨a, b, d, t, hop, rfl⟩ := mem_pairsOf.1 hpx
      obtain ⟨a', b', d', t', hop', heq⟩ := mem_pairsOf.1 hpy
      simp only [Prod.mk.injEq] at heq
      have hb1 := (outputOps_closed hop).2
      have hb2 := (outputOps_closed hop').2
      exact rids_blocks_disjoint hnd el hy (node_rid hb1) (by rw [heq.2]; exact node_rid hb2)
  -- assemble
  apply allPre_append.2
  refine ⟨allPre_append.2 ⟨allPre_append.2 ⟨hall0, by simpa using p1⟩, by simpa using p2⟩, by simpa using p3⟩

end Arca.Model
